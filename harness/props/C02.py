"""C02 -- B = mu0*H + J everywhere; J = mu0*M; J reports the polarization inside, 0 outside; attribute sync.

stages: regen GenConst + GenWrapTol -> build Props/C02.v -> correspondence (the Coq wrapper models, run by
vm_compute over exact rationals, against the real BHJM_* wrappers with their core functions monkey-patched to
integer-polynomial stubs and MU0 patched to 2**-20; setter histories on a real magnet) -> search (real cores,
real mu0, public getB/getH/getJ/getM, all magnet and current classes, special observer sets, poses, batches).
"""
import importlib
import json
import math
from contextlib import contextmanager
from fractions import Fraction

import numpy as np
from scipy.spatial.transform import Rotation as R

from harness.common import run_guarded
from harness import octa

import magpylib as magpy

FM = "magpylib._src.fields."
MODS = {k: importlib.import_module(FM + "field_BH_" + k) for k in
        ("cuboid", "cylinder", "cylinder_segment", "sphere", "tetrahedron", "triangle", "triangularmesh",
         "circle", "polyline", "dipole")}
FIELDS = "BHJM"
MU0_STUB = 2.0 ** -20


# ====================================================================== stubs (mirrored in coq/Model/WrapExec.v)
def stub_cuboid(observers, dimensions, polarizations):
    x, y, z = observers.T
    dx, dy, dz = dimensions.T
    px, py, pz = polarizations.T
    return np.array([2 * x + 3 * dy + 5 * pz + 1, 2 * dz - 3 * y + 7 * px + 2, 5 * z + 2 * dx - 3 * py + x * y + 3]).T


def stub_cyl_tv(z0, r, z, phi):
    return np.vstack((z0 + 2 * r + 1, z - r + phi + 2, 3 * z0 + z + 3))


def stub_cyl_ax(z0, r, z):
    return np.vstack((r + z0 + 1, 2 * z + r + 4, z - 2 * z0 + 5))


def stub_seg(observers, dimensions, magnetizations):
    m = magnetizations[:, 0]
    r1, r2, phi1, phi2, z1, z2 = dimensions.T
    r, phi, z = observers.T
    return np.array([m / 1048576 + r1 + 2 * r + 1, r2 + phi1 - phi + z2 + 2, z + z1 + phi2 + 3]).T


def stub_tri(observers, vertices, polarizations):
    x, y, z = observers.T
    px, py, pz = polarizations.T
    a, b, c = vertices[:, 0], vertices[:, 1], vertices[:, 2]
    return np.array([x + a[:, 0] + 2 * b[:, 1] + px + 1, y - c[:, 2] + py + 3 * a[:, 1] + 2,
                     z + b[:, 0] + 3 * pz + c[:, 0] + 3]).T


def stub_circle(r0, r, z, i0):
    return np.vstack((r0 + r * i0 + 1, 7 + 0 * r, z - 2 * r0 + i0 + 2))


def stub_polyline(observers, segments_start, segments_end, currents):
    x, y, z = observers.T
    a, b = segments_start, segments_end
    return np.array([x + a[:, 0] - b[:, 1] + currents + 1, y + 2 * a[:, 2] + b[:, 0] + 2,
                     z * currents + a[:, 1] - b[:, 2] + 3]).T


def stub_dipole(observers, moments):
    x, y, z = observers.T
    m1, m2, m3 = moments.T
    return np.array([x + 2 * m2 + 1, y * m1 - m3 + 2, z + m1 + 3]).T


def stub_mesh_inside(points, faces):
    return points[:, 0] < faces[0, 0, 0]


@contextmanager
def stubbed(mu0=MU0_STUB):
    saved = []

    def put(mod, name, val):
        saved.append((mod, name, getattr(mod, name)))
        setattr(mod, name, val)
    try:
        for m in MODS.values():
            if hasattr(m, "MU0"):
                put(m, "MU0", mu0)
        put(MODS["cuboid"], "magnet_cuboid_Bfield", stub_cuboid)
        put(MODS["cylinder"], "magnet_cylinder_diametral_Hfield", stub_cyl_tv)
        put(MODS["cylinder"], "magnet_cylinder_axial_Bfield", stub_cyl_ax)
        put(MODS["cylinder_segment"], "magnet_cylinder_segment_Hfield", stub_seg)
        put(MODS["triangle"], "triangle_Bfield", stub_tri)
        put(MODS["triangularmesh"], "mask_inside_trimesh", stub_mesh_inside)
        put(MODS["circle"], "current_circle_Hfield", stub_circle)
        put(MODS["polyline"], "current_polyline_Hfield", stub_polyline)
        put(MODS["dipole"], "dipole_Hfield", stub_dipole)
        yield
    finally:
        for mod, name, val in reversed(saved):
            setattr(mod, name, val)


# ====================================================================== Coq literals
def cq(x):
    x = float(x)
    if not math.isfinite(x):
        raise ValueError("non-finite number in an exact case")
    fr = Fraction(x)
    n, d = fr.numerator, fr.denominator
    if d == 1:
        return f"(z ({n}))" if n < 0 else f"(z {n})"
    return f"(q ({n}) {d})" if n < 0 else f"(q {n} {d})"


def cvec(v):
    return "(" + ", ".join(cq(t) for t in v) + ")"


def clist(items):
    return "[" + "; ".join(items) + "]"


def cexp(outs):
    """outs: dict field -> (n,3) array"""
    return clist([clist([cvec(r) for r in outs[f]]) for f in FIELDS])


IO = {"auto": "Auto", "inside": "Inside", "outside": "Outside"}


# ====================================================================== dyadic input generators
def dy(rng, lo=-8, hi=8, den=4):
    return rng.randint(lo * den, hi * den) / den


def dyv(rng, lo=-8, hi=8, den=4):
    return [dy(rng, lo, hi, den) for _ in range(3)]


def gen_pol(rng):
    k = rng.random()
    if k < 0.12:
        return [0.0, 0.0, 0.0]
    p = dyv(rng, -3, 3, 4)
    if k < 0.3:
        p[rng.randrange(3)] = 0.0
    if k > 0.9:
        p[0] = p[1] = 0.0
    return p


def nudge(x, k):
    """x moved by k units in the last place"""
    x = float(x)
    for _ in range(abs(k)):
        x = float(np.nextafter(x, math.inf if k > 0 else -math.inf))
    return x


def boundary_coord(rng, a, ulps=True):
    """a coordinate in relation to the half-extent a: inside, on, (a few ulps around), outside, centre"""
    k = rng.random()
    s = rng.choice((-1, 1))
    if k < 0.3:
        return s * a
    if k < 0.4 and ulps:
        return s * nudge(a, rng.choice((-6, -5, -4, -1, 1, 4, 5, 6)))
    if k < 0.65:
        return s * a * rng.choice((0.25, 0.5, 0.75))
    if k < 0.75:
        return 0.0
    return s * a * rng.choice((1.25, 1.5, 2.0, 3.0))


# ---------------------------------------------------------------------- per wrapper: rows -> (coq case, impl outputs)
def run4(fn, **kw):
    out = {}
    for f in FIELDS:
        kk = {k: (np.array(v, copy=True) if isinstance(v, np.ndarray) else v) for k, v in kw.items()}
        out[f] = np.array(fn(field=f, **kk), dtype=float)
    return out


def pow2_unit(rng):
    """a power-of-two length unit: keeps every dyadic construction (and ulp neighbourhoods) exact"""
    return 2.0 ** rng.choice((0, 0, 0, -20, -10, 10))


def case_cuboid(rng):
    n = rng.randint(1, 5)
    obs, dim, pol = [], [], []
    for _ in range(n):
        d = [rng.choice((0.5, 1.0, 2.0, 3.0, 5.0)) * rng.choice((1, 1, 1, -1)) for _ in range(3)]
        if rng.random() < 0.08:
            d[rng.randrange(3)] = 0.0
        obs.append([boundary_coord(rng, abs(t) / 2) if t else dy(rng, -2, 2) for t in d])
        dim.append(d)
        pol.append(gen_pol(rng))
    obs, dim, pol = np.array(obs), np.array(dim), np.array(pol)
    u = pow2_unit(rng)
    obs, dim = obs * u, dim * u
    out = run4(MODS["cuboid"].BHJM_magnet_cuboid, observers=obs, dimension=dim, polarization=pol)
    rows = [f"{{| cu_obs := {cvec(o)}; cu_dim := {cvec(d)}; cu_pol := {cvec(p)} |}}" for o, d, p in zip(obs, dim, pol)]
    return f"XCub {clist(rows)} {cexp(out)}", ("Cuboid", n)


def cyl_parts(obs, pol):
    x, y, z = obs.T
    r, phi = np.sqrt(x ** 2 + y ** 2), np.arctan2(y, x)
    pxy = np.sqrt(pol[:, 0] ** 2 + pol[:, 1] ** 2)
    tetta = np.arctan2(pol[:, 1], pol[:, 0])
    return r, phi, np.cos(phi), np.sin(phi), z, pxy, phi - tetta


def gen_cyl_obs(rng, r0, z0):
    k = rng.random()
    if k < 0.25:       # on the edge: r == r0 exactly (on an axis direction), |z| == z0
        ax = rng.choice(((1, 0), (-1, 0), (0, 1), (0, -1)))
        return [ax[0] * r0, ax[1] * r0, rng.choice((-1, 1)) * z0]
    if k < 0.4:        # hull or base, not edge
        if rng.random() < 0.5:
            return [r0, 0.0, z0 * rng.choice((0.0, 0.5, -0.25))]
        return [r0 * rng.choice((0.0, 0.5)), r0 * rng.choice((0.0, -0.25)), rng.choice((-1, 1)) * z0]
    if k < 0.5:        # a few ulps off the edge
        return [nudge(r0, rng.choice((-5, -1, 1, 5))), 0.0, nudge(z0, rng.choice((-5, -1, 0, 1, 5)))]
    if k < 0.75:       # inside
        return [r0 * rng.choice((0.0, 0.25, -0.5)), r0 * rng.choice((0.0, 0.5, -0.25)), z0 * rng.choice((0.0, 0.5, -0.75))]
    return [r0 * rng.choice((1.5, -2.0, 0.5)), r0 * rng.choice((0.0, 1.5)), z0 * rng.choice((0.0, 1.5, -2.0, 0.5)) + (2 * z0 if rng.random() < 0.5 else 0)]


def case_cylinder(rng):
    n = rng.randint(1, 5)
    obs, dim, pol = [], [], []
    for _ in range(n):
        r0 = rng.choice((0.5, 1.0, 2.0, 4.0, 1.5, 3.0))
        z0 = rng.choice((0.5, 1.0, 2.0, 1.5))
        obs.append(gen_cyl_obs(rng, r0, z0))
        dim.append([2 * r0, 2 * z0])
        pol.append(gen_pol(rng))
    obs, dim, pol = np.array(obs), np.array(dim), np.array(pol)
    u = pow2_unit(rng)
    obs, dim = obs * u, dim * u
    out = run4(MODS["cylinder"].BHJM_magnet_cylinder, observers=obs, dimension=dim, polarization=pol)
    r, phi, c, s, z, pxy, dphi = cyl_parts(obs, pol)
    rows = [f"{{| cy_r := {cq(r[i])}; cy_c := {cq(c[i])}; cy_s := {cq(s[i])}; cy_z := {cq(z[i])}; "
            f"cy_d := {cq(dim[i, 0])}; cy_h := {cq(dim[i, 1])}; cy_pol := {cvec(pol[i])}; cy_pxy := {cq(pxy[i])}; "
            f"cy_dphi := {cq(dphi[i])} |}}" for i in range(n)]
    return f"XCyl {clist(rows)} {cexp(out)}", ("Cylinder", n)


def reduce_section(p1, p2):
    """the same section written with angles in [-360, 360]: whole turns removed (the harness's own rule, by stepping)"""
    p1, p2 = float(p1), float(p2)
    while p2 > 360:
        p1, p2 = p1 - 360, p2 - 360
    while p1 < -360:
        p1, p2 = p1 + 360, p2 + 360
    return p1, p2


def seg_row_text(obs, dim, pol):
    x, y, z = obs.T
    r, phi = np.sqrt(x ** 2 + y ** 2), np.arctan2(y, x)
    phio2 = phi - np.sign(phi) * 2 * np.pi
    red = np.array([reduce_section(a, b) for a, b in dim[:, 3:5]])
    phi1r, phi2r = red[:, 0] / 180 * np.pi, red[:, 1] / 180 * np.pi
    pxy = np.sqrt(pol[:, 0] ** 2 + pol[:, 1] ** 2)
    pabs = np.sqrt(pol[:, 0] ** 2 + pol[:, 1] ** 2 + pol[:, 2] ** 2)
    dphi = phi - np.arctan2(pol[:, 1], pol[:, 0])
    c, s = np.cos(phi), np.sin(phi)
    return [f"{{| cs_r := {cq(r[i])}; cs_phi := {cq(phi[i])}; cs_phio2 := {cq(phio2[i])}; cs_c := {cq(c[i])}; "
            f"cs_s := {cq(s[i])}; cs_z := {cq(z[i])}; cs_r1 := {cq(dim[i, 0])}; cs_r2 := {cq(dim[i, 1])}; "
            f"cs_h := {cq(dim[i, 2])}; cs_phi1 := {cq(dim[i, 3])}; cs_phi2 := {cq(dim[i, 4])}; "
            f"cs_red1 := {cq(red[i, 0])}; cs_red2 := {cq(red[i, 1])}; cs_phi1r := {cq(phi1r[i])}; "
            f"cs_phi2r := {cq(phi2r[i])}; cs_pi := {cq(np.pi)}; cs_pol := {cvec(pol[i])}; "
            f"cs_pxy := {cq(pxy[i])}; cs_pabs := {cq(pabs[i])}; cs_dphi := {cq(dphi[i])} |}}" for i in range(len(obs))]


SEG_ANGLES = [(0, 90), (-90, 90), (0, 180), (90, 270), (-180, 0), (45, 135), (-270, -90), (0, 270), (180, 360)]
DIRS = {0: (1.0, 0.0), 90: (0.0, 1.0), 180: (-1.0, 0.0), 270: (0.0, -1.0), -90: (0.0, -1.0), -180: (-1.0, 0.0),
        -270: (0.0, 1.0), 360: (1.0, 0.0), 45: (1.0, 1.0), 135: (-1.0, 1.0)}


def gen_seg_row(rng, full=False):
    r1 = rng.choice((0.0, 0.5, 1.0, 2.0))
    r2 = r1 + rng.choice((0.5, 1.0, 2.0))
    h = rng.choice((1.0, 2.0, 4.0))
    if full:
        p1, p2 = rng.choice(((0, 360), (-180, 180), (0, 720), (90, 450)))
    else:
        p1, p2 = rng.choice(SEG_ANGLES)
    k = rng.random()
    z = rng.choice((0.0, h / 4, -h / 2, h / 2, h, -h))
    if full:
        rr = rng.choice((r2, r2, r1, (r1 + r2) / 2, 2 * r2, r1 / 2))
        d = rng.choice(((1.0, 0.0), (0.0, 1.0), (-1.0, 0.0), (0.0, -1.0)))
        o = [rr * d[0], rr * d[1], z]
    elif k < 0.3:      # on a phi face (exactly representable directions only) or its extension
        d = DIRS[rng.choice((p1, p2))]
        rr = rng.choice((r1, r2, (r1 + r2) / 2, 2 * r2))
        o = [rr * d[0], rr * d[1], z]
    elif k < 0.6:      # on a shell / inside, at a direction strictly between the faces when there is one
        mid = (p1 + p2) / 2
        d = DIRS.get(int(mid), None) if float(mid).is_integer() else None
        if d is None:
            d = (math.cos(math.radians(mid)), math.sin(math.radians(mid)))
        n_ = math.hypot(*d) if d in ((1.0, 1.0), (-1.0, 1.0)) else 1.0
        rr = rng.choice((r1, r2, (r1 + r2) / 2, 2 * r2, r1 / 2))
        o = [rr * d[0] / n_, rr * d[1] / n_, z]
    else:              # anywhere on a coarse grid
        o = [dy(rng, -4, 4, 2), dy(rng, -4, 4, 2), z]
    if not full:
        k = rng.choice((0, 0, 0, -1, -2, -3, 1, 2, 3))          # the same body written with angles beyond +-360
        p1, p2 = p1 + 360 * k, p2 + 360 * k
    return o, [r1, r2, h * rng.choice((1, 1, -1)), p1, p2], gen_pol(rng)


def case_segment(rng, internal=False):
    n = rng.randint(1, 5)
    rows = [gen_seg_row(rng, full=internal and rng.random() < 0.5) for _ in range(n)]
    obs, dim, pol = (np.array([r[i] for r in rows], dtype=float) for i in range(3))
    # units <= 1 only: above ~2**6 binary64 absorbs the wrapper's absolute 1e-14 margins (r2 + 1e-14 == r2), which the
    # exact-arithmetic model cannot reproduce (a scale effect that does not touch B = mu0*H + J; the search covers it)
    u = min(pow2_unit(rng), 1.0)
    obs = obs * u
    dim[:, :3] *= u
    fn = MODS["cylinder_segment"].BHJM_cylinder_segment_internal if internal else MODS["cylinder_segment"].BHJM_cylinder_segment
    out = run4(fn, observers=obs, dimension=dim, polarization=pol)
    return f"{'XSegI' if internal else 'XSeg'} {clist(seg_row_text(obs, dim, pol))} {cexp(out)}", \
        ("CylinderSegment" + ("Internal" if internal else ""), n)


def case_sphere(rng):
    n = rng.randint(1, 5)
    obs, dia, pol = [], [], []
    for _ in range(n):
        d = rng.choice((1.0, 2.0, 4.0, 10.0, -2.0, 0.0))
        rs = abs(d) / 2
        k = rng.random()
        if k < 0.3:
            o = [0.0, 0.0, 0.0]
            o[rng.randrange(3)] = rng.choice((-1, 1)) * rs             # exactly on the surface
        elif k < 0.4:
            o = [0.6 * rs, 0.0, 0.8 * rs]                               # on the surface up to rounding
        elif k < 0.5:
            o = [nudge(rs, rng.choice((-2, -1, 1, 2))), 0.0, 0.0]
        else:
            o = dyv(rng, -3, 3, 4)
        obs.append(o), dia.append(d), pol.append(gen_pol(rng))
    obs, dia, pol = np.array(obs), np.array(dia), np.array(pol)
    u = pow2_unit(rng)
    obs, dia = obs * u, dia * u
    out = run4(MODS["sphere"].BHJM_magnet_sphere, observers=obs, diameter=dia, polarization=pol)
    x, y, z = obs.T
    r = np.sqrt(x ** 2 + y ** 2 + z ** 2)
    rows = [f"{{| sp_obs := {cvec(obs[i])}; sp_r := {cq(r[i])}; sp_d := {cq(dia[i])}; sp_pol := {cvec(pol[i])} |}}"
            for i in range(n)]
    return f"XSph {clist(rows)} {cexp(out)}", ("Sphere", n)


def ctri(t):
    return "(" + ", ".join(cvec(v) for v in t) + ")"


def case_triangle(rng):
    n = rng.randint(1, 4)
    obs = np.array([dyv(rng) for _ in range(n)])
    ver = np.array([[dyv(rng, -3, 3) for _ in range(3)] for _ in range(n)])
    pol = np.array([gen_pol(rng) for _ in range(n)])
    out = run4(MODS["triangle"].BHJM_triangle, observers=obs, vertices=ver, polarization=pol)
    rows = [f"{{| tr_obs := {cvec(obs[i])}; tr_v := {ctri(ver[i])}; tr_pol := {cvec(pol[i])} |}}" for i in range(n)]
    return f"XTri {clist(rows)} {cexp(out)}", ("Triangle", n)


def exact_inverse_ok(mat):
    """np.linalg.inv of this 3x3 matrix is exact (so the model's Cramer rule sees the same numbers)"""
    try:
        inv = np.linalg.inv(mat)
    except np.linalg.LinAlgError:
        return False
    fm = [[Fraction(float(v)) for v in row] for row in mat]
    fi = [[Fraction(float(v)) for v in row] for row in inv]
    for i in range(3):
        for j in range(3):
            if sum(fm[i][k] * fi[k][j] for k in range(3)) != (1 if i == j else 0):
                return False
    return True


def gen_tet(rng):
    """a corner tetrahedron with power-of-two legs, dyadic offset, vertices in random order"""
    a, b, c = (rng.choice((1.0, 2.0, 4.0)) for _ in range(3))
    off = np.array(dyv(rng, -2, 2, 2))
    v = np.array([[0, 0, 0], [a, 0, 0], [0, b, 0], [0, 0, c]], dtype=float)
    sg = np.array([rng.choice((-1, 1)) for _ in range(3)], dtype=float)
    v = v * sg + off
    order = list(range(4))
    rng.shuffle(order)
    k = rng.random()
    if k < 0.5:      # barycentric grid point: vertices, edges, faces, interior
        w = [rng.choice((0, 0, 1, 2)) for _ in range(4)]
        if sum(w) == 0:
            w[0] = 1
        tot = {1: 1, 2: 2, 3: 4, 4: 4, 5: 8, 6: 8, 7: 8, 8: 8}[sum(w)]
        w = [t / tot for t in w]
        w[0] += 1 - sum(w)
        o = sum(wi * vi for wi, vi in zip(w, v))
    else:
        o = off + np.array(dyv(rng, -2, 6, 2)) * sg / 2
    return o, v[order]


def case_tetra(rng):
    n = rng.randint(1, 4)
    io = rng.choice(("auto", "auto", "auto", "inside", "outside"))
    obs, ver, pol = [], [], []
    while len(obs) < n:
        o, v = gen_tet(rng)
        mat = (v[1:] - v[0]).T
        if not exact_inverse_ok(mat):
            continue
        obs.append(o), ver.append(v), pol.append(gen_pol(rng))
    obs, ver, pol = np.array(obs), np.array(ver), np.array(pol)
    out = run4(MODS["tetrahedron"].BHJM_magnet_tetrahedron, observers=obs, vertices=ver, polarization=pol, in_out=io)
    rows = [f"{{| te_obs := {cvec(obs[i])}; te_v0 := {cvec(ver[i, 0])}; te_v1 := {cvec(ver[i, 1])}; "
            f"te_v2 := {cvec(ver[i, 2])}; te_v3 := {cvec(ver[i, 3])}; te_pol := {cvec(pol[i])} |}}" for i in range(n)]
    return f"XTet {IO[io]} {clist(rows)} {cexp(out)}", ("Tetrahedron:" + io, n)


def case_mesh(rng):
    n = rng.randint(1, 6)
    io = rng.choice(("auto", "auto", "auto", "inside", "outside"))
    ragged = rng.random() < 0.4
    pool = []
    for _ in range(rng.randint(1, 3)):
        nf = rng.randint(1, 3) if ragged else 2
        pool.append(np.array([[dyv(rng, -2, 2, 2) for _ in range(3)] for _ in range(nf)]))
    if ragged and len({len(p) for p in pool}) == 1:
        pool.append(np.array([[dyv(rng, -2, 2, 2) for _ in range(3)] for _ in range(len(pool[0]) + 1)]))
    # consecutive equal meshes, a change of mesh, sometimes a return to an earlier mesh
    idx = [rng.randrange(len(pool))]
    for _ in range(n - 1):
        idx.append(idx[-1] if rng.random() < 0.55 else rng.randrange(len(pool)))
    if ragged and len({len(pool[i]) for i in idx}) == 1:
        ragged = False
    meshes = [pool[i].copy() for i in idx]
    obs = np.array([dyv(rng, -3, 3, 2) for _ in range(n)])
    pol = np.array([gen_pol(rng) for _ in range(n)])
    if ragged:
        mesh = np.empty(n, dtype=object)
        for i, m in enumerate(meshes):
            mesh[i] = m
    else:
        mesh = np.array(meshes)
    out = run4(MODS["triangularmesh"].BHJM_magnet_trimesh, observers=obs, mesh=mesh, polarization=pol, in_out=io)
    rows = [f"{{| ms_obs := {cvec(obs[i])}; ms_mesh := {clist([ctri(t) for t in meshes[i]])}; ms_pol := {cvec(pol[i])} |}}"
            for i in range(n)]
    return f"XMsh {IO[io]} {clist(rows)} {cexp(out)}", ("TriangularMesh:" + io + (":ragged" if ragged else ""), n)


def case_circle(rng):
    n = rng.randint(1, 5)
    obs, dia, cur = [], [], []
    for _ in range(n):
        d = rng.choice((2.0, 6.0, -6.0, 8.0, 0.0))
        r0 = abs(d / 2)
        k = rng.random()
        if k < 0.25:
            o = [0.0, 0.0, rng.choice((0.0, 4.0, -4.0)) * (r0 / 3 if r0 else 1.0)]    # axis: 3-4-5 triples
        elif k < 0.45:
            o = [r0, 0.0, rng.choice((0.0, 0.0, 1.0, r0 * 2.0 ** -51, -r0 * 2.0 ** -49))]     # on the wire, z within / beyond 1e-15 r0
        elif k < 0.55:
            o = [nudge(r0, rng.choice((-5, -1, 1, 5))), 0.0, rng.choice((0.0, r0 * 2.0 ** -52))]
        else:
            o = dyv(rng, -3, 3, 2)
            if o[0] == 0 and o[1] == 0:     # the axis formula needs an exact square root: only the triples above
                o[0] = 0.5
        obs.append(o), dia.append(d), cur.append(dy(rng, -3, 3, 2))
    obs, dia, cur = np.array(obs), np.array(dia), np.array(cur)
    u = pow2_unit(rng)
    obs, dia = obs * u, dia * u
    out = run4(MODS["circle"].BHJM_circle, observers=obs, diameter=dia, current=cur)
    x, y, z = obs.T
    r, phi = np.sqrt(x ** 2 + y ** 2), np.arctan2(y, x)
    rows = [f"{{| ci_r := {cq(r[i])}; ci_c := {cq(np.cos(phi[i]))}; ci_s := {cq(np.sin(phi[i]))}; ci_z := {cq(z[i])}; "
            f"ci_d := {cq(dia[i])}; ci_i := {cq(cur[i])} |}}" for i in range(n)]
    return f"XCir {clist(rows)} {cexp(out)}", ("Circle", n)


def case_polyline(rng):
    n = rng.randint(1, 5)
    obs = np.array([dyv(rng, -3, 3, 2) for _ in range(n)])
    p1 = np.array([dyv(rng, -2, 2, 2) for _ in range(n)])
    p2 = np.array([dyv(rng, -2, 2, 2) for _ in range(n)])
    nan = [False] * n
    allz = rng.random() < 0.15
    for i in range(n):
        k = rng.random()
        if k < 0.25 or allz:
            p2[i] = p1[i]
        elif k < 0.35:
            (p1 if rng.random() < 0.5 else p2)[i] = np.nan
            nan[i] = True
    cur = np.array([dy(rng, -3, 3, 2) for _ in range(n)])
    out = run4(MODS["polyline"].BHJM_current_polyline, observers=obs, segment_start=p1, segment_end=p2, current=cur)
    z3 = np.zeros(3)
    rows = [f"{{| pl_obs := {cvec(obs[i])}; pl_p1 := {cvec(z3 if np.isnan(p1[i]).any() else p1[i])}; "
            f"pl_p2 := {cvec(z3 if np.isnan(p2[i]).any() else p2[i])}; pl_i := {cq(cur[i])}; "
            f"pl_nan := {'true' if nan[i] else 'false'} |}}" for i in range(n)]
    return f"XPol {clist(rows)} {cexp(out)}", ("Polyline", n)


def case_dipole(rng):
    n = rng.randint(1, 4)
    obs = np.array([dyv(rng, -3, 3, 2) for _ in range(n)])
    mom = np.array([gen_pol(rng) for _ in range(n)])
    out = run4(MODS["dipole"].BHJM_dipole, observers=obs, moment=mom)
    rows = [f"{{| di_obs := {cvec(obs[i])}; di_mom := {cvec(mom[i])} |}}" for i in range(n)]
    return f"XDip {clist(rows)} {cexp(out)}", ("Dipole", n)


# ---------------------------------------------------------------------- setter / getter histories on a real magnet
# a history: {"cls", "init": None | ["pol"|"mag", vec], "ops": [...]} with ops
#   ["pol", vec|None] ["mag", vec|None]   assignments
#   ["copy", "pol"|"mag", vec]            obj = obj.copy(polarization=vec) / copy(magnetization=vec)
#   ["read", "pol"|"mag"] ["getJ"] ["getM"] ["copy0"]   observations through the public interface (result discarded)
_TET = [[0.0, 0.0, 0.0], [1.0, 0.0, 0.0], [0.0, 1.0, 0.0], [0.0, 0.0, 1.0]]
HIST_CLASSES = {
    "Cuboid": ({"dimension": [1.0, 2.0, 3.0]}, [0.1, 0.2, 0.3]),
    "Cylinder": ({"dimension": [2.0, 1.0]}, [0.1, 0.2, 0.1]),
    "CylinderSegment": ({"dimension": [0.5, 1.5, 1.0, 0.0, 90.0]}, [0.7, 0.7, 0.1]),
    "Sphere": ({"diameter": 2.0}, [0.1, 0.2, 0.3]),
    "Tetrahedron": ({"vertices": _TET}, [0.2, 0.2, 0.2]),
    "TriangularMesh": (None, [0.2, 0.2, 0.2]),
}


def hist_vec(rng):
    return [dy(rng, -4, 4, 4) * rng.choice((1.0, 1000.0, 1e6)) for _ in range(3)]


def low_vec(rng):
    """a magnetization below the 2000 A/m warning threshold (as polarization: times mu_0)"""
    return [dy(rng, -4, 4, 4) * rng.choice((1.0, 100.0)) for _ in range(3)]


def gen_history(rng, cls="Cuboid", strict=False):
    init = None if rng.random() < 0.4 else [rng.choice(("pol", "mag")), hist_vec(rng)]
    if init is not None and all(x == 0 for x in init[1]):
        init[1][0] = 1.0
    ops = []
    for _ in range(rng.randint(1, 6)):
        # observations before the next assignment: none / read pol / read mag / both (either order) / field calls
        for _ in range(rng.choice((0, 0, 1, 1, 2, 3))):
            ops.append(rng.choice((["read", "pol"], ["read", "mag"], ["read", "mag"], ["getJ"], ["getM"], ["copy0"])))
        k = rng.random()
        if strict and k > 0.7:
            # the assignment made with warnings escalated to errors (python -W error); low values trigger the
            # "very low magnetization" warning, which then raises out of the setter
            which = rng.choice(("mag!", "mag!", "pol!"))
            v = rng.choice((low_vec(rng), low_vec(rng), hist_vec(rng)))
            ops.append([which, v if which == "mag!" else [x * 1e-6 for x in v]])
        elif k < 0.12:
            ops.append([rng.choice(("pol", "mag")), None])
        elif k < 0.25:
            ops.append(["copy", rng.choice(("pol", "mag")), hist_vec(rng)])
        else:
            ops.append([rng.choice(("pol", "mag")), hist_vec(rng)])
    for _ in range(rng.choice((0, 1, 2))):
        ops.append(rng.choice((["read", "pol"], ["read", "mag"], ["getM"])))
    return {"cls": cls, "init": init, "ops": ops}


def hist_make(cls, init):
    kw, _ = HIST_CLASSES[cls]
    ex = {} if init is None else {("polarization" if init[0] == "pol" else "magnetization"): init[1]}
    if cls == "TriangularMesh":
        return magpy.magnet.TriangularMesh.from_ConvexHull(points=np.array(_TET), **ex)
    return getattr(magpy.magnet, cls)(**kw, **ex)


def hist_apply(obj, op, inside):
    k = op[0]
    if k == "pol":
        obj.polarization = op[1]
    elif k == "mag":
        obj.magnetization = op[1]
    elif k in ("pol!", "mag!"):
        import warnings
        with warnings.catch_warnings():
            warnings.simplefilter("error")
            try:
                setattr(obj, "polarization" if k == "pol!" else "magnetization", op[1])
            except Exception:   # pylint: disable=broad-except
                pass            # whatever was raised: the pair must be consistent afterwards
    elif k == "copy":
        obj = obj.copy(**{("polarization" if op[1] == "pol" else "magnetization"): op[2]})
    elif k == "copy0":
        obj.copy()
    elif k == "read":
        _ = obj.polarization if op[1] == "pol" else obj.magnetization
    elif k in ("getJ", "getM"):
        if obj.polarization is not None:
            (magpy.getJ if k == "getJ" else magpy.getM)(obj, inside)
    else:
        raise ValueError(k)
    return obj


def hist_run(h, upto=None):
    """a FRESH object, the first `upto` operations (only the reads that are part of the history); returns the object"""
    import warnings
    with warnings.catch_warnings():
        warnings.simplefilter("ignore")
        obj = hist_make(h["cls"], h["init"])
        inside = HIST_CLASSES[h["cls"]][1]
        for op in h["ops"][:len(h["ops"]) if upto is None else upto]:
            obj = hist_apply(obj, op, inside)
    return obj


def hist_observe(obj, cls, mag_first=False):
    """(polarization, magnetization, getJ inside, getM inside) through the public interface"""
    import warnings
    with warnings.catch_warnings():
        warnings.simplefilter("ignore")
        if mag_first:
            m, p = obj.magnetization, obj.polarization
        else:
            p, m = obj.polarization, obj.magnetization
        p = None if p is None else np.array(p, dtype=float)
        m = None if m is None else np.array(m, dtype=float)
        J = M = None
        if p is not None and m is not None:
            inside = HIST_CLASSES[cls][1]
            J = np.array(magpy.getJ(obj, inside), dtype=float)
            M = np.array(magpy.getM(obj, inside), dtype=float)
    return p, m, J, M


def copt(v):
    return "None" if v is None else f"(Some {cvec(v)})"


def hist_model_ops(h):
    ops = ([] if h["init"] is None else [[h["init"][0], h["init"][1]]]) + h["ops"]
    out = []
    for op in ops:
        if op[0] in ("pol", "mag"):
            out.append(f"({'SetPol' if op[0] == 'pol' else 'SetMag'} {copt(op[1])})")
        elif op[0] == "copy":
            out.append(f"({'SetPol' if op[1] == 'pol' else 'SetMag'} {copt(op[2])})")
        else:
            out.append("Observe")
    return out


def case_history(rng):
    """the pair read through the public getters after EVERY operation (reads included) vs the two-field model"""
    h = gen_history(rng, rng.choice(("Cuboid", "Cuboid", "Cylinder", "Sphere", "Tetrahedron", "CylinderSegment")))
    import warnings
    exp = []
    with warnings.catch_warnings():
        warnings.simplefilter("ignore")
        obj = hist_make(h["cls"], h["init"])
        inside = HIST_CLASSES[h["cls"]][1]
        if h["init"] is not None:
            exp.append(hist_observe(obj, h["cls"], rng.random() < 0.5)[:2])
        for op in h["ops"]:
            obj = hist_apply(obj, op, inside)
            exp.append(hist_observe(obj, h["cls"], rng.random() < 0.5)[:2])
    exps = [f"{{| e_pol := {copt(p)}; e_mag := {copt(m)} |}}" for p, m in exp]
    return f"XExc c_setter_mag c_setter_pol {clist(hist_model_ops(h))} {clist(exps)}", ("setters:" + h["cls"], len(h["ops"]))


GENS = [case_cuboid, case_cylinder, case_segment, lambda r: case_segment(r, True), case_sphere, case_triangle,
        case_tetra, case_mesh, case_circle, case_polyline, case_dipole]

CASES_HEADER = """From Coq Require Import ZArith List Bool QArith Qcanon.
From MV Require Import Model.WrapModel Model.WrapExec Model.WrapSrc.
Import ListNotations.
"""


def model_check(ctx, tag, texts, mu0="mu0_stub"):
    """indices of the cases on which the Coq model disagrees with the implementation (None: could not run)"""
    bad = []
    chunk = 150
    for ci in range(0, len(texts), chunk):
        part = texts[ci:ci + chunk]
        txt = CASES_HEADER + "Definition cases : list xcase :=\n [" + ";\n  ".join(part) + \
            f"].\nEval vm_compute in (failing (T := SrcTols) {mu0} cases).\n"
        ok, out = ctx.coq_eval(f"c02_{tag}_{ci}", txt, timeout=900)
        res = octa.parse_z_list(out) if ok else None
        if res is None:
            ctx.add_broken("broken-correspondence", f"c02_{tag}_{ci}", "model evaluation failed:\n" + out[-1500:])
            return None
        bad += [ci + i for i in res]
    return bad


def correspondence(ctx, built, per_gen):
    texts, kinds = [], []
    with stubbed():
        for g in GENS:
            for _ in range(per_gen):
                try:
                    t, kind = g(ctx.rng)
                except Exception as e:   # pylint: disable=broad-except
                    ctx.add_broken("broken-correspondence", f"wrapper raised under stubs ({g})", f"{type(e).__name__}: {e}")
                    continue
                texts.append(t), kinds.append(kind)
                ctx.case(t, True)
                ctx.bump("stub:" + kind[0])
                ctx.count("stub_rows", kind[1])
    for _ in range(per_gen):
        try:
            t, kind = case_history(ctx.rng)
        except Exception as e:   # pylint: disable=broad-except
            # the setters raised on a valid assignment: found again by the attribute oracle of the search
            ctx.bump("setter-history-raised:" + type(e).__name__)
            continue
        texts.append(t), kinds.append(kind)
        ctx.case(t, True)
        ctx.bump("stub:" + kind[0])
    if texts:
        ctx.samples.append({"correspondence_case": texts[len(texts) // 3][:600]})
    if not built:
        return
    bad = model_check(ctx, ctx.tier, texts)
    if bad is None:
        return
    ctx.count("traces_validated_against_impl", len(texts) - len(bad))
    for bi in bad[:4]:
        ctx.add_broken("broken-correspondence", f"WrapModel vs implementation ({kinds[bi][0]})", texts[bi][:3000])
    for bi in bad:
        ctx.bump("model-differs:" + kinds[bi][0])


# ====================================================================== search: real cores, real mu0, public API
RTOL = 1e-12
MU0 = magpy.mu_0


def rand_rot(rng):
    k = rng.random()
    if k < 0.3:
        return R.identity()
    if k < 0.5:
        return octa.rot(rng.randrange(24))
    return R.from_rotvec([rng.uniform(-3, 3) for _ in range(3)])


def fl(rng, lo, hi):
    return round(rng.uniform(lo, hi), 3)


def nz_pol(rng):
    k = rng.random()
    if k < 0.15:        # exactly along +-x, +-y, +-z
        p = [0.0, 0.0, 0.0]
        p[rng.randrange(3)] = rng.choice((-1, 1)) * fl(rng, 0.1, 2)
        return p
    k = rng.random()
    if k < 0.2:
        return [0.0, 0.0, fl(rng, 0.1, 2) * rng.choice((-1, 1))]
    if k < 0.35:
        return [fl(rng, 0.1, 2), fl(rng, -2, 2), 0.0]
    return [fl(rng, -2, 2), fl(rng, -2, 2), fl(rng, 0.1, 2)]


# Each scenario: {"cls", "kwargs" (json-able constructor arguments), "points": [(local xyz, location class)], ...}
# location classes: "inside" / "outside" are strict (a margin of >= 1e-3 of the size), everything else is a
# special set on or next to the boundary, where the property only demands consistency and J in {pol, 0}.
def pts_cuboid(rng, dim):
    a, b, c = (abs(d) / 2 for d in dim)
    P = []
    for _ in range(6):
        P.append(([rng.uniform(-0.95, 0.95) * a, rng.uniform(-0.95, 0.95) * b, rng.uniform(-0.95, 0.95) * c], "inside"))
    for _ in range(5):
        p = [rng.uniform(-3, 3) * a, rng.uniform(-3, 3) * b, rng.uniform(-3, 3) * c]
        i = rng.randrange(3)
        p[i] = rng.choice((-1, 1)) * rng.uniform(1.05, 4) * (a, b, c)[i]
        P.append((p, "outside"))
    sg = lambda: rng.choice((-1, 1))
    P.append(([sg() * a, rng.uniform(-0.9, 0.9) * b, rng.uniform(-0.9, 0.9) * c], "face"))
    P.append(([rng.uniform(-0.9, 0.9) * a, sg() * b, rng.uniform(-0.9, 0.9) * c], "face"))
    P.append(([rng.uniform(-0.9, 0.9) * a, rng.uniform(-0.9, 0.9) * b, sg() * c], "face"))
    P.append(([sg() * a, sg() * b, rng.uniform(-0.9, 0.9) * c], "edge"))
    P.append(([sg() * a, rng.uniform(-0.9, 0.9) * b, sg() * c], "edge"))
    P.append(([sg() * a, sg() * b, sg() * c], "corner"))
    P.append(([sg() * a, sg() * b, rng.uniform(1.5, 3) * c], "edge-extension"))
    P.append(([sg() * a * (1 + 3e-16), rng.uniform(-0.9, 0.9) * b, 0.0], "face-near"))
    P.append(([sg() * a * (1 + 1e-9), sg() * b * (1 - 1e-9), 0.3 * c], "edge-near"))
    P.append(([0.0, 0.0, 0.0], "inside"))
    return P


def pts_cylinder(rng, r0, z0, tag=""):
    P = []
    ang = lambda: rng.uniform(-math.pi, math.pi)
    pol = lambda r, a, z: [r * math.cos(a), r * math.sin(a), z]
    for _ in range(6):
        P.append((pol(rng.uniform(0, 0.95) * r0, ang(), rng.uniform(-0.95, 0.95) * z0), "inside"))
    for _ in range(3):
        P.append((pol(rng.uniform(1.05, 4) * r0, ang(), rng.uniform(-3, 3) * z0), "outside"))
        P.append((pol(rng.uniform(0, 3) * r0, ang(), rng.choice((-1, 1)) * rng.uniform(1.05, 4) * z0), "outside"))
    sg = lambda: rng.choice((-1, 1))
    P.append(([0.0, 0.0, rng.uniform(-0.9, 0.9) * z0], "axis-inside"))
    P.append(([0.0, 0.0, rng.uniform(1.2, 3) * z0], "axis-outside"))
    P.append(([sg() * r0, 0.0, rng.uniform(-0.9, 0.9) * z0], tag + "hull"))
    P.append(([0.0, sg() * r0, rng.uniform(-0.9, 0.9) * z0], tag + "hull"))
    P.append((pol(rng.uniform(0, 0.9) * r0, ang(), sg() * z0), tag + "base"))
    P.append(([sg() * r0, 0.0, sg() * z0], tag + "edge"))
    P.append(([0.0, sg() * r0, sg() * z0], tag + "edge"))
    P.append(([sg() * r0, 0.0, rng.uniform(1.2, 3) * z0], tag + "hull-extension"))
    P.append(([sg() * r0 * (1 + 1e-9), 0.0, sg() * z0 * (1 - 1e-9)], tag + "edge-near"))
    return P


def pts_segment(rng, r1, r2, h, p1, p2):
    z0 = h / 2
    P = []
    pol = lambda r, adeg, z: [r * math.cos(math.radians(adeg)), r * math.sin(math.radians(adeg)), z]
    w = p2 - p1
    for _ in range(6):
        P.append((pol(r1 + rng.uniform(0.05, 0.95) * (r2 - r1), p1 + rng.uniform(0.05, 0.95) * w, rng.uniform(-0.95, 0.95) * z0), "inside"))
    for _ in range(3):
        P.append((pol(r2 * rng.uniform(1.05, 3), rng.uniform(-180, 180), rng.uniform(-2, 2) * z0), "outside"))
        P.append((pol(rng.uniform(0.1, 2) * r2, rng.uniform(-180, 180), rng.choice((-1, 1)) * rng.uniform(1.05, 3) * z0), "outside"))
    if w < 350:
        P.append((pol((r1 + r2) / 2, p2 + (360 - w) / 2, 0.0), "outside"))
    mid = p1 + w / 2
    sg = lambda: rng.choice((-1, 1))
    P.append((pol(r2, mid, rng.uniform(-0.9, 0.9) * z0), "surface-shell"))
    if r1 > 0:
        P.append((pol(r1, mid, rng.uniform(-0.9, 0.9) * z0), "surface-shell"))
    P.append((pol((r1 + r2) / 2, mid, sg() * z0), "surface-base"))
    P.append((pol((r1 + r2) / 2, p1, rng.uniform(-0.9, 0.9) * z0), "surface-phi"))
    P.append((pol((r1 + r2) / 2, p2, rng.uniform(-0.9, 0.9) * z0), "surface-phi"))
    P.append((pol(r2, p1, sg() * z0), "surface-corner"))
    P.append((pol(r2, mid, sg() * z0), "surface-edge"))
    P.append((pol(r2 * 1.5, p1, 0.0), "phi-extension"))
    P.append((pol(r2, mid, 2 * z0), "shell-extension"))
    return P


def pts_sphere(rng, rs):
    P = []

    def dirv():
        v = np.array([rng.gauss(0, 1) for _ in range(3)])
        return v / np.linalg.norm(v)
    for _ in range(6):
        P.append(((dirv() * rng.uniform(0, 0.95) * rs).tolist(), "inside"))
    for _ in range(6):
        P.append(((dirv() * rng.uniform(1.05, 5) * rs).tolist(), "outside"))
    P.append(([rs, 0.0, 0.0], "surface"))
    P.append(([0.0, 0.0, -rs], "surface"))
    P.append(((dirv() * rs).tolist(), "surface"))
    P.append(([0.0, 0.0, 0.0], "inside"))
    return P


def bary_coords(v, p):
    v = np.array(v, dtype=float)
    lam = np.linalg.solve((v[1:] - v[0]).T, np.array(p, dtype=float) - v[0])
    return np.concatenate(([1 - lam.sum()], lam))


def pts_tetra(rng, v):
    v = np.array(v, dtype=float)
    P = []
    cen = v.mean(axis=0)
    for _ in range(40):
        w = np.array([rng.uniform(0.05, 1) for _ in range(4)])
        w /= w.sum()
        p = w @ v
        if rng.random() < 0.5:
            p = cen + (p - cen) * rng.uniform(2, 12)
        lam = bary_coords(v, p)
        if lam.min() > 0.03 and sum(1 for q in P if q[1] == "inside") < 6:
            P.append((p.tolist(), "inside"))
        elif lam.min() < -0.1 and sum(1 for q in P if q[1] == "outside") < 6:
            P.append((p.tolist(), "outside"))
    for _ in range(3):
        w = np.array([rng.uniform(0.1, 1) for _ in range(4)])
        w[rng.randrange(4)] = 0
        w /= w.sum()
        P.append(((w @ v).tolist(), "face"))
    P.append((((v[0] + v[1]) / 2).tolist(), "edge"))
    P.append((((v[2] + 3 * v[3]) / 4).tolist(), "edge"))
    P.append((v[rng.randrange(4)].tolist(), "vertex"))
    P.append(((v[0] + (v[1] - v[0]) * 2).tolist(), "edge-extension"))
    return P


def hull_faces(pts):
    from scipy.spatial import ConvexHull
    hull = ConvexHull(pts)
    cen = pts.mean(axis=0)
    faces, planes = [], []
    for simp, eq in zip(hull.simplices, hull.equations):
        tri = pts[simp]
        nrm = np.cross(tri[1] - tri[0], tri[2] - tri[0])
        if np.dot(nrm, tri[0] - cen) < 0:
            tri = tri[[0, 2, 1]]
        faces.append(tri)
        planes.append(eq)
    return np.array(faces), np.array(planes)


def pts_mesh(rng, faces, planes, verts):
    P = []
    cen = verts.mean(axis=0)
    size = np.abs(verts - cen).max()
    tries = 0
    while sum(1 for p in P if p[1] == "inside") < 6 and tries < 200:
        tries += 1
        w = np.array([rng.uniform(0, 1) for _ in range(len(verts))])
        w /= w.sum()
        p = w @ verts
        if (planes[:, :3] @ p + planes[:, 3]).max() < -0.02 * size:
            P.append((p.tolist(), "inside"))
    for _ in range(6):
        d = np.array([rng.gauss(0, 1) for _ in range(3)])
        d /= np.linalg.norm(d)
        P.append(((cen + d * size * rng.uniform(2.5, 5)).tolist(), "outside"))
    for _ in range(3):
        f = faces[rng.randrange(len(faces))]
        w = np.array([rng.uniform(0.1, 1) for _ in range(3)])
        w /= w.sum()
        P.append(((w @ f).tolist(), "face"))
    f = faces[rng.randrange(len(faces))]
    P.append((((f[0] + f[1]) / 2).tolist(), "edge"))
    P.append((f[0].tolist(), "vertex"))
    return P


def make_scenario(rng, cls):
    """returns (constructor kwargs (json-able), local points with location classes, polarization or None)"""
    if cls == "Cuboid":
        dim = [fl(rng, 0.2, 4) for _ in range(3)]
        if rng.random() < 0.3:      # plate / rod: every axis can be the long or the thin one
            dim[rng.randrange(3)] *= rng.choice((1e-3, 1e-2, 50.0))
        pol = nz_pol(rng)
        return {"dimension": dim, "polarization": pol}, pts_cuboid(rng, dim), pol
    if cls == "Cylinder":
        d, h = rng.choice((1.0, 2.0, fl(rng, 0.2, 4))), rng.choice((1.0, 2.0, fl(rng, 0.2, 4)))
        if rng.random() < 0.25:     # disc / needle
            h *= rng.choice((1e-3, 1e-2, 50.0))
        pol = nz_pol(rng)
        return {"dimension": [d, h], "polarization": pol}, pts_cylinder(rng, d / 2, h / 2), pol
    if cls == "CylinderSegment":
        pol = nz_pol(rng)
        if rng.random() < 0.3:      # full ring / full cylinder: the fallback to Cylinder
            r1 = rng.choice((0.0, fl(rng, 0.2, 1)))
            r2 = r1 + fl(rng, 0.3, 2)
            h = fl(rng, 0.3, 3)
            p1 = rng.choice((0, -180, 90))
            P = [(p, c) for p, c in pts_cylinder(rng, r2, h / 2, "full-cylinder-") if c not in ("inside", "axis-inside")
                 or math.hypot(p[0], p[1]) > r1 * 1.05]
            P = [(p, ("outside" if c in ("inside", "axis-inside") and math.hypot(p[0], p[1]) < r1 * 0.95 else c)) for p, c in P]
            if r1 > 0:
                P = [(p, c) for p, c in P if not (c in ("axis-inside",))]
                P.append(([r1, 0.0, h / 2], "full-cylinder-inner-edge"))
                P.append(([r1, 0.0, 0.1 * h], "full-cylinder-inner-hull"))
            return {"dimension": [r1, r2, h, p1, p1 + 360], "polarization": pol}, P, pol
        r1 = rng.choice((0.0, fl(rng, 0.2, 1.5)))
        r2 = r1 + rng.choice((fl(rng, 0.3, 2), fl(rng, 0.3, 2), 1e-3 * max(r1, 0.5)))      # incl. thin shells
        h = fl(rng, 0.3, 3) * rng.choice((1, 1, 1, 1e-2))
        p1 = rng.choice((0, -90, 30, -170, 100, -270, -350, -360, fl(rng, -360, 100)))
        p2 = p1 + rng.choice((90, 180, 45, 270, 359.5, 5, fl(rng, 20, 340)))
        if p2 > 360:
            p2 = 360
        if p2 - p1 >= 360:
            p1 = p2 - 359.5
        pts = pts_segment(rng, r1, r2, h, p1, p2)          # inside-ness from the angles in the usual range ...
        k = rng.choice((0, 0, -1, -2, -3, 1, 2))                # ... the body handed over with whole turns added
        if p1 + 360 * k != p1 and -1100 < p1 + 360 * k and p2 + 360 * k < 1100:
            p1, p2 = p1 + 360 * k, p2 + 360 * k
        return {"dimension": [r1, r2, h, p1, p2], "polarization": pol}, pts, pol
    if cls == "Sphere":
        d = rng.choice((1.0, 2.0, fl(rng, 0.2, 5)))
        pol = nz_pol(rng)
        return {"diameter": d, "polarization": pol}, pts_sphere(rng, d / 2), pol
    if cls == "Tetrahedron":
        while True:
            v = [[fl(rng, -2, 2) for _ in range(3)] for _ in range(4)]
            if abs(np.linalg.det(np.array(v[1:]) - np.array(v[0]))) > 0.3:
                break
        pol = nz_pol(rng)
        return {"vertices": v, "polarization": pol}, pts_tetra(rng, v), pol
    if cls == "TriangularMesh":
        pol = nz_pol(rng)
        while True:
            pts = np.array([[fl(rng, -1.5, 1.5) for _ in range(3)] for _ in range(rng.choice((4, 5, 6, 8)))])
            if rng.random() < 0.3:      # an axis-aligned box (8 corners)
                pts = np.array([[sx, sy, sz] for sx in (-1.0, 1.0) for sy in (-1.0, 1.0) for sz in (-1.0, 1.0)])
            # bodies that are NOT centred at their local origin and have different extents per axis
            pts = pts * np.array([rng.choice((0.5, 1.0, 2.0)) for _ in range(3)]) + \
                np.array([rng.choice((0.0, 0.0, 1.0, -1.5, 2.5)) for _ in range(3)])
            try:
                faces, planes = hull_faces(pts)
            except Exception:   # pylint: disable=broad-except
                continue
            used = np.unique(faces.reshape(-1, 3), axis=0)
            if np.abs(planes[:, :3] @ pts.mean(axis=0) + planes[:, 3]).min() > 0.1:
                break
        return {"faces": faces.tolist(), "polarization": pol}, pts_mesh(rng, faces, planes, used), pol
    if cls == "Triangle":
        v = [[fl(rng, -2, 2) for _ in range(3)] for _ in range(3)]
        pol = nz_pol(rng)
        P = [([fl(rng, -3, 3) for _ in range(3)], "anywhere") for _ in range(8)]
        P.append((np.mean(v, axis=0).tolist(), "on-sheet"))
        P.append((v[0], "vertex"))
        return {"vertices": v, "polarization": pol}, P, None
    if cls == "Circle":
        d = fl(rng, 0.2, 4)
        P = [([fl(rng, -3, 3) for _ in range(3)], "anywhere") for _ in range(8)]
        P += [([0.0, 0.0, fl(rng, -2, 2)], "axis"), ([d / 2, 0.0, 0.0], "on-wire"), ([0.0, 0.0, 0.0], "centre")]
        return {"diameter": d, "current": rng.choice((fl(rng, -5, 5), fl(rng, -5, 5), 0.0))}, P, None
    if cls == "Polyline":
        v = [[fl(rng, -2, 2) for _ in range(3)] for _ in range(rng.randint(2, 4))]
        if rng.random() < 0.3:
            v.insert(1, v[0])
        P = [([fl(rng, -3, 3) for _ in range(3)], "anywhere") for _ in range(8)]
        P += [(((np.array(v[0]) + np.array(v[-1 if len(v) == 2 else 1])) / 2).tolist(), "on-wire"),
              ((2 * np.array(v[-1]) - np.array(v[-2])).tolist(), "wire-extension")]
        return {"vertices": v, "current": rng.choice((fl(rng, -5, 5), fl(rng, -5, 5), 0.0))}, P, None
    if cls == "Dipole":
        P = [([fl(rng, -3, 3) for _ in range(3)], "anywhere") for _ in range(8)]
        return {"moment": nz_pol(rng)}, P, None
    raise ValueError(cls)


def scale_scenario(kwargs, pts, s):
    """the same body and observers in another length unit (polarization / current / moment unchanged)"""
    kw = dict(kwargs)
    for key in ("diameter", "vertices", "faces"):
        if key in kw:
            kw[key] = (np.array(kw[key], dtype=float) * s).tolist()
    if "dimension" in kw:
        d = list(kw["dimension"])
        n = 3 if len(d) == 5 else len(d)
        kw["dimension"] = [x * s for x in d[:n]] + d[n:]
    return kw, [((np.array(p, dtype=float) * s).tolist(), c) for p, c in pts]


CLASSES = ["Cuboid", "Cylinder", "CylinderSegment", "Sphere", "Tetrahedron", "TriangularMesh",
           "Triangle", "Circle", "Polyline", "Dipole"]
MAGNETS = CLASSES[:6]


def build(cls, kwargs, pos, rotvec):
    import warnings
    if cls == "TriangularMesh":
        f = np.array(kwargs["faces"], dtype=float)
        verts, inv = np.unique(f.reshape(-1, 3), axis=0, return_inverse=True)
        with warnings.catch_warnings():
            warnings.simplefilter("ignore")
            return magpy.magnet.TriangularMesh(vertices=verts, faces=np.reshape(inv, (-1, 3)), polarization=kwargs["polarization"],
                                               position=pos, orientation=R.from_rotvec(rotvec),
                                               check_open="skip", check_disconnected="skip", check_selfintersecting="skip",
                                               reorient_faces="skip")
    mod = magpy.magnet if cls in MAGNETS else (magpy.misc if cls in ("Triangle", "Dipole") else magpy.current)
    return getattr(mod, cls)(position=pos, orientation=R.from_rotvec(rotvec), **kwargs)


VIAS = ("top", "top", "method", "sensor", "functional", "functional-ndarray")


def functional_kwargs(cls, kwargs, as_array):
    """keyword arguments of the functional interface getB("Cuboid", obs, dimension=..., ...) or None when the class
    has no direct equivalent of its constructor arguments"""
    if cls == "Polyline":
        return None
    kw = {}
    for k, v in kwargs.items():
        if cls == "TriangularMesh" and k == "faces":
            k = "mesh"
        kw[k] = np.array(v, dtype=float) if (as_array and isinstance(v, list)) else v
    return kw


def fields_at(src, obs, in_out="auto", via="top", scn=None):
    """B, H, J, M at the observers through one of the public entry points"""
    import warnings
    out = {}
    obs = np.array(obs, dtype=float)
    fk = None
    if via.startswith("functional") and scn is not None:
        fk = functional_kwargs(scn["cls"], scn["kwargs"], via.endswith("ndarray"))
    with warnings.catch_warnings():
        warnings.simplefilter("ignore")
        for f, fn in zip(FIELDS, (magpy.getB, magpy.getH, magpy.getJ, magpy.getM)):
            if fk is not None:
                kw = {k: (v.copy() if isinstance(v, np.ndarray) else v) for k, v in fk.items()}
                if scn["cls"] in ("Tetrahedron", "TriangularMesh"):
                    kw["in_out"] = in_out
                r = fn(scn["cls"], obs if via.endswith("ndarray") else obs.tolist(), position=scn["pos"],
                       orientation=R.from_rotvec(scn["rotvec"]), **kw)
            elif via == "method":
                r = getattr(src, "get" + f)(obs, in_out=in_out)
            elif via == "sensor":
                r = getattr(magpy.Sensor(pixel=obs), "get" + f)(src, in_out=in_out)
            else:
                r = fn(src, obs, in_out=in_out)
            out[f] = np.reshape(np.array(r, dtype=float), (-1, 3))
    return out


def judge(cls, out, polg, locs):
    """the property on every row; returns list of (row, clause, detail)"""
    bad = []
    B, H, J, M = (out[f] for f in FIELDS)
    for i in range(len(B)):
        if not (np.isfinite(B[i]).all() and np.isfinite(H[i]).all() and np.isfinite(J[i]).all() and np.isfinite(M[i]).all()):
            continue        # singular sets: finiteness is another property's business
        pn = 0.0 if polg is None else float(np.abs(polg).max())
        scale = max(float(np.abs(B[i]).max()), float(np.abs(MU0 * H[i]).max()), float(np.abs(J[i]).max()), pn, 1e-300)
        res = float(np.abs(B[i] - MU0 * H[i] - J[i]).max())
        if res > RTOL * scale:
            bad.append((i, "B=mu0H+J", f"|B - mu0 H - J| = {res:.3e}, scale {scale:.3e}"))
        res = float(np.abs(J[i] - MU0 * M[i]).max())
        if res > RTOL * max(float(np.abs(J[i]).max()), float(np.abs(MU0 * M[i]).max()), 1e-300):
            bad.append((i, "J=mu0M", f"|J - mu0 M| = {res:.3e}"))
        if polg is None:
            if np.any(J[i] != 0) or np.any(M[i] != 0):
                bad.append((i, "J-zero", f"J = {J[i].tolist()}, M = {M[i].tolist()} for a source without polarization"))
            continue
        dj, d0 = float(np.abs(J[i] - polg).max()), float(np.abs(J[i]).max())
        if min(dj, d0) > RTOL * pn:
            bad.append((i, "J-value", f"J = {J[i].tolist()} is neither the polarization {polg.tolist()} nor 0"))
        elif locs[i] == "inside" and dj > RTOL * pn:
            bad.append((i, "J-inside", "J = 0 at a point strictly inside the body"))
        elif locs[i] == "outside" and d0 > RTOL * pn:
            bad.append((i, "J-inside", "J = polarization at a point strictly outside the body"))
    return bad


def coarse(cls, loc, clause=""):
    """location class used in signatures: one name per special set that the code treats as one case"""
    if clause == "J-value" and loc.startswith("full-cylinder"):
        return "full-cylinder-surface"      # ring = Cylinder(r2) - Cylinder(r1): two separately rounded masks
    if cls == "CylinderSegment" and loc.startswith("surface"):
        return "surface"
    if loc.startswith("full-cylinder") and loc.endswith("edge"):
        return "full-cylinder-edge"
    if cls in ("Tetrahedron", "TriangularMesh") and loc in ("face", "edge", "vertex"):
        return "surface"
    return loc


def scenario_check(scn):
    """evaluate one scenario (json-able dict); returns list of (row, clause, detail)"""
    src = build(scn["cls"], scn["kwargs"], scn["pos"], scn["rotvec"])
    rot = R.from_rotvec(scn["rotvec"])
    loc = np.array([p for p, _ in scn["points"]], dtype=float).reshape(-1, 3)
    obs = rot.apply(loc) + np.array(scn["pos"], dtype=float)
    polg = None if scn["pol"] is None else rot.apply(np.array(scn["pol"], dtype=float))
    out = fields_at(src, obs, scn.get("in_out", "auto"), scn.get("via", "top"), scn)
    return judge(scn["cls"], out, polg, [c for _, c in scn["points"]])


def shrink_scenario(scn, row, clause):
    """smallest scenario that still fails the same clause: one point, else the point + one companion; identity pose"""
    def fails(s):
        try:
            return any(c == clause and r == 0 for r, c, _ in scenario_check(s))
        except Exception:   # pylint: disable=broad-except
            return False
    pt = scn["points"][row]
    best, batch = None, "mixed-batch"
    single = dict(scn, points=[pt])
    if fails(single):
        best, batch = single, "alone"
    else:
        for j, other in enumerate(scn["points"]):
            if j != row and fails(dict(scn, points=[pt, other])):
                best = dict(scn, points=[pt, other])
                break
        if best is None:
            best = dict(scn, points=[pt] + [p for j, p in enumerate(scn["points"]) if j != row])
            if not fails(best):
                best = scn
    for key, val in (("rotvec", [0.0, 0.0, 0.0]), ("pos", [0.0, 0.0, 0.0])):
        cand = dict(best, **{key: val})
        if fails(cand):
            best = cand
    return best, batch


def run_scenario(ctx, v, sample=False):
    """evaluate one scenario, book it, shrink and report what fails"""
    cls = v["cls"]
    try:
        bad = scenario_check(v)
    except Exception as e:   # pylint: disable=broad-except
        ctx.impl_fail(f"raises/{cls}:{type(e).__name__}", f"field computation raised {type(e).__name__}: {e}", v)
        return
    ctx.case(json.dumps(v, sort_keys=True), True,
             sample={"class": cls, "in_out": v["in_out"], "points": len(v["points"])} if sample else None)
    ctx.count("oracle_rows", len(v["points"]))
    for _, c in v["points"]:
        ctx.bump(f"search:{cls}:{c}")
    seen = set()
    for row, clause, detail in bad:
        key = (clause, coarse(cls, v["points"][row][1], clause))
        if key in seen:
            continue
        seen.add(key)
        small, batch = shrink_scenario(v, row, clause)
        locc = v["points"][row][1]
        sig = f"{clause}/{cls}:{coarse(cls, locc, clause)}" + ("" if v["in_out"] == "auto" else ":in_out-" + v["in_out"])
        ctx.impl_fail(sig, f"{cls} at a point of class '{locc}' ({batch}): {detail}; local point "
                           f"{small['points'][0][0]}, {json.dumps(small['kwargs'])[:200]}", small)


BOX_FACES = [(0, 1, 3), (0, 3, 2), (4, 7, 5), (4, 6, 7), (0, 5, 1), (0, 4, 5), (2, 3, 7), (2, 7, 6), (0, 2, 6), (0, 6, 4),
             (1, 7, 3), (1, 5, 7)]


def fixed_battery(ctx):
    """runs on EVERY run, independent of the seed: bodies given by local vertices (TriangularMesh boxes, Tetrahedra) that
    are off their local origin with every ordering of the per-axis minima / extents, observers strictly inside near
    every corner and the centre, strictly outside beyond every face; identity pose, a quarter turn and a 180-degree flip;
    units 1 and 1e-3; polarization along each axis"""
    import itertools
    mins_sizes = list(zip(itertools.permutations((-1.0, 0.5, 2.5)), itertools.cycle(itertools.permutations((2.0, 1.0, 3.0)))))
    poses = [([0.0, 0.0, 0.0], [0.0, 0.0, 0.0]), ([1.0, -2.0, 0.5], [0.0, 0.0, math.pi / 2]), ([0.0, 0.0, 0.0], [math.pi, 0.0, 0.0])]
    for n, (mn, sz) in enumerate(mins_sizes):
        mn, sz = np.array(mn), np.array(sz)
        corners = np.array([[mn[0] + a * sz[0], mn[1] + b * sz[1], mn[2] + c * sz[2]] for a in (0, 1) for b in (0, 1) for c in (0, 1)])
        cen = mn + sz / 2
        pts = [((cen + 0.8 * (c - cen)).tolist(), "inside") for c in corners] + [(cen.tolist(), "inside")]
        for ax in range(3):
            for sg in (-1, 1):
                p = cen.copy()
                p[ax] += sg * 0.75 * sz[ax]
                pts.append((p.tolist(), "outside"))
        pol = [0.0, 0.0, 0.0]
        pol[n % 3] = 1.0 if n % 2 else -0.5
        pos, rv = poses[n % 3]
        unit = 1.0 if n % 2 == 0 else 1e-3
        faces = [[corners[i].tolist() for i in f] for f in BOX_FACES]
        for cls, kwargs, P in (("TriangularMesh", {"faces": faces, "polarization": pol}, pts),
                               ("Tetrahedron", {"vertices": [corners[0].tolist(), corners[4].tolist(), corners[2].tolist(),
                                                             corners[1].tolist()] if n % 2 else
                                                [corners[0].tolist(), corners[1].tolist(), corners[2].tolist(), corners[4].tolist()],
                                                "polarization": pol}, None)):
            if P is None:       # the corner tetrahedron of the box (both vertex orders over the battery)
                v = np.array(kwargs["vertices"])
                tc = v.mean(axis=0)
                P = [((tc + 0.8 * (q - tc)).tolist(), "inside") for q in v] + [(tc.tolist(), "inside")] + \
                    [((tc + 3.0 * (q - tc)).tolist(), "outside") for q in v] + [(corners[7].tolist(), "outside")]
            kw, PP = scale_scenario(kwargs, P, unit) if unit != 1.0 else (kwargs, P)
            scn = {"kind": "fields", "cls": cls, "kwargs": kw, "pos": [x * unit for x in pos], "rotvec": rv, "pol": pol,
                   "points": PP, "in_out": "auto", "via": VIAS[n % len(VIAS)], "unit": unit}
            run_scenario(ctx, scn)
            ctx.bump("battery:" + cls)


def ray_offsets():
    """the constants subtracted from the lower box corner to get the ray start of mask_inside_trimesh, read from the source"""
    import ast
    import os
    from harness.common import REPO
    path = os.path.join(REPO, "magpylib", "_src", "fields", "field_BH_triangularmesh.py")
    tree = ast.parse(open(path).read())
    fn = next(n for n in tree.body if isinstance(n, ast.FunctionDef) and n.name == "mask_inside_trimesh")
    for n in ast.walk(fn):
        if isinstance(n, ast.Call) and isinstance(n.func, ast.Attribute) and n.func.attr == "array" and n.args \
                and isinstance(n.args[0], (ast.List, ast.Tuple)) and len(n.args[0].elts) == 3 \
                and all(isinstance(e, ast.Constant) and isinstance(e.value, float) for e in n.args[0].elts):
            return [e.value for e in n.args[0].elts]
    raise ValueError("mask_inside_trimesh: the ray start offsets were not found in the source")


def fixed_battery2(ctx):
    """seed-independent: (1) one CylinderSegment body written with its section angles shifted by whole turns to both sides
    (inside-ness from the angles in the usual range); (2) TriangularMesh boxes placed where `local lower corner minus the
    ray-start constants of the source` falls INSIDE the body, for several sizes / aspect ratios / units"""
    rng = __import__("random").Random(20260210)
    # (1)
    for base in ((30.0, 120.0), (-170.0, -20.0), (100.0, 350.0), (-10.5, 60.25)):
        for k in (-3, -2, -1, 0, 1, 2, 3):
            r1, r2, h = 0.5, 1.5, 1.0
            pts = pts_segment(rng, r1, r2, h, base[0], base[1])
            pol = [0.3, -0.4, 1.0]
            scn = {"kind": "fields", "cls": "CylinderSegment",
                   "kwargs": {"dimension": [r1, r2, h, base[0] + 360 * k, base[1] + 360 * k], "polarization": pol},
                   "pos": [0.0, 0.0, 0.0] if k % 2 else [0.5, -1.0, 2.0], "rotvec": [0.0, 0.0, 0.0] if k % 2 else [0.0, 0.0, 0.7],
                   "pol": pol, "points": pts, "in_out": "auto", "via": VIAS[(k + 3) % len(VIAS)], "unit": 1.0}
            run_scenario(ctx, scn)
            ctx.bump("battery:CylinderSegment-turns")
    # (2)
    off = np.array(ray_offsets())
    n = 0
    for ext in ((1.0, 1.0, 1.0), (1.0, 0.5, 0.25), (0.5, 1.0, 1.0), (0.3, 0.3, 1.0)):
        for size in (1.0, 2.0, 1e-3):
            for frac in (0.3, 0.6):
                e = np.array(ext) * size
                mn = off + frac * np.array(ext)             # (mn - off) is a point inside the unit-size copy of the body
                corners = np.array([[mn[0] + a * e[0], mn[1] + b * e[1], mn[2] + c * e[2]] for a in (0, 1) for b in (0, 1) for c in (0, 1)])
                cen = mn + e / 2
                pts = [((cen + 0.8 * (c - cen)).tolist(), "inside") for c in corners] + [(cen.tolist(), "inside")]
                for ax in range(3):
                    for sg in (-1, 1):
                        p = cen.copy()
                        p[ax] += sg * 0.75 * e[ax]
                        pts.append((p.tolist(), "outside"))
                pol = [0.0, 0.0, 0.0]
                pol[n % 3] = 1.0
                faces = [[corners[i].tolist() for i in f] for f in BOX_FACES]
                scn = {"kind": "fields", "cls": "TriangularMesh", "kwargs": {"faces": faces, "polarization": pol},
                       "pos": [0.0, 0.0, 0.0], "rotvec": [0.0, 0.0, 0.0] if n % 2 else [0.0, 0.0, math.pi / 2], "pol": pol,
                       "points": pts, "in_out": "auto", "via": VIAS[n % len(VIAS)], "unit": 1.0}
                run_scenario(ctx, scn)
                ctx.bump("battery:TriangularMesh-ray-start")
                n += 1


def search_fields(ctx, per_class):
    rng = ctx.rng
    for cls in CLASSES:
        for t in range(per_class):
            kwargs, pts, pol = make_scenario(rng, cls)
            rot = rand_rot(rng)
            pos = [0.0, 0.0, 0.0] if rng.random() < 0.3 else [fl(rng, -3, 3) for _ in range(3)]
            unit = rng.choice((1.0, 1.0, 1e-3, 1e-6, 1e3))       # absolute length scale
            if unit != 1.0:
                kwargs, pts = scale_scenario(kwargs, pts, unit)
                pos = [x * unit for x in pos]
            scn = {"kind": "fields", "cls": cls, "kwargs": kwargs, "pos": pos, "rotvec": rot.as_rotvec().tolist(),
                   "pol": pol, "points": pts, "in_out": "auto", "via": rng.choice(VIAS), "unit": unit}
            ctx.bump(f"search:unit:{unit:g}")
            ctx.bump("search:via:" + scn["via"])
            variants = [scn]
            # the same points one at a time (batch size 1), for a few scenarios
            if t % 3 == 0:
                variants += [dict(scn, points=[p]) for p in pts if p[1] not in ("inside", "outside")][:8]
            if cls in ("Tetrahedron", "TriangularMesh"):    # truthful in_out
                for io in ("inside", "outside"):
                    sel = [p for p in pts if p[1] == io]
                    if sel:
                        variants.append(dict(scn, points=sel, in_out=io))
            for v in variants:
                run_scenario(ctx, v, sample=(t == 0 and v is scn))


def search_two_meshes(ctx, n):
    """two different TriangularMesh sources (and a Tetrahedron) in ONE call: each keeps its own inside test"""
    rng = ctx.rng
    for _ in range(n):
        scns = []
        for cls in ("TriangularMesh", "TriangularMesh", "Tetrahedron"):
            kwargs, pts, pol = make_scenario(rng, cls)
            scns.append({"cls": cls, "kwargs": kwargs, "pos": [fl(rng, -1, 1) for _ in range(3)],
                         "rotvec": rand_rot(rng).as_rotvec().tolist(), "pol": pol, "points": pts})
        order = [0, 1, 2]
        rng.shuffle(order)
        scns = [scns[i] for i in order]
        multi = {"kind": "multi", "sources": scns}
        # all observers of each source in one call, and - the grouping of equal meshes is per ROW - calls with a single
        # observer (then every source contributes exactly one row)
        found = list(multi_check(multi))
        for k, s in enumerate(scns):
            sel = [i for i, p in enumerate(s["points"]) if p[1] in ("inside", "outside")]
            for i in sel[:2] + sel[-2:]:
                one = {"kind": "multi", "sources": [dict(x, points=(x["points"][i:i + 1] if x is s else x["points"][:1])) for x in scns]}
                found += [(kk, i, c, d) for kk, r, c, d in multi_check(one) if kk == k]
                ctx.count("oracle_rows", 3)
        for bad in found:
            k, row, clause, detail = bad
            s = scns[k]
            alone = dict(s, kind="fields", points=s["points"][row:row + 1], in_out="auto")
            try:
                same_alone = any(c == clause for _, c, _ in scenario_check(alone))
                if not same_alone:      # the same source and the same observers, but no other source in the call
                    alone = dict(s, kind="fields", in_out="auto")
                    same_alone = any(c == clause and r == row for r, c, _ in scenario_check(alone))
            except Exception:   # pylint: disable=broad-except
                same_alone = False
            locc = coarse(s["cls"], s["points"][row][1], clause)
            if same_alone:
                ctx.impl_fail(f"{clause}/{s['cls']}:{locc}", f"{s['cls']} at a point of class '{s['points'][row][1]}': {detail}", alone)
                continue
            ctx.impl_fail(f"{clause}/{s['cls']}:{locc}:several-sources-in-one-call",
                          f"{s['cls']} (source {k} of {[x['cls'] for x in scns]} in one getJ/getB call): {detail}",
                          {"kind": "multi", "sources": [dict(x, points=(x["points"][row:row + 1] if x is s else x["points"][:1]))
                                                        for x in scns]})
        ctx.case(json.dumps(multi, sort_keys=True), True)
        ctx.bump("search:several-sources-one-call")


def multi_check(multi):
    import warnings
    scns = multi["sources"]
    srcs = [build(s["cls"], s["kwargs"], s["pos"], s["rotvec"]) for s in scns]
    out = []
    for k, s in enumerate(scns):
        rot = R.from_rotvec(s["rotvec"])
        loc = np.array([p for p, _ in s["points"]], dtype=float).reshape(-1, 3)
        obs = rot.apply(loc) + np.array(s["pos"], dtype=float)
        res = {}
        with warnings.catch_warnings():
            warnings.simplefilter("ignore")
            for f, fn in zip(FIELDS, (magpy.getB, magpy.getH, magpy.getJ, magpy.getM)):
                res[f] = np.reshape(np.array(fn(srcs, obs, sumup=False), dtype=float)[k], (-1, 3))
        polg = rot.apply(np.array(s["pol"], dtype=float))
        out += [(k, r, c, d) for r, c, d in judge(s["cls"], res, polg, [c for _, c in s["points"]])]
    return out


# ---------------------------------------------------------------------- several sources, paths, collections in one call
def pose_at(sd, i):
    """pose of source description sd at path step i (shorter paths are padded with their last pose)"""
    path = sd["path"]
    pos, rv = path[min(i, len(path) - 1)]
    return np.array(pos, dtype=float), R.from_rotvec(rv)


def build_path_source(sd):
    src = build(sd["cls"], sd["kwargs"], sd["path"][0][0], sd["path"][0][1])
    if len(sd["path"]) > 1:
        src.position = [p for p, _ in sd["path"]]
        src.orientation = R.from_rotvec([rv for _, rv in sd["path"]])
    return src


def gen_big_call(rng):
    """>= 4 sources of interleaved classes incl. twins (same geometry, other excitation), a duplicate, excitations that
    differ by 1e6..1e12, paths of length 1 < m0 < M next to longer ones"""
    n = rng.randint(4, 7)
    descs = []
    M = rng.choice((1, 1, 3, 4))
    # half of the calls draw from 2-3 classes only: several DIFFERENT sources of one class share a group
    pool = rng.sample(CLASSES, rng.choice((2, 3))) if rng.random() < 0.5 else CLASSES
    for k in range(n):
        if descs and rng.random() < 0.25:       # twin of an earlier source: same geometry and pose, other excitation
            base = descs[rng.randrange(len(descs))]
            kw = dict(base["kwargs"])
            pol = base["pol"]
            if pol is not None:
                pol = [x * rng.choice((-1.0, 1e-6, 1e6, 2.0)) for x in pol]
                kw["polarization"] = pol
            elif "current" in kw:
                kw["current"] = kw["current"] * rng.choice((-1.0, 1e6, 0.0))
            descs.append(dict(base, kwargs=kw, pol=pol, twin=True))
            continue
        cls = rng.choice(pool)
        kwargs, pts, pol = make_scenario(rng, cls)
        if pol is not None and rng.random() < 0.4:      # large ratios between sources, in either order
            f = rng.choice((1e-6, 1e6, 1e-3, 1e3))
            pol = [x * f for x in pol]
            kwargs = dict(kwargs, polarization=pol)
        m0 = rng.choice((1, 1, max(1, M - 1), M, 2)) if M > 1 else 1
        path = [([fl(rng, -2, 2) for _ in range(3)], rand_rot(rng).as_rotvec().tolist()) for _ in range(min(m0, M))]
        keep = [p for p in pts if p[1] in ("inside", "outside")][:3] + [p for p in pts if p[1] not in ("inside", "outside")][:3]
        descs.append({"cls": cls, "kwargs": kwargs, "pol": pol, "path": path, "points": keep})
    order = list(range(len(descs)))
    rng.shuffle(order)
    return {"kind": "big-call", "sources": [descs[i] for i in order], "M": M, "duplicate": rng.random() < 0.3,
            "nest": rng.choice((0, 0, 1, 2)), "one_obs": rng.randrange(1000) if rng.random() < 0.4 else None}


def big_call_check(bc):
    """every source of a many-source call, at every path step and every observer: the property per source
    (sumup=False), for the sum (sumup=True) and for the sources wrapped into nested Collections"""
    import warnings
    descs = bc["sources"]
    srcs = [build_path_source(sd) for sd in descs]
    if bc.get("duplicate"):
        srcs = srcs + [srcs[0]]
        descs = descs + [descs[0]]
    M = max(len(sd["path"]) for sd in descs)
    # observers: the special points of every source at its FIRST pose (location classes are known there for a static source)
    obs, owner = [], []
    for k, sd in enumerate(bc["sources"]):
        pos, rot = pose_at(sd, 0)
        for p, c in sd["points"]:
            obs.append(rot.apply(np.array(p, dtype=float)) + pos)
            owner.append((k, c))
    if bc.get("one_obs") is not None:       # exactly one observer: every source contributes exactly one row per step
        ins = [q for q, (_, c) in enumerate(owner) if c == "inside"] or list(range(len(obs)))
        j = ins[bc["one_obs"] % len(ins)]       # preferably a point strictly inside one of the bodies
        obs, owner = obs[j:j + 1], owner[j:j + 1]
    obs = np.array(obs)
    res = {}
    with warnings.catch_warnings():
        warnings.simplefilter("ignore")
        for f, fn in zip(FIELDS, (magpy.getB, magpy.getH, magpy.getJ, magpy.getM)):
            res[f] = np.reshape(np.array(fn(srcs, obs, sumup=False, squeeze=False), dtype=float), (len(srcs), M, len(obs), 3))
        tot = {f: np.reshape(np.array(fn(srcs, obs, sumup=True, squeeze=False), dtype=float), (M, len(obs), 3))
               for f, fn in zip(FIELDS, (magpy.getB, magpy.getH, magpy.getJ, magpy.getM))}
    bad = []
    for k, sd in enumerate(descs):
        for i in range(M):
            _, rot = pose_at(sd, i)
            polg = None if sd["pol"] is None else rot.apply(np.array(sd["pol"], dtype=float))
            static = len(sd["path"]) == 1
            locs = [(c if (kk == k and (static or i == 0) and k < len(bc["sources"])) else "unknown") for kk, c in owner]
            out = {f: res[f][k, i] for f in FIELDS}
            bad += [(k, i, r, c, d) for r, c, d in judge(sd["cls"], out, polg, locs)]
    # the sum: B = mu0*H + J and J = mu0*M with the tolerance relative to the largest contribution
    for i in range(M):
        for r in range(len(obs)):
            vals = [res[f][:, i, r] for f in FIELDS]
            if not all(np.isfinite(v).all() for v in vals):
                continue
            scale = max(float(np.abs(res["B"][:, i, r]).max()), float(np.abs(MU0 * res["H"][:, i, r]).max()),
                        float(np.abs(res["J"][:, i, r]).max()), 1e-300) * len(srcs)
            d1 = float(np.abs(tot["B"][i, r] - MU0 * tot["H"][i, r] - tot["J"][i, r]).max())
            d2 = float(np.abs(tot["J"][i, r] - MU0 * tot["M"][i, r]).max())
            d3 = max(float(np.abs(tot[f][i, r] - res[f][:, i, r].sum(axis=0)).max()) / (1.0 if f in "BJ" else 1 / MU0) for f in FIELDS)
            if d1 > RTOL * scale:
                bad.append((-1, i, r, "B=mu0H+J", f"sum over {len(srcs)} sources: |B - mu0 H - J| = {d1:.3e}, scale {scale:.3e}"))
            if d2 > RTOL * scale:
                bad.append((-1, i, r, "J=mu0M", f"sum over {len(srcs)} sources: |J - mu0 M| = {d2:.3e}, scale {scale:.3e}"))
            if d3 > 1e-10 * scale:
                bad.append((-1, i, r, "sum-of-sources", f"sumup=True differs from the sum of the per-source outputs by {d3:.3e}"))
    # nested collections (depth bc['nest']): one more entry point; the collection is ONE source whose output is the sum
    if bc.get("nest") and not bc.get("duplicate"):
        with warnings.catch_warnings():
            warnings.simplefilter("ignore")
            fresh = [build_path_source(sd) for sd in bc["sources"]]
            coll = magpy.Collection(*fresh[:2])
            for _ in range(bc["nest"] - 1):
                coll = magpy.Collection(coll)
            coll = magpy.Collection(coll, *fresh[2:])
            ctot = {f: np.reshape(np.array(fn(coll, obs, squeeze=False), dtype=float), (M, len(obs), 3))
                    for f, fn in zip(FIELDS, (magpy.getB, magpy.getH, magpy.getJ, magpy.getM))}
        for f in FIELDS:
            ref = tot[f]
            sc = max(float(np.abs(ref[np.isfinite(ref)]).max()) if np.isfinite(ref).any() else 0.0, 1e-300)
            ok = np.isfinite(ref) & np.isfinite(ctot[f])
            if ok.any() and float(np.abs(ctot[f][ok] - ref[ok]).max()) > 1e-9 * sc:
                bad.append((-1, 0, 0, "collection-sum", f"get{f} of the nested Collection differs from the sum of its sources"))
    return bad


def search_big_calls(ctx, n):
    rng = ctx.rng
    for _ in range(n):
        bc = gen_big_call(rng)
        try:
            bad = big_call_check(bc)
        except Exception as e:   # pylint: disable=broad-except
            ctx.impl_fail(f"raises/big-call:{type(e).__name__}", f"many-source call raised {type(e).__name__}: {e}", bc)
            continue
        ctx.case(json.dumps(bc, sort_keys=True), True)
        ctx.bump("search:big-call:sources", len(bc["sources"]))
        ctx.bump(f"search:big-call:path-{bc['M']}")
        seen = set()
        for k, i, r, clause, detail in bad:
            cls = "sum" if k < 0 else (bc["sources"] + bc["sources"][:1])[k]["cls"]
            key = (clause, cls)
            if key in seen:
                continue
            seen.add(key)
            # shrink: drop sources while the same clause still fails for the same class
            def fails(srcs, clause=clause, cls=cls):
                if len(srcs) < 1:
                    return False
                try:
                    b2 = big_call_check(dict(bc, sources=srcs, duplicate=False, nest=0 if clause != "collection-sum" else bc["nest"]))
                except Exception:   # pylint: disable=broad-except
                    return False
                return any(c == clause and ("sum" if kk < 0 else srcs[kk]["cls"]) == cls for kk, _, _, c, _ in b2)
            from harness.shrink import shrink_list
            small = shrink_list(bc["sources"], fails, max_steps=30) if not bc.get("duplicate") else bc["sources"]
            trig = "several-sources-in-one-call" if len(small) > 1 else "alone"
            ctx.impl_fail(f"{clause}/{cls}:{trig}" + (":path" if bc["M"] > 1 and trig != "alone" else ""),
                          f"call with {len(bc['sources'])} sources ({[x['cls'] for x in bc['sources']]}, path length {bc['M']}): "
                          f"source {k}, step {i}, observer {r}: {detail}", dict(bc, sources=small))


# ---------------------------------------------------------------------- call -> public mutation -> call == fresh twin
def search_mutation_twin(ctx, n):
    rng = ctx.rng
    import warnings
    for t in range(n):
        cls = MAGNETS[t % len(MAGNETS)]
        kw1, pts, pol1 = make_scenario(rng, cls)
        kw2, _, pol2 = make_scenario(rng, cls)
        pos1, pos2 = ([fl(rng, -2, 2) for _ in range(3)] for _ in range(2))
        rv1, rv2 = (rand_rot(rng).as_rotvec().tolist() for _ in range(2))
        obs = R.from_rotvec(rv1).apply(np.array([p for p, _ in pts[:10]])) + np.array(pos1)
        what = rng.choice(("polarization", "magnetization", "pose", "geometry", "all"))
        with warnings.catch_warnings():
            warnings.simplefilter("ignore")
            a = build(cls, kw1, pos1, rv1)
            first = fields_at(a, obs)
            final_kw, final_pos, final_rv = dict(kw1), pos1, rv1
            if what in ("polarization", "all"):
                a.polarization = pol2
                final_kw["polarization"] = pol2
            if what == "magnetization":
                a.magnetization = [x / (4e-7 * math.pi) for x in pol2]
                final_kw["polarization"] = a.polarization.tolist()
            if what in ("pose", "all"):
                a.position = pos2
                a.orientation = R.from_rotvec(rv2)
                final_pos, final_rv = pos2, rv2
            if what in ("geometry", "all") and cls != "TriangularMesh":
                for key in ("dimension", "diameter", "vertices"):
                    if key in kw2:
                        setattr(a, key, kw2[key])
                        final_kw[key] = kw2[key]
            b = build(cls, final_kw, final_pos, final_rv)
            fa, fb = fields_at(a, obs), fields_at(b, obs)
        ctx.case(("twin", cls, what, json.dumps(kw1, sort_keys=True)), True)
        ctx.bump("search:mutation-twin:" + what)
        for f in FIELDS:
            ok = np.isfinite(fa[f]) & np.isfinite(fb[f])
            sc = max(float(np.abs(fb[f][ok]).max()) if ok.any() else 0.0, 1e-300)
            if ok.any() and float(np.abs(fa[f][ok] - fb[f][ok]).max()) > 1e-12 * sc or not np.array_equal(np.isfinite(fa[f]), np.isfinite(fb[f])):
                ctx.impl_fail(f"stale-after-mutation/{cls}:{what}:get{f}",
                              f"{cls}: get{f} after assigning {what} differs from a fresh twin built with the final values",
                              {"kind": "twin", "cls": cls, "what": what})
        # and the property itself on the mutated object
        polg = R.from_rotvec(final_rv).apply(np.array(final_kw["polarization"], dtype=float))
        for r, clause, detail in judge(cls, fa, polg, ["unknown"] * len(obs)):
            ctx.impl_fail(f"{clause}/{cls}:after-{what}-assignment", f"{cls} after assigning {what}: {detail}",
                          {"kind": "twin", "cls": cls, "what": what})
            break


def search_rings(ctx, n):
    """360-degree CylinderSegment with a bore = Cylinder(r2) - Cylinder(r1): observers in the bore (and on its rim)
    within a few ulps of the planes of the bases, seen from a rotated and shifted magnet; J must be pol or 0"""
    rng = ctx.rng
    for _ in range(n):
        r1 = fl(rng, 0.2, 1.5)
        r2 = r1 + fl(rng, 0.2, 2)
        h = fl(rng, 0.3, 3)
        p1 = rng.choice((0, -180, 90))
        pol = nz_pol(rng)
        pts = []
        for _ in range(8):
            rho = r1 * rng.choice((1.0, rng.uniform(0.05, 0.95), rng.uniform(0.05, 0.95)))
            a = rng.uniform(-math.pi, math.pi)
            zz = rng.choice((-1, 1)) * nudge(h / 2, rng.randint(-2, 2))
            pts.append(([rho * math.cos(a), rho * math.sin(a), zz], "full-cylinder-bore-base"))
        scn = {"kind": "fields", "cls": "CylinderSegment", "kwargs": {"dimension": [r1, r2, h, p1, p1 + 360], "polarization": pol},
               "pos": [fl(rng, -3, 3) for _ in range(3)], "rotvec": [rng.uniform(-3, 3) for _ in range(3)],
               "pol": pol, "points": pts, "in_out": "auto"}
        bad = scenario_check(scn)
        ctx.case(json.dumps(scn, sort_keys=True), True)
        ctx.count("oracle_rows", len(pts))
        ctx.bump("search:CylinderSegment:full-cylinder-bore-base", len(pts))
        seen = set()
        for row, clause, detail in bad:
            if clause in seen:
                continue
            seen.add(clause)
            small, batch = shrink_scenario(scn, row, clause)
            ctx.impl_fail(f"{clause}/CylinderSegment:{coarse('CylinderSegment', pts[row][1], clause)}",
                          f"360-degree CylinderSegment ring, observer in the bore at a base plane ({batch}): {detail}; "
                          f"local point {small['points'][0][0]}, {json.dumps(small['kwargs'])}", small)


# ---------------------------------------------------------------------- attributes
def last_assignment(h, n):
    ops = ([] if h["init"] is None else [[h["init"][0], h["init"][1]]]) + h["ops"][:n]
    for op in reversed(ops):
        if op[0] in ("pol!", "mag!"):
            return None         # may have been rejected: either the old or the new pair is acceptable
        if op[0] in ("pol", "mag"):
            return op[0], op[1]
        if op[0] == "copy":
            return op[1], op[2]
    return None


def proportional(a, b, k, tol):
    """a = k' * b componentwise with one k' and |k'/k - 1| < tol (the two arrays differ by a constant near k)"""
    nz = np.abs(b) > 0
    if not nz.any() or np.any(a[~nz] != 0):
        return False
    r = a[nz] / b[nz]
    return bool(np.all(np.abs(r / r[0] - 1) < 1e-12) and abs(r[0] / k - 1) < tol)


def attr_check_all(h):
    """list of (step, trigger, detail), first occurrence of each trigger (the recorded constant defect `mu0-setter` must not
    hide a stale value later in the same history).  After every prefix of the history (applied to a FRESH object, so only the reads
    that are part of the history happen) the pair read through the getters, in either order, satisfies: both unset or
    polarization = mu_0 * magnetization; the value assigned last reads back; getJ / getM inside agree with the attributes"""
    n_ops = len(h["ops"])
    found = {}

    def hit(n, trig, detail):
        found.setdefault(trig, (n, trig, detail))
    for n in range(0 if h["init"] is not None else 1, n_ops + 1):
        if n > 0 and h["ops"][n - 1][0] in ("read", "getJ", "getM", "copy0") and n != n_ops:
            continue        # observed after the next assignment (or at the end)
        opname = "init" if n == 0 else "/".join(str(x) for x in h["ops"][n - 1][:2] if not isinstance(x, list))
        for mag_first in (False, True):
            try:
                obj = hist_run(h, n)
                p, m, J, M = hist_observe(obj, h["cls"], mag_first)
            except Exception as e:   # pylint: disable=broad-except
                la = last_assignment(h, n)
                hit(n, ("None-assignment" if la is not None and la[1] is None else "vector-assignment") + ":raises", 
                    f"after {opname}: {type(e).__name__}: {e}")
                continue
            if (p is None) != (m is None):
                hit(n, "half-unset", f"after {opname}: polarization = {p}, magnetization = {m}")
                continue
            la = last_assignment(h, n)
            if p is None:
                if la is not None and la[1] is not None:
                    hit(n, "assigned-value-lost", f"after {opname}: both attributes read None")
                    continue
                continue
            if la is not None and la[1] is None:
                hit(n, "unset-value-survives", f"after {opname}: polarization = {p.tolist()}, magnetization = {m.tolist()}")
                continue
            if la is not None:
                mine = p if la[0] == "pol" else m
                if not np.array_equal(mine, np.array(la[1], dtype=float)):
                    hit(n, "assigned-value-lost", f"after {opname}: {la[0]} was set to {la[1]} but reads {mine.tolist()}")
                    continue
            pn = float(np.abs(p).max())
            res = float(np.abs(p - MU0 * m).max())
            if res > RTOL * pn:
                if proportional(p, m, MU0, 1e-6):
                    hit(n, "mu0-setter", (f"after {opname}: polarization = {p.tolist()}, magnetization = {m.tolist()}, "
                                             f"|pol - magpylib.mu_0 * mag| / |pol| = {res / pn:.3e}"))
                else:
                    hit(n, "values-unrelated", (f"after {opname} (read {'mag, pol' if mag_first else 'pol, mag'}): polarization = "
                                               f"{p.tolist()} but magnetization = {m.tolist()} (stale or unrelated value)"))
                    continue
            if float(np.abs(J - p).max()) > RTOL * pn:
                hit(n, "getJ-differs-from-attribute", f"after {opname}: getJ inside = {J.tolist()}, polarization = {p.tolist()}")
                continue
            mn = float(np.abs(m).max())
            if float(np.abs(M - m).max()) > RTOL * mn:
                if proportional(M, m, 1.0, 1e-6):
                    hit(n, "mu0-setter", (f"after {opname}: getM inside = {M.tolist()} but magnetization = {m.tolist()} "
                                             f"(relative difference {float(np.abs(M - m).max()) / mn:.3e}: two values of mu_0)"))
                    continue
                hit(n, "getM-differs-from-attribute", f"after {opname}: getM inside = {M.tolist()}, magnetization = {m.tolist()}")
                continue
    return list(found.values())


def attr_check(h, trig=None):
    """the first failure (of the given trigger), or None"""
    for r in attr_check_all(h):
        if trig is None or r[1] == trig:
            return r
    return None


def shrink_history(h, trig):
    from harness.shrink import shrink_list

    def fails(ops, init=h["init"]):
        return attr_check(dict(h, init=init, ops=ops), trig) is not None
    ops = shrink_list(h["ops"], fails, max_steps=60)
    small = dict(h, ops=ops)
    if h["init"] is not None and fails(ops, None):
        small = dict(small, init=None)
    return small


def search_attrs(ctx, n):
    rng = ctx.rng
    classes = list(HIST_CLASSES)
    # fixed histories, every run: an assignment that raises (warnings as errors, value below the warning threshold)
    fixed = []
    for cls in classes:
        fixed += [{"cls": cls, "init": None, "ops": [["mag!", [100.0, 0.0, -50.0]]]},
                  {"cls": cls, "init": ["pol", [0.0, 0.0, 1.0]], "ops": [["read", "mag"], ["mag!", [0.0, 1500.0, 0.0]], ["getM"]]},
                  {"cls": cls, "init": ["mag", [1e6, 0.0, 0.0]], "ops": [["pol!", [1e-4, 0.0, 0.0]], ["mag!", [1.0, 2.0, 3.0]]]}]
    for t in range(len(fixed) + n):
        h = fixed[t] if t < len(fixed) else gen_history(rng, classes[t % len(classes)], strict=True)
        res = attr_check_all(h)
        ctx.case(("attrs", json.dumps(h)), True)
        ctx.bump("search:setter-history:" + h["cls"])
        for op in h["ops"]:
            ctx.bump("history-op:" + op[0])
        for _, trig, detail in res:
            small = shrink_history(h, trig)
            r2 = attr_check(small, trig)
            ctx.impl_fail(f"attr-sync/{trig}", f"{h['cls']}: {r2[2] if r2 else detail}; history init={small['init']} "
                                                f"ops={json.dumps(small['ops'])[:300]}", dict(small, kind="attrs"))


# ====================================================================== entry points
def run(ctx):
    ctx.extra["rule"] = ("correspondence: one case = one batch (1-6 rows) of one BHJM_* wrapper with stub cores and "
                         "MU0 = 2**-20, all four fields compared with the Coq model (exact rationals, relative 2^-30), or one "
                         "setter history on a real magnet; search: one case = one source with pose + a set of observers "
                         "(strictly inside / outside / faces / edges / corners / axes / extensions / 1e-9 and 1-ulp "
                         "neighbours), B, H, J, M through the public API; distinct by canonical text, every case "
                         "exercises at least one mask branch")
    ctx.trusted += [
        "translators translate/gen_const.py (every mu_0-like constant, evaluated by the implementation's interpreter) "
        "and translate/gen_wraptol.py (tolerance literals of the wrappers, inventory checked fail-closed)",
        "hand models coq/Model/WrapModel.v of the eleven BHJM_* wrappers and the BaseMagnet setters, tied by the stub "
        "correspondence (harness/props/C02.py, coq/Model/WrapExec.v); the models start AFTER sqrt/arctan2/cos/sin of "
        "the coordinate change (those values are inputs of a row); np.linalg.inv in point_inside is modelled by "
        "Cramer's rule and compared on exactly invertible matrices only",
        "the core field functions, mask_inside_trimesh, getBH level-2 (pose, tiling) are NOT modelled here: the cores "
        "are universally quantified in the theorems, level 2 is exercised by the search through the public API",
        "theorems are about exact field arithmetic (any field, Leibniz equality); binary64 rounding is covered only by "
        "the search tolerance 1e-12 * scale",
    ]
    ok = ctx.regen(["GenConst", "GenWrapTol"])
    built = ctx.build_props() and ok
    if built:
        ctx.refuted += ["C02_attr_sync_refuted"]
    if ctx.tier == "thorough" and built:
        ctx.coqchk("MV.Props.C02")

    run_guarded(ctx, lambda: correspondence(ctx, built, ctx.n(40, 300)), "C02 correspondence")
    ctx.log("correspondence done")

    big = bool(ctx.broken)
    mult = 5 if big else 1
    run_guarded(ctx, lambda: fixed_battery(ctx), "C02 fixed battery")
    run_guarded(ctx, lambda: fixed_battery2(ctx), "C02 fixed battery 2")
    run_guarded(ctx, lambda: search_fields(ctx, ctx.n(12, 100) * mult), "C02 field oracle")
    run_guarded(ctx, lambda: search_big_calls(ctx, ctx.n(12, 150) * mult), "C02 many-source calls")
    run_guarded(ctx, lambda: search_mutation_twin(ctx, ctx.n(18, 180) * mult), "C02 mutation vs fresh twin")
    run_guarded(ctx, lambda: search_rings(ctx, ctx.n(400, 6000) * mult), "C02 ring oracle")
    run_guarded(ctx, lambda: search_two_meshes(ctx, ctx.n(6, 60) * mult), "C02 several sources")
    ctx.log("field searches done")
    run_guarded(ctx, lambda: search_attrs(ctx, ctx.n(60, 600) * mult), "C02 attribute oracle")


def replay(ctx, obj):
    rp = obj.get("replay", obj)
    kind = rp.get("kind")
    bad = None
    if kind == "fields":
        bad = scenario_check(rp)
    elif kind == "multi":
        bad = multi_check(rp)
    elif kind == "big-call":
        bad = big_call_check(rp)
    elif kind == "attrs":
        bad = attr_check_all(rp)
    elif kind == "getM":
        src = magpy.magnet.Sphere(diameter=2, magnetization=rp["magnetization"])
        Mo = np.array(magpy.getM(src, [0.1, 0.2, 0.3]), dtype=float)
        res = float(np.abs(Mo - np.array(rp["magnetization"])).max()) / max(abs(x) for x in rp["magnetization"])
        bad = [("getM", res)] if res > RTOL else []
    if bad is None:
        print(json.dumps(obj, indent=1)[:3000])
        return 0
    print("replay:", "property holds on this input" if not bad else f"FAILS: {bad[:3]}")
    if bad:
        print(f"VIOLATION property=C02 replay={(obj.get('how_to_rerun') or 'given').split()[-1]}")
    return 1 if bad else 0
