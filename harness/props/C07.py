"""C07 -- all interfaces to the same computation return the same numbers; dataframe order.

stage 1  regen Gen/GenTables.v (rank tables, registered classes) and Gen/GenIfaces.v (wrapper call rows, role decision,
         dataframe block) from the source
stage 2  build Props/C07.v (dict_iface_tiles over the regenerated tables, role inference, dataframe order)
stage 3  correspondence: the Coq model of getBH_dict_level2 (on shapes) against the real function, whose call of
         getBH_level1 is intercepted so that the shapes it hands on are observed; registered classes with their real
         tables and a harness-defined source class with arbitrary tables; _validate_getBH_inputs on collection trees
stage 4  search (harness/c07_forms.py): every class x every call form x B,H,J,M on the real implementation
"""
import json
import warnings

import numpy as np
from scipy.spatial.transform import Rotation as R

from harness.common import run_guarded
from harness.octa import cz, clist, parse_z_list
from harness import c07_forms as F

import magpylib as magpy
from magpylib._src.exceptions import MagpylibBadUserInput
from magpylib._src.fields import field_wrap_BH as fw
from magpylib._src.obj_classes.class_BaseExcitations import BaseSource
from magpylib._src.utility import get_registered_sources

REAL_CLASSES = ["Circle", "Loop", "Polyline", "Line", "Cuboid", "Cylinder", "CylinderSegment", "Sphere", "Tetrahedron",
                "TriangularMesh", "CustomSource", "Dipole", "Triangle"]
# one instance's shape per parameter (concrete members of the documented rank)
INSTANCE_SHAPES = {
    "current": [[]], "diameter": [[]], "vertices:Polyline": [[2, 3], [3, 3]], "vertices:Line": [[2, 3], [4, 3]],
    "segment_start": [[3]], "segment_end": [[3]], "polarization": [[3]], "moment": [[3]],
    "dimension:Cuboid": [[3]], "dimension:Cylinder": [[2]], "dimension:CylinderSegment": [[5]],
    "vertices:Tetrahedron": [[4, 3]], "vertices:Triangle": [[3, 3]], "mesh": [[4, 3, 3], [12, 3, 3]],
    "position": [[3]], "orientation": [[4]], "observers": [[3]],
}


def _stub_field(field, observers, **kw):   # never called: getBH_level1 is intercepted
    return np.zeros_like(observers)


class C07Stub(BaseSource):
    """harness-defined source class: registered like any user subclass of BaseSource"""
    _field_func = staticmethod(_stub_field)
    _field_func_kwargs_ndim = {}


# ------------------------------------------------------------------ descriptors -> python values / Coq terms
def value_of(desc):
    k = desc[0]
    if k == "num":
        return 1.5
    if k == "none":
        return None
    if k == "arr":
        shp = desc[1]
        if len(shp) == 0:
            return np.array(2.5)                      # a 0-d ndarray (not a python number)
        size = int(np.prod(shp))
        arr = np.arange(size, dtype=float).reshape(shp) + 1.0
        # a nested list cannot express an axis behind an empty one; alternate list / ndarray otherwise
        return arr if (0 in shp or sum(shp) % 2) else arr.tolist()
    if k == "rag":
        return [(np.arange(3 * (2 + i % 2), dtype=float).reshape(2 + i % 2, 3) + 1.0).tolist() for i in range(desc[1])]
    raise ValueError(desc)


def rot_value(desc):
    """orientation is a scipy Rotation; its as_quat() has shape (4,) or (n,4)"""
    shp = desc[1]
    if shp == [4]:
        return R.from_rotvec([0.1, 0.2, 0.3])
    return R.from_rotvec([[0.1 * (i + 1), 0.2, 0.3] for i in range(shp[0])])


def c_pin(desc):
    k = desc[0]
    if k == "num":
        return "PNum"
    if k == "none":
        return "PNone"
    if k == "arr":
        return "(PArr " + clist([cz(x) for x in desc[1]]) + ")"
    return f"(PRag {cz(desc[1])})"


def c_str(s):
    return '"' + s + '"%string'


def c_dres(res):
    if res == "bad":
        return "DBad"
    if res == "crash":
        return "DCrash"
    items = []
    for k, v in res:
        items.append(f"({c_str(k)}, " + (f"VRag {cz(v[1])}" if v[0] == "rag" else
                                         "VArr " + clist([cz(x) for x in v[1]])) + ")")
    return "(DOk " + clist(items) + ")"


def c_dcase(case, res):
    cls = "None" if case["cls"] is None else f"(Some {c_str(case['cls'])})"
    tbl = clist([f"({c_str(k)}, {cz(v)})" for k, v in case["table"]])
    kw = clist([f"({c_str(k)}, {c_pin(d)})" for k, d in case["kw"]])
    return (f"(mkDCase {cls} {tbl} {kw} {c_pin(case['obs'])} {c_pin(case['pos'])} {c_pin(case['ori'])} "
            f"{c_dres(res)})")


# ------------------------------------------------------------------ the real getBH_dict_level2, observed
class _Captured(Exception):
    pass


def impl_dict(case):
    """run getBH_dict_level2 on the described input; returns [(key, shape)] of what reaches getBH_level1 /
    'bad' / 'crash'"""
    seen = {}

    def recorder(**kw):
        out = []
        for k, v in kw.items():
            if k in ("field", "field_func", "in_out"):
                continue
            if k == "orientation":
                out.append((k, ("arr", list(v.as_quat().shape))))
            elif isinstance(v, np.ndarray) and v.dtype == object:
                out.append((k, ("rag", len(v))))
            else:
                out.append((k, ("arr", list(np.shape(v)))))
        seen["out"] = out
        return None

    name = case["cls"]
    if name is None:
        name = "C07Stub"
        C07Stub._field_func_kwargs_ndim = dict(case["table"])
    kw = {k: value_of(d) for k, d in case["kw"]}
    orig = fw.getBH_level1
    fw.getBH_level1 = recorder
    try:
        with warnings.catch_warnings():
            warnings.simplefilter("ignore")
            fw.getBH_dict_level2(name, value_of(case["obs"]), field="B", position=value_of(case["pos"]),
                                 orientation=rot_value(case["ori"]), **kw)
    except MagpylibBadUserInput:
        return "bad"
    except Exception:   # pylint: disable=broad-except
        return "crash"
    finally:
        fw.getBH_level1 = orig
    return seen.get("out", "crash")


def shapes_for(cls, key):
    return INSTANCE_SHAPES.get(f"{key}:{cls}") or INSTANCE_SHAPES[key]


def conforming_case(rng, cls, n):
    """a call inside the hypotheses of the theorem: single / batch / ragged per keyword with a common n"""
    keys = list(F.SPEC_RANK[cls])
    if cls in ("Polyline", "Line"):
        keys = rng.choice([["current", "vertices"], ["current", "segment_start", "segment_end"]])
    rng.shuffle(keys)

    def desc(key):
        shp = rng.choice(shapes_for(cls, key))
        m = rng.choice(["single", "batch", "batch"])
        if (cls, key) in F.RAGGED_OK and n >= 2 and rng.random() < 0.25:
            m = "ragged"
        if m == "ragged":
            return ["rag", n]
        if m == "batch":
            return ["arr", [n] + shp]
        return ["num"] if not shp else ["arr", shp]
    return {"cls": cls, "table": [], "kw": [(k, desc(k)) for k in keys],
            "obs": desc("observers"), "pos": desc("position"), "ori": desc("orientation")}


def odd_shape(rng, maxrank=4):
    r = rng.randint(0, maxrank)
    return [rng.choice([0, 1, 1, 2, 3, 4]) for _ in range(r)]


def wild_desc(rng):
    x = rng.random()
    if x < 0.08:
        return ["num"]
    if x < 0.13:
        return ["none"]
    if x < 0.22:
        return ["rag", rng.randint(2, 4)]
    return ["arr", odd_shape(rng)]


def wild_case(rng):
    """outside the theorem: arbitrary tables (harness class) or real classes with arbitrary shapes"""
    if rng.random() < 0.5:
        cls = None
        keys = rng.sample(["a", "b", "c", "position", "observers", "orientation"], rng.randint(0, 4))
        table = [(k, rng.randint(0, 4)) for k in keys]
        kwk = rng.sample(["a", "b", "c", "d"], rng.randint(0, 3))
    else:
        cls = rng.choice(REAL_CLASSES + ["NoSuchClass"])
        table = []
        kwk = list(F.SPEC_RANK.get(cls, {"x": 0}))
        rng.shuffle(kwk)
        kwk = kwk[:rng.randint(0, len(kwk))] + (["extra"] if rng.random() < 0.2 else [])
    pos = ["arr", rng.choice([[3], [3], [2, 3], [1, 3], [4, 3], [1, 1, 3], [2, 2, 3]])]
    obs = ["arr", rng.choice([[3], [2, 3], [1, 3], [4, 3], [2, 2, 3], [1, 1, 3], [3, 1, 3]])] \
        if rng.random() < 0.9 else wild_desc(rng)
    ori = ["arr", rng.choice([[4], [4], [1, 4], [2, 4], [4, 4]])]
    return {"cls": cls, "table": table, "kw": [(k, wild_desc(rng)) for k in kwk], "obs": obs, "pos": pos, "ori": ori}


def exhaustive_conforming(n_values=(1, 2, 5)):
    """every registered class x every single/batch(/ragged) assignment of every keyword x n"""
    import itertools
    out = []
    for cls in REAL_CLASSES:
        forms = [list(F.SPEC_RANK[cls])]
        if cls in ("Polyline", "Line"):
            forms = [["current", "vertices"], ["current", "segment_start", "segment_end"]]
        for keys in forms:
            allk = keys + ["observers", "position", "orientation"]
            choices = [["single", "batch"] + (["ragged"] if (cls, k) in F.RAGGED_OK else []) for k in allk]
            for combo in itertools.product(*choices):
                modes = dict(zip(allk, combo))
                for n in n_values:
                    if "ragged" in combo and n < 2:
                        continue

                    def desc(k):
                        shp = shapes_for(cls, k)[0]
                        m = modes[k]
                        if m == "ragged":
                            return ["rag", n]
                        if m == "batch":
                            return ["arr", [n] + shp]
                        return ["num"] if not shp else ["arr", shp]
                    out.append({"cls": cls, "table": [], "kw": [(k, desc(k)) for k in keys],
                                "obs": desc("observers"), "pos": desc("position"), "ori": desc("orientation")})
    return out


CASES_HEADER = """From Coq Require Import ZArith List Bool String.
From MV Require Import Model.InputTypes Gen.GenTables Model.DictIface.
Import ListNotations. Open Scope Z_scope.
"""


def dict_correspondence(ctx, built):
    rng = ctx.rng
    cases = []
    if ctx.tier == "thorough":
        cases += exhaustive_conforming((1, 2, 3, 5))
    else:
        cases += exhaustive_conforming((1, 2))
    for _ in range(ctx.n(300, 4000)):
        cls = rng.choice(REAL_CLASSES)
        cases.append(conforming_case(rng, cls, rng.choice([1, 2, 3, 5, 7])))
    n_conf = len(cases)
    for _ in range(ctx.n(600, 8000)):
        cases.append(wild_case(rng))
    results = []
    for i, c in enumerate(cases):
        res = impl_dict(c)
        results.append(res)
        ctx.case(("dict", json.dumps(c, sort_keys=True)), True)
        ctx.bump("dict:" + ("conforming" if i < n_conf else "wild") + ":" +
                 (res if isinstance(res, str) else "ok"))
    ctx.samples.append({"dict_case": cases[n_conf // 2], "implementation_passes_on": results[n_conf // 2]})
    ctx.samples.append({"dict_case": cases[n_conf + 3], "implementation_passes_on": results[n_conf + 3]})
    if not built:
        return
    bad = []
    chunk = 1500
    for ci in range(0, len(cases), chunk):
        part = list(zip(cases[ci:ci + chunk], results[ci:ci + chunk]))
        txt = CASES_HEADER + "Definition cases : list dcase :=\n" + \
            clist([c_dcase(c, r) for c, r in part]).replace("; (mkDCase", ";\n (mkDCase") + \
            ".\nEval vm_compute in (failing_dcases registered dict_base_ndim dict_default_ndim cases).\n"
        ok, out = ctx.coq_eval(f"c07_{ctx.tier}_{ci}", txt)
        res = parse_z_list(out) if ok else None
        if res is None:
            ctx.add_broken("broken-correspondence", f"c07_{ctx.tier}_{ci}", "model evaluation failed:\n" + out[-1500:])
            return
        bad += [ci + i for i in res]
    ctx.count("traces_validated_against_impl", len(cases) - len(bad))
    for bi in bad[:5]:
        ctx.add_broken("broken-correspondence", "DictIface model vs getBH_dict_level2",
                       json.dumps({"case": cases[bi], "implementation": results[bi]}))


# ------------------------------------------------------------------ role inference correspondence
def gen_tree(rng, depth=0):
    """children of a collection: ('s'|'q'|[children...])"""
    out = []
    for _ in range(rng.randint(0, 3)):
        x = rng.random()
        if x < 0.4:
            out.append("s")
        elif x < 0.75:
            out.append("q")
        elif depth < 2:
            out.append(gen_tree(rng, depth + 1))
    return out


def build_tree(tree, counter):
    ch = []
    for t in tree:
        if t == "s":
            ch.append(magpy.misc.Dipole(moment=(1, 2, 3)))
        elif t == "q":
            ch.append(magpy.Sensor())
        else:
            ch.append(build_tree(t, counter))
    return magpy.Collection(*ch)


def c_tree(tree, counter):
    items = []
    for t in tree:
        counter[0] += 1
        if t == "s":
            items.append(f"OSrc {counter[0]}")
        elif t == "q":
            items.append(f"OSens {counter[0]}")
        else:
            items.append(c_tree(t, counter))
    counter[0] += 1
    return f"(OColl {counter[0]} {clist(items)})"


def role_correspondence(ctx, built):
    rng = ctx.rng
    rows = []
    for _ in range(ctx.n(200, 3000)):
        tree = gen_tree(rng)
        k = rng.choice([0, 0, 1, 1, 2, 3])
        coll = build_tree(tree, [0])
        inputs = [magpy.Sensor() for _ in range(k)]
        try:
            s, o = coll._validate_getBH_inputs(*inputs)

            def role(x):
                if x is coll:
                    return "ASelf"
                if k >= 1 and x is inputs[0]:
                    return "AInput0"
                if isinstance(x, tuple) and len(x) == k and all(a is b for a, b in zip(x, inputs)):
                    return "AInputs"
                return None
            rs, ro = role(s), role(o)
            if rs is None or ro is None:
                ctx.add_broken("broken-correspondence", "role inference", f"unrecognised result for tree {tree}, {k}")
                return
            res = f"(VRoles {rs} {ro})"
        except MagpylibBadUserInput:
            res = "VBad"
        ctx.case(("roles", json.dumps(tree), k), True)
        ctx.bump("roles:" + res.strip("()").split()[0])
        rows.append((tree, k, res))
    if not built:
        return
    txt = CASES_HEADER + "Definition rcases : list (mobj * nat * vres) :=\n" + \
        clist([f"({c_tree(t, [0])}, {k}%nat, {r})" for t, k, r in rows]).replace("; ((OColl", ";\n ((OColl") + \
        ".\nEval vm_compute in (failing_rcases rcases).\n"
    ok, out = ctx.coq_eval(f"c07_roles_{ctx.tier}", txt)
    res = parse_z_list(out) if ok else None
    if res is None:
        ctx.add_broken("broken-correspondence", "c07_roles", "model evaluation failed:\n" + out[-1500:])
        return
    ctx.count("traces_validated_against_impl", len(rows) - len(res))
    for bi in res[:3]:
        ctx.add_broken("broken-correspondence", "role model vs _validate_getBH_inputs", json.dumps(rows[bi]))


# ------------------------------------------------------------------ observer-list formatting correspondence
def observer_correspondence(ctx, built):
    """check_format_input_observers on random mixed lists [positions | Sensor | (nested) Collection ...] against the
    model format_observers: the returned sensors, identified, in order"""
    from magpylib._src.input_checks import check_format_input_observers
    rng = ctx.rng
    rows = []
    for _ in range(ctx.n(150, 2500)):
        counter = [1000]
        items, pyin, ids = [], [], {}
        for _ in range(rng.randint(1, 5)):
            x = rng.random()
            counter[0] += 1
            if x < 0.35:
                sobj = magpy.Sensor()
                ids[id(sobj)] = counter[0]
                items.append(f"OISensor {counter[0]}")
                pyin.append(sobj)
            elif x < 0.65:
                pos = [float(counter[0]), 0.5, -1.0]          # recognisable pixel value
                items.append(f"OIPos {counter[0]}")
                pyin.append(pos if rng.random() < 0.5 else tuple(pos))
            else:
                tree = gen_tree(rng)

                def build(t, base=[counter[0] * 100]):
                    ch, cs = [], []
                    for e in t:
                        base[0] += 1
                        if e == "s":
                            ch.append(magpy.misc.Dipole(moment=(1, 2, 3)))
                            cs.append(f"OSrc {base[0]}")
                        elif e == "q":
                            o = magpy.Sensor()
                            ids[id(o)] = base[0]
                            ch.append(o)
                            cs.append(f"OSens {base[0]}")
                        else:
                            c2, t2 = build(e, base)
                            ch.append(c2)
                            cs.append(t2)
                    base[0] += 1
                    return magpy.Collection(*ch), f"(OColl {base[0]} {clist(cs)})"
                cobj, cterm = build(tree)
                items.append(f"OIColl {cterm}")
                pyin.append(cobj)
        try:
            with warnings.catch_warnings():
                warnings.simplefilter("ignore")
                sens, _ = check_format_input_observers(pyin, pixel_agg="mean")
            out = []
            for so in sens:
                if id(so) in ids:
                    out.append(ids[id(so)])
                else:
                    out.append(int(round(float(np.reshape(so.pixel, (-1, 3))[0][0]))))
            res = "(Some " + clist([cz(x) for x in out]) + ")"
        except MagpylibBadUserInput:
            res = "None"
        ctx.case(("observer-list", clist(items)), True)
        ctx.bump("observer-list:" + ("ok" if res != "None" else "bad"))
        rows.append((clist(items), res))
    ctx.samples.append({"observer_list": rows[0][0], "implementation_order": rows[0][1]})
    if not built:
        return
    txt = CASES_HEADER + "Definition ocases : list (list obs_item * option (list Z)) :=\n" + \
        clist([f"({i}, {r})" for i, r in rows]).replace("; ([", ";\n ([") + \
        ".\nEval vm_compute in (failing_ocases ocases).\n"
    ok, out = ctx.coq_eval(f"c07_observers_{ctx.tier}", txt)
    res = parse_z_list(out) if ok else None
    if res is None:
        ctx.add_broken("broken-correspondence", "c07_observers", "model evaluation failed:\n" + out[-1500:])
        return
    ctx.count("traces_validated_against_impl", len(rows) - len(res))
    for bi in res[:3]:
        ctx.add_broken("broken-correspondence", "format_observers model vs check_format_input_observers",
                       json.dumps(rows[bi]))


# ------------------------------------------------------------------ tables: AST translation vs the running classes
def tables_tie(ctx, built):
    """the registered classes and rank tables the translator read from the source text are the ones the interpreter
    holds; the python twin of the spec table equals the Coq one"""
    import re
    from harness.common import REPO
    from translate import GENERATORS
    txt = GENERATORS["GenTables"](REPO)      # the same text stage 1 wrote to Gen/GenTables.v
    m = re.search(r"Definition registered .*?:= \[(.*?)\n\]\.", txt, flags=re.S)
    if not m:
        ctx.add_broken("broken-translator", "GenTables.registered", "not found in the generated file")
        return
    gen = {}
    for row in re.finditer(r'\("(\w+)", \[(.*?)\]\)(?:;|\s*$)', m.group(1), flags=re.M):
        gen[row.group(1)] = {k: int(v) for k, v in re.findall(r'\("(\w+)", \(?(-?\d+)\)?\)', row.group(2))}
    run = {k: dict(v._field_func_kwargs_ndim) for k, v in get_registered_sources().items() if k != "C07Stub"}
    if gen != run:
        ctx.add_broken("broken-translator", "GenTables.registered",
                       f"translated tables {gen} differ from the interpreter's {run}")
    ctx.count("tables_compared", len(run))
    if set(run) != set(F.SPEC_RANK):
        ctx.add_broken("broken-correspondence", "spec table",
                       f"registered classes {sorted(run)} vs spec table {sorted(F.SPEC_RANK)}: a class was added or "
                       "removed; the spec (docstring ranks) must be extended by hand")
    if built:
        twin = clist([f"({c_str(c)}, " + clist([f"({c_str(k)}, {cz(r)})" for k, r in tab.items()]) + ")"
                      for c, tab in F.SPEC_RANK.items()])
        t = (CASES_HEADER + f"Definition twin : list (string * list (string * Z)) := {twin}.\n"
             "Eval vm_compute in (if (Nat.eqb (List.length twin) (List.length spec_table)) && forallb (fun row => "
             "match assoc (fst row) spec_table with Some sp => Nat.eqb (List.length sp) (List.length (snd row)) && "
             "forallb (fun e => match assoc (fst e) sp with Some (r, _) => r =? snd e | None => false end) (snd row) "
             "| None => false end) twin then [1] else [0]).\n")
        ok, out = ctx.coq_eval("c07_twin", t)
        if not ok or parse_z_list(out) != [1]:
            ctx.add_broken("broken-correspondence", "spec twin", "python SPEC_RANK differs from Coq spec_table\n" + out[-800:])


# ------------------------------------------------------------------ search
def report(ctx, case, res):
    if case["kind"] == "functional":
        try:
            small = F.shrink_functional(case)
            r2 = F.run_case(small)
            if r2 is not None:
                case, res = small, r2
        except Exception:   # pylint: disable=broad-except
            pass
    elif case["kind"] in ("object-forms", "dataframe", "roles"):
        try:
            small, r2 = F.shrink_obj_case(case)
            if r2 is not None:
                case, res = small, r2
        except Exception:   # pylint: disable=broad-except
            pass
    ctx.impl_fail(f"{res['clause']}/{res['trigger']}", res["what"], case)


def report_functional(ctx, fails):
    """shrink each failing functional case; a failure pattern that shows on three or more classes is a defect of the
    shared marshalling code and is reported once, with the class left open"""
    shrunk = []
    seen = set()
    for case, res in fails:
        try:
            small = F.shrink_functional(case)
            r2 = F.run_case(small)
            if r2 is not None:
                case, res = small, r2
        except Exception:   # pylint: disable=broad-except
            pass
        key = (res["clause"], res["trigger"])
        if key in seen and len(shrunk) > 40:
            continue
        seen.add(key)
        shrunk.append((case, res))
    by_pat = {}
    for case, res in shrunk:
        if res["clause"] == "functional-differs":
            cls, _, pat = res["trigger"].partition(":")
            by_pat.setdefault(pat, set()).add(cls)
    wide = {pat for pat, cl in by_pat.items() if len(cl) >= 3}
    for case, res in shrunk:
        trig = res["trigger"]
        if res["clause"] == "functional-differs":
            cls, _, pat = trig.partition(":")
            if len(wide) >= 3:
                trig = "any-class:any-keyword"
            elif pat in wide:
                trig = "any-class:" + pat
        ctx.impl_fail(f"{res['clause']}/{trig}", res["what"], case)


def search(ctx, big):
    rng = ctx.rng
    mult = (2 if ctx.tier == "quick" else 5) if big else 1
    obj_classes = [c for c in REAL_CLASSES]
    # object forms: every class appears as the first source of some configurations, all four fields
    n_obj = ctx.n(8, 120) * mult
    for cls in obj_classes:
        for i in range(n_obj):
            case = F.gen_obj_case(rng, obj_classes, field=F.FIELDS[i % 4], first_cls=cls,
                                  battery="many" if i % 8 == 7 else None)
            ctx.bump(f"object-forms:scale={case['scale']:g}")
            if len(case["sources"]) >= 4:
                ctx.bump("object-forms:>=4-sources")
            res = F.run_case(case)
            ctx.case(("obj", json.dumps(case, sort_keys=True)), True)
            ctx.bump("object-forms:" + cls)
            if len(case["sources"]) > 1 and case["sources"][0]["cls"] == case["sources"][1]["cls"] \
                    and any(case["sources"][0]["params"].get(k) == case["sources"][1]["params"].get(k)
                            for k in ("dimension", "diameter", "vertices", "tm_vertices")):
                ctx.bump("object-forms:twin-instances")
            if res:
                report(ctx, case, res)
    ctx.samples.append({"object_forms_case": case})
    # dataframe
    for i in range(ctx.n(60, 800) * mult):
        case = F.gen_obj_case(rng, obj_classes, field=F.FIELDS[i % 4])
        case["kind"] = "dataframe"
        if i % 3 == 0:
            case["pixel_agg"] = rng.choice(F.AGGS)
        if i % 4 == 0:
            case["sumup"] = True
        res = F.run_case(case)
        ctx.case(("df", json.dumps(case, sort_keys=True)), True)
        ctx.bump("dataframe" + (":agg" if case["pixel_agg"] else "") + (":sumup" if case.get("sumup") else ""))
        if res:
            report(ctx, case, res)
    # roles
    for i in range(ctx.n(20, 200) * mult):
        case = F.gen_obj_case(rng, obj_classes, field=F.FIELDS[i % 4])
        case["kind"] = "roles"
        res = F.run_case(case)
        ctx.case(("roles-impl", json.dumps(case, sort_keys=True)), True)
        ctx.bump("roles-impl")
        if res:
            report(ctx, case, res)
    # functional interface: every registered class (CustomSource has no parameters to hand over: no functional form)
    n_fun = ctx.n(40, 600) * mult
    func_fails = []
    for cls in [c for c in REAL_CLASSES if c != "CustomSource"] + ["PolylineSeg"]:
        for i in range(n_fun):
            case = F.gen_func_case(rng, cls, field=F.FIELDS[i % 4])
            res = F.run_case(case)
            ctx.case(("func", json.dumps(case, sort_keys=True)), any(m != "single" for m in case["modes"].values()))
            ctx.bump("functional:" + cls)
            for k, m in case["modes"].items():
                ctx.bump(f"functional-mode:{m}")
            if res:
                func_fails.append((case, res))
    # every single/batch(/ragged) assignment of every keyword, per class
    import itertools
    sweep_n = [2] if ctx.tier == "quick" and not big else [1, 2, 5]
    fi = 0
    for cls in [c for c in REAL_CLASSES if c != "CustomSource"] + ["PolylineSeg"]:
        keys = {"Polyline": ["current", "vertices"], "Line": ["current", "vertices"],
                "PolylineSeg": ["current", "segment_start", "segment_end"]}.get(cls) or list(F.SPEC_RANK[cls])
        allk = keys + ["position", "orientation", "observers"]
        choices = [["single", "batch"] + (["ragged"] if (cls, k) in F.RAGGED_OK else []) for k in allk]
        for combo in itertools.product(*choices):
            for n in sweep_n:
                if "ragged" in combo and n < 2:
                    continue
                for f in (F.FIELDS if ctx.tier == "thorough" else F.FIELDS[fi % 4]):
                    case = F.gen_func_case(rng, cls, field=f, n=n, modes=dict(zip(allk, combo)))
                    res = F.run_case(case)
                    ctx.case(("func", json.dumps(case, sort_keys=True)), any(m != "single" for m in combo))
                    ctx.bump("functional-sweep:" + cls)
                    if res:
                        func_fails.append((case, res))
                fi += 1
    report_functional(ctx, func_fails)
    ctx.samples.append({"functional_case": {k: case[k] for k in ("cls", "field", "n", "modes")}})
    # core
    import magpylib.core as core
    if set(core.__all__) != set(F.CORE_FUNCTIONS):
        ctx.add_broken("broken-correspondence", "magpylib.core.__all__",
                       f"core functions {sorted(core.__all__)} vs covered {sorted(F.CORE_FUNCTIONS)}")
    for cls in F.CORE_CLASSES:
        regions = ["segment", "segment-r1=0", "full-ring", "full-solid", "near-full"] if cls == "CylinderSegment" else [None]
        for i in range(ctx.n(32, 300) * mult * (2 if cls == "CylinderSegment" else 1)):
            case = F.gen_core_case(rng, cls, region=regions[i % len(regions)])
            if regions[0]:
                ctx.bump("core:CylinderSegment:" + regions[i % len(regions)])
            res = F.run_case(case)
            ctx.case(("core", json.dumps(case, sort_keys=True)), True)
            ctx.bump("core:" + cls)
            if res:
                report(ctx, case, res)


def run(ctx):
    ctx.extra["rule"] = (
        "correspondence cases: one keyword dictionary of getBH_dict_level2 described by shapes (registered classes "
        "with every single/batch/ragged assignment, random conforming calls, and 'wild' calls with arbitrary tables on "
        "a harness-defined source class, odd shapes, None, unknown classes); role cases: random collection trees x "
        "number of inputs; search cases: random configurations (1-3 sources incl. paths, 1-3 sensors with pixels, "
        "rotations, handedness) x call forms x B,H,J,M, functional calls with n in {1,2,5} instances and a random "
        "single/batch/ragged mode per keyword, core calls; distinct by canonical JSON; a functional case is "
        "non-trivial if at least one keyword is given per instance, all others always")
    ctx.trusted += [
        "translator translate/gen_tables.py (ast -> registered classes with effective _field_func_kwargs_ndim, base "
        "table and default rank of getBH_dict_level2); cross-checked on every run against the interpreter's tables",
        "translator translate/gen_dictarith.py (every statement of getBH_dict_level2 into the deep embedding pyexp of "
        "Model/L2Arith.v, reusing the expression translator of translate/gen_l2arith.py) and the evaluators of "
        "Model/DictArith.v that give the translated conditions / tiling factors a meaning",
        "Model/Level2Model.v (builder l2a's model of _getBH_level2, imported read-only) in the partial theorems that "
        "compare the rows of the functional interface with those of group_field",
        "translator translate/gen_ifaces.py (ast -> the 16 getB/H/J/M wrappers as call rows, _validate_getBH_inputs "
        "as an if-chain, the dataframe block of _getBH_level2; format_star_input compared literally)",
        "hand model coq/Model/DictIface.v of getBH_dict_level2 (shapes only), _validate_getBH_inputs and the dataframe "
        "assembly; the first two tied by correspondence (getBH_level1 intercepted in-process to observe the shapes), "
        "the dataframe model by the implementation-level dataframe oracle",
        "spec_table (documented rank of one instance's value per parameter) is written by hand from the docstrings",
        "np.squeeze / np.tile / np.array / itertools.product / reshape are modelled, not verified; equality of the "
        "field NUMBERS across interfaces is tested (search), not proved: the field cores are not modelled",
    ]
    ok = ctx.regen(["GenTables", "GenIfaces", "GenDictArith"])
    ctx.partial += ["C07_functional_rows_partial", "C07_functional_field_partial"]
    built = ctx.build_props() and ok
    if built:
        # the reflexive table obligations of this run: one per registered class row of the regenerated GenTables
        # (C07_rank_tables_meet_spec decides them all by vm_compute)
        nreg = len(get_registered_sources()) - (1 if "C07Stub" in get_registered_sources() else 0)
        ctx.obligations += nreg
        ctx.discharged += nreg
    if ctx.tier == "thorough" and built:
        ctx.coqchk("MV.Props.C07")
    run_guarded(ctx, lambda: tables_tie(ctx, built), "C07 tables tie")
    run_guarded(ctx, lambda: dict_correspondence(ctx, built), "C07 dict correspondence")
    run_guarded(ctx, lambda: role_correspondence(ctx, built), "C07 role correspondence")
    run_guarded(ctx, lambda: observer_correspondence(ctx, built), "C07 observer-list correspondence")
    big = bool(ctx.broken)
    run_guarded(ctx, lambda: search(ctx, big), "C07 search")


def replay(ctx, obj):
    rp = obj.get("replay", obj)
    if isinstance(rp, dict) and rp.get("kind") in F.CHECKS:
        res = F.run_case(rp)
        if res is None:
            print("replay: property holds on this case")
            return 0
        print(f"replay: FAILS [{res['clause']}/{res['trigger']}] {res['what']}")
        print(f"VIOLATION property=C07 replay={obj.get('how_to_rerun', '').split()[-1] or 'given'}")
        return 1
    print(json.dumps(obj, indent=1)[:3000])
    return 0
