"""C18 -- copy() yields an equal, fully independent, parentless object.

stage 2  Props/C18.v (hand model coq/Model/CopyModel.v: ForestModel + a heap of cells; deepcopy is
         modelled as a clone of the subtree in which every mutable cell is fresh).
stage 3  correspondence: random scripts over all object classes (new / tree operations / copy with
         keyword overrides / setters, move, rotate, in-place writes, style updates, labels).  After
         EVERY operation every object of the world is observed WITHOUT touching it (parent,
         children, value token of every mutable attribute slot, effective style, label, lazy-style
         flags, sharing classes of all buffers) and compared with the Coq model (vm_compute).  The
         effect of a setter on the values is calibrated on a scratch twin (a fresh object rebuilt
         from the recipe of the object); the model predicts where the new values live and that
         nothing else changes.
stage 4  search: the property text itself on the real objects, independent of the model: a random
         script ends with y = x.copy(**kw) followed by mutations of ONE side; clauses same_class,
         equal_values, override, label, same_field, parentless, original_untouched,
         subtree_consistent, shared_state.  Counterexamples are shrunk; signature
         <clause>/<class>:<trigger>.
"""
import functools
import json
import os
import re
import traceback
import types
import warnings
from copy import deepcopy

import numpy as np
from scipy.spatial.transform import Rotation as R

import magpylib as magpy

from harness.common import COQ, Lock, ensure_makefile, run_guarded, sh
from harness.props.C11 import UNKNOWN, check_invariant
from harness.shrink import shrink_list

TREE_ATTRS = ("_children", "_sources", "_sensors", "_collections")
NOT_SLOT = ("_parent", "_style", "_style_kwargs") + TREE_ATTRS
LABEL_BASES = {"a": 1, "b": 2, "c": 3, "d": 4, "col": 5, "x": 6}
BASE_NAMES = {v: k for k, v in LABEL_BASES.items()}
OBSERVERS = np.array([[2.37, 1.71, 3.13], [-1.93, 2.61, -2.29], [0.31, -4.17, 1.09]])


class Skip(Exception):
    """the operation refers to objects that do not exist / is not applicable (only while shrinking)"""


# ------------------------------------------------------------------ field functions of CustomSource
def ff_plain(field, observers):
    return np.zeros_like(observers, dtype=float) + (1.0 if field == "B" else 2.0)


def ff_scaled(field, observers, k):
    return np.zeros_like(observers, dtype=float) + k * (1.0 if field == "B" else 3.0)


# ------------------------------------------------------------------ canonical deep encoding of values
IMMUTABLE = (type(None), bool, int, float, complex, str, bytes, types.FunctionType,
             types.BuiltinFunctionType, type, types.ModuleType, np.generic)


def is_mutable_value(v):
    if isinstance(v, IMMUTABLE):
        return False
    if isinstance(v, (tuple, frozenset)):
        return any(is_mutable_value(e) for e in v)
    return True


def enc(v):
    """canonical, deep, exact encoding of a value (bit patterns of arrays; quaternions rounded)"""
    if v is None or isinstance(v, (bool, int, str, bytes)):
        return repr(v)
    if isinstance(v, (float, np.floating)):
        return float(v).hex()
    if isinstance(v, np.integer):
        return repr(int(v))
    if isinstance(v, np.ndarray):
        return f"A{v.dtype.str}{v.shape}:{np.ascontiguousarray(v).tobytes().hex()}"
    if isinstance(v, R):
        q = np.round(np.atleast_2d(v.as_quat()), 12) + 0.0
        return f"R{int(bool(v.single))}{q.shape}:{q.tobytes().hex()}"
    if isinstance(v, (list, tuple)):
        return ("[" if isinstance(v, list) else "(") + ",".join(enc(e) for e in v) + "]"
    if isinstance(v, dict):
        return "{" + ",".join(f"{k!r}:{enc(v[k])}" for k in sorted(v, key=repr)) + "}"
    if isinstance(v, (set, frozenset)):
        return "S{" + ",".join(sorted(enc(e) for e in v)) + "}"
    if isinstance(v, functools.partial):
        return f"P({enc(v.func)};{enc(v.args)};{enc(v.keywords)})"
    if isinstance(v, types.MethodType):
        return f"M({v.__func__.__qualname__};{enc(v.__self__)})"
    if isinstance(v, (types.FunctionType, types.BuiltinFunctionType, type)):
        return f"F:{getattr(v, '__module__', '')}.{getattr(v, '__qualname__', repr(v))}"
    if hasattr(v, "as_dict"):
        return f"Y:{type(v).__name__}{enc(v.as_dict())}"
    if hasattr(v, "__dict__"):
        return f"O:{type(v).__name__}{enc(vars(v))}"
    return f"?:{type(v).__name__}:{v!r}"


def walk(v, ids, arrs, seen):
    """identities of every mutable object reachable from v (+ the ndarrays, for memory overlap)"""
    if isinstance(v, IMMUTABLE) or id(v) in seen:
        return
    seen.add(id(v))
    if isinstance(v, np.ndarray):
        ids.append(id(v))
        arrs.append(v)
        if v.dtype == object:
            for e in v.flat:
                walk(e, ids, arrs, seen)
    elif isinstance(v, R):
        ids.append(id(v))
    elif isinstance(v, (tuple, frozenset)):
        for e in v:
            walk(e, ids, arrs, seen)
    elif isinstance(v, (list, set)):
        ids.append(id(v))
        for e in v:
            walk(e, ids, arrs, seen)
    elif isinstance(v, dict):
        ids.append(id(v))
        for e in v.values():
            walk(e, ids, arrs, seen)
    elif isinstance(v, functools.partial):
        ids.append(id(v))
        walk(v.args, ids, arrs, seen)
        walk(v.keywords, ids, arrs, seen)
    elif isinstance(v, types.MethodType):
        walk(v.__self__, ids, arrs, seen)
    elif hasattr(v, "__dict__"):
        ids.append(id(v))
        for e in vars(v).values():
            walk(e, ids, arrs, seen)
    else:
        ids.append(id(v))


def byte_bounds(a):
    lo = a.__array_interface__["data"][0]
    hi = lo
    for n, s in zip(a.shape, a.strides):
        if s > 0:
            hi += (n - 1) * s
        else:
            lo += (n - 1) * s
    return lo, hi + a.itemsize


def overlapping_pairs(arrs):
    """pairs (i, j) of arrays that share memory (exact; sweep over address intervals)"""
    items = sorted(((byte_bounds(a) + (k,)) for k, a in enumerate(arrs) if a.size > 0), key=lambda t: t[0])
    out, active = [], []
    for lo, hi, k in items:
        active = [(h, j) for h, j in active if h > lo]
        for _, j in active:
            if np.shares_memory(arrs[j], arrs[k]):
                out.append((j, k))
        active.append((hi, k))
    return out


class UF:
    def __init__(self):
        self.p = {}

    def find(self, x):
        p = self.p
        p.setdefault(x, x)
        while p[x] != x:
            p[x] = p[p[x]]
            x = p[x]
        return x

    def union(self, a, b):
        a, b = self.find(a), self.find(b)
        if a != b:
            self.p[b] = a


# ------------------------------------------------------------------ style, read without touching
_DEFAULT_STYLE = {}
_PENDING_CACHE = {}


def strip_label(d):
    d = dict(d)
    lab = d.pop("label", None)
    return d, lab


def default_style_enc(cls):
    if cls not in _DEFAULT_STYLE:
        _DEFAULT_STYLE[cls] = enc(strip_label(cls._style_class().as_dict())[0])
    return _DEFAULT_STYLE[cls]


def plain(v):
    """plain-data deep copy (dicts/lists/tuples/arrays; style objects become their as_dict()).
    copy.deepcopy is NOT used on anything that may contain style objects: it is under test."""
    if hasattr(v, "as_dict"):
        return plain(v.as_dict())
    if isinstance(v, dict):
        return {k: plain(x) for k, x in v.items()}
    if isinstance(v, list):
        return [plain(x) for x in v]
    if isinstance(v, tuple):
        return tuple(plain(x) for x in v)
    if isinstance(v, np.ndarray):
        return v.copy()
    return v


def style_obs(obj):
    """(encoding of the effective style without label, label) -- never touches obj.style"""
    st = obj.__dict__.get("_style")
    kw = obj.__dict__.get("_style_kwargs")
    if st is not None:
        d, lab = strip_label(st.as_dict())
        return enc(d), lab
    if kw:
        key = (type(obj), enc(kw))
        if key not in _PENDING_CACHE:
            scratch = type(obj)._style_class()
            scratch.update(plain(kw))
            d, lab = strip_label(scratch.as_dict())
            _PENDING_CACHE[key] = (enc(d), lab)
        return _PENDING_CACHE[key]
    return default_style_enc(type(obj)), None


def eff_style_dict(obj):
    """deep copy of the effective style as a dict (with label) or None when there is no style"""
    st = obj.__dict__.get("_style")
    kw = obj.__dict__.get("_style_kwargs")
    if st is not None:
        return plain(st.as_dict())
    if kw:
        scratch = type(obj)._style_class()
        scratch.update(plain(kw))
        return plain(scratch.as_dict())
    return None


def scratch_style_after(obj_cls, eff, updates):
    """encoding (without label) of a scratch style = effective dict `eff` then each update"""
    scratch = obj_cls._style_class()
    if eff is not None:
        scratch.update(plain(eff))
    for u in updates:
        u(scratch)
    d, lab = strip_label(scratch.as_dict())
    return enc(d), lab


def label_code(s, clsname):
    """None | (base, iter): 'a' -> (1,0), 'a_02' -> (1,2), 'Cuboid_01' -> (0,1)"""
    if s is None:
        return None
    if not isinstance(s, str):
        raise RuntimeError(f"label {s!r} is not a string")
    m = re.fullmatch(r"(.*?)(?:_(\d{2,}))?", s)
    base, it = m.group(1), int(m.group(2) or 0)
    if base == clsname:
        b = 0
    elif base in LABEL_BASES:
        b = LABEL_BASES[base]
    else:
        raise RuntimeError(f"label {s!r} of a {clsname} cannot be parsed")
    if label_text((b, it), clsname) != s:
        raise RuntimeError(f"label {s!r} of a {clsname} does not round-trip")
    return (b, it)


def label_text(code, clsname):
    if code is None:
        return None
    b, it = code
    base = clsname if b == 0 else BASE_NAMES[b]
    return base if it == 0 else f"{base}_{it:02d}"


def ref_iterate(label, clsname):
    """the documented label iteration, written independently of add_iteration_suffix"""
    if label is None:
        return f"{clsname}_01"
    m = re.search(r"(\d+)$", label)
    if m:
        digits = m.group(1)
        return label[:len(label) - len(digits)] + str(int(digits) + 1).zfill(len(digits))
    return label + ("" if label.endswith("_") else "_") + "01"


# ------------------------------------------------------------------ constructing objects from JSON
def mk_rot(spec):
    if spec is None:
        return None
    return R.from_rotvec(np.array(spec, dtype=float), degrees=True)


TETRA_V = [(0, 0, 0), (1, 0, 0), (0, 1, 0), (0, 0, 1)]
TETRA_F = [(0, 2, 1), (0, 1, 3), (1, 2, 3), (0, 3, 2)]


def val_in(v):
    """{"np": data}: the value is passed as a float64 ndarray instead of nested lists"""
    if isinstance(v, dict) and "np" in v:
        return np.array(v["np"], dtype=float)
    return deepcopy(v)


def make_mesh(a, kw):
    """TriangularMesh through the plain constructor or one of the from_* constructors"""
    TM = magpy.magnet.TriangularMesh
    via = a.get("via")
    verts, faces = np.array(val_in(a["vertices"]), dtype=float), np.array(a["faces"], dtype=int)
    if via == "ConvexHull":
        return TM.from_ConvexHull(points=verts, polarization=a["polarization"], **kw)
    if via == "mesh":
        return TM.from_mesh(mesh=verts[faces], polarization=a["polarization"], **kw)
    if via == "triangles":
        tris = [magpy.misc.Triangle(vertices=verts[f], polarization=(0, 0, 1)) for f in faces]
        return TM.from_triangles(triangles=tris, polarization=a["polarization"], **kw)
    if via == "pyvista":
        try:
            import pyvista
            poly = pyvista.PolyData(verts, np.hstack([np.full((len(faces), 1), 3), faces]).ravel())
            return TM.from_pyvista(polydata=poly, polarization=a["polarization"], **kw)
        except ImportError:
            pass
    return TM(vertices=verts, faces=faces, polarization=a["polarization"], **kw)


def make_object(cls, args, style_kwargs=None):
    a = {k: (v if k in ("faces", "via", "ff", "k", "handedness", "orientation") else val_in(v)) for k, v in args.items()}
    kw = {}
    kw["position"] = a.pop("position", (0, 0, 0))
    kw["orientation"] = mk_rot(a.pop("orientation", None))
    kw.update(style_kwargs or {})
    with warnings.catch_warnings():
        warnings.simplefilter("ignore")
        if cls == "Sensor":
            return magpy.Sensor(pixel=a["pixel"], handedness=a.get("handedness", "right"), **kw)
        if cls == "Cuboid":
            return magpy.magnet.Cuboid(dimension=a.get("dimension"), polarization=a.get("polarization"), **kw)
        if cls == "Cylinder":
            return magpy.magnet.Cylinder(dimension=a["dimension"], polarization=a["polarization"], **kw)
        if cls == "CylinderSegment":
            return magpy.magnet.CylinderSegment(dimension=a["dimension"], polarization=a["polarization"], **kw)
        if cls == "Sphere":
            return magpy.magnet.Sphere(diameter=a["diameter"], polarization=a["polarization"], **kw)
        if cls == "Tetrahedron":
            return magpy.magnet.Tetrahedron(vertices=a["vertices"], polarization=a["polarization"], **kw)
        if cls == "Triangle":
            return magpy.misc.Triangle(vertices=a["vertices"], polarization=a["polarization"], **kw)
        if cls == "TriangularMesh":
            return make_mesh(a, kw)
        if cls == "Circle":
            return magpy.current.Circle(diameter=a.get("diameter"), current=a.get("current"), **kw)
        if cls == "Polyline":
            return magpy.current.Polyline(vertices=a["vertices"], current=a["current"], **kw)
        if cls == "Dipole":
            return magpy.misc.Dipole(moment=a["moment"], **kw)
        if cls == "CustomSource":
            ff = a.get("ff")
            func = None if ff is None else ff_plain if ff == "func" else \
                functools.partial(ff_scaled, k=np.array(a["k"], dtype=float))
            return magpy.misc.CustomSource(field_func=func, **kw)
        if cls == "Collection":
            return magpy.Collection(**kw)
    raise ValueError(cls)


KIND_OF = {"Sensor": "sensor", "Collection": "coll"}
CLASSES = ["Sensor", "Cuboid", "Cylinder", "CylinderSegment", "Sphere", "Tetrahedron", "Triangle",
           "TriangularMesh", "Circle", "Polyline", "Dipole", "CustomSource", "Collection"]


def style_ctor_kwargs(style):
    """{"kw": {...}, "dict": {...}|None} -> keyword arguments of a constructor / of copy()"""
    out = {}
    if not style:
        return out
    if style.get("dict") is not None:
        out["style"] = deepcopy(style["dict"])
    for k, v in (style.get("kw") or {}).items():
        out["style_" + k] = deepcopy(v)
    if style.get("traces"):
        out["style_model3d_data"] = [build_trace(t) for t in style["traces"]]
    return out


def style_override_dict(skw):
    """the dictionary that copy(**skw) / Class(**skw) must apply to the style, computed WITHOUT
    BaseGeo._process_style_kwargs: a copy of the style= dictionary (if given), updated with every
    style_xxx keyword stripped of its prefix; None values are values like any other"""
    d = dict(skw["style"]) if isinstance(skw.get("style"), dict) else {}
    d.update({k[6:]: v for k, v in skw.items() if k.startswith("style_")})
    return d


def flat_leaves(d, prefix=""):
    """nested style dict -> {magic_underscore_leaf: value} (lists, e.g. model3d data, are leaves)"""
    out = {}
    for k, v in d.items():
        if isinstance(v, dict):
            out.update(flat_leaves(v, prefix + k + "_"))
        else:
            out[prefix + k] = v
    return out


def nest(flat):
    out = {}
    for k, v in flat.items():
        parts, d = k.split("_"), out
        for q_ in parts[:-1]:
            d = d.setdefault(q_, {})
        d[parts[-1]] = v
    return out


def alt_notation(skw):
    """the same style overrides in the other notation: style={nested dict} <-> style_a_b_c=.. keywords"""
    leaves = flat_leaves(style_override_dict(skw))
    if not leaves or any(isinstance(v, list) for v in leaves.values()):
        return None
    if "style" in skw:                       # -> keywords only
        return {"style_" + k: v for k, v in leaves.items()}
    return {"style": nest(leaves)}           # -> one nested dictionary


def build_trace(spec):
    """JSON trace specification -> keyword arguments of Trace3d / add_trace ("np": arrays inside)"""
    as_np = spec.get("np")
    t = {k: deepcopy(v) for k, v in spec.items() if k != "np"}
    if "args" in t:
        t["args"] = tuple(np.array(a, dtype=float) if as_np else a for a in t["args"])
    if "kwargs" in t and as_np:
        t["kwargs"] = {k: (np.array(v, dtype=float) if isinstance(v, list) else v) for k, v in t["kwargs"].items()}
    return t


def traces_of(obj):
    """the user traces of the effective style as plain dicts, without touching obj.style"""
    eff = eff_style_dict(obj)
    return [] if eff is None else eff["model3d"]["data"]


def attr_value(name, val, src=None, get=None):
    """python value of a JSON attribute value.  {"alias": attr, "slice": k}: the very object that the
    public attribute `attr` of `src` returns (a view of its buffer), optionally its first k path steps"""
    if isinstance(val, dict) and "alias" in val:
        if val.get("from") is not None:       # the attribute of ANOTHER object (e.g. a child, the copy)
            src = None if get is None else get(val["from"])
        if src is None:
            raise Skip()
        v = getattr(src, val["alias"])
        if val.get("slice") is not None:
            if not (isinstance(v, np.ndarray) and v.ndim == 2 and 1 <= val["slice"] <= len(v)):
                raise Skip()
            v = v[:val["slice"]]
        return v
    if name == "orientation":
        return mk_rot(val)
    if name == "field_func":
        return None if val is None else ff_plain if val == "func" else \
            functools.partial(ff_scaled, k=np.array(val, dtype=float))
    return val_in(val)


# ------------------------------------------------------------------ mutations of ONE object
def slot_names(obj):
    return [n for n in sorted(obj.__dict__) if n not in NOT_SLOT and is_mutable_value(obj.__dict__[n])]


def write_into(buf, val):
    """in-place write into a buffer; returns False if nothing can be written"""
    if isinstance(buf, np.ndarray):
        if buf.size == 0:
            return False
        buf[...] = buf + (int(val) if buf.dtype.kind in "iu" else val)
        return True
    if isinstance(buf, list):
        for e in buf:
            if write_into(e, val):
                return True
        return False
    if isinstance(buf, functools.partial):
        for e in list(buf.keywords.values()) + list(buf.args):
            if write_into(e, val):
                return True
        return False
    return False


def mutate(obj, m, get=None):
    """apply the mutation m (JSON) to the python object; raises Skip when not applicable"""
    k = m["k"]
    with warnings.catch_warnings():
        warnings.simplefilter("ignore")
        if k == "set":
            if not isinstance(getattr(type(obj), m["attr"], None), property):
                raise Skip()
            setattr(obj, m["attr"], attr_value(m["attr"], m["val"], obj, get))
        elif k == "move":
            obj.move(m["disp"], start=m.get("start", "auto"))
        elif k == "rotate":
            obj.rotate_from_angax(m["angle"], m["axis"], anchor=m.get("anchor"), start=m.get("start", "auto"))
        elif k == "reset":
            obj.reset_path()
        elif k == "rotfrom":
            if m["how"] == "euler":
                obj.rotate_from_euler(m["angle"], m["seq"], anchor=m.get("anchor"), start=m.get("start", "auto"),
                                      degrees=m.get("degrees", True))
            else:
                obj.rotate_from_rotvec(m["angle"], anchor=m.get("anchor"), start=m.get("start", "auto"),
                                       degrees=m.get("degrees", True))
        elif k == "reorient":
            if not isinstance(obj, magpy.magnet.TriangularMesh):
                raise Skip()
            obj.reorient_faces()
        elif k == "read":
            if m["what"] == "repr":
                repr(obj)
            elif m["what"] == "describe":
                obj.describe(return_string=True)
            else:
                field_of(obj)
        elif k == "write":
            if m["slot"] not in obj.__dict__ or m["slot"] in NOT_SLOT:
                raise Skip()
            if not write_into(obj.__dict__[m["slot"]], m["val"]):
                raise Skip()
        elif k in STYLE_MUT:
            if k == "trace":          # applicability is decided WITHOUT touching obj.style
                trs = traces_of(obj)
                if m["idx"] >= len(trs) or not trace_mut_applicable(trs[m["idx"]], m["what"]):
                    raise Skip()
            if k == "styleset":
                obj.style = deepcopy(m["val"])       # the public setter route
            else:
                style_mutation_on(obj.style, m)
        elif k == "label":
            obj.style.label = m["label"]
        elif k == "childstyles":
            if not isinstance(obj, magpy.Collection):
                raise Skip()
            obj.set_children_styles(deepcopy(m["upd"]))
        else:
            raise ValueError(k)


def trace_mut_applicable(tr, what):
    if what == "kwx":
        return isinstance(tr.get("kwargs"), dict) and "x" in tr["kwargs"]
    if what == "kwmode":
        return isinstance(tr.get("kwargs"), dict)
    if what == "arg0":
        return isinstance(tr.get("args"), tuple) and len(tr["args"]) > 0
    return True


def style_mutation_on(style, m):
    """the style mutation m on a style object (the real one or a scratch one)"""
    k = m["k"]
    if k == "style":
        style.update(deepcopy(m["upd"]))
    elif k == "styleset":
        style.update(deepcopy(m["val"]))        # obj.style = dict  ==  obj.style.update(dict)
    elif k == "nested":
        tgt = style
        for name in m["path"][:-1]:
            tgt = getattr(tgt, name)
        setattr(tgt, m["path"][-1], deepcopy(m["val"]))
    elif k == "touch":
        pass
    elif k == "addtrace":
        style.model3d.add_trace(**build_trace(m["trace"]))
    elif k == "trace":                           # in-place mutation of a user trace
        t = style.model3d.data[m["idx"]]
        what = m["what"]
        if what == "show":
            t.show = not t.show
        elif what == "scale":
            t.scale = m.get("val", 5)
        elif what == "constructor":
            t.constructor = m.get("val", "Mesh3d")
        elif what == "kwx":
            t.kwargs["x"][0] = 99
        elif what == "kwmode":
            t.kwargs["mode"] = m.get("val", "markers")
        elif what == "arg0":
            t.args[0][0] = 99
        else:
            raise ValueError(what)
    else:
        raise ValueError(k)


def apply_overrides(obj, attrs, get=None):
    """what copy(**attrs) does to the copy, on a twin: all values are taken (from the twin's own
    attributes where they alias) BEFORE the first setattr, then assigned in order"""
    vals = [(name, attr_value(name, val, obj, get)) for name, val in attrs]
    for name, v in vals:
        setattr(obj, name, v)


VALUE_MUT = ("set", "move", "rotate", "reset", "write", "rotfrom", "reorient")
STYLE_MUT = ("style", "nested", "styleset", "touch", "addtrace", "trace")


def mut_name(m):
    k = m["k"]
    if k == "set":
        return "set:" + m["attr"]
    if k == "write":
        return "write:" + m["slot"]
    if k == "move":
        return "move:" + ("path" if np.ndim(m["disp"]) == 2 else "scalar")
    if k == "nested":
        return "style." + ".".join(m["path"])
    if k == "style":
        return "style.update"
    if k == "trace":
        return "style.model3d.data[i]." + m["what"]
    if k == "addtrace":
        return "style.model3d.add_trace"
    if k == "rotfrom":
        return "rotate_from_" + m["how"]
    if k == "read":
        return "read:" + m["what"]
    return k


# ------------------------------------------------------------------ the world of real objects
BAD_KW = {"position": {"position": "bad"}, "orientation": {"orientation": "bad"}, "nonsense": {"nonsense": 1},
          "style_nonsense": {"style_nonsense": 1}, "style_bad_value": {"style_opacity": "very"},
          "dimension": {"dimension": "bad"}}


class World:
    """objects by creation index.  model=True additionally produces, for every operation, the Coq
    `cop` (setter effects calibrated on scratch twins) and supports observe()."""

    phantom = False     # set by probe_model(): CopyExec numbers the cell 0 for dead rows

    def __init__(self, model=True):
        self.model = model
        self.cell0 = None       # the buffer that is heap cell 0 of the model (first slot ever created)
        self.objs, self.kinds, self.ids = [], [], {}
        self.recipes = []       # per row: [("new", cls, args), ("mut", m) | ("kw", name, val) ...] | None
        self.tokens = {}
        self.last_copy = None   # (x, n) of the last copy
        self.stats = {}
        self.clones = set()

    # ---- registry (compatible with harness.props.C11.check_invariant)
    def reg(self, obj, kind, recipe=None):
        self.objs.append(obj)
        self.kinds.append(kind)
        self.recipes.append(recipe)
        if kind != "junk" and id(obj) not in self.ids:
            self.ids[id(obj)] = len(self.objs) - 1
        return len(self.objs) - 1

    def idx(self, obj):
        return None if obj is None else self.ids.get(id(obj), UNKNOWN)

    def stat(self, key):
        self.stats[key] = self.stats.get(key, 0) + 1

    def get(self, i, kinds=None):
        if not (isinstance(i, int) and 0 <= i < len(self.objs)) or self.kinds[i] == "junk":
            raise Skip()
        if kinds is not None and self.kinds[i] not in kinds:
            raise Skip()
        return self.objs[i]

    def many(self, ids):
        return [self.get(i) for i in ids]

    def live(self):
        return [i for i, k in enumerate(self.kinds) if k != "junk"]

    def subtree(self, i):
        out, o = [i], self.objs[i]
        if self.kinds[i] == "coll":
            for ch in o._children:
                j = self.idx(ch)
                if j in (None, UNKNOWN):
                    raise RuntimeError("a child is not a registered object")
                out += self.subtree(j)
        return out

    def token(self, encoding):
        return self.tokens.setdefault(encoding, len(self.tokens) + 1)

    def slot_tokens(self, obj):
        return [self.token(enc(obj.__dict__[n])) for n in slot_names(obj)]

    def style_token(self, obj_cls, style_enc):
        return 0 if style_enc == default_style_enc(obj_cls) else self.token("style:" + style_enc)

    # ---- scratch twin
    def twin(self, i):
        rec = self.recipes[i]
        t = make_object(rec[0][1], rec[0][2])
        for step in rec[1:]:
            if step[0] == "mut":
                mutate(t, step[1])
            else:
                apply_overrides(t, step[1])
        return t

    def calibrate(self, i, fn):
        """effect of fn on the mutable slots, measured on a scratch twin of object i:
        (rebound [(slot, token)], written in place [(slot, token)])"""
        t = self.twin(i)
        names = slot_names(t)
        if names != slot_names(self.objs[i]):
            raise RuntimeError(f"slots of the scratch twin {names} differ from the object's "
                               f"{slot_names(self.objs[i])}")
        before = [t.__dict__[n] for n in names]
        btok = [self.token(enc(v)) for v in before]
        fn(t)
        if slot_names(t) != names:
            raise RuntimeError("the set of mutable slots changed under a mutation")
        rebound, written = [], []
        for j, n in enumerate(names):
            v = t.__dict__[n]
            tk = self.token(enc(v))
            if v is not before[j]:
                rebound.append((j, tk))
            elif tk != btok[j]:
                written.append((j, tk))
        return rebound, written

    # ---- one operation through the public API; returns the Coq text of the `cop` (model=True)
    def apply(self, op):
        k = op["op"]
        if k == "new":
            return self.op_new(op)
        if k == "pad":
            self.reg(0, "junk")
            return "(CNew KJunk [] 0 0 None)"
        if k == "padcopy":
            if self.model:
                raise RuntimeError("padcopy must be expanded by the caller")
            for _ in range(len(self.objs)):
                self.reg(0, "junk")
            return None
        if k == "add":
            c, objs = self.get(op["c"], ("coll",)), self.many(op["objs"])
            c.add(*objs, override_parent=op["ov"])
            return f"(CTree (Add {op['c']} {cl(op['objs'])} {cb(op['ov'])}))"
        if k == "remove":
            c, objs = self.get(op["c"], ("coll",)), self.many(op["objs"])
            c.remove(*objs, recursive=op["rec"], errors="raise")
            return f"(CTree (Remove {op['c']} {cl(op['objs'])} {cb(op['rec'])} ERaise))"
        if k == "parent":
            x = self.get(op["x"])
            x.parent = None if op["p"] is None else self.get(op["p"], ("coll",))
            return f"(CTree (SetParent {op['x']} {co(op['p'])}))"
        if k == "children":
            c = self.get(op["c"], ("coll",))
            c.children = self.many(op["objs"])
            return f"(CTree (SetChildren {op['c']} {cl(op['objs'])}))"
        if k == "typed":
            c = self.get(op["c"], ("coll",))
            setattr(c, {"source": "sources", "sensor": "sensors", "coll": "collections"}[op["k"]],
                    self.many(op["objs"]))
            return f"(CTree (SetTyped {KINDC[op['k']]} {op['c']} {cl(op['objs'])}))"
        if k == "copy":
            return self.op_copy(op)
        if k == "defaults":
            if self.model:
                raise Skip()
            if op["how"] == "update":
                magpy.defaults.display.style.magnet.magnetization.show = False
                magpy.defaults.display.style.base.opacity = 0.5
                magpy.defaults.display.style.sensor.size = 3
            else:
                magpy.defaults.reset()
            return None
        if k == "mut":
            return self.op_mut(op)
        raise ValueError(k)

    def op_new(self, op):
        cls, style, sm = op["cls"], op.get("style"), op.get("sm", 0)
        obj = make_object(cls, op["args"], style_ctor_kwargs(style) if sm else None)
        if sm == 2:
            obj.style  # pylint: disable=pointless-statement
        kind = KIND_OF.get(cls, "source")
        self.reg(obj, kind, [("new", cls, op["args"])])
        if not self.model:
            return None
        if self.cell0 is None:
            self.cell0 = obj.__dict__[slot_names(obj)[0]]
        senc, lab = style_obs(obj)
        pending = bool(obj.__dict__.get("_style_kwargs"))
        has = obj.__dict__.get("_style") is not None
        mode = 2 if has else 1 if pending else 0
        st = self.style_token(type(obj), senc)
        return (f"(CNew {KINDC[kind]} {cl(self.slot_tokens(obj))} {mode} {st} "
                f"{clab(label_code(lab, type(obj).__name__))})")

    def resolved(self, name, val):
        """for the recipes: an alias of ANOTHER object's attribute is recorded by its value at that time"""
        if isinstance(val, dict) and val.get("from") is not None:
            return {"np": np.asarray(attr_value(name, val, None, self.get)).tolist()}
        return val

    def copy_kwargs(self, kw, src=None):
        out = {}
        for name, val in kw.get("attrs", []):
            out[name] = attr_value(name, val, src, self.get)
        if kw.get("parent") is not None:
            out["parent"] = self.get(kw["parent"], ("coll",))
        out.update(style_ctor_kwargs(kw))
        return out

    def op_copy(self, op):
        xi, kw = op["x"], op.get("kw") or {}
        x = self.get(xi)
        n = len(self.objs)
        kws = []
        if op.get("bad"):
            # a copy() call with an unusable keyword: the result (if any) is dropped.  The original may get
            # its lazily un-initialised style created (copy reads self.style.label first); nothing else
            touched = x.__dict__.get("_style") is not None or bool(x.__dict__.get("_style_kwargs"))
            senc, _ = style_obs(x)
            try:
                with warnings.catch_warnings():
                    warnings.simplefilter("ignore")
                    x.copy(**BAD_KW[op["bad"]])
            except Exception:      # pylint: disable=broad-except
                pass
            self.stat("copy:rejected-" + op["bad"])
            return f"(CStyle {xi} {self.style_token(type(x), senc)})" if touched else f"(CSet {xi} [])"
        if self.model and kw.get("parent") is not None:
            raise Skip()              # parent= is a tree operation on top of the copy: search only
        if self.model:
            if kw.get("attrs"):
                res_attrs = [[name, self.resolved(name, val)] for name, val in kw["attrs"]]

                def fn(t):
                    apply_overrides(t, res_attrs)
                rebound, written = self.calibrate(xi, fn)
                if written:
                    raise RuntimeError("a keyword override writes in place")
                kws += [f"KwAttr {j} {t}" for j, t in rebound]
            skw = style_ctor_kwargs(kw)
            if skw:
                d = style_override_dict(deepcopy(skw))
                eff = eff_style_dict(x)
                senc, _ = scratch_style_after(type(x), eff, [lambda s: s.update(deepcopy(d))])
                if any(key != "label" for key in d):
                    kws.append(f"KwStyle {self.style_token(type(x), senc)}")
                if "label" in d:
                    kws.append(f"KwLabel {clab(label_code(d['label'], type(x).__name__))}")
        self.stat("copy:of-" + ("collection-with-children" if self.kinds[xi] == "coll" and x._children else
                                "empty-collection" if self.kinds[xi] == "coll" else self.kinds[xi]))
        self.stat("copy:" + ("with-parent" if x._parent is not None else "parentless"))
        self.stat("copy:style-" + ("initialised" if x.__dict__.get("_style") is not None else
                                   "pending" if x.__dict__.get("_style_kwargs") else "none"))
        self.stat("copy:path-length-" + ("1" if len(x._position) == 1 else ">1"))
        if xi in self.clones:
            self.stat("copy:of-a-copy")
        with warnings.catch_warnings():
            warnings.simplefilter("ignore")
            y = x.copy(**self.copy_kwargs(kw, x))
        self.reg_copy(xi, y, kw)
        self.clones.update(i for i in range(n, len(self.objs)) if self.kinds[i] != "junk")
        self.last_copy = (xi, n)
        return f"(CCopy {xi} [{'; '.join(kws)}])"

    def reg_copy(self, xi, new, kw=None):
        """the clone of object o gets id n + o (n = number of objects before the copy); the other
        ids of the block are dead placeholders"""
        n = len(self.objs)
        pairs = {}

        def walk_pairs(o, c):
            if type(o) is not type(c):
                raise RuntimeError("copy has a different class than the original")
            pairs[self.idx(o)] = c
            if isinstance(o, magpy.Collection):
                if len(o._children) != len(c._children):
                    raise RuntimeError("copy has a different number of children")
                for oc, cc in zip(o._children, c._children):
                    walk_pairs(oc, cc)
        walk_pairs(self.objs[xi], new)
        for i in range(n):
            if i in pairs:
                rec = list(self.recipes[i])
                if i == xi and kw:
                    rec += [("kws", [[a, self.resolved(a, v)] for a, v in kw["attrs"]])] if kw.get("attrs") else []
                self.reg(pairs[i], self.kinds[i], rec)
            else:
                self.reg(0, "junk")

    def op_mut(self, op):
        i, m = op["i"], op["m"]
        obj = self.get(i)
        k = m["k"]
        if not self.model:
            mutate(obj, m, self.get)
            return None
        cls = type(obj)
        if k == "read":
            if m["what"] != "repr":
                raise Skip()          # describe of a collection touches the children's styles, getB: search only
            senc, _ = style_obs(obj)
            mutate(obj, m)            # repr reads self.style.label: creates the style, values unchanged
            return f"(CStyle {i} {self.style_token(cls, senc)})"
        if k in VALUE_MUT:
            if self.kinds[i] == "coll" and obj._children and not (k == "write"):
                raise Skip()          # moves the children as well: not a one-object operation
            if k == "set":
                m = dict(m, val=self.resolved(m["attr"], m["val"]))
            rebound, written = self.calibrate(i, lambda t: mutate(t, m))
            if rebound and written or len(written) > 1:
                # e.g. rotate about an anchor without padding: rebinds _orientation AND writes into
                # _position; not expressible as one model operation (search only)
                self.stat("mut-not-expressible-as-one-model-op(search only)")
                raise Skip()
            mutate(obj, m)
            self.recipes[i].append(("mut", m))
            if written:
                return f"(CWrite {i} {written[0][0]} {written[0][1]})"
            return f"(CSet {i} [{'; '.join(f'({j}, {t})' for j, t in rebound)}])"
        if k in STYLE_MUT:
            eff = eff_style_dict(obj)
            senc, _ = scratch_style_after(cls, eff, [lambda s: style_mutation_on(s, m)])
            mutate(obj, m)
            return f"(CStyle {i} {self.style_token(cls, senc)})"
        if k == "label":
            mutate(obj, m)
            return f"(CLabel {i} {clab(label_code(m['label'], cls.__name__))})"
        raise Skip()

    # ---- everything that can be read off the objects without touching them
    def observe(self):
        uf = UF()
        rows_ids, all_arrs, arr_owner = [], [], []
        K0 = "cell0"
        if self.phantom and self.cell0 is not None:
            ids, arrs = [], []
            walk(self.cell0, ids, arrs, set())
            for z in ids:
                uf.union(K0, z)
            for a in arrs:
                all_arrs.append(a)
                arr_owner.append(K0)
        for o, kd in zip(self.objs, self.kinds):
            if kd == "junk":
                rows_ids.append(None)
                continue
            bufs = [o.__dict__[n] for n in slot_names(o)] + [o.__dict__["_style_kwargs"]]
            if o.__dict__.get("_style") is not None:
                bufs.append(o.__dict__["_style"])
            row = []
            for b in bufs:
                ids, arrs = [], []
                walk(b, ids, arrs, set())
                if not ids:
                    raise RuntimeError("a buffer without identity")
                for z in ids[1:]:
                    uf.union(ids[0], z)
                for a in arrs:
                    all_arrs.append(a)
                    arr_owner.append(ids[0])
                row.append(ids[0])
            rows_ids.append(row)
        for a, b in overlapping_pairs(all_arrs):
            uf.union(arr_owner[a], arr_owner[b])
        number, out = {}, []
        for o, kd, row in zip(self.objs, self.kinds, rows_ids):
            if kd == "junk":
                if self.phantom and uf.find(K0) not in number:
                    number[uf.find(K0)] = len(number)
                out.append(None)
                continue
            cells = []
            for z in row:
                r = uf.find(z)
                if r not in number:
                    number[r] = len(number)
                cells.append(number[r])
            senc, lab = style_obs(o)
            out.append((self.idx(o._parent),
                        [self.idx(c) for c in o._children] if kd == "coll" else [],
                        self.slot_tokens(o), self.style_token(type(o), senc),
                        label_code(lab, type(o).__name__),
                        o.__dict__.get("_style") is not None, bool(o.__dict__.get("_style_kwargs")),
                        cells))
        return out


# ------------------------------------------------------------------ Coq text
KINDC = {"source": "KSource", "sensor": "KSensor", "coll": "KColl", "junk": "KJunk"}


def cl(ids):
    return "[" + "; ".join(str(int(i)) for i in ids) + "]"


def cb(b):
    return "true" if b else "false"


def co(x):
    return "None" if x is None else f"(Some {int(x)})"


def clab(code):
    return "None" if code is None else f"(Some ({code[0]}, {code[1]}))"


def c_obs(row):
    if row is None:
        return "D"
    p, ch, slots, st, lab, has, pend, cells = row
    return f"(mkCobs {co(p)} {cl(ch)} {cl(slots)} {st} {clab(lab)} {cb(has)} {cb(pend)} {cl(cells)})"


def c_case(cops, trace):
    return ("(mkCCase [" + ";\n  ".join(cops) + "]\n [" +
            ";\n  ".join("[" + "; ".join(c_obs(r) for r in obs) + "]" for obs in trace) + "])")


CASES_HEADER = """From Coq Require Import List Bool Arith.
From MV Require Import Model.ForestModel Model.ForestExec Model.CopyModel Model.CopyExec.
Import ListNotations.
Definition D := mkCobs None [] [] 0 None false false [].
"""


def parse_pairs(out):
    m = re.search(r"=\s*(\[.*?\])\s*:\s*list", out, flags=re.S)
    if not m:
        return None
    return [(int(a), int(b)) for a, b in re.findall(r"\((\d+),\s*(\d+)\)", m.group(1))]


def model_check(ctx, tag, cases, chunk=100):
    """cases: list of (cops, trace). returns list of (case index, op index) where the model differs"""
    from concurrent.futures import ThreadPoolExecutor

    def one(ci):
        part = cases[ci:ci + chunk]
        txt = CASES_HEADER + "Definition cases : list ccase :=\n[" + \
            ";\n".join(c_case(c, t) for c, t in part) + "].\nEval vm_compute in (cfailing cases).\n"
        ok, out = ctx.coq_eval(f"c18_{tag}_{ci}", txt)
        return ci, (parse_pairs(out) if ok else None), out
    starts = list(range(0, len(cases), chunk))
    with ThreadPoolExecutor(max_workers=3) as ex:
        results = list(ex.map(one, starts))
    bad = []
    for ci, res, out in results:
        if res is None:
            ctx.add_broken("broken-correspondence", f"c18_{tag}_{ci}", "model evaluation failed:\n" + out[-1500:])
            return None
        bad += [(ci + i, k) for i, k in res]
    return bad


PROBE_PHANTOM = ["(CNew KSource [1] 0 0 None)", "(CNew KJunk [] 0 0 None)", "(CNew KSource [1] 0 0 None)",
                 "(CSet 0 [(0, 1)])"]


def probe_model(ctx):
    """does CopyExec.cobserve_all count the (never allocated) cell 0 of dead rows in the canonical
    numbering?  (dead_cobj has skw_cell 0.)  The harness numbers cells the way the model in force does."""
    out = model_predict(ctx, PROBE_PHANTOM)
    cells = re.findall(r"b_cells := \[([\d; ]*)\]", out)
    if len(cells) != 3:
        ctx.add_broken("broken-correspondence", "c18 probe", out[-1500:])
        return None
    last = [int(z) for z in cells[2].split(";") if z.strip()]
    if last == [3, 4]:
        return True
    if last == [2, 3]:
        return False
    ctx.add_broken("broken-correspondence", "c18 probe", "unexpected numbering " + repr(cells))
    return None


def model_predict(ctx, cops):
    txt = CASES_HEADER + "Eval vm_compute in (cpredict [" + ";\n ".join(cops) + "]).\n"
    ok, out = ctx.coq_eval("c18_predict", txt)
    return out[-6000:] if ok else "model evaluation failed: " + out[-1500:]


# ------------------------------------------------------------------ running scripts
def creates(op):
    return op["op"] in ("new", "copy", "pad", "padcopy")


def expand_pads(orig, kept):
    """script in which the creating operations that were dropped are replaced by placeholders, so
    that the ids of the remaining objects do not move"""
    out = []
    for i, op in enumerate(orig):
        if i in kept:
            out.append(op)
        elif op["op"] == "copy" and op.get("bad"):
            pass                                   # creates nothing
        elif op["op"] in ("copy", "padcopy"):
            out.append({"op": "padcopy"})
        elif creates(op):
            out.append({"op": "pad"})
    return out


def run_script(ops, model=True, tolerant=False):
    """returns (executed ops, cops, trace): trace[i] = observation after executed op i"""
    w = World(model=model)
    done, cops, trace = [], [], []
    for op in ops:
        steps = [op]
        if op["op"] == "padcopy":
            steps = [{"op": "pad"}] * len(w.objs)
        for st in steps:
            try:
                c = w.apply(st)
            except Skip:
                if tolerant:
                    continue
                raise
            done.append(st)
            cops.append(c)
            if model:
                trace.append(w.observe())
    return done, cops, trace, w


# ------------------------------------------------------------------ random generation
def q(rng, lo, hi):
    return rng.randint(int(lo * 4), int(hi * 4)) / 4


def vec3(rng, lo=-2, hi=2):
    while True:
        v = [q(rng, lo, hi) for _ in range(3)]
        if any(v):
            return v


def path3(rng, k=None):
    k = k or rng.choice([2, 3, 3, 4])
    return [vec3(rng) for _ in range(k)]


def rotvec(rng):
    return [rng.choice([0, 90, 180, -90, 45, 30]) * s for s in rng.choice([(1, 0, 0), (0, 1, 0), (0, 0, 1), (1, 1, 0)])]


def gen_pos(rng):
    return path3(rng) if rng.random() < 0.4 else vec3(rng)


def gen_vertices(rng, k):
    while True:
        v = [vec3(rng) for _ in range(k)]
        a = np.array(v, dtype=float)
        if k == 2:
            if np.linalg.norm(a[0] - a[1]) > 0:
                return v
        elif k == 3:
            if np.linalg.norm(np.cross(a[1] - a[0], a[2] - a[0])) > 0.1:
                return v
        elif abs(np.linalg.det(a[1:] - a[0])) > 0.1:
            return v


def gen_attr(rng, cls, name):
    if name == "position":
        return gen_pos(rng)
    if name == "orientation":
        return None if rng.random() < 0.15 else rotvec(rng)
    if name in ("polarization", "moment"):
        r = rng.random()
        if r < 0.2:                      # exactly along an axis
            v = [0.0, 0.0, 0.0]
            v[rng.randrange(3)] = rng.choice([1.0, -1.0, 0.5])
            return v
        if r < 0.25:
            return [0.0, 0.0, 0.0]
        return vec3(rng)
    if name == "magnetization":
        return [v * 100000.0 for v in vec3(rng)]     # low values warn with repr(self), which creates the style
    if name == "current":
        return rng.choice([0.0, -1.0, -2.5]) if rng.random() < 0.25 else q(rng, 1, 9)
    if name == "diameter":
        return q(rng, 0.5, 3)
    if name == "handedness":
        return rng.choice(["left", "right"])
    if name == "pixel":
        return rng.choice([vec3(rng), [vec3(rng), vec3(rng)], [[vec3(rng), vec3(rng)], [vec3(rng), vec3(rng)]]])
    if name == "field_func":
        return rng.choice(["func", vec3(rng)])
    if name == "vertices":
        return gen_vertices(rng, {"Tetrahedron": 4, "Triangle": 3}.get(cls, rng.choice([2, 3])))
    if name == "dimension":
        if cls == "Cuboid":
            return [q(rng, 0.5, 2) for _ in range(3)]
        if cls == "Cylinder":
            return [q(rng, 0.5, 2), q(rng, 0.5, 2)]
        r1 = q(rng, 0.25, 1)
        if rng.random() < 0.15:
            r1 = 0.0                                          # solid
        p1 = rng.choice([0, 30, 45, -90, -200, -270, -355])
        return [r1, r1 + q(rng, 0.25, 1), q(rng, 0.5, 2), p1, p1 + rng.choice([45, 90, 180, 270, 355, 360])]
    raise ValueError(name)


SETTABLE = {
    "Sensor": ["pixel", "handedness"],
    "Cuboid": ["dimension", "polarization", "magnetization"],
    "Cylinder": ["dimension", "polarization", "magnetization"],
    "CylinderSegment": ["dimension", "polarization", "magnetization"],
    "Sphere": ["diameter", "polarization", "magnetization"],
    "Tetrahedron": ["vertices", "polarization", "magnetization"],
    "Triangle": ["vertices", "polarization", "magnetization"],
    "TriangularMesh": ["polarization", "magnetization"],
    "Circle": ["diameter", "current"],
    "Polyline": ["vertices", "current"],
    "Dipole": ["moment"],
    "CustomSource": [],
    "Collection": [],
}
CTOR_ATTRS = {
    "Sensor": ["pixel", "handedness"], "Cuboid": ["dimension", "polarization"],
    "Cylinder": ["dimension", "polarization"], "CylinderSegment": ["dimension", "polarization"],
    "Sphere": ["diameter", "polarization"], "Tetrahedron": ["vertices", "polarization"],
    "Triangle": ["vertices", "polarization"], "TriangularMesh": ["polarization"],
    "Circle": ["diameter", "current"], "Polyline": ["vertices", "current"], "Dipole": ["moment"],
    "CustomSource": [], "Collection": [],
}


def gen_style(rng, clsname, allow_trace=False):
    """{"kw": {...}, "dict": ...}: a non-empty valid style specification"""
    kw, d = {}, None
    if rng.random() < 0.6:
        kw["label"] = rng.choice(["a", "b", "c", "a_01", "b_07", "col", clsname, clsname + "_02"])
        if allow_trace and rng.random() < 0.3:      # search only: labels the model's encoding does not cover
            kw["label"] = rng.choice(["x9", "col1", "a_", "7", "a__", "a09", "a_1", "_", "b 2", "99"])
    for _ in range(rng.choice([1, 1, 2, 3])):
        x = rng.random()
        if x < 0.3:
            kw["color"] = rng.choice(["red", "blue", "#00ff00"])
        elif x < 0.5:
            kw["opacity"] = rng.choice([0.5, 0.25])
        elif x < 0.62:
            kw["description_text"] = rng.choice(["dd", "ee"])
        elif x < 0.7:
            kw["path_show"] = False
        elif x < 0.8:
            kw["path_line_width"] = rng.choice([2, 3])
        elif x < 0.88:
            kw["path_line_color"] = rng.choice(["red", "green"])
    if rng.random() < 0.3:
        d = rng.choice([{"description": {"text": "ff", "show": False}}, {"opacity": 0.75},
                        {"path": {"line": {"width": 3}}, "color": "green"}, {"label": "d"}])
        if allow_trace and rng.random() < 0.4:
            d = {"model3d": {"showdefault": False, "data": [
                {"backend": "generic", "constructor": "scatter3d",
                 "kwargs": {"x": [0, 1], "y": [0, 1], "z": [0, 1]}, "show": True}]}}
    traces = None
    if rng.random() < 0.4:
        traces = [gen_trace(rng) for _ in range(rng.choice([1, 1, 2]))]
    if not kw and d is None and not traces:
        kw["color"] = "red"
    return {"kw": kw, "dict": d, "traces": traces}


def gen_trace(rng):
    """a user-defined 3d-model trace (plain lists or ndarrays inside; kwargs or args variant)"""
    pts = [[q(rng, -1, 1) for _ in range(3)] for _ in range(3)]
    if rng.random() < 0.7:
        t = {"backend": "generic", "constructor": rng.choice(["Scatter3d", "Mesh3d"]),
             "kwargs": {"x": pts[0], "y": pts[1], "z": pts[2], "mode": "lines"},
             "show": rng.random() < 0.8, "scale": rng.choice([1, 2])}
    else:
        t = {"backend": "matplotlib", "constructor": "plot", "args": pts, "show": True}
    if rng.random() < 0.4:
        t["np"] = True
    return t


def gen_new(rng, cls=None, search=False):
    cls = cls or rng.choice(CLASSES + ["Collection", "Collection", "Sensor", "Cuboid"])
    args = {}
    if cls != "Collection" or rng.random() < 0.4:
        args["position"] = gen_pos(rng)
        if rng.random() < 0.5:
            args["orientation"] = rotvec(rng)
    for name in CTOR_ATTRS[cls]:
        args[name] = gen_attr(rng, cls, name)
    if cls == "TriangularMesh":
        s = q(rng, 0.5, 2)
        off = vec3(rng) if rng.random() < 0.5 else [0, 0, 0]      # off the local origin
        args["vertices"] = [[s * c + o for c, o in zip(v, off)] for v in TETRA_V]
        args["faces"] = [list(f) for f in TETRA_F]
        args["via"] = rng.choice([None, None, "ConvexHull", "mesh", "triangles", "pyvista"])
    if cls in ("Tetrahedron", "Triangle", "Polyline") and rng.random() < 0.4:
        off = [4 * c for c in vec3(rng)]
        args["vertices"] = [[c + o for c, o in zip(v, off)] for v in args["vertices"]]
    sc = rng.choice([1e-6, 1e-3, 1e3]) if rng.random() < 0.25 else 1      # absolute length scale
    if sc != 1:
        def scaled(v):
            return [scaled(e) for e in v] if isinstance(v, list) else v * sc
        for name in ("position", "pixel", "vertices", "diameter"):
            if args.get(name) is not None:
                args[name] = scaled(args[name])
        if "dimension" in args:
            k = 3 if cls == "CylinderSegment" else len(args["dimension"])
            args["dimension"] = scaled(args["dimension"][:k]) + args["dimension"][k:]
    if search and cls in ("Cuboid", "Circle") and rng.random() < 0.12:
        # optional attributes left unset (search only: the set of mutable slots is not stable)
        args[rng.choice(CTOR_ATTRS[cls])] = None
    for name in ("position", "pixel", "vertices", "dimension", "polarization", "moment"):
        if isinstance(args.get(name), list) and name != "vertices" or (name == "vertices" and cls != "TriangularMesh"
                                                                      and isinstance(args.get(name), list)):
            if rng.random() < 0.2:
                args[name] = {"np": args[name]}                  # float64 ndarray instead of lists
    if isinstance(args.get("position"), list) and not isinstance(args["position"][0], list) and rng.random() < 0.15:
        args["position"] = [args["position"]]                    # single-element path, shape (1,3)
    if cls == "CustomSource":
        args["ff"] = rng.choice([None, "func", "partial"])
        if args["ff"] == "partial":
            args["k"] = vec3(rng)
    op = {"op": "new", "cls": cls, "args": args, "sm": rng.choice([0, 0, 1, 1, 2])}
    if op["sm"] == 1 or (op["sm"] == 2 and rng.random() < 0.7):
        op["style"] = gen_style(rng, cls, allow_trace=search)
    return op


def gen_mut(rng, obj, clsname, corr):
    """one mutation of a single object"""
    npath = len(obj._position)
    trs = traces_of(obj)
    if trs and rng.random() < 0.35:          # in-place mutation of a user trace of the style
        idx = rng.randrange(len(trs))
        whats = [wh for wh in ("show", "scale", "constructor", "kwx", "kwmode", "arg0")
                 if trace_mut_applicable(trs[idx], wh)]
        return {"k": "trace", "idx": idx, "what": rng.choice(whats)}
    if rng.random() < 0.05:
        return {"k": "addtrace", "trace": gen_trace(rng)}
    r = rng.random()
    if r < 0.05:                                  # reads interleaved with writes (repr creates the style)
        return {"k": "read", "what": rng.choice(["repr", "repr", "describe", "getB"] if not corr else ["repr"])}
    if r < 0.09:                                  # other public rotation entry points
        m = {"k": "rotfrom", "how": rng.choice(["euler", "euler", "rotvec"]), "degrees": rng.random() < 0.7,
             "anchor": rng.choice([None, 0, [1, 0, 0]])}
        if m["how"] == "euler":
            m["seq"] = rng.choice(["z", "X", "xy", "ZYX", "Y"])
            a1 = [rng.choice([30, 90, 180]) if m["degrees"] else rng.choice([0.5, 1.0]) for _ in m["seq"]]
            m["angle"] = a1[0] if len(a1) == 1 else a1
        else:
            m["angle"] = [0, 0, rng.choice([90, 180])] if m["degrees"] else [0.5, 0, 0]
        if npath >= 2 and rng.random() < 0.5:
            m["start"] = rng.choice([0, npath - 1, -1])
        return m
    if r < 0.11 and clsname == "TriangularMesh":
        return {"k": "reorient"}
    x = rng.random()
    if x < 0.2:
        names = ["position", "orientation"] + SETTABLE[clsname]
        if clsname == "CustomSource" and obj.__dict__.get("_field_func") is not None:
            names.append("field_func")
        name = rng.choice(names)
        val = gen_attr(rng, clsname, name)
        if name == "field_func" and isinstance(obj._field_func, functools.partial) != isinstance(val, list):
            val = vec3(rng) if isinstance(obj._field_func, functools.partial) else "func"
        return {"k": "set", "attr": name, "val": val}
    if x < 0.38:
        if rng.random() < 0.55:
            return {"k": "move", "disp": vec3(rng)}           # scalar: the whole path, in place
        if npath >= 2 and rng.random() < 0.6:                 # vector inside the path: no padding, in place
            st = rng.randrange(npath)
            return {"k": "move", "disp": path3(rng, rng.randint(1, npath - st)), "start": st}
        # start before (negative) / beyond the path / appended
        return {"k": "move", "disp": rng.choice([path3(rng), vec3(rng)]),
                "start": rng.choice(["auto", 0, 1, -1, -npath, -npath - 2, npath + 1])}
    if x < 0.48:
        m = {"k": "rotate", "angle": rng.choice([90, 45, 30]), "axis": rng.choice(["x", "y", "z"]),
             "anchor": rng.choice([None, [1, 0, 0], [0, 0.5, 0], 0])}
        if npath >= 2 and rng.random() < 0.5:
            st = rng.randrange(npath)
            m["start"] = st
            if rng.random() < 0.5:
                m["angle"] = [rng.choice([30, 60, 90]) for _ in range(rng.randint(1, npath - st))]
        elif rng.random() < 0.3:
            m["angle"] = [30, 60, 90][:rng.choice([2, 3])]     # appended: pads the path
            m["start"] = rng.choice(["auto", "auto", -1, npath + 1])
        if isinstance(m["angle"], list) and rng.random() < 0.4:
            # per-step anchors (same length as / shorter than the rotation input)
            m["anchor"] = [vec3(rng) for _ in range(rng.randint(1, len(m["angle"])))]
        return m
    if x < 0.52:
        return {"k": "reset"}
    if x < 0.68:
        cand = [n for n in slot_names(obj) if not isinstance(obj.__dict__[n], R)]
        cand = [n for n in cand if not (isinstance(obj.__dict__[n], np.ndarray) and obj.__dict__[n].size == 0)]
        if cand:
            return {"k": "write", "slot": rng.choice(cand), "val": rng.choice([1, 2, 0.5])}
    if x < 0.8:
        return {"k": "style", "upd": rng.choice([{"color": rng.choice(["red", "blue", "#123456"])},
                                                 {"opacity": rng.choice([0.5, 0.125])},
                                                 {"description_text": "zz"},
                                                 {"path": {"show": False}}])}
    if x < 0.86:
        return {"k": "nested", "path": rng.choice([["description", "text"], ["legend", "text"]]),
                "val": rng.choice(["n1", "n2"])}
    if x < 0.9:
        return {"k": "styleset", "val": {"opacity": 0.375}}
    if x < 0.97:
        return {"k": "label", "label": rng.choice(["a", "b", "c", "d", "a_03", clsname])}
    return {"k": "touch"}


STYLE_LEAVES = {"color": ["red", "blue", "yellow"], "opacity": [0.5, 0.25, 0.625], "path_line_width": [2, 4],
                "path_line_color": ["red", "blue"], "description_text": ["cc", "dd"], "path_show": [True, False],
                "legend_text": ["lg"], "path_marker_size": [3]}


def gen_copy_kw(rng, w, xi, corr):
    if rng.random() < 0.4:
        return {}
    x = w.objs[xi]
    clsname = type(x).__name__
    kw = {"attrs": [], "kw": {}, "dict": None, "traces": None}
    eff = eff_style_dict(x)
    set_leaves = sorted(k for k, v in flat_leaves(eff or {}).items() if v is not None and k in STYLE_LEAVES)
    only_style = corr and w.kinds[xi] == "coll" and x._children
    for _ in range(rng.choice([1, 1, 2, 3])):
        r = rng.random()
        if r < 0.45 and not only_style:
            names = ["position", "position", "orientation"] + SETTABLE[clsname]
            name = rng.choice(names)
            if name not in [a for a, _ in kw["attrs"]]:
                val = gen_attr(rng, clsname, name)
                low_m = (name == "magnetization" and getattr(x, "_magnetization", None) is not None
                         and float(np.linalg.norm(x._magnetization)) < 2000.0)
                # (a magnetization below 2000 A/m makes the setter warn with repr(self), which creates the copy's style
                #  lazily - same values, but a buffer the model does not predict; gen_attr avoids such values for the
                #  same reason, so the original's own low/zero magnetization is not used as an alias either)
                if rng.random() < 0.45 and not low_m:
                    # aliasing candidate: the very object the original's own attribute returns
                    val = {"alias": name}
                    npath = len(x._position)
                    if name == "position" and npath >= 2 and rng.random() < 0.5:
                        val["slice"] = rng.randint(1, npath)
                    if name == "position" and w.kinds[xi] == "coll" and x._children and rng.random() < 0.4:
                        val = {"alias": "position", "from": w.idx(rng.choice(x._children))}   # a child's path
                elif isinstance(val, list) and rng.random() < 0.3 and name != "orientation":
                    val = {"np": val}                                 # float64 ndarray instead of lists
                elif name == "position" and not isinstance(val[0], list) and rng.random() < 0.15:
                    val = [val]                                        # single-element path, shape (1,3)
                kw["attrs"].append([name, val])
        elif r < 0.62:
            kw["kw"]["label"] = rng.choice(["a", "b", "c", "b_04", clsname, None])
        elif r < 0.85:
            # style_xxx keyword; None is a value like any other (preferably where the original has a value)
            leaf = rng.choice(set_leaves) if set_leaves and rng.random() < 0.7 else rng.choice(sorted(STYLE_LEAVES))
            if leaf not in flat_leaves(kw["dict"] or {}):
                kw["kw"][leaf] = None if rng.random() < 0.45 else rng.choice(STYLE_LEAVES[leaf])
        else:
            d = {}
            for _ in range(rng.choice([1, 1, 2])):
                leaf = rng.choice(set_leaves) if set_leaves and rng.random() < 0.7 else rng.choice(sorted(STYLE_LEAVES))
                if leaf not in kw["kw"]:
                    d[leaf] = None if rng.random() < 0.45 else rng.choice(STYLE_LEAVES[leaf])
            if rng.random() < 0.25 and "label" not in kw["kw"]:
                d["label"] = "d"
            kw["dict"] = nest(d) if d else {"description": {"text": "cc"}}
            if rng.random() < 0.2:
                kw["traces"] = [gen_trace(rng)]
    if not corr and rng.random() < 0.08:
        colls = [i for i in w.live() if w.kinds[i] == "coll"]
        if colls:
            kw["parent"] = rng.choice(colls)        # the copy lands in that collection
    return kw


def ancestors(w, i):
    out, o = [], w.objs[i]
    while o._parent is not None:
        j = w.idx(o._parent)
        if j in (None, UNKNOWN) or j in out:
            break
        out.append(j)
        o = w.objs[j]
    return out


def gen_tree_op(rng, w, pool):
    """a tree operation that succeeds; objects taken from `pool` (ids)"""
    colls = [i for i in pool if w.kinds[i] == "coll"]
    if not colls:
        return None
    c = rng.choice(colls)
    anc = set(ancestors(w, c)) | {c}
    level = len(anc) - 1

    def cands(kinds=("source", "sensor", "coll"), free=False):
        out = []
        for i in pool:
            if w.kinds[i] not in kinds or i in anc:
                continue
            if level + 1 + depth_below(w, i) > 3:       # trees up to depth 3
                continue
            if free and w.objs[i]._parent is not None:
                continue
            out.append(i)
        return out
    x = rng.random()
    if x < 0.4:
        ov = rng.random() < 0.5
        pl = [i for i in cands(free=not ov) if w.objs[i]._parent is not w.objs[c]]
        if pl:
            return {"op": "add", "c": c, "objs": rng.sample(pl, min(len(pl), rng.choice([1, 1, 2, 3]))), "ov": ov}
    if x < 0.55:
        ch = [w.idx(o) for o in w.objs[c]._children]
        if ch:
            return {"op": "remove", "c": c, "objs": [rng.choice(ch)], "rec": rng.random() < 0.5}
    if x < 0.7:
        pl = [i for i in pool if w.objs[i]._parent is not None]
        if pl and rng.random() < 0.5:
            return {"op": "parent", "x": rng.choice(pl), "p": None}
        pl = [i for i in cands() if w.objs[i]._parent is not w.objs[c]]
        if pl:
            return {"op": "parent", "x": rng.choice(pl), "p": c}
    if x < 0.85:
        pl = cands()
        return {"op": "children", "c": c, "objs": rng.sample(pl, min(len(pl), rng.choice([0, 1, 2, 3])))}
    k = rng.choice(["source", "sensor", "coll"])
    pl = cands((k,))
    return {"op": "typed", "k": k, "c": c, "objs": rng.sample(pl, min(len(pl), rng.choice([0, 1, 2])))}


def depth_below(w, i):
    o = w.objs[i]
    if w.kinds[i] != "coll" or not o._children:
        return 0
    return 1 + max(depth_below(w, w.idx(ch)) for ch in o._children)


def gen_op(rng, w, corr, max_rows=12):
    live = w.live()
    if not live:
        return gen_new(rng, search=not corr)
    x = rng.random()
    if x < 0.10:
        return gen_new(rng, search=not corr)
    if x < 0.32:
        op = gen_tree_op(rng, w, live)
        if op is not None:
            return op
    if x < 0.52 and len(w.objs) <= max_rows:
        xi = rng.choice(live)
        return {"op": "copy", "x": xi, "kw": gen_copy_kw(rng, w, xi, corr)}
    if 0.52 <= x < 0.55:
        return {"op": "copy", "x": rng.choice(live), "bad": rng.choice(sorted(BAD_KW))}
    if x < 0.57 and not corr:
        return {"op": "defaults", "how": rng.choice(["update", "update", "reset"])}
    if x < 0.60 and len(live) >= 2:
        i, j = rng.sample(live, 2)                  # an object's own array passed into another one's setter
        return {"op": "mut", "i": i, "m": {"k": "set", "attr": "position", "val": {"alias": "position", "from": j}}}
    i = rng.choice(live)
    obj = w.objs[i]
    m = gen_mut(rng, obj, type(obj).__name__, corr)
    if corr and m["k"] in VALUE_MUT and m["k"] != "write" and w.kinds[i] == "coll" and obj._children:
        m = {"k": "label", "label": rng.choice(["a", "b", "c"])}
    return {"op": "mut", "i": i, "m": m}


def random_script(rng, corr=True):
    """generate and execute at the same time (validity of an operation depends on the state)"""
    w = World(model=corr)
    ops, cops, trace = [], [], []
    n0 = rng.randint(2, 5)
    plan = [gen_new(rng, search=not corr) for _ in range(n0)]
    if rng.random() < 0.7 and not any(p["cls"] == "Collection" for p in plan):
        plan[rng.randrange(n0)] = gen_new(rng, "Collection", search=not corr)
    nops = rng.randint(4, 11)
    t = 0
    while t < n0 + nops:
        t += 1
        try:
            op = plan[t - 1] if t <= n0 else gen_op(rng, w, corr)
            c = w.apply(op)
        except Skip:
            continue
        except Exception:      # pylint: disable=broad-except
            if corr:
                raise
            break                # a damaged world (search on a defective copy): stop here
        ops.append(op)
        cops.append(c)
        if corr:
            trace.append(w.observe())
    return ops, cops, trace, w


# ------------------------------------------------------------------ the property itself (search oracle)
def vals_enc(o):
    """deep exact encoding of every value attribute (tree links and style handled separately)"""
    return {n: enc(v) for n, v in o.__dict__.items() if n not in NOT_SLOT}


def flat_snapshot(w, ids):
    out = {}
    for i in ids:
        o = w.objs[i]
        st = eff_style_dict(o)
        links = [w.idx(o._parent) if w.idx(o._parent) != UNKNOWN else ("?", id(o._parent))]
        for a in TREE_ATTRS:
            if a in o.__dict__:
                links.append([w.idx(c) if w.idx(c) != UNKNOWN else ("?", id(c)) for c in o.__dict__[a]])
        out[i] = (type(o).__name__, vals_enc(o), default_full_enc(type(o)) if st is None else enc(st), repr(links))
    return out


def diff_snapshot(a, b):
    """first difference between two flat snapshots: (id, what) or None"""
    for i in a:
        if i not in b:
            return i, "object vanished"
        if a[i][0] != b[i][0]:
            return i, "class"
        for n in a[i][1]:
            if b[i][1].get(n) != a[i][1][n]:
                return i, n
        for n in b[i][1]:
            if n not in a[i][1]:
                return i, n
        if a[i][2] != b[i][2]:
            return i, "style"
        if a[i][3] != b[i][3]:
            return i, "tree links"
    return None


_DEFAULT_FULL = {}


def default_full_enc(cls):
    """an un-initialised style and an initialised default style show the same values"""
    if cls not in _DEFAULT_FULL:
        _DEFAULT_FULL[cls] = enc(cls._style_class().as_dict())
    return _DEFAULT_FULL[cls]


def close(a, b, tol):
    """deep comparison of two live values; tol=None exact, else relative tolerance"""
    if isinstance(a, R) and isinstance(b, R):
        a, b = np.atleast_2d(a.as_quat()), np.atleast_2d(b.as_quat())
    if isinstance(a, np.ndarray) or isinstance(b, np.ndarray):
        if not (isinstance(a, np.ndarray) and isinstance(b, np.ndarray)) or a.shape != b.shape or a.dtype != b.dtype:
            return False
        if tol is None or a.dtype.kind not in "fc":
            return a.tobytes() == b.tobytes() or bool(np.array_equal(a, b))
        return bool(np.allclose(a, b, rtol=tol, atol=tol * max(1.0, float(np.max(np.abs(a), initial=0.0)))))
    if isinstance(a, float) and isinstance(b, float):
        return a == b if tol is None else abs(a - b) <= tol * max(1.0, abs(a))
    if isinstance(a, (list, tuple)) and isinstance(b, (list, tuple)):
        return type(a) is type(b) and len(a) == len(b) and all(close(u, v, tol) for u, v in zip(a, b))
    if isinstance(a, dict) and isinstance(b, dict):
        return a.keys() == b.keys() and all(close(a[k], b[k], tol) for k in a)
    if isinstance(a, functools.partial) and isinstance(b, functools.partial):
        return a.func is b.func and close(a.args, b.args, tol) and close(a.keywords, b.keywords, tol)
    if type(a) is not type(b):
        return False
    if isinstance(a, IMMUTABLE):
        return a is b or a == b
    return enc(a) == enc(b)


def field_of(o):
    """[B, H] of an object (None when it has no field / the computation is not defined)"""
    try:
        with warnings.catch_warnings():
            warnings.simplefilter("ignore")
            if isinstance(o, magpy.Sensor):
                src = magpy.misc.Dipole(moment=(1, 2, 3), position=(0.11, 0.23, -0.37))
                return [np.asarray(src.getB(o)), np.asarray(src.getH(o))]
            if isinstance(o, magpy.Collection):
                if o.sources_all and o.sensors_all:
                    return [np.asarray(o.getB()), np.asarray(o.getH())]
                if o.sources_all:
                    return [np.asarray(o.getB(OBSERVERS)), np.asarray(o.getH(OBSERVERS))]
                if o.sensors_all:
                    src = magpy.misc.Dipole(moment=(1, 2, 3), position=(0.11, 0.23, -0.37))
                    return [np.asarray(magpy.getB(src, o)), np.asarray(magpy.getH(src, o))]
                return None
            return [np.asarray(o.getB(OBSERVERS)), np.asarray(o.getH(OBSERVERS))]
    except Exception:      # pylint: disable=broad-except
        return "raises"


def label_kind(lab, pending):
    k = "none" if lab is None else "numbered" if re.search(r"\d$", lab) else \
        "underscore" if lab.endswith("_") else "plain"
    return k + ("-pending" if pending else "-initialised")


def buffers_of(w, i):
    """[(name, ids, arrays)] of every mutable buffer an object owns (children are not entered)"""
    o = w.objs[i]
    out = []
    for n, v in o.__dict__.items():
        if n == "_parent" or not is_mutable_value(v):
            continue
        ids, arrs = [], []
        if n in TREE_ATTRS:
            ids.append(id(v))
        else:
            walk(v, ids, arrs, set())
        out.append((n, ids, arrs))
    return out


def static_sharing(w, old_ids, new_ids):
    """buffers of old objects that share identity / memory with buffers of new objects:
    [(old id, buffer name, new id, buffer name, kind, the shared python object)]"""
    owner, old_arrs, hits = {}, [], []
    for i in old_ids:
        for n, ids, arrs in buffers_of(w, i):
            for z in ids:
                owner.setdefault(z, (i, n))
            for a in arrs:
                old_arrs.append((a, i, n))
    new_arrs = []
    for j in new_ids:
        o = w.objs[j]
        for n, v in o.__dict__.items():
            if n == "_parent" or not is_mutable_value(v):
                continue
            ids, arrs = [], []
            if n in TREE_ATTRS:
                ids.append(id(v))
            else:
                walk(v, ids, arrs, set())
            for z in ids:
                if z in owner:
                    hits.append((owner[z][0], owner[z][1], j, n, "identity"))
            for a in arrs:
                new_arrs.append((a, j, n))
    arrs = [a for a, _, _ in old_arrs] + [a for a, _, _ in new_arrs]
    k = len(old_arrs)
    for a, b in overlapping_pairs(arrs):
        a, b = min(a, b), max(a, b)
        if a < k <= b:
            hits.append((old_arrs[a][1], old_arrs[a][2], new_arrs[b - k][1], new_arrs[b - k][2], "memory"))
    return hits


def directed_mutation(w, i, name):
    """mutate the buffer `name` of old object i through the most public route available"""
    o = w.objs[i]
    with warnings.catch_warnings():
        warnings.simplefilter("ignore")
        if name == "_style":
            # in place first (update() re-creates the nested objects): user traces, nested properties
            for t in o.style.model3d.data:
                t.show = not t.show
                t.scale = 7.5
                if isinstance(t.kwargs, dict):
                    t.kwargs["c18"] = "probe"
                    for v in t.kwargs.values():
                        if isinstance(v, (list, np.ndarray)) and len(v) and not isinstance(v[0], (list, np.ndarray)):
                            v[0] = 99
                if isinstance(t.args, tuple):
                    for v in t.args:
                        if isinstance(v, (list, np.ndarray)) and len(v):
                            v[0] = 99
            o.style.description.text = "c18-probe"
            o.style.model3d.add_trace(backend="generic", constructor="Scatter3d", kwargs={"x": [1]})
            o.style.update(opacity=0.123)
            return True
        if name == "_children":
            o.add(magpy.Sensor())
            return True
        if name in ("_style_kwargs", "_sources", "_sensors", "_collections"):
            return False
        if name == "_position":
            o.move((1, 0, 0))
            return True
        return write_into(o.__dict__[name], 1)


class Fail(Exception):
    def __init__(self, clause, cls, trigger, text):
        super().__init__(text)
        self.clause, self.cls, self.trigger, self.text = clause, cls, trigger, text

    def sig(self):
        return f"{self.clause}/{self.cls}:{self.trigger}"


def subtree_objs(o):
    out = [o]
    if isinstance(o, magpy.Collection):
        for c in o._children:
            out += subtree_objs(c)
    return out


def kw_names(kw):
    names = [a for a, _ in kw.get("attrs", [])]
    names += ["style_" + k for k in (kw.get("kw") or {})]
    if kw.get("dict") is not None:
        names.append("style")
    if kw.get("traces"):
        names.append("style_model3d_data")
    if kw.get("parent") is not None:
        names.append("parent")
    return names


def run_scenario(ops, stats=None):
    try:
        return _run_scenario(ops, stats)
    finally:
        if any(op["op"] == "defaults" for op in ops):
            magpy.defaults.reset()


def replay_world(ops, skip_copies=False):
    w = World(model=False)
    for op in ops:
        if skip_copies and op["op"] == "copy":
            op = {"op": "padcopy"} if not op.get("bad") else {"op": "nop"}
        if op["op"] == "nop":
            continue
        try:
            w.apply(op)
        except Skip:
            if skip_copies:
                return None          # an operation refers to an object of a skipped copy
            w.stat("skipped")
        except Exception:            # pylint: disable=broad-except
            if skip_copies:
                return None
            raise
    return w


def _run_scenario(ops, stats=None):
    """ops = prefix + [copy] + post operations (mutations of ONE side).  The clauses of the property
    are evaluated at the LAST copy operation.  Raises Fail on the first violated clause."""
    last = max((i for i, op in enumerate(ops) if op["op"] == "copy"), default=None)
    if last is None:
        return None
    w = replay_world(ops[:last])
    cop = ops[last]
    xi, kw = cop["x"], cop.get("kw") or {}
    try:
        x = w.get(xi)
    except Skip:
        return None
    cls = type(x).__name__
    if any(not isinstance(getattr(type(x), a, None), property) for a, _ in kw.get("attrs", [])):
        return None             # not an attribute of this class (only while shrinking)
    n = len(w.objs)
    old = w.live()
    names = kw_names(kw)
    trig = "copy" if not names else "copy(" + ",".join(names) + ")"
    had_style = x.__dict__.get("_style") is not None
    pending = bool(x.__dict__.get("_style_kwargs"))
    xparent = x._parent
    S0 = flat_snapshot(w, old)
    sub_x = w.subtree(xi)
    X0 = {i: (vals_enc(w.objs[i]), style_obs(w.objs[i])) for i in sub_x}
    eff_x0 = eff_style_dict(x)
    # (g) the state of the originals does not depend on earlier copies: when no operation of the prefix
    # touches an object of an earlier copy, a fresh twin world built WITHOUT those copies shows the same
    prior = [i for i, op in enumerate(ops[:last]) if op["op"] == "copy"]
    if prior:
        w3 = replay_world(ops[:last], skip_copies=True)
        clone_free = w3 is not None and len(w3.objs) == n and not any(
            (ops[i].get("kw") or {}).get("parent") is not None for i in prior) and all(
            w3.kinds[t] != "junk" for op in ops[:last] if op["op"] not in ("copy", "new", "pad", "padcopy", "defaults")
            for t in target_ids(op) + reads_of(op) if isinstance(t, int) and t < n)
        if clone_free:
            ids3 = [i for i in old if w3.kinds[i] != "junk"]
            d = diff_snapshot(flat_snapshot(w3, ids3), {i: S0[i] for i in ids3})
            if d is not None:
                raise Fail("original_untouched", type(w.objs[d[0]]).__name__, "earlier-copy",
                           f"`{d[1]}` of object {d[0]} differs from a fresh twin built by the same operations "
                           "without the earlier copy() calls")
            if stats is not None:
                stats["history-twin"] = stats.get("history-twin", 0) + 1
    if cop.get("bad"):
        # a copy() call that is rejected (or whose result is dropped) leaves the world as it was
        try:
            w.apply(cop)
        except Skip:
            return None
        d = diff_snapshot(S0, flat_snapshot(w, old))
        if d is not None:
            raise Fail("original_untouched", cls, f"rejected-copy({cop['bad']})",
                       f"{cls}.copy({', '.join(BAD_KW[cop['bad']])}=<unusable>) changed `{d[1]}` of object {d[0]}")
        v = check_invariant(w)
        if v is not None:
            raise Fail("original_untouched", cls, f"rejected-copy({cop['bad']})",
                       f"after a rejected {cls}.copy(): {v[2]}")
        if stats is not None:
            stats["rejected-copies"] = stats.get("rejected-copies", 0) + 1
        return None
    # the expected values after keyword overrides: the same setattr on a rebuilt twin world
    w2 = None
    if kw.get("attrs"):
        w2 = replay_world(ops[:last])
        x2 = w2.objs[xi]
        try:
            with warnings.catch_warnings():
                warnings.simplefilter("ignore")
                apply_overrides(x2, kw["attrs"], w2.get)
        except Exception:      # pylint: disable=broad-except
            if stats is not None:
                stats["override-rejected-by-setter"] = stats.get("override-rejected-by-setter", 0) + 1
            return None          # the setter itself rejects this value: copy(**kw) may raise as well
    # ---------------- the copy
    try:
        with warnings.catch_warnings():
            warnings.simplefilter("ignore")
            y = x.copy(**w.copy_kwargs(kw, x))
    except Exception as e:      # pylint: disable=broad-except
        if X0[xi][1][1] == "" and "label" not in (kw.get("kw") or {}) and "label" not in (kw.get("dict") or {}):
            raise Fail("label", cls, f"empty-raises-{type(e).__name__}",
                       f"{cls}.copy() of an object whose style label is the empty string raises "
                       f"{type(e).__name__}: {e}") from e
        raise Fail("equal_values", cls, f"{trig}-raises-{type(e).__name__}",
                   f"{cls}.copy({', '.join(names)}) raises {type(e).__name__}: {e}") from e
    # (a) same class, isomorphic subtree
    def iso(o, c, path):
        if type(o) is not type(c):
            raise Fail("same_class", cls, trig, f"copy{path} is a {type(c).__name__}, original is a {type(o).__name__}")
        if isinstance(o, magpy.Collection):
            if len(o._children) != len(c._children):
                raise Fail("subtree_consistent", cls, trig,
                           f"copy{path} has {len(c._children)} children, original has {len(o._children)}")
            for k, (oc, cc) in enumerate(zip(o._children, c._children)):
                iso(oc, cc, path + f"[{k}]")
    iso(x, y, "")
    # (h) copy(parent=coll): the copy lands in coll and only there; afterwards it is detached again so
    # that the remaining clauses read as for a plain copy
    if kw.get("parent") is not None:
        P = w.objs[kw["parent"]]
        listed = [c for _, c in all_collections(w, extra=subtree_objs(y)) if any(ch is y for ch in c._children)]
        if y._parent is not P or len(listed) != 1 or listed[0] is not P or sum(ch is y for ch in P._children) != 1:
            raise Fail("override", cls, "parent", f"{cls}.copy(parent=coll): the copy is not a child of exactly coll")
        if x._parent is not xparent:
            raise Fail("original_untouched", cls, trig, "copy(parent=coll) changed the parent of the original")
        P.remove(y)
    # (c) parentless; original untouched
    if y.parent is not None or y._parent is not None:
        raise Fail("parentless", cls, "child" if xparent is not None else "root",
                   f"the copy of a {cls} has a parent (a {type(y._parent).__name__}"
                   + (" that is not an object of the original world)" if id(y._parent) not in w.ids else ")"))
    if x._parent is not xparent:
        raise Fail("original_untouched", cls, trig, "the parent of the original changed")
    d = diff_snapshot(S0, flat_snapshot(w, old))
    if d is not None:
        raise Fail("original_untouched", cls, trig,
                   f"{cls}.copy({', '.join(names)}) changed `{d[1]}` of the pre-existing object {d[0]} "
                   f"({type(w.objs[d[0]]).__name__})")
    # no object of the copy is an object of the original world
    ysub = subtree_objs(y)
    for c in ysub:
        if id(c) in w.ids:
            raise Fail("shared_state", cls, "object-identity",
                       f"object {w.ids[id(c)]} of the original world is part of the copy")
    w.reg_copy(xi, y, kw)
    new = [i for i in w.live() if i >= n]
    v = check_invariant(w)
    if v is not None:
        raise Fail("subtree_consistent", cls, v[0], f"after {cls}.copy(): {v[2]}")
    # (a) equal values / overrides / label
    for i in sub_x:
        oy = w.objs[n + i]
        vy = vals_enc(oy)
        vx = X0[i][0]
        o2 = w2.objs[i] if w2 is not None else None
        if set(vy) != set(vx):
            raise Fail("equal_values", cls, "attributes", f"the copy has attributes {sorted(set(vy) ^ set(vx))} "
                                                           "that the original has not (or vice versa)")
        for name in sorted(vx):
            affected = o2 is not None and enc(o2.__dict__[name]) != vx[name]
            if not affected:
                if vy[name] != vx[name]:
                    raise Fail("equal_values", cls, name,
                               f"`{name}` of the copy of object {i} ({type(oy).__name__}) differs from the original"
                               + (" although no keyword overrides it" if names else ""))
            elif not close(oy.__dict__[name], o2.__dict__[name], 1e-12):
                raise Fail("override", cls, ",".join(a for a, _ in kw["attrs"]),
                           f"`{name}` of the copy of object {i} is not what {trig} must give")
        if w2 is not None and i == xi:
            for name, _ in kw["attrs"]:
                pub_y, pub_2 = getattr(oy, name), getattr(o2, name)
                if not close(pub_y, pub_2, 1e-12):
                    raise Fail("override", cls, name, f"copy({name}=..): the copy's `{name}` is not the given value")
        senc_y, lab_y = style_obs(oy)
        senc_x, lab_x = X0[i][1]
        if i != xi:
            if senc_y != senc_x:
                raise Fail("equal_values", cls, "style", f"style of the copy of child {i} differs from the original's")
            if lab_y != lab_x:
                raise Fail("label", cls, "child", f"label of the copy of child {i} is {lab_y!r}, original {lab_x!r}")
            continue
        skw = style_ctor_kwargs(kw)
        dct = style_override_dict(deepcopy(skw)) if skw else {}
        if dct:
            # leaf by leaf: what a keyword names has exactly the given value (None included), every
            # other leaf is the original's
            given = {k: v for k, v in flat_leaves(dct).items() if k not in ("label", "model3d_data")}
            fy = flat_leaves(eff_style_dict(oy) or type(x)._style_class().as_dict())
            fx = flat_leaves(eff_x0 if eff_x0 is not None else type(x)._style_class().as_dict())
            if not kw.get("traces") and "model3d" not in dct and len(flat_leaves(dct)) == len(
                    flat_leaves(skw.get("style") or {})) + sum(1 for k in skw if k.startswith("style_")):
                for leaf, v in given.items():
                    if leaf in fy and enc(fy[leaf]) != enc(v):
                        raise Fail("override", cls, f"style_{leaf}" + ("=None" if v is None else ""),
                                   f"copy(.. {leaf}={v!r} ..): the copy's style has {leaf}={fy[leaf]!r} "
                                   f"(original: {fx.get(leaf)!r})")
                for leaf in fy:
                    if leaf not in given and leaf not in ("label", "model3d_data") and enc(fy[leaf]) != enc(fx.get(leaf)):
                        raise Fail("override", cls, "style-other-leaf",
                                   f"copy with style overrides {sorted(given)} changed {leaf}: {fx.get(leaf)!r} -> {fy[leaf]!r}")
            exp, _ = scratch_style_after(type(x), eff_x0, [lambda s: s.update(deepcopy(dct))])
            if senc_y != exp:
                raise Fail("override", cls, "style", f"style of the copy is not the original's style updated by {dct}")
            # the other notation (all nested <-> all magic-underscore keywords) gives the same copy
            if not kw.get("traces") and "model3d" not in dct:
                alt = alt_notation(skw)
                if alt is not None:
                    try:
                        with warnings.catch_warnings():
                            warnings.simplefilter("ignore")
                            y_alt = x.copy(**w.copy_kwargs({"attrs": kw.get("attrs", [])}, x), **alt)
                        if style_obs(y_alt) != (senc_y, lab_y):
                            raise Fail("override", cls, "style-notation",
                                       f"copy(**{skw}) and copy(**{alt}) give different styles")
                    except Fail:
                        raise
                    except Exception as e:      # pylint: disable=broad-except
                        raise Fail("override", cls, "style-notation",
                                   f"copy(**{alt}) raises {type(e).__name__} although copy(**{skw}) works") from e
        elif senc_y != senc_x:
            raise Fail("equal_values", cls, "style", "style values of the copy differ from the original's")
        if "label" in dct:
            if lab_y != (None if dct["label"] is None else str(dct["label"])):
                raise Fail("override", cls, "style_label", f"copy(style_label={dct['label']!r}) has label {lab_y!r}")
        elif had_style or pending:
            exp = ref_iterate(lab_x, cls)
            if lab_y != exp:
                raise Fail("label", cls, label_kind(lab_x, pending),
                           f"label of the copy is {lab_y!r}; original {lab_x!r} must iterate to {exp!r}")
        elif lab_y is not None:
            raise Fail("label", cls, "nostyle", f"the original has no style, the copy has label {lab_y!r}")
    # (b) same field
    ref = x2 if w2 is not None else x
    fa, fb = field_of(ref), field_of(y)
    if fa is not None and not isinstance(fa, str):
        if isinstance(fb, str) or fb is None:
            raise Fail("same_field", cls, trig, "the field of the original can be computed, the copy's raises")
        for name, a, b in zip("BH", fa, fb):
            if a.shape != b.shape:
                raise Fail("same_field", cls, trig, f"{name}-field shapes {a.shape} vs {b.shape}")
            if np.all(np.isfinite(a)) and a.dtype.kind == "f":
                if not (np.all(np.isfinite(b)) and np.allclose(a, b, rtol=1e-12, atol=1e-12 * float(np.max(np.abs(a), initial=0.0)))):
                    raise Fail("same_field", cls, trig, f"{name}-field of the copy differs from the original's")
                if stats is not None:
                    stats["fields"] = stats.get("fields", 0) + 1
    # (d) independence: mutations of one side are invisible on the other
    post = ops[last + 1:]
    side = None
    sides = {"old": old, "new": new}
    snap = {"old": flat_snapshot(w, old), "new": flat_snapshot(w, new)}
    roots = {"old": x, "new": y}
    fld = {"old": field_of(x), "new": fb} if post else {}
    lastmut = None
    for op in post:
        for st in ([{"op": "pad"}] * len(w.objs) if op["op"] == "padcopy" else [op]):
            tgt = target_ids(st)
            s_here = None
            if any(t in new for t in tgt):
                s_here = "new"
            if any(t in old for t in tgt):
                if s_here == "new":
                    s_here = "both"
                else:
                    s_here = "old"
            if s_here == "both" or (side is not None and s_here is not None and s_here != side):
                continue          # would legitimately touch both sides: not part of this scenario
            try:
                with warnings.catch_warnings():
                    warnings.simplefilter("ignore")
                    w.apply(st)
            except Skip:
                if stats is not None:
                    stats["post-op-not-applicable"] = stats.get("post-op-not-applicable", 0) + 1
                continue
            except Exception:   # pylint: disable=broad-except
                if stats is not None:
                    stats["post-op-rejected"] = stats.get("post-op-rejected", 0) + 1
                continue          # a rejected call is not a mutation
            if s_here is not None:
                side = s_here
                lastmut = st
    if side is not None:
        other = "new" if side == "old" else "old"
        d = diff_snapshot(snap[other], flat_snapshot(w, sides[other]))
        if d is not None:
            who = "original" if side == "old" else "copy"
            raise Fail("shared_state", cls, f"{who}.{op_name(lastmut)}",
                       f"after {trig}: {op_name(lastmut)} on the {who} side changed `{d[1]}` of object {d[0]} "
                       f"({type(w.objs[d[0]]).__name__}) on the other side")
        f0, f1 = fld.get(other), field_of(roots[other])
        if f0 is not None and not isinstance(f0, str):
            bad = isinstance(f1, str) or f1 is None or any(
                a.shape != b.shape or (np.all(np.isfinite(a)) and a.dtype.kind == "f" and not np.allclose(
                    a, b, rtol=1e-12, atol=1e-12 * float(np.max(np.abs(a), initial=0.0)))) for a, b in zip(f0, f1))
            if bad:
                who = "original" if side == "old" else "copy"
                raise Fail("shared_state", cls, f"{who}.{op_name(lastmut)}",
                           f"after {trig}: {op_name(lastmut)} on the {who} side changed the field of the other side")
        if stats is not None:
            stats["mutations"] = stats.get("mutations", 0) + 1
    # static sharing, confirmed by a directed mutation through the original
    hits = static_sharing(w, old, new)
    pref = {"_position": 0, "_style": 1, "_children": 2}
    hits.sort(key=lambda h: (pref.get(h[1], 3), h[0], h[1]))
    tried = set()
    for oi, oname, nj, nname, kind in hits:
        if (oi, oname) in tried:
            continue
        tried.add((oi, oname))
        before = flat_snapshot(w, new)
        try:
            done = directed_mutation(w, oi, oname)
        except Exception:       # pylint: disable=broad-except
            done = False
        if not done:
            if stats is not None:
                stats["unconfirmed:" + oname] = stats.get("unconfirmed:" + oname, 0) + 1
            continue
        d = diff_snapshot(before, flat_snapshot(w, new))
        if d is not None:
            raise Fail("shared_state", cls, f"shared:{oname}" + ("" if not names else ":" + trig)
                       + ("" if lastmut is None else ":after-" + op_name(lastmut)),
                       f"after {trig}: `{oname}` of object {oi} and `{nname}` of its copy {nj} share {kind}; "
                       f"a change of the original shows as `{d[1]}` of object {d[0]} of the copy")
        if stats is not None:
            stats["unconfirmed:" + oname] = stats.get("unconfirmed:" + oname, 0) + 1
    return None


def all_collections(w, extra=()):
    out = [(i, o) for i, (o, kd) in enumerate(zip(w.objs, w.kinds)) if kd == "coll"]
    return out + [(None, o) for o in extra if isinstance(o, magpy.Collection)]


def reads_of(op):
    """ids an operation reads values from (aliases of another object's attribute)"""
    out = []
    if op["op"] == "mut" and isinstance(op["m"].get("val"), dict) and op["m"]["val"].get("from") is not None:
        out.append(op["m"]["val"]["from"])
    if op["op"] == "copy":
        out += [v["from"] for _, v in (op.get("kw") or {}).get("attrs", [])
                if isinstance(v, dict) and v.get("from") is not None]
    return out


def target_ids(op):
    k = op["op"]
    if k == "mut":
        return [op["i"]]
    if k in ("add", "remove", "children", "typed"):
        return [op["c"]] + list(op["objs"])
    if k == "parent":
        return [op["x"]] + ([] if op["p"] is None else [op["p"]])
    if k == "copy":
        return [op["x"]]
    return []


def op_name(op):
    if op is None:
        return "none"
    if op["op"] == "mut":
        return mut_name(op["m"])
    if op["op"] == "typed":
        return "set:" + {"source": "sources", "sensor": "sensors", "coll": "collections"}[op["k"]]
    if op["op"] == "children":
        return "set:children"
    if op["op"] == "parent":
        return "set:parent"
    return op["op"]


def _probe(sm, label):
    return [{"op": "new", "cls": "Sensor", "args": {"pixel": [0, 0, 0]}, "sm": sm,
             "style": {"kw": {"label": label}, "dict": None}}, {"op": "copy", "x": 0, "kw": {}}]


# corners the random generator does not produce; run on every check
FIXED_PROBES = [_probe(1, ""), _probe(2, ""), _probe(1, "x9"), _probe(2, "col1"), _probe(1, "a_"), _probe(2, "a_01")]


# ------------------------------------------------------------------ fixed battery (runs on every check)
DEF_ARGS = {
    "Sensor": {"pixel": [[0, 0, 0], [0, 0, 0.5]], "handedness": "left"},
    "Cuboid": {"dimension": [1, 2, 3], "polarization": [0.1, 0.2, 0.3]},
    "Cylinder": {"dimension": [1, 2], "polarization": [0, 0, 1]},
    "CylinderSegment": {"dimension": [0.5, 1, 2, -30, 120], "polarization": [0, 1, 0]},
    "Sphere": {"diameter": 1.5, "polarization": [1, 0, 0]},
    "Tetrahedron": {"vertices": [[4, 4, 4], [5, 4, 4], [4, 5, 4], [4, 4, 5]], "polarization": [0, 0, 1]},
    "Triangle": {"vertices": [[3, 0, 0], [4, 0, 0], [3, 1, 2]], "polarization": [0, 0, 1]},
    "TriangularMesh": {"vertices": [[2, 2, 2], [3, 2, 2], [2, 3, 2], [2, 2, 3]], "faces": [list(f) for f in TETRA_F],
                       "polarization": [0, 0, 1]},
    "Circle": {"diameter": 1.5, "current": 2.0},
    "Polyline": {"vertices": [[0, 0, 0], [1, 0, 0], [1, 1, 0]], "current": 1.0},
    "Dipole": {"moment": [1, 2, 3]},
    "CustomSource": {"ff": "partial", "k": [1, 2, 3]},
    "Collection": {},
}
PATH6 = [[i, 0.5 * i, 0] for i in range(6)]
PATH3 = [[1, 0, 0], [2, 0.5, 0], [3, 0.5, 1]]


def N(cls, sm=0, style=None, **args):
    return {"op": "new", "cls": cls, "args": dict(DEF_ARGS[cls], **args), "sm": sm, "style": style}


def C(x, attrs=None, kw=None, dct=None, parent=None, bad=None, traces=None):
    op = {"op": "copy", "x": x, "kw": {"attrs": attrs or [], "kw": kw or {}, "dict": dct, "traces": traces}}
    if parent is not None:
        op["kw"]["parent"] = parent
    if bad:
        op["bad"] = bad
    return op


def M(i, **m):
    return {"op": "mut", "i": i, "m": m}


def ADD(c, *objs):
    return {"op": "add", "c": c, "objs": list(objs), "ov": False}


def fixed_battery():
    """directed scenarios: [(name, ops)]; each is evaluated at its last copy, the operations after it are
    mutations of one side"""
    B = []
    ali = {"alias": "position"}
    pend = {"kw": {"label": "cube", "magnetization_show": False, "path_show": False, "path_numbering": True},
            "dict": None, "traces": None}
    tr = [{"backend": "generic", "constructor": "Scatter3d", "kwargs": {"x": [0, 1, 2], "y": [0, 0, 0], "z": [1, 1, 1],
                                                                        "mode": "lines"}, "show": True, "scale": 1}]
    # (a) absolute length scales
    for sc in (1e-6, 1e-3, 1e3):
        B.append((f"scale:{sc:g}", [N("Cuboid", dimension=[sc, 2 * sc, 3 * sc], position=[[sc, 0, 0], [2 * sc, sc, 0]]),
                                    C(0), M(0, k="move", disp=[sc, sc, sc])]))
        B.append((f"scale-circle:{sc:g}", [N("Circle", diameter=sc, position=[0, 0, sc]), C(0, attrs=[["diameter", 2 * sc]]),
                                           M(1, k="move", disp=[0, 0, sc])]))
    B.append(("scale-sensor", [N("Sensor", pixel=[[0, 0, 0], [1e-3, 0, 0]], position=[1e-3, 0, 0]), C(0), M(1, k="write", slot="_pixel", val=1)]))
    # (b) anisotropy, asymmetry, meshes from every constructor
    for k, dim in enumerate(([5, 1, 1], [1, 5, 1], [1, 1, 5])):
        B.append((f"cuboid-long-axis-{k}", [N("Cuboid", dimension=dim, orientation=[0, 90, 0]), C(0, attrs=[["orientation", [90, 0, 0]]]),
                                            M(0, k="rotate", angle=90, axis="z", anchor=[1, 0, 0])]))
    for dim in ([0.5, 1, 2, -355, 5], [0.5, 1, 2, -200, 160], [0, 1, 2, 0, 360], [0.9, 1, 0.1, -270, -95]):
        B.append((f"segment:{dim[3]}..{dim[4]}", [N("CylinderSegment", dimension=dim), C(0), M(1, k="set", attr="dimension", val=[0.5, 2, 1, 0, 90])]))
    for via in (None, "ConvexHull", "mesh", "triangles", "pyvista"):
        B.append((f"mesh:{via}", [N("TriangularMesh", via=via, position=PATH3), C(0), M(1, k="write", slot="_vertices", val=1)]))
        B.append((f"mesh-reorient:{via}", [N("TriangularMesh", via=via), C(0), M(0, k="reorient"), M(0, k="write", slot="_faces", val=1)]))
    B.append(("tetrahedron-off-origin", [N("Tetrahedron"), C(0, attrs=[["vertices", {"alias": "vertices"}]]), M(0, k="write", slot="_vertices", val=1)]))
    B.append(("triangle-off-origin", [N("Triangle"), C(0), M(1, k="write", slot="_vertices", val=0.5)]))
    # (c) special values, optional attributes left unset
    B.append(("current-zero", [N("Polyline", current=0.0), C(0), M(1, k="set", attr="current", val=3.0)]))
    B.append(("current-negative", [N("Circle", current=-2.0), C(0, attrs=[["current", 0.0]])]))
    for pol in ([0, 0, 0], [-1, 0, 0], [0, 1, 0], [0, 0, -1]):
        B.append((f"polarization:{pol}", [N("Cuboid", polarization=pol, orientation=[0, 180, 0]), C(0), M(0, k="set", attr="polarization", val=[0, 0, 1])]))
    B.append(("circle-without-diameter", [N("Circle", diameter=None), C(0), M(1, k="set", attr="diameter", val=2.0)]))
    B.append(("magnet-without-polarization", [N("Cuboid", polarization=None), C(0), M(0, k="set", attr="polarization", val=[0, 0, 1])]))
    B.append(("magnet-without-dimension", [N("Cuboid", dimension=None), C(0, attrs=[["dimension", [1, 1, 1]]])]))
    B.append(("custom-without-field_func", [N("CustomSource", ff=None), C(0), M(0, k="move", disp=[1, 0, 0])]))
    B.append(("custom-partial", [N("CustomSource"), C(0), M(0, k="write", slot="_field_func", val=1)]))
    B.append(("sensor-left-handed", [N("Sensor", orientation=[0, 0, 90]), C(0, attrs=[["handedness", "right"]]), M(0, k="set", attr="handedness", val="right")]))
    # (e) paths
    B.append(("path-override-longer", [N("Cuboid", position=PATH3, orientation=[0, 0, 90]), C(0, attrs=[["position", PATH6]]), M(1, k="move", disp=[0, 0, 1])]))
    B.append(("path-override-shorter", [N("Cuboid", position=PATH6), M(0, k="rotate", angle=[10, 20, 30], axis="z", start=1),
                                        C(0, attrs=[["position", PATH3]]), M(0, k="rotate", angle=30, axis="x", anchor=0)]))
    B.append(("path-override-orientation", [N("Dipole", position=PATH6), C(0, attrs=[["orientation", [[0, 0, 10], [0, 0, 20]]]]),
                                            M(1, k="move", disp=[[0, 0, 1], [0, 0, 2]], start=0)]))
    B.append(("move-start-negative", [N("Circle", position=PATH6), C(0), M(1, k="move", disp=[[1, 0, 0], [2, 0, 0]], start=-2)]))
    B.append(("move-start-before", [N("Circle", position=PATH3), C(0), M(0, k="move", disp=[[1, 0, 0]], start=-5)]))
    B.append(("move-start-beyond", [N("Circle", position=PATH3), C(0), M(0, k="move", disp=[1, 0, 0], start=5)]))
    B.append(("rotate-anchors-shorter", [N("Sensor", position=PATH6), C(0), M(1, k="rotate", angle=[10, 20, 30], axis="z",
                                                                           anchor=[[1, 0, 0], [2, 0, 0]], start=1)]))
    B.append(("rotate_from_euler-upper", [N("Sensor", position=PATH3), C(0), M(0, k="rotfrom", how="euler", seq="ZYX", angle=[0.3, 0.2, 0.1],
                                                                              degrees=False, anchor=0)]))
    B.append(("rotate_from_rotvec", [N("Cylinder", position=PATH3), M(0, k="rotfrom", how="rotvec", angle=[0, 0, 90], degrees=True), C(0),
                                     M(1, k="rotfrom", how="euler", seq="x", angle=90, degrees=True, anchor=[0, 1, 0], start=1)]))
    # (f) three levels of nesting
    tree = [N("Collection", position=[0, 0, 1]), N("Collection", position=PATH3), N("Collection"), N("Cuboid", sm=1, style=pend, position=PATH3),
            N("Sensor", sm=2, style={"kw": {"label": "s"}, "dict": None, "traces": tr}), N("Circle"),
            ADD(2, 3, 4), ADD(1, 2, 5), ADD(0, 1)]
    B.append(("tree-copy-root", tree + [C(0), M(3, k="move", disp=[1, 0, 0])]))
    B.append(("tree-copy-root-position", tree + [C(0, attrs=[["position", [5, 5, 5]]]), M(6, k="reset")]))
    B.append(("tree-copy-root-orientation", tree + [C(0, attrs=[["orientation", [0, 0, 90]], ["position", PATH3]]), M(9, k="set", attr="polarization", val=[1, 0, 0])]))
    B.append(("tree-copy-middle", tree + [C(1), M(7, k="move", disp=[0, 0, 1])]))
    B.append(("tree-copy-middle-grandchild", tree + [C(1), M(10, k="trace", idx=0, what="show")]))
    B.append(("tree-copy-inner", tree + [C(2, attrs=[["position", {"alias": "position", "from": 3}]]), M(8, k="move", disp=[1, 1, 1])]))
    B.append(("tree-copy-middle-then-tree-edit", tree + [C(1), {"op": "parent", "x": 9, "p": None}]))
    B.append(("tree-original-reset", tree + [C(0), M(0, k="reset")]))
    B.append(("tree-copy-of-copy", tree + [C(1), C(7), M(19, k="label", label="zz")]))
    # (g) histories
    for name, mid in (("set", [M(0, k="set", attr="dimension", val=[2, 2, 2])]), ("move", [M(0, k="move", disp=PATH3)]),
                      ("style", [M(0, k="style", upd={"color": "red"})]), ("repr", [M(0, k="read", what="repr")]),
                      ("describe-getB", [M(0, k="read", what="describe"), M(0, k="read", what="getB")]),
                      ("defaults", [{"op": "defaults", "how": "update"}, {"op": "defaults", "how": "reset"}]),
                      ("defaults-update", [{"op": "defaults", "how": "update"}]), ("two-in-a-row", [C(0)]),
                      ("rejected-position", [C(0, bad="position")]), ("rejected-style", [C(0, bad="style_nonsense")]),
                      ("rejected-style-value", [C(0, bad="style_bad_value")]), ("unknown-keyword", [C(0, bad="nonsense")])):
        B.append((f"history:{name}", [N("Cuboid", sm=1, style=pend, position=PATH3), C(0)] + mid + [C(0), M(0, k="move", disp=[1, 0, 0])]))
    B.append(("history:reorient", [N("TriangularMesh"), C(0), M(0, k="reorient"), M(0, k="move", disp=[1, 0, 0]), C(0), M(1, k="reorient")]))
    B.append(("history:tree-edit", [N("Collection"), N("Sensor"), N("Circle"), ADD(0, 1), C(0), ADD(0, 2), {"op": "remove", "c": 0, "objs": [1], "rec": True},
                                    C(0), M(2, k="move", disp=[1, 0, 0])]))
    for bad in sorted(BAD_KW):
        B.append((f"rejected:{bad}", [N("Collection"), N("Collection"), N("Cuboid", sm=1, style=pend), N("Sensor"), ADD(1, 2, 3), ADD(0, 1), C(1, bad=bad)]))
        B.append((f"rejected-leaf:{bad}", [N("Collection"), N("Cuboid", position=PATH3), ADD(0, 1), C(1, bad=bad)]))
    # (h) keyword modes
    B.append(("parent-keyword", [N("Collection"), N("Collection"), N("Sensor"), ADD(0, 2), C(2, parent=1), M(2, k="move", disp=[1, 0, 0])]))
    B.append(("parent-keyword-same", [N("Collection"), N("Cuboid", position=PATH3), ADD(0, 1), C(1, parent=0, attrs=[["position", [1, 1, 1]]])]))
    B.append(("parent-keyword-collection", [N("Collection"), N("Collection"), N("Sensor"), ADD(1, 2), C(1, parent=0), M(1, k="move", disp=[1, 0, 0])]))
    B.append(("style-dict-over-pending-group", [N("Cuboid", sm=1, style=pend), C(0, dct={"magnetization": {"color": {"north": "green"}}, "path": {"line": {"width": 3}}})]))
    B.append(("style-dict-over-initialised", [N("Cuboid", sm=2, style=pend), C(0, dct={"magnetization": {"color": {"north": "green"}}}, kw={"label": "b"})]))
    B.append(("style-underscore-over-pending", [N("Sensor", sm=1, style={"kw": {"pixel_size": 2, "arrows_x_color": "red"}, "dict": None}),
                                                C(0, kw={"arrows_y_color": "blue", "pixel_color": "green"})]))
    B.append(("style-traces", [N("Cuboid", sm=2, style={"kw": {"label": "cube", "color": "blue"}, "dict": None, "traces": tr}), C(0),
                               M(1, k="trace", idx=0, what="kwx")]))
    B.append(("style-traces-original", [N("Sensor", sm=1, style={"kw": {}, "dict": None, "traces": tr}), M(0, k="touch"), C(0), M(0, k="trace", idx=0, what="scale")]))
    # None-valued style overrides, both notations, on initialised and lazy styles
    full = {"color": "blue", "opacity": 0.5, "path_line_width": 3, "path_line_color": "red", "description_text": "dd"}
    for sname, sm, sty in (("pending-kw", 1, {"kw": dict(full, label="q"), "dict": None}),
                           ("pending-dict", 1, {"kw": {}, "dict": nest(full)}),
                           ("initialised", 2, {"kw": dict(full), "dict": None})):
        for oname, okw, odct in (("kw-color", {"color": None}, None),
                                 ("kw-two", {"opacity": None, "path_line_width": None}, None),
                                 ("dict", None, {"color": None, "path": {"line": {"width": None}}}),
                                 ("mixed", {"color": None, "opacity": 0.25}, {"path": {"line": {"color": None, "width": 5}}}),
                                 ("kw-label-none", {"label": None, "description_text": None}, None)):
            for cls in ("Cuboid", "Sensor", "Collection"):
                B.append((f"style-none:{sname}:{oname}:{cls}", [N(cls, sm=sm, style=sty), C(0, kw=okw, dct=odct)]))
        B.append((f"style-none-child:{sname}", [N("Collection"), N("Circle", sm=sm, style=sty), ADD(0, 1), C(1, kw={"color": None, "path_line_color": None})]))
    # (i) aliasing
    for cls in ("Cuboid", "Circle", "Dipole", "Sensor"):
        B.append((f"alias-position:{cls}", [N(cls, position=PATH6), C(0, attrs=[["position", ali]]), M(1, k="move", disp=[0, 0, 1])]))
        B.append((f"alias-position-slice:{cls}", [N(cls, position=PATH6), C(0, attrs=[["position", dict(ali, slice=3)]]), M(0, k="move", disp=[0, 0, -2])]))
    B.append(("alias-position-with-parent", [N("Collection"), N("Cuboid", position=PATH6), ADD(0, 1), C(1, attrs=[["position", ali]]),
                                            M(3, k="rotate", angle=90, axis="z", anchor=[0, 0, 0])]))
    B.append(("alias-position-collection", [N("Collection", position=PATH6), N("Cuboid", position=PATH6), N("Dipole", position=PATH6), ADD(0, 1, 2),
                                           C(0, attrs=[["position", ali]]), M(3, k="move", disp=[5, 0, 0])]))
    B.append(("alias-child-position", [N("Collection", position=PATH3), N("Cuboid", position=PATH6), ADD(0, 1),
                                      C(0, attrs=[["position", {"alias": "position", "from": 1}]]), M(1, k="move", disp=[0, 0, 1])]))
    B.append(("alias-single-element-path", [N("Sensor", position=[[1, 2, 3]]), C(0, attrs=[["position", ali]]), M(1, k="move", disp=[1, 0, 0])]))
    B.append(("alias-ndarray-input", [N("Cuboid", position={"np": PATH3}, dimension={"np": [1, 2, 3]}), C(0, attrs=[["position", {"np": PATH6}]]),
                                     M(1, k="move", disp=[1, 0, 0])]))
    B.append(("alias-ndarray-1x3", [N("Cuboid"), C(0, attrs=[["position", {"np": [[4, 5, 6]]}]]), M(1, k="move", disp=[1, 0, 0])]))
    B.append(("alias-orientation", [N("Cuboid", position=PATH3, orientation=[[0, 0, 10], [0, 0, 20], [0, 0, 30]]),
                                   C(0, attrs=[["orientation", {"alias": "orientation"}]]), M(0, k="rotate", angle=45, axis="x")]))
    for who, t, src in (("original", 0, 1), ("copy", 1, 0)):
        B.append((f"alias-back-into-{who}", [N("Cuboid", position=PATH6), C(0), M(t, k="set", attr="position", val={"alias": "position", "from": src}),
                                             M(t, k="move", disp=[0, 0, 1])]))
    for attr, cls in (("dimension", "Cuboid"), ("polarization", "Cylinder"), ("magnetization", "Sphere"), ("moment", "Dipole"),
                      ("vertices", "Polyline"), ("pixel", "Sensor")):
        B.append((f"alias-{attr}", [N(cls), C(0, attrs=[[attr, {"alias": attr}]]), M(0, k="write", slot="_" + attr, val=1)]))
    return B


def random_scenario(rng):
    """a random script whose last copy is followed by mutations of one side"""
    for _ in range(50):
        ops, _, _, w = random_script(rng, corr=False)
        copies = [i for i, op in enumerate(ops) if op["op"] == "copy"]
        if copies:
            break
    else:
        raise RuntimeError("the generator produces no copy")
    last = copies[-1]
    try:
        return ops[:last + 1] + gen_post(rng, ops[:last + 1])
    except Exception:      # pylint: disable=broad-except
        return ops[:last + 1]
    finally:
        if any(op["op"] == "defaults" for op in ops):
            magpy.defaults.reset()


def gen_post(rng, ops):
    """rebuild the world right after the last copy and generate 1-3 mutations of one side"""
    w = World(model=False)
    for op in ops:
        w.apply(op)
    xi, n = w.last_copy
    new = [i for i in w.live() if i >= n]
    old = [i for i in w.live() if i < n]
    side = new if rng.random() < 0.5 else old
    # prefer the tree of x on the old side
    if side is old and rng.random() < 0.8:
        root = xi
        for a in ancestors(w, xi):
            root = a
        side = w.subtree(root)
    post = []
    if rng.random() < 0.2:
        # an attribute of the other side passed back into a setter (orig.position = cp.position, or the
        # reverse), then an in-place path operation on the receiving object
        t, src = (n + xi, xi) if side is new else (xi, n + xi)
        for op in ({"op": "mut", "i": t, "m": {"k": "set", "attr": "position", "val": {"alias": "position", "from": src}}},
                   {"op": "mut", "i": t, "m": {"k": "move", "disp": vec3(rng)}}):
            try:
                w.apply(op)
                post.append(op)
            except Exception:     # pylint: disable=broad-except
                break
    for _ in range(rng.choice([1, 1, 2])):
        r = rng.random()
        colls = [i for i in side if w.kinds[i] == "coll"]
        if r < 0.3 and colls:
            c = rng.choice(colls)
            fresh = len(w.objs)
            nw = gen_new(rng, rng.choice(["Sensor", "Cuboid", "Collection"]), search=True)
            cand = [nw, {"op": "add", "c": c, "objs": [fresh], "ov": False}]
            if rng.random() < 0.5:
                t = gen_tree_op(rng, w, side)
                if t is not None:
                    cand = [t]
        else:
            i = rng.choice(side)
            o = w.objs[i]
            m = gen_mut(rng, o, type(o).__name__, corr=False)
            if w.kinds[i] == "coll" and rng.random() < 0.15:
                m = {"k": "childstyles", "upd": {"color": "orange"}}
            cand = [{"op": "mut", "i": i, "m": m}]
        for op in cand:
            try:
                w.apply(op)
            except Skip:
                continue
            except Exception:     # pylint: disable=broad-except
                continue
            post.append(op)
    return post


def shrink_scenario(ops, clause):
    last = max(i for i, op in enumerate(ops) if op["op"] == "copy")

    def fails_ops(cand_ops):
        try:
            run_scenario(cand_ops)
        except Fail as f:
            return f.clause == clause
        except Exception:      # pylint: disable=broad-except
            return False
        return False
    items = [i for i in range(len(ops)) if i != last]

    def fails(kept):
        return fails_ops(expand_pads(ops, set(kept) | {last}))
    kept = shrink_list(items, fails, max_steps=120)
    small = expand_pads(ops, set(kept) | {last})
    # keyword overrides of the copy, one at a time
    ci = max(i for i, op in enumerate(small) if op["op"] == "copy")
    kw = deepcopy(small[ci].get("kw") or {})
    for part in ("attrs", "kw", "dict"):
        if part == "attrs":
            for a in list(kw.get("attrs", [])):
                trial = deepcopy(kw)
                trial["attrs"].remove(a)
                cand = small[:ci] + [dict(small[ci], kw=trial)] + small[ci + 1:]
                if fails_ops(cand):
                    kw, small = trial, cand
        elif part == "kw":
            for key in list(kw.get("kw") or {}):
                trial = deepcopy(kw)
                del trial["kw"][key]
                cand = small[:ci] + [dict(small[ci], kw=trial)] + small[ci + 1:]
                if fails_ops(cand):
                    kw, small = trial, cand
        elif kw.get("dict") is not None or kw.get("traces"):
            for key in ("dict", "traces"):
                if kw.get(key):
                    trial = deepcopy(kw)
                    trial[key] = None
                    cand = small[:ci] + [dict(small[ci], kw=trial)] + small[ci + 1:]
                    if fails_ops(cand):
                        kw, small = trial, cand
    # simplify the constructions: the simplest class, no style, default path
    def simpler(op):
        if op["cls"] != "Sensor":
            yield {"op": "new", "cls": "Sensor", "sm": op.get("sm", 0), "style": op.get("style"),
                   "args": dict({k: v for k, v in op["args"].items() if k in ("position", "orientation")},
                                pixel=[0, 0, 0])}
        if op.get("sm", 0) != 0:
            yield dict(op, sm=0, style=None)
        if (op.get("style") or {}).get("traces") and ((op["style"].get("kw") or op["style"].get("dict"))):
            yield dict(op, style={"kw": {}, "dict": None, "traces": op["style"]["traces"][:1]})
        if "position" in op["args"] or "orientation" in op["args"]:
            yield dict(op, args={k: v for k, v in op["args"].items() if k not in ("orientation", "position")})
    for i in range(len(small)):
        if small[i]["op"] != "new":
            continue
        progress = True
        while progress:
            progress = False
            for trial in simpler(small[i]):
                cand = small[:i] + [trial] + small[i + 1:]
                if fails_ops(cand):
                    small, progress = cand, True
                    break
    return small


def report_fail(ctx, ops, f):
    small = shrink_scenario(ops, f.clause)
    try:
        run_scenario(small)
        g = None
    except Fail as e:
        g = e
    if g is None or g.clause != f.clause:
        small, g = ops, f
    ctx.impl_fail(g.sig(), g.text + f" (script of {len(small)} operations)",
                  {"kind": "scenario", "ops": small, "clause": g.clause})
    return g.sig()


def fmt_op(op):
    o = dict(op)
    k = o.pop("op")
    return k + "(" + ", ".join(f"{a}={json.dumps(b)}" for a, b in o.items()) + ")"


# ------------------------------------------------------------------ labels (add_iteration_suffix)
DOCUMENTED_LABELS = ["col", "col1", "col_02", "a", "a_01", "x9", "x99", "a_", "a__", "_", "__", "", "7", "09", "99",
                     "0099", "000", "a_00", "a_1", "b 2", "a1b", "Sensor", "Sensor_01", "col_99", "a-1", "a.5", "9_",
                     " ", "a ", '"', 'a"1', "it's", "a\\9", "a_9", "a09", "9", "1_0", "a_01_", "~", "(1)"]
LETTERS = "abcxyzABZ"
PUNCT = " _-.:/\\\"'()[]{}#+*~!?,;<>=%&$@^|`"


def gen_label(rng):
    """printable ASCII label of length 0..12"""
    r = rng.random()
    if r < 0.04:
        return ""
    if r < 0.16:
        return "".join(rng.choice("0123456789") for _ in range(rng.randint(1, 6)))
    if r < 0.24:
        return rng.choice(["9", "09", "99", "099", "999", "0999", "0", "00", "000", "19", "199", "0099", "9999999"])
    n = rng.randint(0, 8)
    body = "".join(rng.choice(LETTERS if rng.random() < 0.6 else "0123456789" if rng.random() < 0.5 else PUNCT)
                   for _ in range(n))
    tail = rng.choice(["", "", "_", "__", "_0", "_00", "_01", "_9", "_99", "9", "99", "09", "1", " 2", "_ ", "1b",
                       "_1_", "-1", ".5"])
    return (body + tail)[:12]


def coq_string(t):
    return '"' + t.replace('"', '""') + '"'


def label_impl(lab):
    """(add_iteration_suffix(l), label of the copy of a Sensor with pending style kwargs, label of the copy
    of a Sensor with initialised style); a raised exception is reported as '<raises Name>'"""
    from magpylib._src.utility import add_iteration_suffix

    def guard(f):
        try:
            return f()
        except Exception as e:      # pylint: disable=broad-except
            return f"<raises {type(e).__name__}>"

    def initialised():
        s = magpy.Sensor()
        s.style.label = lab
        return s.copy().style.label
    return (guard(lambda: add_iteration_suffix(lab)), guard(lambda: magpy.Sensor(style_label=lab).copy().style.label),
            guard(initialised))


def label_oracle(lab):
    """the property on one label, model-independent: None or (trigger, text)"""
    a, b, c = label_impl(lab)
    for which, v in (("pending", b), ("initialised", c)):
        if isinstance(v, str) and v.startswith("<raises "):
            kind = "empty" if lab == "" else label_kind(lab, False).split("-")[0]
            return f"{kind}-raises-{v[8:-1]}", (f"Sensor.copy() of an object whose style label is "
                                                + ("the empty string" if lab == "" else repr(lab)) +
                                                f" ({which} style) raises {v[8:-1]}")
    if not (a == b == c):
        return "copy-differs-from-add_iteration_suffix", (
            f"label {lab!r}: add_iteration_suffix gives {a!r}, the copy of a Sensor with pending style kwargs is "
            f"labelled {b!r}, with initialised style {c!r}")
    if b == lab:
        return "not-different", f"the copy of a Sensor labelled {lab!r} has the same label"
    try:
        s = magpy.Sensor(style_label=lab)
        chain = [lab]
        for _ in range(3):
            s = s.copy()
            chain.append(s.style.label)
    except Exception as e:      # pylint: disable=broad-except
        return f"chain-raises-{type(e).__name__}", f"copies of copies of a Sensor labelled {lab!r} raise {type(e).__name__}"
    if len(set(chain)) != 4:
        return "chain-repeats", f"three successive copies of a Sensor labelled {lab!r} are labelled {chain[1:]}"
    return None


def shrink_label(lab, trigger):
    def fails(chars):
        r = label_oracle("".join(chars))
        return r is not None and r[0] == trigger
    return "".join(shrink_list(list(lab), fails, max_steps=60))


LABELS_HEADER = """From Coq Require Import List String.
Import ListNotations.
Open Scope string_scope.
From MV Require Import Model.LabelModel.
"""


def label_model_check(ctx, pairs, chunk=500):
    """pairs (label, implementation result); returns the indices where LabelModel.iter_str differs, or None"""
    bad = []
    for k, ci in enumerate(range(0, len(pairs), chunk)):
        part = pairs[ci:ci + chunk]
        txt = LABELS_HEADER + "Eval vm_compute in (label_failing 0 [" + \
            ";\n ".join(f"({coq_string(a)}, {coq_string(b)})" for a, b in part) + "]).\n"
        ok, out = ctx.coq_eval(f"c18_{ctx.tier}_labels_{k}", txt)
        m = re.search(r"=\s*\[([\d;\s]*)\]\s*:\s*list nat", out) if ok else None
        if m is None:
            ctx.add_broken("broken-correspondence", f"c18_{ctx.tier}_labels_{k}", "model evaluation failed:\n" + out[-1500:])
            return None
        bad += [ci + int(z) for z in m.group(1).split(";") if z.strip()]
    return bad


# ------------------------------------------------------------------ kwargs (BaseGeo._process_style_kwargs)
KW_LEAVES = ["color", "opacity", "path_line_width", "path_line_color", "description_text", "label", "path_show",
             "legend_text"]
KW_VALUES = ["red", "blue", 0.5, 0.25, 3, True, False, "txt", 0, ""]


def gen_kw_case(rng):
    """(style dict or None, [(leaf, value) ...] in keyword order); flat magic-underscore leaf names"""
    style = None
    if rng.random() < 0.6:
        style = {leaf: (None if rng.random() < 0.3 else rng.choice(KW_VALUES))
                 for leaf in rng.sample(KW_LEAVES, rng.randint(0, 4))}
    kws = []
    if rng.random() < 0.85:
        pool = list(KW_LEAVES)
        if style and rng.random() < 0.6:               # the same leaf in the dictionary and as a keyword
            pool = list(style) + pool
        seen = set()
        for leaf in pool[:rng.randint(1, 4)] if rng.random() < 0.5 else rng.sample(KW_LEAVES, rng.randint(1, 4)):
            if leaf not in seen:
                seen.add(leaf)
                kws.append((leaf, None if rng.random() < 0.4 else rng.choice(KW_VALUES)))
    return style, kws


def kwargs_stage(ctx, n):
    from magpylib._src.obj_classes.class_BaseGeo import BaseGeo
    tok = {}

    def pv(v):
        return "None" if v is None else f"(Some {tok.setdefault(repr(v), len(tok) + 1)})"

    def cdict(d):
        return "[" + "; ".join(f"({KW_LEAVES.index(k)}, {pv(v)})" for k, v in d) + "]"
    fixed = [(None, []), ({}, []), ({"color": "red"}, []), (None, [("color", None)]), ({"color": "red"}, [("color", None)]),
             ({"color": None}, [("color", "red")]), ({"opacity": 0.5}, [("color", None), ("opacity", None)]),
             (None, [("path_line_width", None), ("color", "blue")])]
    cases, texts, mutated = [], [], []
    for t in range(n):
        style, kws = fixed[t] if t < len(fixed) else gen_kw_case(ctx.rng)
        arg = None if style is None else dict(style)
        ret = BaseGeo._process_style_kwargs(style=arg, **{"style_" + k: v for k, v in kws})
        if arg is not None and arg != style:
            mutated.append((style, kws, arg))
        if ret is None:
            exp = "None"
        else:
            if not isinstance(ret, dict) or any(k not in KW_LEAVES for k in ret):
                raise RuntimeError(f"_process_style_kwargs(style={style}, {kws}) returned {ret!r}")
            exp = "(Some [" + "; ".join(("None" if k not in ret else f"(Some {pv(ret[k])})") for k in KW_LEAVES) + "])"
        cases.append((style, kws, ret))
        texts.append(f"({'None' if style is None else '(Some ' + cdict(style.items()) + ')'}, {cdict(kws)}, {exp})")
        ctx.case("kwargs:" + repr((style, kws)), True)
        ctx.bump("kwargs:" + ("no-keywords" if not kws else "with-None" if any(v is None for _, v in kws) else "plain"))
    txt = ("From Coq Require Import List Arith.\nImport ListNotations.\nFrom MV Require Import Model.KwModel.\n"
           "Eval vm_compute in (kw_failing 0 [\n " + ";\n ".join(texts) + "]).\n")
    ok, out = ctx.coq_eval(f"c18_{ctx.tier}_kwargs", txt)
    m = re.search(r"=\s*\[([\d;\s]*)\]\s*:\s*list nat", out) if ok else None
    if m is None:
        ctx.add_broken("broken-correspondence", f"c18_{ctx.tier}_kwargs", "model evaluation failed:\n" + out[-1500:])
        return
    bad = [int(z) for z in m.group(1).split(";") if z.strip()]
    ctx.count("traces_validated_against_impl", len(cases) - len(bad))
    ctx.log(f"kwargs: model and implementation differ on {len(bad)} of {len(cases)} calls of _process_style_kwargs")
    if bad:
        style, kws, ret = cases[bad[0]]
        ctx.add_broken("broken-correspondence", "KwModel vs BaseGeo._process_style_kwargs",
                       f"{len(bad)} of {len(cases)} calls differ; first: _process_style_kwargs(style={style!r}, "
                       + ", ".join(f"style_{k}={v!r}" for k, v in kws) + f") returned {ret!r}")
    if mutated:
        style, kws, arg = mutated[0]
        ctx.add_broken("broken-correspondence", "BaseGeo._process_style_kwargs mutates the caller's dictionary",
                       f"{len(mutated)} calls; first: style={style!r}, keywords {kws} -> the argument became {arg!r}")


# ------------------------------------------------------------------ main
def ensure_model_built(ctx):
    """while Props/C18.v does not exist: compile the executable model only"""
    with Lock():
        ensure_makefile()
        rc, out = sh("make Model/CopyExec.vo Model/LabelModel.vo Model/KwModel.vo", 600, cwd=COQ)
    if rc != 0:
        ctx.add_broken("broken-proof", "Model/CopyExec.v", out[-2000:])
        return False
    return True


def run(ctx):
    ctx.extra["rule"] = (
        "random scripts over 2-5 initial objects of all 13 classes (Sensor with pixel arrays, the magnets, "
        "TriangularMesh, currents, Dipole, CustomSource without / with a function / with a functools.partial "
        "holding an array, Collections up to depth 3), path length 1 and >1, the three style modes (none, pending "
        "keyword arguments, initialised), then 4-11 operations: tree operations, copy with keyword overrides "
        "(position, orientation, class attributes, style_label, style_color/opacity, style=dict), copies of copies "
        "and of children, setters, move/rotate/reset_path, in-place writes into every buffer, style.update / nested "
        "style assignment / style.label; correspondence: after every operation every object is observed and "
        "compared with the Coq model; search: the clauses of the property at the last copy and under mutations "
        "of one side; a case is distinct by its canonical JSON and non-trivial if it contains a copy")
    ctx.trusted += [
        "hand model coq/Model/CopyModel.v of BaseGeo.copy / BaseGeo.style (lazy creation) on top of ForestModel; "
        "tied by the script correspondence (parent, children, value tokens of every mutable slot, effective style, "
        "label, lazy-style flags and sharing classes of all buffers of every object after every operation)",
        "copy.deepcopy is modelled (clone of the subtree with fresh cells), not verified; what is checked on the "
        "implementation is its observable outcome (values equal, no shared identity / memory)",
        "the value effect of setters, move/rotate and keyword overrides is calibrated on a scratch twin rebuilt "
        "from the object's recipe (which slots are rebound / written and their new value tokens); the model "
        "predicts where the new values live and that nothing else changes",
        "the correspondence issues only tree operations that succeed and no position/orientation operation on a "
        "collection with children (those move the children: search only); value tokens are exact encodings "
        "(bit patterns of arrays, quaternions rounded to 1e-12)",
    ]
    ctx.regen(["GenForest"])     # AST fingerprints of BaseGeo.copy / style / add_iteration_suffix (fail closed)
    built = ctx.build_props()
    if ctx.tier == "thorough" and built:
        ctx.coqchk("MV.Props.C18")
    try:
        src = open(os.path.join(COQ, "Props", "C18.v")).read()
        ctx.refuted = re.findall(r"^Theorem\s+(\w*_refuted\w*)", src, flags=re.M)
        ctx.partial = re.findall(r"^Theorem\s+(\w*_partial\w*)", src, flags=re.M)
    except OSError:
        pass
    model_ok = built or ensure_model_built(ctx)      # the executable model must run when a proof breaks

    def corr():
        errors = []
        if model_ok:
            ph = probe_model(ctx)
            if ph is None:
                return
            World.phantom = ph
            ctx.extra["model_variant"] = {"dead_rows_number_cell0": ph}
            ctx.log(f"model variant: dead rows take part in the cell numbering = {ph}")
        cases, scripts = [], []
        nrand = ctx.n(250, 3000)
        for _ in range(nrand):
            try:
                ops, cops, trace, w = random_script(ctx.rng, corr=True)
            except Exception as e:      # pylint: disable=broad-except
                errors.append(f"{type(e).__name__}: {e}\n{traceback.format_exc()[-2000:]}")
                continue
            cases.append((cops, trace))
            for key, v in w.stats.items():
                ctx.bump(key, v)
            scripts.append(ops)
            ctx.case(json.dumps(ops, sort_keys=True), any(op["op"] == "copy" for op in ops))
            for op in ops:
                ctx.bump("op:" + (op["op"] if op["op"] != "mut" else "mut:" + op["m"]["k"]))
                if op["op"] == "new":
                    ctx.bump(f"new:{op['cls']}")
                    ctx.bump(f"style_mode:{op.get('sm', 0)}")
                if op["op"] == "copy":
                    ctx.bump("copy:" + ("plain" if not kw_names(op.get("kw") or {}) else "override"))
        if errors:
            ctx.add_broken("broken-correspondence", "C18 script execution",
                           f"{len(errors)} of {nrand} scripts could not be executed / observed; first:\n{errors[0]}")
        if not cases:
            return
        mid = len(cases) // 2
        ctx.samples.append({"script": scripts[mid], "model_ops": cases[mid][0],
                            "final_observation_[parent,children,slots,style,label,has_style,pending,cells]":
                                cases[mid][1][-1]})
        ctx.log(f"correspondence: {len(cases)} scripts executed, running the model")
        bad = model_check(ctx, ctx.tier, cases) if model_ok else None
        if bad is None:
            return
        ctx.log(f"correspondence: model and implementation differ on {len(bad)} of {len(cases)} scripts")
        ctx.count("traces_validated_against_impl", len(cases) - len(bad))
        for ci, k in bad[:3]:
            ops = scripts[ci]

            def fails(kept):
                try:
                    _, cops, tr, _ = run_script(expand_pads(ops, set(kept)), tolerant=True)
                    r = model_check(ctx, "shrink", [(cops, tr)])
                except Exception:   # pylint: disable=broad-except
                    return False
                return bool(r)
            kept = shrink_list(list(range(min(k + 1, len(ops)))), fails, max_steps=25)
            done, cops, tr, _ = run_script(expand_pads(ops, set(kept)), tolerant=True)
            r = model_check(ctx, "shrink", [(cops, tr)]) or [(0, len(cops) - 1)]
            kk = r[0][1]
            ctx.add_broken("broken-correspondence", "CopyModel vs implementation",
                           json.dumps({"ops": done[:kk + 1], "model_ops": cops[:kk + 1],
                                       "impl_observation_after_last_op": tr[kk] if kk < len(tr) else None},
                                      default=str) +
                           "\nmodel prediction:\n" + model_predict(ctx, cops[:kk + 1]))

    run_guarded(ctx, corr, "C18 correspondence")

    label_list = list(DOCUMENTED_LABELS)
    seen_l = set(label_list)
    while len(label_list) < ctx.n(400, 5000):
        lab = gen_label(ctx.rng)
        if lab not in seen_l or ctx.rng.random() < 0.05:
            seen_l.add(lab)
            label_list.append(lab)

    def labels():
        """stage 3b: LabelModel.iter_str vs add_iteration_suffix vs the label of actual copies"""
        pairs = []
        for lab in label_list:
            a, b, c = label_impl(lab)
            ctx.case("label:" + lab, True)
            ctx.bump("label:" + ("empty" if lab == "" else "digits-only" if lab.isdigit() else
                                 "ends-with-digit" if lab[-1].isdigit() else
                                 "ends-with-underscore" if lab[-1] == "_" else "other"))
            pairs.append((lab, a))
        ctx.samples.append({"labels": [[a, b] for a, b in pairs[:len(DOCUMENTED_LABELS)]]})
        bad = label_model_check(ctx, pairs) if model_ok else None
        if bad is None:
            return
        ctx.count("traces_validated_against_impl", len(pairs) - len(bad))
        ctx.log(f"labels: model and implementation differ on {len(bad)} of {len(pairs)} labels")
        if bad:
            lab, got = pairs[bad[0]]
            ctx.add_broken("broken-correspondence", "LabelModel vs add_iteration_suffix",
                           f"{len(bad)} of {len(pairs)} labels differ; first: label {lab!r}: implementation gives "
                           f"{got!r}, the copies give {label_impl(lab)[1:]}; others: "
                           + repr([pairs[i] for i in bad[1:6]]))

    run_guarded(ctx, labels, "C18 labels")
    if model_ok:
        run_guarded(ctx, lambda: kwargs_stage(ctx, ctx.n(200, 2000)), "C18 kwargs")

    def search():
        big = bool(ctx.broken)
        n = ctx.n(300, 4000) * (6 if big else 1)
        stats, fails, errors = {}, [], []
        lab_fails = {}
        for lab in label_list:                 # the property on the labels, independent of the model
            r = label_oracle(lab)
            ctx.bump("search-label")
            if r is not None and r[0] not in lab_fails:
                lab_fails[r[0]] = lab
        for trig, lab in lab_fails.items():
            small = shrink_label(lab, trig)
            r = label_oracle(small)
            if r is None or r[0] != trig:
                small, r = lab, label_oracle(lab)
            ctx.impl_fail(f"label/Sensor:{r[0]}", r[1], {"kind": "label", "label": small, "trigger": r[0]})
        for name, ops in [("label-probe", o) for o in FIXED_PROBES] + fixed_battery():
            ctx.case(json.dumps(ops, sort_keys=True), True)
            ctx.bump("search-fixed:" + name.split(":")[0])
            copies = [i for i, op in enumerate(ops) if op["op"] == "copy"]
            try:
                for ci in copies[:-1]:              # every copy of a directed scenario is evaluated
                    run_scenario(ops[:ci + 1], stats)
                run_scenario(ops, stats)
            except Fail as f:
                fails.append((ops if f is None else ops, f))
            except Exception as e:      # pylint: disable=broad-except
                errors.append(f"fixed scenario {name}: {type(e).__name__}: {e}\n{traceback.format_exc()[-1500:]}")
        for _ in range(n):
            if len(fails) >= 20:          # plenty of counterexamples: shrink them instead of collecting more
                break
            ops = random_scenario(ctx.rng)
            ctx.case(json.dumps(ops, sort_keys=True), True)
            ctx.bump("search-scenario")
            copies = [i for i, op in enumerate(ops) if op["op"] == "copy"]
            # the first copy of the script (its prefix contains no copy) and the last one with the mutations
            subs = [ops[:copies[0] + 1]] if len(copies) > 1 else []
            for sub in subs + [ops]:
                try:
                    run_scenario(sub, stats)
                except Fail as f:
                    fails.append((sub, f))
                    ctx.bump("scenario-with-violation")
                    break
                except Exception as e:      # pylint: disable=broad-except
                    errors.append(f"{type(e).__name__}: {e}\n{traceback.format_exc()[-1500:]}\n{json.dumps(sub)[:1500]}")
                    break
        if errors:
            ctx.add_broken("broken-correspondence", "C18 search machinery",
                           f"{len(errors)} scenarios could not be evaluated; first:\n{errors[0]}")
        for k, v in stats.items():
            ctx.bump("search:" + k, v)
        ctx.log(f"search: {ctx.dist.get('search-scenario', 0)} scenarios, {len(fails)} with a violated clause")
        seen = {}
        for ops, f in fails:
            key = f.sig()
            ctx.bump("violation-unshrunk:" + key)
            if seen.get(key, 0) >= 2 or len(seen) >= 12 and key not in seen:
                continue
            seen[key] = seen.get(key, 0) + 1
            report_fail(ctx, ops, f)

    run_guarded(ctx, search, "C18 search")


def replay(ctx, obj):
    rp = obj.get("replay", obj)
    if rp.get("kind") == "scenario":
        for op in rp["ops"]:
            print("  ", fmt_op(op))
        try:
            run_scenario(rp["ops"])
        except Fail as f:
            print(f"replay: FAILS [{f.sig()}] {f.text}")
            print(f"VIOLATION property=C18 replay={obj.get('how_to_rerun', '').split()[-1] or 'given'}")
            return 1
        print("replay: every clause of the property holds on this script")
        return 0
    if rp.get("kind") == "label":
        r = label_oracle(rp["label"])
        print(f"   label {rp['label']!r}: add_iteration_suffix / copy (pending) / copy (initialised) = {label_impl(rp['label'])}")
        if r is not None:
            print(f"replay: FAILS [label/Sensor:{r[0]}] {r[1]}")
            print(f"VIOLATION property=C18 replay={obj.get('how_to_rerun', '').split()[-1] or 'given'}")
            return 1
        print("replay: the label of the copy is iterated as documented")
        return 0
    print(json.dumps(obj, indent=1)[:3000])
    return 0
