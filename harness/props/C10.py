"""C10 -- operations on a Collection keep every child's pose relative to it."""
import json

import numpy as np
from scipy.spatial.transform import Rotation as R

from harness.common import run_guarded
from harness import octa
from harness.octa import clist, copt
from harness.shrink import shrink_list
from harness.props import C09 as P9
from harness import rigid_r3

import magpylib as magpy


# ------------------------------------------------------------------ trees
# tree  = {"kind": "col"|"leaf"|<source kind>, "p": pos input, "r": rot input|None, "ch": [tree...]}
# hist  = [{"at": [child indices from the root], "op": <C09 op dict (+ "form" for rotate_from_*)>}]

def preorder(t, path=()):
    yield list(path), t
    for i, c in enumerate(t.get("ch", [])):
        yield from preorder(c, path + (i,))


def build(t, rots, leaf=None):
    """real objects for a tree description; returns list of (path, object) in preorder"""
    out = []

    def rec(node, path):
        ori = rots(node["r"])
        if node["kind"] == "col":
            kids = [rec(c, path + [i]) for i, c in enumerate(node["ch"])]
            o = magpy.Collection(*kids, position=node["p"], orientation=ori)
        else:
            o = (leaf or make_leaf)(node, ori)
        out.append((path, o))
        return o

    rec(t, [])
    out.sort(key=lambda po: po[0])          # preorder == lexicographic order of the paths
    return out


def make_leaf(node, ori):
    k = node["kind"]
    kw = {"position": node["p"], "orientation": ori}
    u = node.get("s", 1.0)          # absolute length scale of this tree
    if k == "leaf":
        return magpy.Sensor(**kw)
    if k == "sensor":
        return magpy.Sensor(pixel=node.get("pixel", (0, 0, 0)), **kw)
    if k == "dipole":
        return magpy.misc.Dipole(moment=node["m"], **kw)
    if k == "cuboid":
        return magpy.magnet.Cuboid(polarization=node["m"], dimension=(0.3 * u, 0.2 * u, 0.25 * u), **kw)
    if k == "sphere":
        return magpy.magnet.Sphere(polarization=node["m"], diameter=0.3 * u, **kw)
    if k == "cylinder":
        return magpy.magnet.Cylinder(polarization=node["m"], dimension=(0.3 * u, 0.2 * u), **kw)
    if k == "circle":
        return magpy.current.Circle(current=node["m"][0] * 100, diameter=0.4 * u, **kw)
    raise ValueError(k)


def snap_all(objs):
    return [(o._position.copy(), o._orientation.as_quat().copy()) for _, o in objs]


def resolve_step(objs, step):
    """concrete operation for this moment of the history:
    {"alias": path, "attr": "position"|"_position"} -> that node's OWN array (not a copy);
    setori {"alias": path} -> that node's orientation path; "near": eps -> the target's current value changed by
    a relative eps; "nd": True -> float64 ndarrays instead of lists"""
    byp = dict((tuple(p), o) for p, o in objs)
    target = byp[tuple(step["at"])]
    op = dict(step["op"])
    for k in ("d", "p", "anchor"):
        v = op.get(k)
        if isinstance(v, dict):
            src = byp[tuple(v["alias"])]
            op[k] = src._position if v.get("attr") == "_position" else src.position
        elif op.get("nd") and isinstance(v, (list, tuple)):
            op[k] = np.array(v, dtype=np.float64)
    if op["op"] == "setori" and isinstance(op.get("r"), dict):
        op["_R"] = byp[tuple(op["r"]["alias"])].orientation
    if "near" in op:
        e = op["near"]
        if op["op"] == "setori":
            op["_R"] = R.from_rotvec([e, -e, 0.5 * e]) * target._orientation
        else:
            m = float(np.abs(target._position).max()) or 1.0
            op["p"] = target._position + e * m * np.array([1.0, -1.0, 0.5])
    return target, op


def apply_resolved(target, op, rots):
    if op["op"] == "setori" and "_R" in op:
        target.orientation = op["_R"]
    elif op["op"] == "rotate" and op.get("form"):
        apply_rotate_from(target, op, op["form"], rots)
    else:
        P9.apply_op(target, op, rots)


def reattach(objs, step):
    """re-attach the node at step["at"] to the collection it already belongs to: by attribute, by add(), or via
    another collection and back.  The tree (who is a member of whom) is the same afterwards."""
    byp = dict((tuple(p), o) for p, o in objs)
    child, parent = byp[tuple(step["at"])], byp[tuple(step["at"][:-1])]
    mode = step["op"]["mode"]
    if mode == "attr":
        child.parent = parent
    elif mode == "add":
        parent.add(child, override_parent=True)
    elif mode == "other-and-back":
        tmp = magpy.Collection()
        child.parent = tmp
        child.parent = parent
    elif mode == "none-and-back":
        child.parent = None
        parent.add(child)
    else:
        raise ValueError(mode)


def apply_tree_op(objs, step, rots):
    if step["op"]["op"] == "reattach":
        reattach(objs, step)
        return
    target, op = resolve_step(objs, step)
    apply_resolved(target, op, rots)


def apply_rotate_from(obj, op, form, rots):
    """the same rotation through one of the rotate_from_* front ends"""
    rot = rots(op["r"])
    kw = {"anchor": op["anchor"], "start": op["start"]}
    if form == "quat":
        obj.rotate_from_quat(rot.as_quat(), **kw)
    elif form == "matrix":
        obj.rotate_from_matrix(rot.as_matrix(), **kw)
    elif form == "mrp":
        obj.rotate_from_mrp(rot.as_mrp(), **kw)
    elif form == "rotvec":
        obj.rotate_from_rotvec(rot.as_rotvec(), degrees=False, **kw)
    elif form == "rotvec-deg":
        obj.rotate_from_rotvec(np.rad2deg(rot.as_rotvec()), degrees=True, **kw)
    elif form == "euler":
        obj.rotate_from_euler(rot.as_euler("xyz", degrees=True), "xyz", degrees=True, **kw)
    elif form == "angax":
        # only used when op["r"] was generated as angles about one common axis
        obj.rotate_from_angax(op["angax"][0], op["angax"][1], degrees=op["angax"][2], **kw)
    else:
        raise ValueError(form)


# ------------------------------------------------------------------ exact cases (integers, octahedral rotations)
def gen_pose_exact(rng, n):
    """initial position / orientation input of total path length n"""
    def vec():
        return [rng.randint(-4, 4) for _ in range(3)]
    if n == 1 and rng.random() < 0.5:
        p = vec()
    else:
        p = [vec() for _ in range(n if rng.random() < 0.8 else rng.randint(1, n))]
    lp = 1 if not isinstance(p[0], list) else len(p)
    if lp == n and rng.random() < 0.3:
        r = None if rng.random() < 0.5 else rng.randrange(24)
    else:
        r = [rng.randrange(24) for _ in range(n)]
    return p, r


def gen_tree_exact(rng, depth, n, uniform, top=True):
    nn = n if uniform else rng.randint(1, 4)
    p, r = gen_pose_exact(rng, nn)
    if depth == 0 or (not top and rng.random() < 0.45):
        return {"kind": "leaf", "p": p, "r": r, "ch": []}
    k = rng.choice([0, 1, 1, 2, 2, 3]) if not top else rng.choice([1, 2, 2, 3])
    return {"kind": "col", "p": p, "r": r,
            "ch": [gen_tree_exact(rng, depth - 1, n, uniform, False) for _ in range(k)]}


def gen_hist(rng, tree, nops, gen_op, p_leaf=0.2):
    nodes = list(preorder(tree))
    cols = [p for p, t in nodes if t["kind"] == "col"]
    leaves = [p for p, t in nodes if t["kind"] != "col"]
    out = []
    for _ in range(nops):
        if leaves and rng.random() < p_leaf:
            at = rng.choice(leaves)
        else:
            at = [] if rng.random() < 0.45 else rng.choice(cols)
        out.append({"at": at, "op": gen_op(rng)})
    return out


def gen_case_exact(rng):
    uniform = rng.random() < 0.7
    tree = gen_tree_exact(rng, rng.randint(1, 3), rng.randint(1, 4), uniform)
    return {"tree": tree, "hist": gen_hist(rng, tree, rng.randint(1, 6), P9.gen_op), "uniform": uniform}


def structured_cases():
    """small exhaustive family: a 3-level chain and a fan, every start / input kind / anchor kind"""
    out = []
    for n in (1, 2, 3):
        def pose(a, n=n):
            return [[a + i, 2 * i - a, -i] for i in range(n)], [(5 * a + 3 * i + 1) % 24 for i in range(n)]
        leaf = lambda a: dict(zip(("p", "r"), pose(a)), kind="leaf", ch=[])
        col = lambda a, ch: dict(zip(("p", "r"), pose(a)), kind="col", ch=ch)
        tree = col(1, [leaf(2), col(3, [leaf(4), col(5, [leaf(6)])]), leaf(7)])
        for at in ([], [1], [1, 1]):
            for st in ["auto"] + list(range(-5, 6)):
                for k in (0, 1, 2, 4):
                    d = [1, -2, 3] if k == 0 else [[j + 1, j - 2, 3] for j in range(k)]
                    r = 5 if k == 0 else [(7 * j + 2) % 24 for j in range(k)]
                    extra = ({"op": "rotate", "r": None, "anchor": None, "start": st},
                             {"op": "move", "d": [0, 0, 0], "start": st}) if k == 0 else ()
                    for op in extra + ({"op": "move", "d": d, "start": st},
                               {"op": "rotate", "r": r, "anchor": None, "start": st},
                               {"op": "rotate", "r": r, "anchor": [1, 2, -1], "start": st},
                               {"op": "rotate", "r": r, "anchor": [[j, 1, -j] for j in range(3)], "start": st}):
                        out.append({"tree": tree, "hist": [{"at": at, "op": op}]})
            for m in (1, 2, 3, 5):
                out.append({"tree": tree, "hist": [{"at": at, "op": {"op": "setpos", "p": [[j, -j, 2] for j in range(m)]}}]})
                out.append({"tree": tree, "hist": [{"at": at, "op": {"op": "setori", "r": [(3 * j + 7) % 24 for j in range(m)]}}]})
            out.append({"tree": tree, "hist": [{"at": at, "op": {"op": "setpos", "p": [3, 1, -2]}}]})
            out.append({"tree": tree, "hist": [{"at": at, "op": {"op": "setori", "r": 11}}]})
            out.append({"tree": tree, "hist": [{"at": at, "op": {"op": "setori", "r": None}}]})
            out.append({"tree": tree, "hist": [{"at": at, "op": {"op": "reset"}}]})
    return out


def impl_run(case):
    objs = build(case["tree"], octa.rot)
    states = [[P9.snapshot(o) for _, o in objs]]
    for step in case["hist"]:
        apply_tree_op(objs, step, octa.rot)
        states.append([P9.snapshot(o) for _, o in objs])
    return states


# ---- the same case as Coq text
def c_tree(t):
    return "(XT %s %s %s)" % (P9.c_inp_vec(t["p"]), copt(t["r"], P9.c_inp_rot), clist([c_tree(c) for c in t["ch"]]))


def c_step(s):
    return "(%s, %s)" % (clist([f"{i}%nat" for i in s["at"]]), P9.c_op(s["op"]))


def c_case(case, states):
    return "(mkTCase %s %s %s)" % (c_tree(case["tree"]), clist([c_step(s) for s in case["hist"]]),
                                   clist([clist([P9.c_state(x) for x in st]) for st in states]))


CASES_HEADER = """From Coq Require Import ZArith List Bool.
From MV Require Import Lib.ListZ Lib.Rigid Lib.OctZ Model.PathModel Model.PathExec Model.CompoundModel Model.CompoundExec.
Import ListNotations. Open Scope Z_scope.
"""


def model_check(ctx, tag, cases_states, chunk=250):
    bad = []
    for ci in range(0, len(cases_states), chunk):
        part = cases_states[ci:ci + chunk]
        txt = CASES_HEADER + "Definition cases : list xtcase :=\n" + \
            clist([c_case(c, s) for c, s in part]).replace("; (mkTCase", ";\n (mkTCase") + \
            ".\nEval vm_compute in (tfailing cases).\n"
        ok, out = ctx.coq_eval(f"c10_{tag}_{ci}", txt)
        res = octa.parse_z_list(out) if ok else None
        if res is None:
            ctx.add_broken("broken-correspondence", f"c10_{tag}_{ci}", "model evaluation failed:\n" + out[-1500:])
            return None
        bad += [ci + i for i in res]
    return bad


# ------------------------------------------------------------------ the oracle of the property itself
def index_map(n, op, rots):
    """new path index -> old path index, by the documented path semantics (C09), for a path of
    length n subjected to op"""
    k = op["op"]
    if k == "move":
        d = np.array(op["d"], dtype=float)
        sc = d.ndim == 1
        return P9.spec_indices(n, 1 if sc else len(d), sc, op["start"])[0]
    if k == "rotate":
        rr = rots(op["r"])
        rq = (R.identity() if rr is None else rr).as_quat()
        lr = 0 if rq.ndim == 1 else len(rq)
        a = op["anchor"]
        la = 0
        if a is not None and not isinstance(a, (int, float)):
            a = np.array(a, dtype=float)
            la = 0 if a.ndim == 1 else len(a)
        K = max(lr, la)
        return P9.spec_indices(n, max(K, 1), K == 0, op["start"])[0]
    if k in ("setpos", "setori"):
        if k == "setpos":
            m = len(np.reshape(np.array(op["p"], dtype=float), (-1, 3)))
        else:
            r = op["_R"] if "_R" in op else rots(op["r"])
            m = 1 if r is None else len(np.reshape(r.as_quat(), (-1, 4)))
        return [n - m + i for i in range(m)] if m <= n else [min(i, n - 1) for i in range(m)]
    if k == "reset":
        return [n - 1]
    raise ValueError(k)


def rel_pose(cp, cq, dp, dq):
    rc = R.from_quat(cq)
    return rc.inv().apply(dp - cp), rc.inv() * R.from_quat(dq)


def is_prefix(p, q):
    return len(p) <= len(q) and list(q[:len(p)]) == list(p)


def field_of(col):
    return np.asarray(col.getB(squeeze=False))


def own_field_ok(tree_nodes, objs, cpath):
    """the collection at cpath has sensors and sources below it"""
    kinds = [t["kind"] for p, t in tree_nodes if is_prefix(cpath, p) and p != cpath]
    return any(k == "sensor" for k in kinds) and any(k not in ("sensor", "col", "leaf") for k in kinds)


def min_sensor_source_distance(tree_nodes, objs, cpath):
    sens = [o for (p, o), (_, t) in zip(objs, tree_nodes) if is_prefix(cpath, p) and t["kind"] == "sensor"]
    srcs = [o for (p, o), (_, t) in zip(objs, tree_nodes)
            if is_prefix(cpath, p) and t["kind"] not in ("sensor", "col", "leaf")]
    dmin = np.inf
    for s in sens:
        pix = np.reshape(np.asarray(s.pixel, dtype=float), (-1, 3))
        for j in range(len(s._position)):
            obs = s._position[j] + s._orientation[j].apply(pix)
            for q in srcs:
                jj = min(j, len(q._position) - 1)
                dmin = min(dmin, np.min(np.linalg.norm(obs - q._position[jj], axis=1)))
    return dmin


def check_history(tree, hist, rots, with_field=False, stats=None):
    """run hist on real objects; after every operation check the property.
    returns None or dict(step=i, clause=..., what=..., c=path, d=path)"""
    objs = build(tree, rots)
    nodes = list(preorder(tree))
    paths = [p for p, _ in nodes]
    for si, step in enumerate(hist):
        at = step["at"]
        if step["op"]["op"] == "reattach":      # a tree edit that keeps every membership: no pose may change
            before = snap_all(objs)
            try:
                reattach(objs, step)
            except Exception as e:   # pylint: disable=broad-except
                return {"step": si, "clause": "raises", "what": f"re-attaching a child raised {type(e).__name__}: {e}",
                        "c": at, "d": at}
            for j, (b, a) in enumerate(zip(before, snap_all(objs))):
                if b[0].shape != a[0].shape or not np.array_equal(b[0], a[0]) or not np.array_equal(b[1], a[1]):
                    return {"step": si, "clause": "frame", "what": f"re-attaching node {at} changed the pose of node {paths[j]}",
                            "c": at, "d": paths[j]}
            continue
        target, op = resolve_step(objs, step)
        before = snap_all(objs)
        unit = tree.get("s", 1.0)
        phis = {}
        lens = [len(b[0]) for b in before]
        fields = {}
        cands = []      # collections c in the operated subtree whose members share its path length
        for ci, (cp, ct) in enumerate(nodes):
            if ct["kind"] != "col" or not is_prefix(at, cp):
                continue
            members = [j for j, p in enumerate(paths) if is_prefix(cp, p)]
            if any(lens[j] != lens[ci] for j in members):
                continue
            cands.append((ci, members))
            phis[ci] = index_map(lens[ci], op, rots)
            if with_field and own_field_ok(nodes, objs, cp) and \
                    min_sensor_source_distance(nodes, objs, cp) > 0.5 * unit:
                fields[ci] = field_of(objs[ci][1])
        inmag = P9.input_magnitude(op)
        try:
            apply_resolved(target, op, rots)
        except Exception as e:   # pylint: disable=broad-except
            return {"step": si, "clause": "raises", "what": f"valid operation raised {type(e).__name__}: {e}",
                    "c": at, "d": at}
        after = snap_all(objs)
        # (1) nothing outside the operated subtree changes (operating on a child changes only that child)
        for j, p in enumerate(paths):
            if is_prefix(at, p):
                continue
            if before[j][0].shape != after[j][0].shape or not np.array_equal(before[j][0], after[j][0]) \
                    or not np.array_equal(before[j][1], after[j][1]):
                return {"step": si, "clause": "frame", "what": f"operation on node {at} changed node {p}",
                        "c": at, "d": p}
        # (2) relative poses inside every uniform collection of the operated subtree
        for ci, members in cands:
            phi = phis[ci]
            cp0, cq0 = before[ci]
            cp1, cq1 = after[ci]
            if len(cp1) != len(cq1):
                return {"step": si, "clause": "lengths", "what": "position/orientation lengths differ",
                        "c": paths[ci], "d": paths[ci]}
            if len(cp1) != len(phi):
                return {"step": si, "clause": "lengths",
                        "what": f"collection path length {len(cp1)} instead of {len(phi)}", "c": paths[ci], "d": paths[ci]}
            # relative to the scale of these paths and of this input (works at 1e-6 as at 1e3)
            scale = max(max(np.abs(after[j][0]).max() for j in members),
                        max(np.abs(before[j][0]).max() for j in members), inmag) + 1e-300
            for j in members:
                if j == ci:
                    continue
                dp0, dq0 = before[j]
                dp1, dq1 = after[j]
                if len(dp1) != len(cp1) or len(dq1) != len(cp1):
                    return {"step": si, "clause": "lengths",
                            "what": f"member path lengths {len(dp1)}/{len(dq1)} (position/orientation) != "
                                    f"collection path length {len(cp1)}",
                            "c": paths[ci], "d": paths[j]}
                rp0, rq0 = rel_pose(cp0, cq0, dp0, dq0)
                rp1, rq1 = rel_pose(cp1, cq1, dp1, dq1)
                if not np.allclose(rp1, rp0[phi], rtol=0, atol=1e-9 * scale):
                    return {"step": si, "clause": "relpos",
                            "what": f"position of node {paths[j]} in the frame of collection {paths[ci]} changed by "
                                    f"{np.abs(rp1 - rp0[phi]).max():.3g}", "c": paths[ci], "d": paths[j]}
                if np.max((rq1 * rq0[phi].inv()).magnitude()) > 1e-8:
                    return {"step": si, "clause": "relori",
                            "what": f"orientation of node {paths[j]} in the frame of collection {paths[ci]} changed",
                            "c": paths[ci], "d": paths[j]}
            if stats is not None:
                stats["pairs"] = stats.get("pairs", 0) + len(members) - 1
            # (3) the field of the collection seen by its own sensors
            if ci in fields:
                B0 = fields[ci]
                B1 = field_of(objs[ci][1])
                if stats is not None:
                    stats["fields"] = stats.get("fields", 0) + 1
                if B1.shape[1] != len(phi) or B1.shape[0] != B0.shape[0] or B1.shape[2:] != B0.shape[2:]:
                    return {"step": si, "clause": "field", "what": f"own-sensor field shape {B1.shape} from {B0.shape}",
                            "c": paths[ci], "d": paths[ci]}
                ref = B0[:, phi]
                if not np.allclose(B1, ref, rtol=0, atol=1e-7 * np.abs(B0).max() + 1e-300):
                    return {"step": si, "clause": "field",
                            "what": f"field seen by the collection's own sensors changed (rel. {np.abs(B1 - ref).max() / np.abs(B0).max():.3g})",
                            "c": paths[ci], "d": paths[ci]}
    return None


def signature(tree, hist, res):
    step = hist[res["step"]]
    op = step["op"]
    nodes = dict((tuple(p), t) for p, t in preorder(tree))
    tk = nodes[tuple(step["at"])]["kind"]
    target = "leaf" if tk != "col" else ("root" if not step["at"] else "nested")
    if res["clause"] in ("frame", "raises"):
        rel = ""
    else:
        rel = ":self" if list(res["c"]) == list(step["at"]) else ":below"
        depth = len(res["d"]) - len(res["c"])
        rel += ":child" if depth == 1 else (":deep" if depth > 1 else "")
    form = (":from_" + op["form"]) if op.get("form") else ""
    if op["op"] == "move" and isinstance(op.get("d"), dict) and res["clause"] in ("relpos", "field"):
        # one defect, whatever the start / target: the displacement array is a member's own position array
        return f"{res['clause']}/move:displacement-aliases-member-position"
    return f"{res['clause']}/{op_kind(op)}{form}:on-{target}{rel}"


def op_kind(op):
    """kind of operation / input / anchor / start, never raw numbers"""
    k = op["op"]
    if k == "reattach":
        return "reattach:" + op["mode"]
    if "near" in op:
        return k + ":near-current-value"
    if k in ("move", "rotate"):
        if k == "move":
            sc = (not isinstance(op["d"], dict)) and np.ndim(op["d"]) == 1
            inp = "alias" if isinstance(op["d"], dict) else ("scalar" if sc else "vector")
        else:
            x = op["r"]       # None | int | [int...] (octahedral indices)  or  [f,f,f] | [[f,f,f]...] (rotvecs)
            sc = not isinstance(x, (list, tuple)) or isinstance(x[0], float)
            inp = "unit" if x is None else ("scalar" if sc else "vector")
        st = op["start"]
        out = f"{k}:{inp}:start-{'auto' if st == 'auto' else 'neg' if st < 0 else 'nonneg'}"
        if k == "rotate":
            a = op["anchor"]
            out += ":anchor-" + ("none" if a is None else "alias" if isinstance(a, dict) else
                                 "0" if isinstance(a, (int, float)) else
                                 "path" if isinstance(a[0], (list, tuple)) else "single")
        return out
    if k == "setpos":
        return "setpos:" + ("alias" if isinstance(op["p"], dict) else "single" if np.ndim(op["p"]) == 1 else "path")
    if k == "setori":
        r = op["r"]
        return "setori:" + ("none" if r is None else "alias" if isinstance(r, dict) else
                            "path" if (isinstance(r, (list, tuple)) and
                                       (isinstance(r[0], (list, tuple)) or isinstance(r[0], int))) else "single")
    return k


# ------------------------------------------------------------------ float trees and histories
SRC_KINDS = ["dipole", "cuboid", "sphere", "cylinder", "circle"]
SCALES = [1.0, 1.0, 1.0, 1e-3, 1e-6, 1e3]


def gen_float_tree(rng, n, u=1.0):
    """sources near the origin of the root frame, sensors on a shell around them; u = length scale"""
    # closed forms without absolute thresholds at the non-unit scales (those are C12's subject)
    kinds = SRC_KINDS if u == 1.0 else ["dipole", "sphere"]

    def rv():
        return [[round(rng.uniform(-2, 2), 3) for _ in range(3)] for _ in range(n)]

    def near():
        return [[round(rng.uniform(-0.6, 0.6), 3) * u for _ in range(3)] for _ in range(n)]

    def shell():
        out = []
        for _ in range(n):
            v = np.array([rng.gauss(0, 1) for _ in range(3)])
            out.append([round(float(x), 3) * u for x in v / np.linalg.norm(v) * rng.uniform(2.5, 4.0)])
        return out

    def src():
        return {"kind": rng.choice(kinds), "p": near(), "r": rv(), "ch": [], "s": u,
                "m": [round(rng.uniform(-1, 1), 3) + 0.1 for _ in range(3)]}

    pix = [0, 0, 0] if rng.random() < 0.5 else [[0.05 * u, 0, 0], [0, -0.05 * u, 0.02 * u]]

    def sens():
        return {"kind": "sensor", "p": shell(), "r": rv(), "ch": [], "pixel": pix, "s": u}

    def col(depth):
        kids = []
        for _ in range(rng.randint(1, 3)):
            x = rng.random()
            if depth > 0 and x < 0.4:
                kids.append(col(depth - 1))
            elif x < 0.75:
                kids.append(src())
            else:
                kids.append(sens())
        return {"kind": "col", "p": near(), "r": rv(), "ch": kids}

    t = col(rng.randint(0, 2))
    t["ch"] += [src(), sens()]
    t["s"] = u
    return t


def gen_float_op(rng, u=1.0):
    def fvec(s=2.0):
        x = rng.random()
        if x < 0.05:
            return [0.0, 0.0, 0.0]
        if x < 0.13:                    # exactly along an axis
            v = [0.0, 0.0, 0.0]
            v[rng.randrange(3)] = rng.choice([-1.0, 1.0]) * u
            return v
        return [round(rng.uniform(-s, s), 3) * u for _ in range(3)]

    def rvec():
        x = rng.random()
        if x < 0.06:
            return [0.0, 0.0, 0.0]
        if x < 0.16:                    # quarter turns / flips, both senses
            v = [0.0, 0.0, 0.0]
            v[rng.randrange(3)] = rng.choice([-1.0, 1.0]) * rng.choice([np.pi / 2, np.pi])
            return v
        return [round(rng.uniform(-1.5, 1.5), 3) for _ in range(3)]

    def klen(maxk):
        return rng.randint(16, 20) if rng.random() < 0.03 else rng.randint(1, maxk)

    def finp(maxk=4, s=2.0):
        return fvec(s) if rng.random() < 0.45 else [fvec(s) for _ in range(klen(maxk))]

    def frot(maxk=4):
        return rvec() if rng.random() < 0.45 else [rvec() for _ in range(klen(maxk))]

    x = rng.random()
    if x < 0.25:
        op = {"op": "move", "d": finp(), "start": P9.gen_start(rng)}
    elif x < 0.75:
        a = rng.choice(["none", "none", "zero", "vec", "path"])
        anchor = None if a == "none" else 0 if a == "zero" else fvec() if a == "vec" else \
            [fvec() for _ in range(rng.randint(1, 4))]
        op = {"op": "rotate", "r": None if rng.random() < 0.04 else frot(), "anchor": anchor,
              "start": P9.gen_start(rng)}
        f = rng.choice([None, None, "quat", "matrix", "mrp", "rotvec", "rotvec-deg", "euler", "angax"])
        if op["r"] is None:
            f = None
        if f == "angax":
            ax = rng.choice(["x", "y", "z", [round(rng.uniform(-2, 2), 3) for _ in range(3)]])
            axv = np.array({"x": [1, 0, 0], "y": [0, 1, 0], "z": [0, 0, 1]}.get(ax, ax) if isinstance(ax, str) else ax, dtype=float)
            axv = axv / np.linalg.norm(axv)
            deg = rng.random() < 0.5
            ang = round(rng.uniform(-170, 170), 2) if rng.random() < 0.45 else \
                [round(rng.uniform(-170, 170), 2) for _ in range(rng.randint(1, 4))]
            angr = np.deg2rad(ang) if deg else np.array(ang, dtype=float) / 60.0
            op["r"] = (axv * angr).tolist() if np.ndim(angr) == 0 else np.outer(angr, axv).tolist()
            op["angax"] = [ang if deg else (np.array(ang) / 60.0).tolist(), ax, deg]
        if f:
            op["form"] = f
    elif x < 0.85:
        op = {"op": "setpos", "p": finp()}
    elif x < 0.95:
        op = {"op": "setori", "r": None if rng.random() < 0.2 else frot()}
    else:
        op = {"op": "reset"}
    if rng.random() < 0.3 and not op.get("form"):
        op["nd"] = True
    return op


def special_step(rng, nodes, at):
    """inputs taken from the tree itself (aliasing), identical and nearly identical assignments"""
    other = rng.choice(nodes)[0]
    x = rng.random()
    if x < 0.15:
        return {"op": "setpos", "p": {"alias": at, "attr": rng.choice(["position", "_position"])}}
    if x < 0.3:
        return {"op": "setori", "r": {"alias": at}}
    if x < 0.42:
        return {"op": "setpos", "near": rng.choice([1e-9, 1e-7, 1e-5])}
    if x < 0.58:
        return {"op": "setori", "near": rng.choice([1e-7, 1e-6, 1e-5])}
    if x < 0.7:
        return {"op": "setpos", "p": {"alias": other, "attr": "_position"}}
    if x < 0.8:
        return {"op": "setori", "r": {"alias": other}}
    if x < 0.9:
        return {"op": "move", "d": {"alias": other, "attr": rng.choice(["position", "_position"])},
                "start": P9.gen_start(rng)}
    return {"op": "rotate", "r": [round(rng.uniform(-1.5, 1.5), 3) for _ in range(3)],
            "anchor": {"alias": other, "attr": "_position"}, "start": P9.gen_start(rng)}


REATTACH_MODES = ["attr", "add", "other-and-back", "none-and-back"]


def gen_float_case(rng, nops):
    u = rng.choice(SCALES)
    tree = gen_float_tree(rng, rng.randint(1, 4), u)
    hist = gen_hist(rng, tree, nops, lambda r: gen_float_op(r, u), p_leaf=0.15)
    nodes = list(preorder(tree))
    for st in hist:
        if rng.random() < 0.15:
            st["op"] = special_step(rng, nodes, st["at"])
    # tree edits that keep every membership, early in the history (the pose operations follow)
    inner = [p for p, _ in nodes if p]
    for _ in range(rng.choice([0, 0, 1, 1, 2])):
        hist.insert(rng.randint(0, max(0, len(hist) // 2)),
                    {"at": rng.choice(inner), "op": {"op": "reattach", "mode": rng.choice(REATTACH_MODES)}})
    return {"tree": tree, "hist": hist}


def battery_cases():
    """fixed battery, run on every run: a 4-level tree (collections nested to depth 3) at two length scales;
    every kind of operation incl. identical / nearly identical assignments, aliased inputs, unit rotations,
    two resets in a row -- applied to the root, to a nested and to a doubly nested collection"""
    out = []
    for u in (1.0, 1e-6):
        def leaf(kind, a, u=u):
            far = kind == "sensor"
            p = [[(3.0 if far else 0.3) * u * (1 + 0.1 * a), 0.2 * a * u, -0.1 * i * u] for i in range(2)]
            d = {"kind": kind, "p": p, "r": [[0.1 * a, 0.2, 0.3 * i] for i in range(2)], "ch": [], "s": u}
            if far:
                d["pixel"] = [[0.05 * u, 0, 0], [0, -0.05 * u, 0.02 * u]]
            else:
                d["m"] = [0.3, -0.2, 1.0]
            return d

        def col(a, ch, u=u):
            return {"kind": "col", "p": [[0.1 * a * u, -0.2 * u, 0.05 * i * u] for i in range(2)],
                    "r": [[0.2, 0.1 * a, -0.3 * i] for i in range(2)], "ch": ch}
        tree = col(1, [leaf("dipole", 1), col(2, [leaf("sensor", 2), col(3, [leaf("sphere", 3), leaf("sensor", 4)])]),
                       leaf("sensor", 5)])
        tree["s"] = u
        deep = [1, 1, 0]
        for at in ([], [1], [1, 1]):
            steps = [
                {"op": "setori", "near": 1e-6}, {"op": "setori", "near": 1e-8}, {"op": "setpos", "near": 1e-9},
                {"op": "setori", "r": {"alias": at}}, {"op": "setpos", "p": {"alias": at, "attr": "_position"}},
                {"op": "setpos", "p": {"alias": deep, "attr": "_position"}}, {"op": "setori", "r": {"alias": deep}},
                {"op": "move", "d": {"alias": deep, "attr": "_position"}, "start": 0},
                {"op": "move", "d": {"alias": at, "attr": "position"}, "start": "auto"},
                {"op": "rotate", "r": [0.0, 0.0, np.pi / 2], "anchor": {"alias": deep, "attr": "_position"}, "start": -1},
                {"op": "rotate", "r": None, "anchor": None, "start": 4},
                {"op": "rotate", "r": [0.0, 0.0, 0.0], "anchor": [[u, 0.0, 0.0]], "start": -4},
                {"op": "rotate", "r": [[np.pi, 0.0, 0.0], [0.0, -np.pi / 2, 0.0], [0.3, 0.2, 0.1]],
                 "anchor": [[0.0, u, 0.0], [u, 0.0, 0.0]], "start": 1, "nd": True},
                {"op": "move", "d": [0.0, 0.0, 0.0], "start": 5}, {"op": "reset"}, {"op": "reset"},
                {"op": "setpos", "p": [[u, 0.0, 0.0], [0.0, u, 0.0], [0.0, 0.0, u]], "nd": True},
                {"op": "setori", "r": [[0.0, 0.0, 1e-7], [0.0, 0.0, 2e-7], [0.0, 0.0, 3e-7]]},
                {"op": "setori", "r": [[0.0, 0.0, 1.1e-7], [0.0, 0.0, 2e-7], [0.0, 0.0, 3e-7]]},
                {"op": "setpos", "near": 1e-7},
            ]
            # each special step once on a fresh tree, and all of them as one history
            for st in steps:
                out.append({"tree": tree, "hist": [{"at": at, "op": st}]})
            # a member re-attached to the collection it already belongs to, then the pose operations
            pose_ops = [{"op": "move", "d": [0.3 * u, -0.2 * u, 0.1 * u], "start": "auto"},
                        {"op": "rotate", "r": [0.2, -0.4, 0.3], "anchor": None, "start": "auto"},
                        {"op": "rotate", "r": [[0.1, 0.0, 0.3], [0.0, 0.5, 0.0]], "anchor": [0.0, u, 0.0], "start": 0},
                        {"op": "setpos", "p": [[u, 0.0, 0.0], [0.0, u, 0.0]]},
                        {"op": "setori", "r": [[0.3, 0.0, 0.1], [0.0, -0.2, 0.4]]}, {"op": "reset"}]
            for child in ([0], [1], [1, 0], [1, 1], [1, 1, 1]):
                if len(child) != len(at) + 1 or child[:len(at)] != at:
                    continue
                for mode in REATTACH_MODES:
                    out.append({"tree": tree, "hist": [{"at": child, "op": {"op": "reattach", "mode": mode}}] +
                                [{"at": at, "op": o} for o in pose_ops]})
            out.append({"tree": tree, "hist": [{"at": at, "op": st} for st in steps]})
    return out


def simpler_ops(op):
    """candidate simplifications of one operation (used to canonicalise a counterexample)"""
    out = []
    if "near" in op or any(isinstance(op.get(k), dict) for k in ("d", "p", "anchor", "r")):
        return out          # aliased / near-current inputs are kept as they are
    if op.get("nd"):
        out.append({k: v for k, v in op.items() if k != "nd"})
    if op.get("form"):
        out.append({k: v for k, v in op.items() if k not in ("form", "angax")})
    if op["op"] in ("move", "rotate"):
        if op["start"] != "auto":
            out.append(dict(op, start="auto"))
        if op["start"] not in ("auto", 0):
            out.append(dict(op, start=0))
        key = "d" if op["op"] == "move" else "r"
        x = op[key]
        if isinstance(x, (list, tuple)) and isinstance(x[0], (list, tuple)) and not op.get("form"):
            out.append(dict(op, **{key: x[0]}))
        elif x is None:
            pass
        elif isinstance(x, (list, tuple)) and isinstance(x[0], int) and op["op"] == "rotate":
            out.append(dict(op, r=x[0]))
        a = op.get("anchor")
        if isinstance(a, (list, tuple)):
            out.append(dict(op, anchor=a[0] if isinstance(a[0], (list, tuple)) else None))
        elif a is not None:
            out.append(dict(op, anchor=None))
    if op["op"] == "setpos" and isinstance(op["p"][0], (list, tuple)):
        out.append(dict(op, p=op["p"][0]))
    if op["op"] == "setori" and op["r"] is not None:
        r = op["r"]
        if isinstance(r, (list, tuple)) and isinstance(r[0], (list, tuple, int)):
            out.append(dict(op, r=r[0]))
        else:
            out.append(dict(op, r=None))
    return out


def report(ctx, case, res, rots, kind, with_field):
    def run(h):
        try:
            return check_history(case["tree"], h, rots, with_field)
        except Exception:   # pylint: disable=broad-except
            return None
    hist = shrink_list(case["hist"], lambda h: run(h) is not None, max_steps=60)
    res2 = run(hist) or res
    hist = hist[:res2["step"] + 1]
    # canonicalise the failing operation: simplest form / start / input / anchor that still fails alike
    for _ in range(8):
        last = hist[-1]
        for cand in simpler_ops(last["op"]):
            h2 = hist[:-1] + [dict(last, op=cand)]
            r2 = run(h2)
            if r2 is not None and r2["step"] == len(h2) - 1 and r2["clause"] == res2["clause"]:
                hist, res2 = h2, r2
                break
        else:
            break
    ctx.impl_fail(signature(case["tree"], hist, res2), res2["what"],
                  {"kind": kind, "tree": case["tree"], "hist": hist, "with_field": with_field})


def float_sweep(ctx, n_hist, nops):
    stats = {}
    fixed = battery_cases()
    for t in range(len(fixed) + n_hist):
        case = fixed[t] if t < len(fixed) else gen_float_case(ctx.rng, nops)
        ctx.case(("float", json.dumps(case, sort_keys=True)), True)
        ctx.bump("float-battery" if t < len(fixed) else "float-random")
        ctx.bump("float-scale:%g" % case["tree"].get("s", 1.0))
        for s in case["hist"]:
            ctx.bump("float-op:" + op_kind(s["op"]).split(":start")[0] +
                     (":from_" + s["op"]["form"] if s["op"].get("form") else ""))
            ctx.bump("float-target:" + ("root" if not s["at"] else "depth%d" % len(s["at"])))
        res = check_history(case["tree"], case["hist"], P9.rotvec_rot, True, stats)
        if res is not None:
            report(ctx, case, res, P9.rotvec_rot, "float-tree-history", True)
    ctx.count("relative_pose_pairs_checked", stats.get("pairs", 0))
    ctx.count("own_sensor_fields_checked", stats.get("fields", 0))


def exact_oracle(ctx, cases):
    stats = {}
    for case in cases:
        res = check_history(case["tree"], case["hist"], octa.rot, False, stats)
        if res is not None:
            report(ctx, case, res, octa.rot, "exact-tree-history", False)
    ctx.count("relative_pose_pairs_checked_exact", stats.get("pairs", 0))


# ------------------------------------------------------------------ main
def run(ctx):
    ctx.extra["rule"] = ("collection trees (depth <= 3) with histories of move/rotate/position=/orientation=/"
                         "reset_path applied to any node: exact cases (integer positions, octahedral rotations) "
                         "compare ALL poses of ALL nodes after every operation, model vs implementation; float cases "
                         "(real sources and sensors, generic rotations, rotate_from_* front ends) check the relative "
                         "poses, the frame condition and the own-sensor field against the property; a case is distinct "
                         "by its canonical JSON, non-trivial if it has at least one operation")
    ctx.trusted += [
        "translator translate/gen_path.py + py2coq.py (path_padding_param, pad_slice_path -> Gallina)",
        "translator translate/gen_pathflow.py (+ gen_l2arith.exp): statement-level flow of multi_anchor_behavior, "
        "path_padding, apply_move, apply_rotation, move/_rotate/rotate/rotate_from_*, _init_position_orientation, the "
        "pose setters and reset_path as a deep embedding; Proofs/PathFlowProofs.v proves it equal to the structure the "
        "hand models were written against (Model/PathFlow.v) and interprets pad widths / slices / forwarded arguments",
        "hand models coq/Model/PathModel.v (one object) and coq/Model/CompoundModel.v (recursion of move/_rotate "
        "into children with the handed-down parent_path, child loops of the position/orientation setters, "
        "reset_path), tied by the exact tree-history correspondence",
        "coq/Lib/RigidR3.v: R^3 with SO(3) = {M | M M^T = I, det M = 1} is an instance of RigidLaws (axioms: "
        "stdlib reals + ProofIrrelevance.proof_irrelevance); its quat_to_mat / qmul expressions are read out of the "
        "Coq file and compared with scipy Rotation (as_matrix, __mul__, apply, inv) on floats, rtol 1e-12 - "
        "that scipy's Rotation IS this algebra up to rounding is validated, not proved",
        "input validation and scipy's Rotation.from_* conversions are not modelled; the float search drives the "
        "rotate_from_* front ends; the field corollary is proved for an abstract element formula "
        "R_s^-1 R_d f(R_d^-1(p_s + R_s x - p_d)) and checked on real sources through Collection.getB()",
    ]
    ok = ctx.regen(["GenPath", "GenPathFlow"])
    built = ctx.build_props() and ok
    # the physical instance R^3 x SO(3) of the abstract algebra (shared by C03/C04/C06/C09/C10)
    built_r3 = ctx.build_props("Props/RigidR3Inst.v")
    if ctx.tier == "thorough" and built:
        ctx.coqchk("MV.Props.C10")
    if ctx.tier == "thorough" and built_r3:
        ctx.coqchk("MV.Props.RigidR3Inst")
    run_guarded(ctx, lambda: rigid_r3.check(ctx, ctx.n(300, 5000)), "RigidR3 vs scipy Rotation")

    def corr():
        cases = structured_cases() if ctx.tier == "thorough" else structured_cases()[::7]
        for _ in range(ctx.n(500, 6000)):
            cases.append(gen_case_exact(ctx.rng))
        cs = []
        for c in cases:
            try:
                st = impl_run(c)
            except Exception as e:   # pylint: disable=broad-except
                if c.get("uniform", True):
                    # the property's own oracle shrinks and reports it (clause `raises`)
                    res = check_history(c["tree"], c["hist"], octa.rot)
                    if res is not None:
                        report(ctx, c, res, octa.rot, "exact-tree-history", False)
                        continue
                ctx.add_broken("broken-correspondence", "implementation raised where the model does not",
                               f"{type(e).__name__}: {e} on " + json.dumps({"tree": c["tree"], "hist": c["hist"]}))
                continue
            cs.append((c, st))
            ctx.case(json.dumps({"tree": c["tree"], "hist": c["hist"]}, sort_keys=True), len(c["hist"]) > 0)
            for s in c["hist"]:
                ctx.bump("exact-op:" + s["op"]["op"])
                ctx.bump("exact-target:" + ("root" if not s["at"] else "depth%d" % len(s["at"])))
            ctx.bump("exact-tree-nodes:%d" % len(list(preorder(c["tree"]))))
        mid = cs[len(cs) // 2]
        ctx.samples.append({"tree": mid[0]["tree"], "history": mid[0]["hist"], "poses_after_each_op": mid[1]})
        bad = model_check(ctx, ctx.tier, cs) if built else None
        if bad is None:
            return cases
        ctx.count("traces_validated_against_impl", len(cs) - len(bad))
        for bi in bad[:4]:
            c, st = cs[bi]

            def fails(h, c=c):
                c2 = {"tree": c["tree"], "hist": h}
                try:
                    r = model_check(ctx, "shrink", [(c2, impl_run(c2))])
                except Exception:   # pylint: disable=broad-except
                    return False
                return bool(r)
            h = shrink_list(c["hist"], fails, max_steps=25)
            ctx.add_broken("broken-correspondence", "CompoundModel vs implementation",
                           json.dumps({"tree": c["tree"], "hist": h}))
        return cases

    cases = run_guarded(ctx, corr, "C10 correspondence") or []

    big = bool(ctx.broken)
    run_guarded(ctx, lambda: float_sweep(ctx, ctx.n(120, 2500) * (4 if big else 1), 6), "C10 float oracle")
    sub = cases if (big or ctx.tier == "thorough") else cases[:400]
    run_guarded(ctx, lambda: exact_oracle(ctx, sub if sub else structured_cases()), "C10 exact oracle")


def replay(ctx, obj):
    rp = obj.get("replay", obj)
    if rp.get("kind") in ("float-tree-history", "exact-tree-history"):
        rots = P9.rotvec_rot if rp["kind"] == "float-tree-history" else octa.rot
        res = check_history(rp["tree"], rp["hist"], rots, rp.get("with_field", False))
        print("replay:", "property holds on this history" if res is None else
              f"FAILS at op {res['step']} ({res['clause']}): {res['what']}")
        if res is not None:
            print(f"VIOLATION property=C10 replay={obj.get('how_to_rerun', '').split()[-1] or 'given'}")
        return 0 if res is None else 1
    print(json.dumps(obj, indent=1)[:3000])
    return 0
