"""C09 -- move/rotate and the pose setters follow the documented path semantics."""
import itertools
import json

import numpy as np
from scipy.spatial.transform import Rotation as R

from harness.common import run_guarded
from harness import octa
from harness.octa import cz, cv, coct, clist, copt
from harness.shrink import shrink_list

import magpylib as magpy
from magpylib._src.exceptions import MagpylibBadUserInput


# ------------------------------------------------------------------ histories (exact inputs)
def gen_vec(rng):
    return [rng.randint(-4, 4) for _ in range(3)]


def gen_inp_vec(rng, maxk=4):
    if rng.random() < 0.4:
        return gen_vec(rng)
    return [gen_vec(rng) for _ in range(rng.randint(1, maxk))]


def gen_inp_rot(rng, maxk=4):
    if rng.random() < 0.4:
        return rng.randrange(24)
    return [rng.randrange(24) for _ in range(rng.randint(1, maxk))]


def gen_start(rng):
    return "auto" if rng.random() < 0.3 else rng.randint(-7, 7)


def gen_op(rng):
    x = rng.random()
    if x < 0.35:
        return {"op": "move", "d": gen_inp_vec(rng), "start": gen_start(rng)}
    if x < 0.75:
        a = rng.choice(["none", "zero", "vec"])
        anchor = None if a == "none" else (0 if a == "zero" else gen_inp_vec(rng))
        return {"op": "rotate", "r": gen_inp_rot(rng), "anchor": anchor, "start": gen_start(rng)}
    if x < 0.85:
        return {"op": "setpos", "p": gen_inp_vec(rng)}
    if x < 0.95:
        return {"op": "setori", "r": None if rng.random() < 0.2 else gen_inp_rot(rng)}
    return {"op": "reset"}


def gen_case(rng, nops):
    init = {"p": gen_inp_vec(rng, 3), "r": None if rng.random() < 0.4 else gen_inp_rot(rng, 3)}
    return {"init": init, "ops": [gen_op(rng) for _ in range(nops)]}


def exhaustive_cases(max_n=5, max_k=5, starts=range(-9, 10)):
    """every (n, k, start) with scalar / vector input, move and the four anchor kinds"""
    out = []
    for n in range(1, max_n + 1):
        init = {"p": [[i + 1, 2 * i, -i] for i in range(n)], "r": [(3 * i + 1) % 24 for i in range(n)]}
        for st in ["auto"] + list(starts):
            for k in [0] + list(range(1, max_k + 1)):      # k = 0 : scalar input
                d = [1, -2, 3] if k == 0 else [[j + 1, j - 2, 3] for j in range(k)]
                r = 5 if k == 0 else [(7 * j + 2) % 24 for j in range(k)]
                ops = [{"op": "move", "d": d, "start": st},
                       {"op": "rotate", "r": r, "anchor": None, "start": st},
                       {"op": "rotate", "r": r, "anchor": 0, "start": st},
                       {"op": "rotate", "r": r, "anchor": [1, 2, -1], "start": st},
                       {"op": "rotate", "r": r, "anchor": [[j, 1, -j] for j in range(max(k, 1) + 1)], "start": st}]
                if k >= 2:      # per-step anchors SHORTER than the rotation input (edge-padded behind)
                    ops.append({"op": "rotate", "r": r, "anchor": [[j, 1, -j] for j in range(k - 1)], "start": st})
                if k == 0:      # the unit rotation must still pad the path / follow the anchor path
                    ops.append({"op": "rotate", "r": None, "anchor": None, "start": st})
                    ops.append({"op": "rotate", "r": None, "anchor": [[j, 1, -j] for j in range(3)], "start": st})
                    ops.append({"op": "move", "d": [0, 0, 0], "start": st})
                for o in ops:
                    out.append({"init": init, "ops": [o]})
    return out


# ------------------------------------------------------------------ run on the implementation
def snapshot(obj):
    pos = octa.ints(obj._position)
    mats = obj._orientation.as_matrix()
    if mats.ndim == 2:
        mats = mats[None]
    ori = [octa.rot_index(m) for m in mats]
    return [pos, ori]


def apply_op(obj, op, rotf=octa.rot):
    k = op["op"]
    if k == "move":
        obj.move(op["d"], start=op["start"])
    elif k == "rotate":
        obj.rotate(rotf(op["r"]), anchor=op["anchor"], start=op["start"])
    elif k == "setpos":
        obj.position = op["p"]
    elif k == "setori":
        obj.orientation = rotf(op["r"])
    elif k == "reset":
        obj.reset_path()
    else:
        raise ValueError(k)


def impl_run(case):
    obj = magpy.Sensor(position=case["init"]["p"], orientation=octa.rot(case["init"]["r"]))
    states = [snapshot(obj)]
    for op in case["ops"]:
        apply_op(obj, op)
        states.append(snapshot(obj))
    return states


# ------------------------------------------------------------------ the same history as Coq text
def c_inp_vec(d):
    if isinstance(d[0], (list, tuple)):
        return "(Vector " + clist([cv(v) for v in d]) + ")"
    return "(Scalar " + cv(d) + ")"


def c_inp_rot(r):
    if r is None:                      # rotate(None): the unit rotation, scalar input
        return "(Scalar " + coct(octa.IDENT) + ")"
    if isinstance(r, (list, tuple)):
        return "(Vector " + clist([coct(i) for i in r]) + ")"
    return "(Scalar " + coct(r) + ")"


def c_start(s):
    return "None" if s == "auto" else f"(Some {cz(s)})"


def c_op(op):
    k = op["op"]
    if k == "move":
        return f"(Move {c_inp_vec(op['d'])} {c_start(op['start'])})"
    if k == "rotate":
        a = op["anchor"]
        ca = "None" if a is None else ("(Some (Scalar (0, 0, 0)))" if a == 0 else f"(Some {c_inp_vec(a)})")
        return f"(Rotate {c_inp_rot(op['r'])} {ca} {c_start(op['start'])})"      # r None -> unit rotation
    if k == "setpos":
        return f"(SetPos {c_inp_vec(op['p'])})"
    if k == "setori":
        return f"(SetOri {copt(op['r'], c_inp_rot)})"
    return "Reset"


def c_state(s):
    return "(" + clist([cv(v) for v in s[0]]) + ", " + clist([coct(i) for i in s[1]]) + ")"


def c_case(case, states):
    return ("(mkCase %s %s %s %s)" % (
        c_inp_vec(case["init"]["p"]), copt(case["init"]["r"], c_inp_rot),
        clist([c_op(o) for o in case["ops"]]), clist([c_state(s) for s in states])))


CASES_HEADER = """From Coq Require Import ZArith List Bool.
From MV Require Import Lib.ListZ Lib.Rigid Lib.OctZ Model.PathModel Model.PathExec.
Import ListNotations. Open Scope Z_scope.
"""


def model_check(ctx, tag, cases_states):
    """returns indices of cases on which the Coq model disagrees with the implementation"""
    bad = []
    chunk = 400
    for ci in range(0, len(cases_states), chunk):
        part = cases_states[ci:ci + chunk]
        txt = CASES_HEADER + "Definition cases : list xcase :=\n" + \
            clist([c_case(c, s) for c, s in part]).replace("; (mkCase", ";\n (mkCase") + \
            ".\nEval vm_compute in (failing cases).\n"
        ok, out = ctx.coq_eval(f"c09_{tag}_{ci}", txt)
        res = octa.parse_z_list(out) if ok else None
        if res is None:
            ctx.add_broken("broken-correspondence", f"c09_{tag}_{ci}", "model evaluation failed:\n" + out[-1500:])
            return None
        bad += [ci + i for i in res]
    return bad


# ------------------------------------------------------------------ python oracle: the declarative spec on floats
def spec_indices(n, k, sc, st):
    s0 = (0 if sc else n) if st == "auto" else st
    s1 = n + s0 if s0 < 0 else s0
    b, s2 = max(0, -s1), max(0, s1)
    n2 = max(b + n, s2 + k)
    src = [min(max(i - b, 0), n - 1) for i in range(n2)]
    off = [(i - s2) if (s2 <= i and (sc or i < s2 + k)) else None for i in range(n2)]
    return src, off


def oracle_step(pos, quat, op, rots):
    """pos (n,3), quat (n,4) -> expected new (pos, quat) by the documented semantics"""
    k = op["op"]
    n = len(pos)
    if k == "move":
        d = np.array(op["d"], dtype=float)
        sc = d.ndim == 1
        src, off = spec_indices(n, 1 if sc else len(d), sc, op["start"])
        np_, nq = pos[src].copy(), quat[src].copy()
        for i, j in enumerate(off):
            if j is not None:
                np_[i] += d if sc else d[j]
        return np_, nq
    if k == "rotate":
        r = rots(op["r"])
        r = R.identity() if r is None else r
        rq = r.as_quat()
        a = op["anchor"]
        a = None if a is None else (np.zeros(3) if isinstance(a, (int, float)) else np.array(a, dtype=float))
        rsc = rq.ndim == 1
        if a is not None and not (rsc and a.ndim == 1):
            lr = 0 if rsc else len(rq)
            la = 0 if a.ndim == 1 else len(a)
            K = max(lr, la)
            rq2 = np.reshape(rq, (-1, 4))
            a2 = np.reshape(a, (-1, 3))
            rq = rq2[[min(j, len(rq2) - 1) for j in range(K)]] if lr != K else rq
            a = a2[[min(j, len(a2) - 1) for j in range(K)]] if la != K else a
            rsc = False if lr != K else rsc
        src, off = spec_indices(n, 1 if rsc else len(rq), rsc, op["start"])
        np_, nq = pos[src].copy(), quat[src].copy()
        for i, j in enumerate(off):
            if j is None:
                continue
            rj = R.from_quat(rq if rsc else rq[j])
            if a is not None:
                aj = a if a.ndim == 1 else a[j]
                np_[i] = rj.apply(np_[i] - aj) + aj
            nq[i] = (rj * R.from_quat(nq[i])).as_quat()
        return np_, nq
    if k in ("setpos", "setori"):
        if k == "setpos":
            new = np.reshape(np.array(op["p"], dtype=float), (-1, 3))
            other = quat
        else:
            r = rots(op["r"])
            new = np.array([[0, 0, 0, 1.0]]) if r is None else np.reshape(r.as_quat(), (-1, 4))
            other = pos
        m, n0 = len(new), len(other)
        fit = other[n0 - m:] if m <= n0 else other[[min(i, n0 - 1) for i in range(m)]]
        return (new, fit) if k == "setpos" else (fit, new)
    if k == "reset":
        return np.zeros((1, 3)), np.array([[0, 0, 0, 1.0]])
    raise ValueError(k)


def rot_close(q1, q2, tol=1e-9):
    if q1.shape != q2.shape:
        return False
    return bool(np.all((R.from_quat(q1) * R.from_quat(q2).inv()).magnitude() < tol))


INPUT_KEYS = ("d", "p", "anchor")


def resolve_op(obj, op):
    """concrete call arguments: {"alias": "_position"|"position"} -> the object's OWN array (not a copy),
    "nd": True -> float64 ndarrays instead of lists.  Returns (op for the call, op for the oracle with copies)"""
    call, orc = dict(op), dict(op)
    for k in INPUT_KEYS:
        v = op.get(k)
        if isinstance(v, dict) and "alias" in v:
            arr = obj._position if v["alias"] == "_position" else obj.position
            call[k], orc[k] = arr, np.array(arr, dtype=float, copy=True)
        elif op.get("nd") and isinstance(v, (list, tuple)):
            call[k], orc[k] = np.array(v, dtype=np.float64), np.array(v, dtype=np.float64)
    return call, orc


def input_magnitude(op):
    m = 0.0
    for k in INPUT_KEYS:
        v = op.get(k)
        if v is not None and not isinstance(v, (int, dict)) and np.size(v):
            m = max(m, float(np.abs(np.asarray(v, dtype=float)).max()))
    return m


def make_object(init_p, init_r, rots, cls=None):
    return (cls or magpy.Sensor)(position=init_p, orientation=rots(init_r))


def oracle_check_history(init_p, init_r, ops, rots, cls=None):
    """run ops on a real object, compare every intermediate state with the oracle.
    returns None or (op index, description)"""
    obj = make_object(init_p, init_r, rots, cls)
    for i, op in enumerate(ops):
        pos, quat = obj._position.copy(), obj._orientation.as_quat().copy()
        if op["op"] == "bad":          # a malformed call in the middle of a history: rejected, nothing changes
            name, call = BAD_CALLS[op["i"]]
            try:
                call(obj)
                return i, f"malformed call #{op['i']} ({name}) accepted"
            except Exception:   # pylint: disable=broad-except
                pass
            if obj._position.shape != pos.shape or not np.array_equal(obj._position, pos) \
                    or not np.array_equal(obj._orientation.as_quat(), quat):
                return i, f"rejected call #{op['i']} ({name}) changed the path"
            continue
        cop, oop = resolve_op(obj, op)
        epos, equat = oracle_step(pos, quat, oop, rots)
        apply_op(obj, cop, rots)
        gpos, gquat = obj._position, obj._orientation.as_quat()
        if len(gpos) != len(gquat) or len(gpos) < 1:
            return i, f"position/orientation lengths {len(gpos)}/{len(gquat)}"
        # tolerance relative to the scale of this path and of this input (works at 1e-6 as at 1e3)
        mag = max(float(np.abs(pos).max()), float(np.abs(epos).max()), input_magnitude(oop))
        if gpos.shape != epos.shape or not np.allclose(gpos, epos, rtol=0, atol=1e-9 * mag + 1e-300):
            return i, f"position path differs from documented semantics (shape {gpos.shape} vs {epos.shape})"
        if not rot_close(gquat, equat):
            return i, "orientation path differs from documented semantics"
    return None


def op_signature(op, n):
    k = op["op"]
    if k == "bad":
        return "rejected:" + BAD_CALLS[op["i"]][0]
    if k in ("move", "rotate"):
        x = op["d"] if k == "move" else op["r"]
        if isinstance(x, dict):
            sc = False                       # an aliased position path
        elif k == "rotate" and isinstance(x, (list, tuple)) and x and isinstance(x[0], float):
            sc = True                        # one rotation vector
        else:
            sc = not isinstance(x, (list, tuple)) or (k == "move" and not isinstance(x[0], (list, tuple)))
        st = op["start"]
        cls = "auto" if st == "auto" else ("neg-beyond" if st < -n else "neg" if st < 0 else "beyond" if st >= n else "inside")
        an = ""
        if k == "rotate":
            a = op["anchor"]
            an = ":anchor-" + ("none" if a is None else "alias" if isinstance(a, dict) else "0" if a == 0 else
                               "path" if isinstance(a[0], (list, tuple)) else "single")
            if op["r"] is None:
                an += ":unit-rotation"
        if any(isinstance(op.get(q), dict) for q in INPUT_KEYS):
            an += ":aliased-input"
        return f"{k}:{'scalar' if sc else 'vector'}:start-{cls}{an}"
    return k


# generic float inputs for the oracle sweep
SCALES = [1.0, 1.0, 1e-3, 1e-6, 1e3]


def gen_float_history(rng, nops):
    sc = rng.choice(SCALES)            # absolute length scale of positions, displacements, anchors

    def fvec(special=True):
        x = rng.random()
        if special and x < 0.06:
            return [0.0, 0.0, 0.0]
        if special and x < 0.15:       # exactly along +-x, +-y, +-z
            v = [0.0, 0.0, 0.0]
            v[rng.randrange(3)] = rng.choice([-1.0, 1.0]) * sc * rng.choice([1.0, 2.5])
            return v
        return [round(rng.uniform(-3, 3), 3) * sc for _ in range(3)]

    def finp(maxk=4):
        if rng.random() < 0.4:
            return fvec()
        k = rng.randint(16, 24) if rng.random() < 0.04 else rng.randint(1, maxk)
        return [fvec() for _ in range(k)]

    def rvec():
        x = rng.random()
        if x < 0.08:                   # unit rotation given as a rotation
            return [0.0, 0.0, 0.0]
        if x < 0.2:                    # quarter turns and 180-degree flips about the axes, both senses
            v = [0.0, 0.0, 0.0]
            v[rng.randrange(3)] = rng.choice([-1.0, 1.0]) * rng.choice([np.pi / 2, np.pi])
            return v
        return [round(rng.uniform(-3, 3), 3) for _ in range(3)]

    def frot(maxk=4):
        if rng.random() < 0.4:
            return rvec()
        k = rng.randint(16, 24) if rng.random() < 0.04 else rng.randint(1, maxk)
        return [rvec() for _ in range(k)]

    def alias():
        return {"alias": rng.choice(["_position", "position"])}

    ops = []
    for _ in range(nops):
        x = rng.random()
        if x < 0.33:
            op = {"op": "move", "d": alias() if rng.random() < 0.06 else finp(), "start": gen_start(rng)}
        elif x < 0.76:
            a = rng.choice(["none", "zero", "vec", "vec", "alias"])
            anchor = None if a == "none" else 0 if a == "zero" else finp() if a == "vec" else \
                (alias() if rng.random() < 0.3 else finp())
            op = {"op": "rotate", "r": None if rng.random() < 0.05 else frot(), "anchor": anchor,
                  "start": gen_start(rng)}
        elif x < 0.84:
            op = {"op": "setpos", "p": alias() if rng.random() < 0.1 else finp()}
        elif x < 0.92:
            op = {"op": "setori", "r": None if rng.random() < 0.2 else frot()}
        elif x < 0.96:
            op = {"op": "reset"}
        else:
            op = {"op": "bad", "i": rng.randrange(len(BAD_CALLS))}
        if rng.random() < 0.3:
            op["nd"] = True            # float64 ndarrays instead of lists
        ops.append(op)
    return {"init": {"p": finp(3), "r": None if rng.random() < 0.4 else frot(3)}, "ops": ops}


def battery_cases():
    """small fixed battery, run on every run: exact special values at several length scales"""
    out = []
    hp = np.pi / 2
    for sc in (1.0, 1e-6, 1e3):
        P3 = [[1.0 * sc, 2.0 * sc, -3.0 * sc], [0.5 * sc, 0.0, 4.0 * sc], [-2.0 * sc, 1.0 * sc, 1.0 * sc]]
        R3 = [[0.1, 0.2, 0.3], [0.0, 0.0, hp], [1.0, -1.0, 0.5]]
        A2 = [[1.0 * sc, 0.0, 0.0], [0.0, -2.0 * sc, 0.0]]
        for init in ({"p": P3, "r": R3}, {"p": P3[0], "r": None}):
            for st in ("auto", 0, 1, -5, 5):
                for anchor in (None, 0, [0.0, 0.0, 1.0 * sc], A2):
                    # unit rotations in every form still pad the path and follow the anchor path
                    for r in (None, [0.0, 0.0, 0.0], [[0.0, 0.0, 0.0]]):
                        out.append({"init": init, "ops": [{"op": "rotate", "r": r, "anchor": anchor, "start": st}]})
                    # flips / quarter turns, both senses, and a rotation input LONGER than the anchor path
                    out.append({"init": init, "ops": [
                        {"op": "rotate", "r": [np.pi, 0.0, 0.0], "anchor": anchor, "start": st},
                        {"op": "rotate", "r": [[0.0, -hp, 0.0], [0.0, 0.0, hp], [0.0, 0.0, -np.pi], [hp, 0.0, 0.0]],
                         "anchor": anchor, "start": st}]})
                # zero and axis-aligned displacements
                out.append({"init": init, "ops": [{"op": "move", "d": [0.0, 0.0, 0.0], "start": st},
                                                  {"op": "move", "d": [[0.0, 0.0, 0.0]], "start": st},
                                                  {"op": "move", "d": [[-sc, 0.0, 0.0], [0.0, sc, 0.0]], "start": st}]})
            # long inputs (>= 16 rows) inside / before / beyond the path; ndarray inputs; own arrays passed back in
            long_d = [[0.1 * j * sc, -0.2 * sc, 0.05 * j * j * sc] for j in range(17)]
            long_r = [[0.0, 0.0, 0.1 * j] for j in range(18)]
            for st in ("auto", 1, -20, 3):
                out.append({"init": init, "ops": [{"op": "move", "d": long_d, "start": st, "nd": True},
                                                  {"op": "rotate", "r": long_r, "anchor": A2 + [P3[2]], "start": st},
                                                  {"op": "move", "d": {"alias": "_position"}, "start": st},
                                                  {"op": "rotate", "r": [0.3, 0.0, 0.0], "anchor": {"alias": "position"},
                                                   "start": st},
                                                  {"op": "setpos", "p": {"alias": "position"}},
                                                  {"op": "setpos", "p": {"alias": "_position"}}]})
            # two resets in a row, setters twice, a rejected call in the middle
            out.append({"init": init, "ops": [{"op": "reset"}, {"op": "reset"}, {"op": "move", "d": P3, "start": "auto"},
                                              {"op": "bad", "i": 0}, {"op": "setori", "r": R3[:2]},
                                              {"op": "bad", "i": 9}, {"op": "setori", "r": R3[:2]},
                                              {"op": "setpos", "p": P3[:1], "nd": True}, {"op": "bad", "i": 19},
                                              {"op": "setpos", "p": P3[:1]}, {"op": "reset"}, {"op": "reset"}]})
    return out


def public_classes():
    verts = [(0, 0, 0), (1, 0, 0), (0, 1, 0), (0, 0, 1)]
    mk = {
        "Sensor": lambda **k: magpy.Sensor(pixel=[(0, 0, 0), (0, 0, 1)], **k),
        "Collection": lambda **k: magpy.Collection(**k),
        "Cuboid": lambda **k: magpy.magnet.Cuboid(polarization=(0, 0, 1), dimension=(1, 2, 3), **k),
        "Cylinder": lambda **k: magpy.magnet.Cylinder(polarization=(0, 0, 1), dimension=(1, 2), **k),
        "CylinderSegment": lambda **k: magpy.magnet.CylinderSegment(polarization=(0, 0, 1), dimension=(1, 2, 1, 0, 90), **k),
        "Sphere": lambda **k: magpy.magnet.Sphere(polarization=(0, 0, 1), diameter=1, **k),
        "Tetrahedron": lambda **k: magpy.magnet.Tetrahedron(polarization=(0, 0, 1), vertices=verts, **k),
        "TriangularMesh": lambda **k: magpy.magnet.TriangularMesh(
            polarization=(0, 0, 1), vertices=verts, faces=[(0, 2, 1), (0, 1, 3), (0, 3, 2), (1, 2, 3)], **k),
        "Circle": lambda **k: magpy.current.Circle(current=1, diameter=1, **k),
        "Polyline": lambda **k: magpy.current.Polyline(current=1, vertices=[(0, 0, 0), (1, 1, 1)], **k),
        "Dipole": lambda **k: magpy.misc.Dipole(moment=(1, 2, 3), **k),
        "Triangle": lambda **k: magpy.misc.Triangle(polarization=(0, 0, 1), vertices=verts[:3], **k),
        "CustomSource": lambda **k: magpy.misc.CustomSource(**k),
    }
    return mk


def class_battery(ctx):
    """every public class goes through the same path machinery: constructor padding, all operations,
    setters, reset -- against the documented semantics"""
    hist = {"init": {"p": [[1.0, 2.0, 3.0], [0.0, 1.0, 0.0], [2.0, 2.0, -1.0]], "r": [[0.0, 0.0, 0.5], [0.3, 0.0, 0.0]]},
            "ops": [{"op": "move", "d": [[1.0, 0.0, 0.0], [0.0, 2.0, 0.0]], "start": -4},
                    {"op": "rotate", "r": [[0.0, 0.0, 1.0], [0.0, 1.0, 0.0], [1.0, 0.0, 0.0]],
                     "anchor": [[0.0, 0.0, 1.0], [1.0, 0.0, 0.0]], "start": 3},
                    {"op": "rotate", "r": None, "anchor": 0, "start": 7},
                    {"op": "setpos", "p": [[0.0, 0.0, 1.0], [0.0, 0.0, 2.0]]},
                    {"op": "setori", "r": [[0.1, 0.0, 0.0], [0.2, 0.0, 0.0], [0.3, 0.0, 0.0]]},
                    {"op": "move", "d": [0.0, 0.0, 1.0], "start": "auto"}, {"op": "bad", "i": 3},
                    {"op": "reset"}, {"op": "rotate", "r": [0.0, 0.4, 0.0], "anchor": [1.0, 1.0, 1.0], "start": -2}]}
    inits = [hist["init"], {"p": [[1.0, 2.0, 3.0], [0.0, 1.0, 0.0]], "r": [[0.0, 0.0, 0.5], [0.3, 0.0, 0.0], [0.0, 0.1, 0.0]]},
             {"p": [1.0, 2.0, 3.0], "r": None}]
    for name, mk in public_classes().items():
        for init in inits:
            ctx.case(("class", name, json.dumps(init)), True)
            ctx.bump("class-battery:" + name)
            try:
                obj = mk(position=init["p"], orientation=rotvec_rot(init["r"]))
                ep, er = len(np.reshape(init["p"], (-1, 3))), (1 if init["r"] is None else len(init["r"]))
                if len(obj._position) != max(ep, er) or len(obj._orientation) != max(ep, er):
                    ctx.impl_fail(f"path-spec/init-lengths:{name}",
                                  f"{name}(position len {ep}, orientation len {er}) has path lengths "
                                  f"{len(obj._position)}/{len(obj._orientation)}",
                                  {"kind": "class-history", "class": name, "init": init, "ops": []})
                    continue
                res = oracle_check_history(init["p"], init["r"], hist["ops"], rotvec_rot, cls=mk)
            except Exception as e:   # pylint: disable=broad-except
                res = (0, f"raised {type(e).__name__}: {e}")
            if res is not None:
                i, what = res
                ctx.impl_fail(f"path-spec/{name}:" + (op_signature(hist["ops"][i], 3) if hist["ops"] else "init"),
                              f"{name}: {what}", {"kind": "class-history", "class": name, "init": init,
                                                  "ops": hist["ops"][:i + 1]})


def rotvec_rot(x):
    if x is None:
        return None
    return R.from_rotvec(np.array(x, dtype=float))


# ------------------------------------------------------------------ rotate_from_* == rotate(equivalent rotation)
def check_rotate_from(ctx, n):
    rng = ctx.rng
    forms = ["angax", "rotvec", "euler", "matrix", "mrp", "quat"]
    for t in range(n):
        form = forms[t % len(forms)]
        k = rng.choice([0, 1, 2, 3])           # 0: scalar
        deg = rng.random() < 0.5
        anchor = rng.choice([None, 0, [1.0, -2.0, 0.5]])
        start = gen_start(rng)
        p0 = [[rng.uniform(-2, 2) for _ in range(3)] for _ in range(rng.randint(1, 3))]
        a, b = magpy.Sensor(position=p0), magpy.Sensor(position=p0)
        try:
            if form == "angax":
                ang = rng.uniform(-200, 200) if k == 0 else [rng.uniform(-200, 200) for _ in range(k)]
                ax = rng.choice(["x", "y", "z", [1.0, 2.0, -0.5]])
                axv = {"x": [1, 0, 0], "y": [0, 1, 0], "z": [0, 0, 1]}.get(ax, ax) if isinstance(ax, str) else ax
                axv = np.array(axv, dtype=float) / np.linalg.norm(axv)
                angr = np.deg2rad(ang) if deg else np.array(ang, dtype=float)
                rv = axv * angr if k == 0 else np.outer(angr, axv)
                a.rotate_from_angax(ang, ax, anchor=anchor, start=start, degrees=deg)
                b.rotate(R.from_rotvec(rv), anchor=anchor, start=start)
            elif form == "rotvec":
                rv = np.array([rng.uniform(-2, 2) for _ in range(3)]) if k == 0 else \
                    np.array([[rng.uniform(-2, 2) for _ in range(3)] for _ in range(k)])
                a.rotate_from_rotvec(rv, anchor=anchor, start=start, degrees=deg)
                b.rotate(R.from_rotvec(np.deg2rad(rv) if deg else rv), anchor=anchor, start=start)
            elif form == "euler":
                seq = rng.choice(["x", "Y", "zy", "xyz", "ZXZ", "XYZ", "ZYX", "YX", "zyx"])
                shape = (len(seq),) if k == 0 else (k, len(seq))
                ang = np.array([rng.uniform(-80, 80) for _ in range(int(np.prod(shape)))]).reshape(shape)
                if len(seq) == 1 and k == 0:
                    ang = float(ang[0])
                a.rotate_from_euler(ang, seq, anchor=anchor, start=start, degrees=deg)
                b.rotate(R.from_euler(seq, ang, degrees=deg), anchor=anchor, start=start)
            else:
                rr = R.from_rotvec(np.array([rng.uniform(-2, 2) for _ in range(3)]) if k == 0 else
                                   np.array([[rng.uniform(-2, 2) for _ in range(3)] for _ in range(k)]))
                if form == "matrix":
                    a.rotate_from_matrix(rr.as_matrix(), anchor=anchor, start=start)
                elif form == "mrp":
                    a.rotate_from_mrp(rr.as_mrp(), anchor=anchor, start=start)
                else:
                    a.rotate_from_quat(rr.as_quat(), anchor=anchor, start=start)
                b.rotate(rr, anchor=anchor, start=start)
        except Exception as e:      # pylint: disable=broad-except
            ctx.impl_fail(f"rotate_from/{form}:raises", f"rotate_from_{form} raised {type(e).__name__}: {e}",
                          {"form": form, "k": k, "degrees": deg, "start": start})
            continue
        ctx.case(("rotfrom", form, k, deg, str(anchor), start), True)
        ctx.bump("rotate_from_" + form)
        if a._position.shape != b._position.shape or not np.allclose(a._position, b._position, atol=1e-9) \
                or not rot_close(a._orientation.as_quat(), b._orientation.as_quat()):
            ctx.impl_fail(f"rotate_from/{form}:{'deg' if deg else 'rad'}",
                          f"rotate_from_{form} differs from rotate() with the equivalent rotation",
                          {"form": form, "k": k, "degrees": deg, "start": start, "anchor": anchor})


# ------------------------------------------------------------------ rejected calls change nothing
BAD_CALLS = [
    ("move", lambda o: o.move([1, 2])), ("move", lambda o: o.move([[1, 2, 3, 4]])),
    ("move", lambda o: o.move("abc")), ("move", lambda o: o.move(None)),
    ("move", lambda o: o.move([[[1, 2, 3]]])), ("move", lambda o: o.move([1, 2, 3], start=1.5)),
    ("move", lambda o: o.move([1, 2, 3], start="end")), ("move", lambda o: o.move([1, "x", 3])),
    ("rotate", lambda o: o.rotate([1, 2, 3])), ("rotate", lambda o: o.rotate(R.identity(), anchor=[1, 2])),
    ("rotate", lambda o: o.rotate(R.identity(), anchor="x")), ("rotate", lambda o: o.rotate(R.identity(), start=None)),
    ("rotate", lambda o: o.rotate(R.identity(), anchor=[[1, 2, 3, 4]])),
    ("rotate_from_angax", lambda o: o.rotate_from_angax(10, "w")),
    ("rotate_from_angax", lambda o: o.rotate_from_angax(10, [0, 0, 0])),
    ("rotate_from_angax", lambda o: o.rotate_from_angax("a", "z")),
    ("rotate_from_angax", lambda o: o.rotate_from_angax(10, "z", degrees=1)),
    ("rotate_from_angax", lambda o: o.rotate_from_angax([[1, 2]], "z")),
    ("rotate_from_angax", lambda o: o.rotate_from_angax(10, [1, 2])),
    ("position=", lambda o: setattr(o, "position", [1, 2])), ("position=", lambda o: setattr(o, "position", "x")),
    ("position=", lambda o: setattr(o, "position", [[[1, 2, 3]]])), ("position=", lambda o: setattr(o, "position", None)),
    ("orientation=", lambda o: setattr(o, "orientation", [0, 0, 0, 1])),
    ("orientation=", lambda o: setattr(o, "orientation", "x")),
]


def check_rejections(ctx):
    for mk in (lambda: magpy.Sensor(position=[[1, 2, 3], [4, 5, 6]]),
               lambda: magpy.Collection(magpy.Sensor(position=[[0, 0, 1], [0, 0, 2]]),
                                        position=[[1, 2, 3], [4, 5, 6]])):
        for name, call in BAD_CALLS:
            o = mk()
            objs = [o] + list(getattr(o, "children", []))
            before = [(x._position.copy(), x._orientation.as_quat().copy()) for x in objs]
            try:
                call(o)
                outcome = "accepted"
            except MagpylibBadUserInput:
                outcome = "BadInput"
            except Exception as e:   # pylint: disable=broad-except
                outcome = "Other:" + type(e).__name__
            ctx.case(("reject", name, BAD_CALLS.index((name, call)), type(o).__name__), True)
            ctx.bump("malformed:" + outcome)
            after = [(x._position, x._orientation.as_quat()) for x in objs]
            same = all(b[0].shape == a[0].shape and np.array_equal(b[0], a[0]) and np.array_equal(b[1], a[1])
                       for b, a in zip(before, after))
            if outcome == "accepted":
                ctx.impl_fail(f"rejects/{name}:accepted", f"malformed call #{BAD_CALLS.index((name, call))} accepted",
                              {"call_index": BAD_CALLS.index((name, call))})
            elif not same:
                ctx.impl_fail(f"rejected-unchanged/{name}", "a rejected call changed the path",
                              {"call_index": BAD_CALLS.index((name, call))})


# ------------------------------------------------------------------ empty inputs (paths of length 0)
def _empty_rot():
    return R.from_quat(np.zeros((0, 4)))


EMPTY_CALLS = [
    ("orientation=:empty-rotation", lambda o: setattr(o, "orientation", _empty_rot())),
    ("position=:empty-array", lambda o: setattr(o, "position", np.zeros((0, 3)))),
    ("rotate:empty-rotation", lambda o: o.rotate(_empty_rot())),
    ("rotate:empty-rotation:anchor", lambda o: o.rotate(_empty_rot(), anchor=(1, 2, 3), start=1)),
    ("rotate:empty-anchor", lambda o: o.rotate(R.from_rotvec((0.1, 0.2, 0.3)), anchor=np.zeros((0, 3)))),
    ("move:empty-array", lambda o: o.move(np.zeros((0, 3)))),
    ("rotate_from_quat:empty", lambda o: o.rotate_from_quat(np.zeros((0, 4)))),
    ("rotate_from_rotvec:empty", lambda o: o.rotate_from_rotvec(np.zeros((0, 3)))),
]

EMPTY_TARGETS = [
    ("object", lambda: magpy.Sensor(position=[(1, 2, 3), (4, 5, 6)])),
    ("collection", lambda: magpy.Collection(magpy.Sensor(position=(1, 1, 1)), position=[(1, 2, 3), (4, 5, 6)])),
]


def empty_input_case(ti, ci):
    """an input of length 0, accepted or rejected: paths keep equal length >= 1 and a rejected call changes
    nothing.  returns None or (clause, what)"""
    tname, mk = EMPTY_TARGETS[ti]
    name, call = EMPTY_CALLS[ci]
    o = mk()
    objs = [o] + list(getattr(o, "children", []))
    before = [(x._position.copy(), x._orientation.as_quat().copy()) for x in objs]
    try:
        call(o)
        raised = None
    except Exception as e:   # pylint: disable=broad-except
        raised = e
    for x in objs:
        if len(x._position) < 1 or len(x._position) != len(x._orientation):
            how = "accepted" if raised is None else f"rejected with {type(raised).__name__} half-way"
            return "lengths", (f"{name} on a {tname} ({how}): position/orientation path lengths "
                               f"{len(x._position)}/{len(x._orientation)}")
    if raised is not None:
        for x, (p0, q0) in zip(objs, before):
            if x._position.shape != p0.shape or not np.array_equal(x._position, p0) \
                    or not np.array_equal(x._orientation.as_quat(), q0):
                return "rejected-unchanged", f"{name} on a {tname}: rejected ({type(raised).__name__}) but a path changed"
    return None


def check_empty_inputs(ctx):
    for ti, (tname, _) in enumerate(EMPTY_TARGETS):
        for ci, (name, _) in enumerate(EMPTY_CALLS):
            ctx.case(("empty-input", tname, name), True)
            ctx.bump("empty-input:" + name.split(":")[0])
            res = empty_input_case(ti, ci)
            if res is not None:
                ctx.impl_fail(f"{res[0]}/{name}", res[1], {"kind": "empty-input", "target": ti, "call": ci})


# ------------------------------------------------------------------ main
def oracle_sweep(ctx, n_hist, nops):
    fixed = battery_cases()
    for t in range(len(fixed) + n_hist):
        case = fixed[t] if t < len(fixed) else gen_float_history(ctx.rng, nops)
        ctx.bump("float-battery" if t < len(fixed) else "float-random")
        res = oracle_check_history(case["init"]["p"], case["init"]["r"], case["ops"], rotvec_rot)
        ctx.case(("float", json.dumps(case, sort_keys=True)), True)
        for op in case["ops"]:
            ctx.bump("float-op:" + op["op"])
        if res is not None:
            def fails(ops, case=case):
                try:
                    return oracle_check_history(case["init"]["p"], case["init"]["r"], ops, rotvec_rot) is not None
                except Exception:   # pylint: disable=broad-except
                    return False
            ops = shrink_list(case["ops"], fails)
            i, what = oracle_check_history(case["init"]["p"], case["init"]["r"], ops, rotvec_rot)
            ctx.impl_fail("path-spec/" + op_signature(ops[i], 0 if i else len(np.reshape(case['init']['p'], (-1, 3)))),
                          what, {"kind": "float-history", "init": case["init"], "ops": ops})


def exact_oracle(ctx, cases):
    """the python oracle on the exact cases too (finds the failing input when the model broke)"""
    for case in cases:
        try:
            res = oracle_check_history(case["init"]["p"], case["init"]["r"], case["ops"], octa.rot)
        except Exception as e:   # pylint: disable=broad-except
            res = (0, f"raised {type(e).__name__}: {e}")
        if res is not None:
            i, what = res
            n = len(np.reshape(np.array(case["init"]["p"]), (-1, 3)))
            ctx.impl_fail("path-spec/" + op_signature(case["ops"][i], n), what,
                          {"kind": "exact-history", "init": case["init"], "ops": case["ops"][:i + 1]})


def run(ctx):
    ctx.extra["rule"] = ("histories of move/rotate/position=/orientation=/reset_path on one object with integer "
                         "positions and octahedral rotations (exact), all states compared model vs implementation; "
                         "plus float histories against the declarative path semantics; a case is distinct by its "
                         "canonical JSON, non-trivial if it has at least one operation")
    ctx.trusted += [
        "translator translate/gen_path.py + py2coq.py (path_padding_param, pad_slice_path -> Gallina)",
        "translator translate/gen_pathflow.py (+ gen_l2arith.exp): statement-level flow of multi_anchor_behavior, "
        "path_padding, apply_move, apply_rotation, move/_rotate/rotate/rotate_from_*, _init_position_orientation, the "
        "pose setters and reset_path as a deep embedding; Proofs/PathFlowProofs.v proves it equal to the structure the "
        "hand models were written against (Model/PathFlow.v) and interprets pad widths / slices / forwarded arguments",
        "hand model coq/Model/PathModel.v of path_padding/apply_move/multi_anchor_behavior/apply_rotation/"
        "setters, tied by the history correspondence (Sensor objects, exact inputs)",
        "input validation (check_format_input_*) and scipy's Rotation.from_* conversions are not modelled; "
        "they are exercised by the rejection battery and the rotate_from_* equivalence sweep",
    ]
    ok = ctx.regen(["GenPath", "GenPathFlow"])
    built = ctx.build_props() and ok
    if ctx.tier == "thorough" and built:
        ctx.coqchk("MV.Props.C09")

    # exact histories: implementation first, then the model on the same histories
    def corr():
        cases = []
        if ctx.tier == "thorough":
            cases += exhaustive_cases()
        else:
            cases += exhaustive_cases(3, 3, range(-5, 6))
        nrand = ctx.n(500, 6000)
        for _ in range(nrand):
            cases.append(gen_case(ctx.rng, ctx.rng.randint(1, 8)))
        cs = []
        for c in cases:
            try:
                st = impl_run(c)
            except Exception as e:   # pylint: disable=broad-except
                ctx.impl_fail("path-spec/raises:" + c["ops"][-1]["op"],
                              f"valid history raised {type(e).__name__}: {e}",
                              {"kind": "exact-history", "init": c["init"], "ops": c["ops"]})
                continue
            cs.append((c, st))
            ctx.case(json.dumps(c, sort_keys=True), len(c["ops"]) > 0)
            for op in c["ops"]:
                ctx.bump("exact-op:" + op["op"])
        ctx.samples.append({"history": cs[len(cs) // 2][0], "states_after_each_op": cs[len(cs) // 2][1]})
        bad = model_check(ctx, ctx.tier, cs) if built else None
        if bad is None:
            if built:
                return cases
            bad = []
        ctx.count("traces_validated_against_impl", len(cs) - len(bad))
        for bi in bad[:5]:
            c, st = cs[bi]

            def fails(ops, c=c):
                c2 = {"init": c["init"], "ops": ops}
                try:
                    r = model_check(ctx, "shrink", [(c2, impl_run(c2))])
                except Exception:   # pylint: disable=broad-except
                    return False
                return bool(r)
            ops = shrink_list(c["ops"], fails, max_steps=30)
            ctx.add_broken("broken-correspondence", "PathModel vs implementation",
                           json.dumps({"init": c["init"], "ops": ops}))
        return cases

    cases = run_guarded(ctx, corr, "C09 correspondence") or []

    # search: always a cheap sweep; much larger when something above broke
    big = bool(ctx.broken)
    run_guarded(ctx, lambda: oracle_sweep(ctx, ctx.n(150, 3000) * (4 if big else 1), 6), "C09 float oracle")
    if big or ctx.tier == "thorough":
        run_guarded(ctx, lambda: exact_oracle(ctx, cases if cases else exhaustive_cases()), "C09 exact oracle")
    else:
        run_guarded(ctx, lambda: exact_oracle(ctx, cases[:600]), "C09 exact oracle")
    run_guarded(ctx, lambda: check_rotate_from(ctx, ctx.n(120, 2400)), "C09 rotate_from")
    run_guarded(ctx, lambda: check_rejections(ctx), "C09 rejections")
    run_guarded(ctx, lambda: class_battery(ctx), "C09 class battery")
    run_guarded(ctx, lambda: check_empty_inputs(ctx), "C09 empty inputs")
    ctx.refuted += [t for t in ctx.theorems if t.endswith("_refuted")]


def replay(ctx, obj):
    rp = obj.get("replay", obj)
    if rp.get("kind") == "empty-input":
        res = empty_input_case(rp["target"], rp["call"])
        print("replay:", "property holds for this call" if res is None else f"FAILS ({res[0]}): {res[1]}")
        if res is not None:
            print(f"VIOLATION property=C09 replay={obj.get('how_to_rerun', '').split()[-1] or 'given'}")
        return 0 if res is None else 1
    if rp.get("kind") in ("float-history", "exact-history", "class-history"):
        rots = octa.rot if rp["kind"] == "exact-history" else rotvec_rot
        cls = public_classes()[rp["class"]] if rp["kind"] == "class-history" else None
        res = oracle_check_history(rp["init"]["p"], rp["init"]["r"], rp["ops"], rots, cls=cls)
        print("replay:", "property holds on this history" if res is None else f"FAILS at op {res[0]}: {res[1]}")
        if res is not None:
            print(f"VIOLATION property=C09 replay={obj.get('how_to_rerun', '').split()[-1] or 'given'}")
        return 0 if res is None else 1
    print(json.dumps(obj, indent=1)[:3000])
    return 0
