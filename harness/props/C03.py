"""C03 -- fields are covariant under a rigid motion of the whole setup."""
import json

import numpy as np
from scipy.spatial.transform import Rotation as R

import magpylib as magpy

from harness.common import run_guarded
from harness import octa, level2, l2b
from harness.shrink import shrink_list


# ------------------------------------------------------------------ exact correspondence (stub sources)
def stub_signature(case):
    form = "covariant-observers" if case["obs"] else "invariant-sensors"
    srcs = level2.resolve(case["sources"])
    kind = "collection" if any("tree" in s for s in srcs) else "bare"
    leaves = [l for s in srcs for l in (level2.flatten_tree(s["tree"]) if "tree" in s else [s["leaf"]])]
    n = max([len(l["pos"]) for l in leaves] + [len(s["pos"]) for s in level2.resolve(case["sensors"])])
    return f"{form}/stub:{kind}:{'static' if n == 1 else 'path'}"


def exact_fails(case):
    """the property itself on one exact case; None or a description"""
    try:
        out0, out1 = l2b.c03_impl(case)
    except Exception as e:   # pylint: disable=broad-except
        return f"raised {type(e).__name__}: {e}"
    if out1 != l2b.c03_expected(case, out0):
        return "output after the common motion is not the rotated / unchanged output"
    return None


def shrink_exact(case):
    def fails(srcs):
        if not srcs or any("dup" in s for s in srcs):
            return False
        return exact_fails(dict(case, sources=srcs)) is not None
    srcs = level2.resolve(case["sources"])
    small = dict(case, sources=shrink_list(srcs, fails, max_steps=40))
    if exact_fails(small) is None:
        return case
    if not small["obs"]:
        def fails_s(sens):
            return bool(sens) and exact_fails(dict(small, sensors=sens)) is not None
        sens = level2.resolve(small["sensors"])
        cand = dict(small, sensors=shrink_list(sens, fails_s, max_steps=20))
        if exact_fails(cand) is not None:
            small = cand
    return small


def correspondence(ctx, built, n):
    items, kept = [], []
    for _ in range(n):
        case = l2b.g_c03_case(ctx.rng)
        try:
            out0, out1 = l2b.c03_impl(case)
        except Exception as e:   # pylint: disable=broad-except
            small = shrink_exact(case)
            ctx.impl_fail(stub_signature(small).replace("/", "/raises:"),
                          f"valid setup raised {type(e).__name__}: {e}", {"kind": "exact", "case": small})
            continue
        ctx.case(json.dumps(case, sort_keys=True), case["g"] != octa.IDENT)
        ctx.bump("exact:" + ("observers" if case["obs"] else "sensors"))
        ctx.bump("exact:entries=%d" % len(case["sources"]))
        if any("tree" in s for s in case["sources"]):
            ctx.bump("exact:with-collection")
        if out1 != l2b.c03_expected(case, out0):
            small = shrink_exact(case)
            ctx.impl_fail(stub_signature(small), "moving sources and observers together by an octahedral rotation and an "
                          "integer translation does not rotate / preserve the output (stub sources, exact)",
                          {"kind": "exact", "case": small})
        items.append(l2b.c_c03(case, out0, out1))
        kept.append(case)
    if kept:
        c = kept[len(kept) // 2]
        ctx.samples.append({"exact_case": {k: c[k] for k in ("g", "t", "obs", "agg", "sumup")},
                            "n_entries": len(c["sources"])})
    if not built:
        return
    bad = l2b.coq_failing(ctx, f"c03_{ctx.tier}", "c03case", "failing_c03", items)
    if bad is None:
        return
    ctx.count("traces_validated_against_impl", len(items) - len(bad))
    for bi in bad[:3]:
        ctx.add_broken("broken-correspondence", "Level2Model/Level2Move vs getBH_level2 + rotate/move",
                       json.dumps(kept[bi])[:3000])


def element_fails(case):
    """pose-frame on an exact case: the vectorised output against single static evaluations of every
    leaf at every path index and pixel (harness/level2.oracle_element)"""
    try:
        got = level2.impl_run(case)
        exp = level2.oracle_element(case)
    except Exception as e:   # pylint: disable=broad-except
        return f"raised {type(e).__name__}: {e}"
    exp = np.rint(np.array(exp, dtype=float)).astype(int).tolist() if not isinstance(exp, list) else \
        [[[[[int(round(x)) for x in v] for v in px] for px in row] for row in blk] for blk in exp]
    return None if got == exp else "vectorised output differs from the pose-by-pose single evaluations"


def element_search(ctx, n):
    for _ in range(n):
        case = level2.g_case(ctx.rng, max_src=3, max_sens=2, maxlen=3)
        ctx.bump("exact:element-oracle")
        if element_fails(case) is None:
            continue
        def fails(srcs):
            return bool(srcs) and not any("dup" in s for s in srcs) and element_fails(dict(case, sources=srcs)) is not None
        small = dict(case, sources=shrink_list(level2.resolve(case["sources"]), fails, max_steps=30))
        if element_fails(small) is None:
            small = case
        sig = stub_signature(dict(small, obs=False)).split("/")[1]
        ctx.impl_fail("pose-frame/" + sig, element_fails(small) + " (stub sources, exact)",
                      {"kind": "exact-element", "case": small})


# ------------------------------------------------------------------ float search (real sources)
TOL = 1e-9        # relative to the field scale of the compared arrays
NOISE_FACTOR = 1000.0   # ... or this many times the evaluation's own sensitivity to rounding-level changes


EULER_SEQS = ["x", "Y", "zy", "XZ", "xyz", "ZYX", "zxz", "YXY", "yxz", "XYZ"]
PARAM_FORMS = ["rotate", "angax", "rotvec", "euler", "quat", "matrix", "mrp"]


def g_param(rng):
    """one public parametrisation of a rotation, as plain data"""
    form = rng.choice(PARAM_FORMS)
    deg = rng.random() < 0.5
    p = {"form": form, "degrees": deg, "anchor": rng.choice([None, 0, l2b.rvec(rng, -2, 2)])}
    if form == "angax":
        p["angle"] = rng.uniform(-170, 170) if deg else rng.uniform(-3, 3)
        p["axis"] = rng.choice(["x", "y", "z", l2b.rvec(rng, -1, 1)])
    elif form == "rotvec":
        v = np.array(l2b.rvec(rng, -1, 1))
        v = v / np.linalg.norm(v) * (rng.uniform(5, 170) if deg else rng.uniform(0.1, 3))
        p["rotvec"] = v.tolist()
    elif form == "euler":
        p["seq"] = rng.choice(EULER_SEQS)
        n = len(p["seq"])
        ang = [rng.uniform(-80, 80) if deg else rng.uniform(-1.4, 1.4) for _ in range(n)]
        p["angles"] = ang[0] if n == 1 else ang
    else:
        p["quat"] = l2b.rnd_rot(rng).as_quat().tolist()
    return p


def param_rotation(p):
    """the scipy Rotation the parameters denote, built WITHOUT the library under test"""
    form = p["form"]
    if form == "angax":
        ax = {"x": [1, 0, 0], "y": [0, 1, 0], "z": [0, 0, 1]}.get(p["axis"], p["axis"]) if isinstance(p["axis"], str) else p["axis"]
        ax = np.array(ax, dtype=float)
        ax = ax / np.linalg.norm(ax)
        ang = np.deg2rad(p["angle"]) if p["degrees"] else p["angle"]
        return R.from_rotvec(ax * ang)
    if form == "rotvec":
        return R.from_rotvec(np.array(p["rotvec"], dtype=float), degrees=p["degrees"])
    if form == "euler":
        return R.from_euler(p["seq"], p["angles"], degrees=p["degrees"])
    return R.from_quat(np.array(p["quat"], dtype=float))


def param_apply(obj, p):
    """the same rotation applied to an object through the public method of that parametrisation"""
    form, a = p["form"], p["anchor"]
    if form == "rotate":
        obj.rotate(R.from_quat(np.array(p["quat"], dtype=float)), anchor=a)
    elif form == "angax":
        obj.rotate_from_angax(p["angle"], p["axis"], anchor=a, degrees=p["degrees"])
    elif form == "rotvec":
        obj.rotate_from_rotvec(p["rotvec"], anchor=a, degrees=p["degrees"])
    elif form == "euler":
        obj.rotate_from_euler(p["angles"], p["seq"], anchor=a, degrees=p["degrees"])
    elif form == "quat":
        obj.rotate_from_quat(p["quat"], anchor=a)
    elif form == "matrix":
        obj.rotate_from_matrix(R.from_quat(np.array(p["quat"], dtype=float)).as_matrix(), anchor=a)
    elif form == "mrp":
        obj.rotate_from_mrp(R.from_quat(np.array(p["quat"], dtype=float)).as_mrp(), anchor=a)
    else:
        raise ValueError(form)


def param_trigger(p):
    a = p["anchor"]
    extra = ""
    if p["form"] == "euler":
        extra = ":intrinsic" if p["seq"][0].isupper() else ":extrinsic"
        extra += ":multi-axis" if len(p["seq"]) > 1 else ":single-axis"
    elif p["form"] in ("angax", "rotvec"):
        extra = ":degrees" if p["degrees"] else ":radians"
    return "rotate_from_" + p["form"] + extra + ":anchor-" + ("none" if a is None else "0" if a == 0 else "point")


def float_eval(dentries, dobs, gq, t, field):
    """(expected, got) after the common motion; fresh objects every time"""
    entries = [l2b.load_obj(d) for d in dentries]
    g = R.from_quat(gq)
    t = np.array(t, dtype=float)
    how = dobs.get("how", "top")

    def f(srcs, obs, squeeze=False):      # pylint: disable=unused-argument
        return l2b.call_field(srcs, obs, field, how)
    tl = t.tolist() if dobs.get("t_as_list") else t          # list vs float64 ndarray input
    if dobs["kind"] == "array-param":
        # the rotation is given to the objects through one public parametrisation and anchor; the observers are
        # moved with the scipy Rotation built independently from the same parameters.  anchor=None (own position)
        # is used only with ONE static entry, for which it is the rigid motion x -> g(x - c) + c
        p = dobs["param"]
        g = param_rotation(p)
        pts = np.array(dobs["points"], dtype=float)
        a = p["anchor"]
        c = np.array(dentries[0]["position"][0], dtype=float) if a is None else np.zeros(3) if a == 0 else np.array(a, dtype=float)
        B0 = f(entries, pts, squeeze=False)
        for e in entries:
            param_apply(e, p)
            e.move(tl)
        B1 = f(entries, g.apply(pts - c) + c + t, squeeze=False)
        return g.apply(B0.reshape(-1, 3)).reshape(B0.shape), B1
    if dobs["kind"] == "array-attributes":
        # ONE collection with a static own pose (c, Rc), all objects static, moved through its ATTRIBUTES:
        # orientation = g*Rc rotates the whole tree about c, position = g.c + t then translates it: x -> g.x + t
        pts = np.array(dobs["points"], dtype=float)
        c = np.array(dentries[0]["position"][0], dtype=float)
        B0 = f(entries, pts, squeeze=False)
        entries[0].orientation = g * entries[0].orientation
        entries[0].position = g.apply(c) + t
        B1 = f(entries, g.apply(pts) + t, squeeze=False)
        return g.apply(B0.reshape(-1, 3)).reshape(B0.shape), B1
    if dobs["kind"] == "array-own-anchor":
        # ONE collection with a static own pose, rotated about its own position (anchor=None): for the
        # whole tree this is the rigid motion x -> g(x - c) + c + t
        pts = np.array(dobs["points"], dtype=float)
        c = np.array(dentries[0]["position"][0], dtype=float)
        B0 = f(entries, pts, squeeze=False)
        entries[0].rotate(g)
        entries[0].move(tl)
        B1 = f(entries, g.apply(pts - c) + c + t, squeeze=False)
        return g.apply(B0.reshape(-1, 3)).reshape(B0.shape), B1
    if dobs["kind"] == "array":
        pts = np.array(dobs["points"], dtype=float)
        B0 = f(entries, pts.tolist() if dobs.get("t_as_list") else pts, squeeze=False)
        for e in entries:
            e.rotate(g, anchor=0)
            e.move(tl)
        B1 = f(entries, g.apply(pts) + t, squeeze=False)
        exp = g.apply(B0.reshape(-1, 3)).reshape(B0.shape)
    else:
        sens = [l2b.load_obj(d) for d in dobs["sensors"]]
        B0 = f(entries, sens, squeeze=False)
        for e in entries + sens:
            e.rotate(g, anchor=0)
            e.move(tl)
        B1 = f(entries, sens, squeeze=False)
        exp = B0
    return exp, B1


def float_dev(dentries, dobs, gq, t, field):
    try:
        exp, got = float_eval(dentries, dobs, gq, t, field)
    except Exception as e:   # pylint: disable=broad-except
        return None, f"raised {type(e).__name__}: {e}"
    devs = [l2b.rel_dev(exp[i], got[i]) for i in range(len(exp))]
    return devs, None


perturb = l2b.perturb
noise_floor = l2b.noise_floor


def acceptable(dentries, dobs, gq, t, field):
    """None when the property holds on this setup up to rounding, else a description"""
    devs, err = float_dev(dentries, dobs, gq, t, field)
    if err is not None:
        return err
    if max(devs) <= TOL:
        return None
    try:
        nf = noise_floor(dentries, dobs, field)
    except Exception:   # pylint: disable=broad-except
        nf = 0.0
    if max(devs) <= NOISE_FACTOR * nf:
        return None
    return (f"{field} after a common generic rotation+translation deviates by {max(devs):.2e} (relative to the "
            f"field scale; rounding sensitivity of this evaluation {nf:.1e}) from the rotated / unchanged field")


def frame_dev(dentry, pts, field):
    """second sentence of the property: pose (p_m, R_m) = local frame placed in the global frame.
    Deviation of the field of a posed entry from R_m . F_local(R_m^-1 (o - p_m)), F_local taken from the
    same source at the default pose (origin, unit orientation); collections: sum over their leaves."""
    f = l2b.field_fn(field)
    pts = np.array(pts, dtype=float)
    got = f(l2b.load_obj(dentry), pts, squeeze=False)[0, :, 0]          # (M, n, 3)
    M = got.shape[0]
    exp = np.zeros_like(got)

    def leaves(d):
        if d["class"] == "Collection":
            return [x for c in d["children"] for x in leaves(c)]
        return [] if d["class"] == "Sensor" else [d]
    for d in leaves(dentry):
        base = l2b.load_obj(dict(d, position=[[0.0, 0.0, 0.0]], quat=[[0.0, 0.0, 0.0, 1.0]]))
        for m in range(M):
            mm = min(m, len(d["position"]) - 1)
            rm = R.from_quat(np.array(d["quat"][mm], dtype=float))
            loc = rm.inv().apply(pts - np.array(d["position"][mm], dtype=float))
            exp[m] += rm.apply(f(base, loc, squeeze=False)[0, 0, 0].reshape(-1, 3))
    return l2b.rel_dev(exp, got)


def frame_acceptable(dentry, pts, field, scale=1.0):
    try:
        dev = frame_dev(dentry, pts, field)
    except Exception as e:   # pylint: disable=broad-except
        return f"raised {type(e).__name__}: {e}"
    if dev <= TOL:
        return None
    try:
        nf = noise_floor([dentry], {"kind": "array", "points": pts, "scale": scale}, field)
    except Exception:   # pylint: disable=broad-except
        nf = 0.0
    if dev <= NOISE_FACTOR * nf:
        return None
    return (f"{field} of the posed source deviates by {dev:.2e} (relative; rounding sensitivity {nf:.1e}) from "
            "R.F_local(R^-1(o-p)) with F_local taken at the default pose")


def frame_search_one(ctx, dentries, pts, field, scale=1.0):
    for d in dentries:
        ctx.bump("float:pose-frame")
        if frame_acceptable(d, pts, field, scale) is None:
            continue
        small = d
        while small["class"] == "Collection":
            nxt = next((c for c in small["children"] if c["class"] != "Sensor" and frame_acceptable(c, pts, field, scale)), None)
            if nxt is None:
                break
            small = nxt
        pk = "static" if small["class"] != "Collection" and len(small["position"]) == 1 else "path"
        ctx.impl_fail(f"pose-frame/{leaf_class(small)}:{pk}", frame_acceptable(small, pts, field, scale),
                      {"kind": "float-frame", "entry": small, "points": pts, "field": field, "scale": scale})


JM_POLS = [[0.5, -0.5, 0.0], [0.25, 0.5, -0.75], [0.0, 0.0, 1.0], [-1.0, 0.0, 0.0], [0.3, 0.7, -0.2]]
MAGNETS = ["Cuboid", "Cylinder", "CylinderSegment", "Sphere", "Tetrahedron", "TriangularMesh"]


def jm_battery(ctx):
    """fixed battery, every run: J, M (and B, H) of every magnet class in a generic (rotated) pose, observers inside
    and outside the body, polarizations with components summing to exactly zero, axis-aligned and generic ones; the
    pose-frame oracle R.F_local(R^-1(o-p)) and the common-motion oracle"""
    rng = ctx.rng
    for kind in MAGNETS:
        s, _k = l2b.real_source(rng, kind)
        s.position = l2b.rvec(rng, -2, 2)
        s.orientation = R.from_rotvec(np.array([0.7, -0.4, 0.5]) * rng.uniform(0.5, 2.5))      # no axis is kept
        loc = l2b.inside_point(rng, s, kind)
        pts = [(s._orientation[0].apply(loc) + s._position[0]).tolist(), l2b.rvec(rng, -4, 4)]
        gq = l2b.rnd_rot(rng).as_quat().tolist()
        t = l2b.rvec(rng, -3, 3)
        for pol in JM_POLS:
            s.polarization = pol
            d = l2b.dump_obj(s)
            for field in ("J", "M", "B", "H"):
                ctx.bump("jm-battery:" + field)
                ctx.case(("jm", kind, field, tuple(pol)), True)
                res = frame_acceptable(d, pts, field)
                if res is not None:
                    ctx.impl_fail(f"pose-frame/{kind}:static:field-{field}", res,
                                  {"kind": "float-frame", "entry": d, "points": pts, "field": field})
                    continue
                dobs = {"kind": "array", "points": pts}
                res = acceptable([d], dobs, gq, t, field)
                if res is not None:
                    ctx.impl_fail(f"covariant-observers/{kind}:static:field-{field}", res,
                                  {"kind": "float", "entries": [d], "observers": dobs, "g_quat": gq, "t": t, "field": field})


def leaf_class(d):
    if d["class"] == "Collection":
        return "Collection[" + ",".join(leaf_class(c) for c in d["children"] if c["class"] != "Sensor") + "]"
    return d["class"]


def shrink_float(dentries, dobs, gq, t, field, bad_index):
    """smallest failing object: the entry alone, then single leaves of it"""
    def bad(ds):
        return acceptable(ds, dobs, gq, t, field) is not None
    cur = [dentries[bad_index]]
    if not bad(cur):
        return dentries
    if dobs["kind"] in ("array-own-anchor", "array-attributes") or (
            dobs["kind"] == "array-param" and dobs["param"]["anchor"] is None):
        return cur
    d = cur[0]
    while d["class"] == "Collection":
        nxt = None
        for c in d["children"]:
            if c["class"] != "Sensor" and bad([c]):
                nxt = c
                break
        if nxt is None:
            break
        d = nxt
    cur = [d]
    # a static pose if that still fails
    if len(d["position"]) > 1 and d["class"] != "Collection":
        for m in range(len(d["position"])):
            one = dict(d, position=[d["position"][m]], quat=[d["quat"][m]])
            if bad([one]):
                cur = [one]
                break
    return cur


def float_search(ctx, n):
    rng = ctx.rng
    worst = 0.0
    for _ in range(n):
        nested = rng.random() < 0.16
        by_attr = nested and rng.random() < 0.4
        param = None if nested or rng.random() >= 0.3 else g_param(rng)
        if param is not None and param["anchor"] is None:
            # rotation about the own position: one static object
            if rng.random() < 0.5:
                src, kd = l2b.real_source(rng)
                l2b.rnd_pose(rng, src, maxlen=1)
                entries, desc = [src], [kd]
            else:
                entries, desc = l2b.nested_setup(rng, 1)
        else:
            entries, desc = (l2b.nested_setup(rng, 1 if by_attr else 2)) if nested else l2b.real_setup(rng)
        field = l2b.pick_field(rng)
        if nested or param is not None or rng.random() < 0.5:
            npts = rng.randint(16, 24) if rng.random() < 0.12 else rng.randint(1, 4)      # also batches of >= 16 rows
            dobs = {"kind": "array", "points": [l2b.rvec(rng, -5, 5) for _ in range(npts)]}
        else:
            sens = []
            npix = rng.randint(1, 3)      # without pixel_agg all sensors need the same pixel shape
            for _ in range(rng.randint(1, 2)):
                s = magpy.Sensor(pixel=[l2b.rvec(rng, -0.5, 0.5) for _ in range(npix)],
                                 handedness=rng.choice(["right", "right", "left"]))
                l2b.rnd_pose(rng, s, spread=5.0)
                sens.append(s)
            dobs = {"kind": "sensors", "sensors": [l2b.dump_obj(s) for s in sens]}
        gq = l2b.rnd_rot(rng).as_quat().tolist()
        t = l2b.rvec(rng, -3, 3)
        dentries = [l2b.dump_obj(e) for e in entries]
        dobs["how"] = rng.choice(["top", "top", "method"])
        dobs["t_as_list"] = rng.random() < 0.5
        if rng.random() < 0.3:            # absolute length scale: mm, micrometre, km
            k = rng.choice([1e-3, 1e-6, 1e3])
            dobs["scale"] = k
            dentries = [l2b.scale_dump(d, k) for d in dentries]
            t = [x * k for x in t]
            if dobs["kind"] == "array":
                dobs["points"] = (np.array(dobs["points"]) * k).tolist()
            else:
                dobs["sensors"] = [l2b.scale_dump(d, k) for d in dobs["sensors"]]
            if param is not None and isinstance(param["anchor"], list):
                param["anchor"] = [x * k for x in param["anchor"]]
            ctx.bump("float:scale=%g" % k)
        devs, err = float_dev(dentries, dobs, gq, t, field)
        if param is not None:
            dobs = dict(dobs, kind="array-param", param=param)
            devs, err = float_dev(dentries, dobs, gq, t, field)
            ctx.bump("float:param-" + param["form"])
        elif by_attr:
            dobs = dict(dobs, kind="array-attributes")
            devs, err = float_dev(dentries, dobs, gq, t, field)
            ctx.bump("float:nested-collection-moved-through-attributes")
        elif dobs["kind"] == "array" and len(dentries) == 1 and dentries[0]["class"] == "Collection" and rng.random() < 0.6:
            dobs = dict(dobs, kind="array-own-anchor")
            devs, err = float_dev(dentries, dobs, gq, t, field)
            ctx.bump("float:collection-rotated-about-own-position")
        form = "covariant-observers" if dobs["kind"].startswith("array") else "invariant-sensors"
        ctx.case(("float", form, field, tuple(desc), repr(gq), repr(t)), True)
        if dobs["kind"].startswith("array"):
            frame_search_one(ctx, dentries, dobs["points"], field, dobs.get("scale", 1.0))
        ctx.bump("float:" + form)
        for k in desc:
            ctx.bump("float-class:" + k.split("[")[0])
        if err is None and max(devs) <= TOL:
            worst = max(worst, max(devs))
            continue
        if err is None and acceptable(dentries, dobs, gq, t, field) is None:
            ctx.bump("float:rounding-limited")
            continue
        bi = 0 if err is not None else int(np.argmax(devs))
        small = shrink_float(dentries, dobs, gq, t, field, bi)
        pk = "static" if max(len(d["position"]) for d in small) == 1 and (
            dobs["kind"].startswith("array") or all(len(s["position"]) == 1 for s in dobs["sensors"])) else "path"
        what = acceptable(small, dobs, gq, t, field) or err or f"deviation {max(devs):.2e}"
        trig = '+'.join(leaf_class(d) for d in small) + ":" + pk
        if dobs["kind"] in ("array-own-anchor", "array-attributes"):
            nested_c = any(c["class"] == "Collection" for c in small[0].get("children", []))
            how = "rotate-about-own-position" if dobs["kind"] == "array-own-anchor" else "position/orientation-attributes"
            trig = "Collection:" + how + (":nested" if nested_c else "")
        if dobs["kind"] == "array-param":
            trig = param_trigger(dobs["param"])
        ctx.impl_fail(f"{form}/{'raises:' if err else ''}{trig}", what,
                      {"kind": "float", "entries": small, "observers": dobs, "g_quat": gq, "t": t, "field": field})
    ctx.extra["float_worst_relative_deviation"] = worst


# ------------------------------------------------------------------ main
def run(ctx):
    ctx.extra["rule"] = ("exact: getBH_level2 with harness stub sources (integer-polynomial field functions), integer "
                         "poses/paths, octahedral rotation g and integer translation t applied through rotate(g, anchor=0) "
                         "and move(t); outputs before and after compared exactly and with the Coq model run on the "
                         "model-moved inputs; a case is non-trivial when g is not the identity. float: random real sources "
                         "(all classes, collections, paths) with uniformly random SO(3) rotations, relative tolerance "
                         f"{TOL:g} of the field scale")
    ctx.trusted += [
        "translator translate/gen_level1.py (fail-closed python-ast -> Gallina for getBH_level1: observer into the "
        "source frame, field function, back-rotation of the whole result for every field); Props/C03.v proves the "
        "translated row function equal to the model's level1 on every run",
        "hand model coq/Model/Level2Model.v (getBH_level2 / get_src_dict / getBH_level1 data flow) and "
        "coq/Model/Level2Move.v (what a common motion does to paths), tied by the exact correspondence with "
        "stub sources; the equality getBH = spec is proved in Proofs/Level2A-E (shared with C04/C06)",
        "the rigid-motion algebra is abstract (Lib/Rigid.v); that R^3 with SO(3) and scipy's Rotation is an "
        "instance up to rounding is NOT formalised (searched numerically); Z^3 with the signed permutations "
        "(Lib/OctZ.v) is a proved instance and the one executed",
        "real field cores enter the theorems only as 'a function of (own properties, local observer)': that "
        "each core reads nothing else is what the float search exercises",
    ]
    ok = ctx.regen(["GenLevel1"])
    built = ctx.build_props() and ok
    if ctx.tier == "thorough" and built:
        ctx.coqchk("MV.Props.C03")
    run_guarded(ctx, lambda: correspondence(ctx, built, ctx.n(240, 3000)), "C03 correspondence")
    big = bool(ctx.broken)
    run_guarded(ctx, lambda: float_search(ctx, ctx.n(250, 6000) * (4 if big else 1)), "C03 float search")
    run_guarded(ctx, lambda: jm_battery(ctx), "C03 J/M battery")
    run_guarded(ctx, lambda: element_search(ctx, ctx.n(40, 800) * (8 if big else 1)), "C03 exact element search")
    if big:
        run_guarded(ctx, lambda: correspondence(ctx, False, ctx.n(1500, 6000)), "C03 exact search")


def replay(ctx, obj):
    rp = obj.get("replay", obj)
    path = obj.get("how_to_rerun", "").split()[-1] if obj.get("how_to_rerun") else "given"
    if rp.get("kind") == "exact":
        res = exact_fails(rp["case"])
        print("replay:", "property holds on this case" if res is None else "FAILS: " + res)
    elif rp.get("kind") == "float-frame":
        res = frame_acceptable(rp["entry"], rp["points"], rp["field"], rp.get("scale", 1.0))
        print("replay:", "property holds on this setup" if res is None else "FAILS: " + res)
    elif rp.get("kind") == "exact-element":
        res = element_fails(rp["case"])
        print("replay:", "property holds on this case" if res is None else "FAILS: " + res)
    elif rp.get("kind") == "float":
        res = acceptable(rp["entries"], rp["observers"], rp["g_quat"], rp["t"], rp["field"])
        print("replay:", "property holds on this setup" if res is None else "FAILS: " + res)
    else:
        print(json.dumps(obj, indent=1)[:3000])
        return 0
    if res is not None:
        print(f"VIOLATION property=C03 replay={path}")
    return 0 if res is None else 1
