"""C04 -- a Sensor reports the global field at its pixels, in its own frame; pixel_agg."""
import json

import numpy as np

from harness.common import run_guarded
from harness import level2 as l2
from harness import l2_real as lr
from harness import octa
from harness.shrink import shrink_list


# ------------------------------------------------------------------ exact cases
def sensor_kind(s):
    if len(s["pos"]) == 1:
        return "static"
    o = s.get("ori", s.get("rot"))
    return "translating" if all(x == o[0] for x in o) else "rotating"


def layout_cases():
    """1-4 sensors, every combination class of pixel layouts, with and without aggregation, sensor
    paths shorter and longer than the source path"""
    out = []
    shapes = [None, (), (2,), (2, 2), (1, 3)]
    ident = octa.IDENT
    for n_sens in (1, 2, 3, 4):
        for agg in (0, 1, 2, 3):
            for variant in range(3):
                sens = []
                for k in range(n_sens):
                    shp = shapes[(k + variant) % len(shapes)] if agg else shapes[variant + 1]
                    plen = [1, 2, 4][(k + variant) % 3]
                    ori = [[ident] * plen, [5] * plen, [(3 * j + k + 1) % 24 for j in range(plen)]][(k + variant) % 3]
                    if shp is None:
                        pix = None
                    else:
                        n = int(np.prod(shp)) if shp else 1
                        pix = np.array([[i + 1, -i, (i * k) % 3] for i in range(n)]).reshape(*shp, 3).tolist()
                    sens.append({"pos": [[k, j, -j] for j in range(plen)], "ori": ori, "pixel": pix, "left": (k + variant) % 2 == 1})
                srcs = [{"leaf": {"key": 1, "tag": [2, 1], "pos": [[1, 1, 0], [2, 1, 0], [3, 1, 0]][:variant + 1],
                                  "ori": [7, 7, 9][:variant + 1]}},
                        {"leaf": {"key": 10, "tag": None, "pos": [[0, -2, 1]], "ori": [ident], "fresh": False}}]
                out.append({"sources": srcs, "sensors": sens, "agg": agg, "sumup": False})
    return out


def bucket(ctx, case):
    sens = l2.resolve(case["sensors"])
    ctx.bump(f"exact:sensors={len(sens)}")
    ctx.bump(f"exact:agg={l2.AGG[case['agg']]}")
    shapes = {json.dumps(l2.pix_flat(s)[1]) for s in sens}
    ctx.bump("exact:shapes=" + ("same" if len(shapes) == 1 else "mixed"))
    for s in sens:
        ctx.bump("exact:sensor-path=" + sensor_kind(s))
        ctx.bump("exact:handedness=" + ("left" if s["left"] else "right"))
        if s["pixel"] is None:
            ctx.bump("exact:pixel=None")
    srcs = l2.resolve(case["sources"])
    leaves = [x for s in srcs for x in (l2.flatten_tree(s["tree"]) if "tree" in s else [s["leaf"]])]
    ms, mk = max(len(x["pos"]) for x in leaves), max(len(s["pos"]) for s in sens)
    ctx.bump("exact:sensor-path-" + ("longer" if mk > ms else "shorter" if mk < ms else "equal"))


def exact_oracle(ctx, cases, limit):
    done = 0
    for case in cases:
        if done >= limit:
            break
        if case["sumup"]:
            continue
        done += 1
        try:
            got = l2.impl_run(case)
            exp = octa.ints(np.array(l2.oracle_element(case), dtype=float))
        except Exception as e:   # pylint: disable=broad-except
            ctx.impl_fail("sensor-spec/raises", f"valid call raised {type(e).__name__}: {e}", {"kind": "exact", "case": case})
            continue
        ctx.count("exact_oracle_cases")
        if got != exp:
            def fails(sens, case=case):
                if not sens or any("dup" in s for s in sens):
                    return False
                c2 = dict(case, sensors=sens)
                try:
                    return l2.impl_run(c2) != octa.ints(np.array(l2.oracle_element(c2), dtype=float))
                except Exception:   # pylint: disable=broad-except
                    return False
            sens = shrink_list(l2.resolve(case["sensors"]), fails, max_steps=20)
            c2 = dict(case, sensors=sens) if fails(sens) else case
            ctx.impl_fail(exact_signature(c2), "sensor output differs from the global field at the pixels' global "
                          "positions expressed in the sensor frame (exact stub sources)", {"kind": "exact", "case": c2})


def exact_signature(case):
    sens = l2.resolve(case["sensors"])
    kinds = "+".join(sorted({sensor_kind(s) for s in sens}))
    hand = "+".join(sorted({"left" if s["left"] else "right" for s in sens}))
    shapes = {json.dumps(l2.pix_flat(s)[1]) for s in sens}
    clause = "pixel_agg:" + l2.AGG[case["agg"]] if case["agg"] else "frame"
    return f"sensor-spec/{clause}:{kinds}:{hand}:sensors={'1' if len(sens) == 1 else 'many'}:shapes={'same' if len(shapes) == 1 else 'mixed'}"


# ------------------------------------------------------------------ search on real classes, generic rotations
def real_signature(case, agg, k):
    s = case["sensors"][k]
    shapes = {json.dumps(np.shape(x["pixel"]) if x["pixel"] is not None else None) for x in case["sensors"]}
    clause = f"pixel_agg:{agg}" if agg else "frame"
    return (f"sensor-spec/{clause}:{sensor_kind(s)}:{'left' if s.get('left') else 'right'}:"
            f"sensors={'1' if len(case['sensors']) == 1 else 'many'}:shapes={'same' if len(shapes) == 1 else 'mixed'}")


def check_real(ctx, case, agg):
    field = ctx.rng.choice("BH")
    try:
        mm = lr.sensor_mismatch(case, field, agg)
    except Exception as e:   # pylint: disable=broad-except
        ctx.impl_fail(f"sensor-spec/raises:{type(e).__name__}", f"get{field}(sources, sensors, pixel_agg={agg}) raised "
                      f"{type(e).__name__}: {e}", {"kind": "real", "field": field, "agg": agg, "case": case})
        return
    ctx.case(json.dumps([case, field, agg], sort_keys=True), True,
             sample={"field": field, "pixel_agg": agg, "case": case} if len(ctx.samples) < 3 else None)
    ctx.bump(f"real:agg={agg}")
    ctx.bump(f"real:sensors={len(case['sensors'])}")
    for s in case["sensors"]:
        ctx.bump("real:sensor-path=" + sensor_kind(s))
    if mm is None:
        return
    l, m, k, what = mm

    def fails(sens):
        if not sens:
            return False
        try:
            return lr.sensor_mismatch(dict(case, sources=[case["sources"][l]], sensors=sens), field, agg) is not None
        except Exception:   # pylint: disable=broad-except
            return False
    sens = shrink_list(case["sensors"], fails, max_steps=20)
    c2 = dict(case, sources=[case["sources"][l]], sensors=sens) if fails(sens) else case
    mm2 = lr.sensor_mismatch(c2, field, agg) or mm
    ctx.impl_fail(real_signature(c2, agg, mm2[2]),
                  f"get{field}(sources, sensors{', pixel_agg=' + repr(agg) if agg else ''}) at (source {mm2[0]}, path {mm2[1]}, "
                  f"sensor {mm2[2]}) differs from the field at the pixels' explicit global positions rotated into the "
                  f"sensor frame: {mm2[3][:300]}", {"kind": "real", "field": field, "agg": agg, "case": c2})


def real_sweep(ctx, n):
    for i in range(n):
        mixed = i % 2 == 1
        agg = ctx.rng.choice(lr.AGGS) if (mixed or i % 4 == 0) else None
        case = lr.g_case(ctx.rng, max_src=3, max_sens=4 if i % 3 == 0 else 2, maxlen=4, mixed_shapes=mixed)
        if i % 5 == 4:       # the same kind of scene in mm, um and km
            case = lr.scale_case(case, lr.LENGTH_SCALES[(i // 5) % 3])
            ctx.bump("real:length-scale")
        check_real(ctx, case, agg)
    # other public entry points and observer formats; call -> sensor mutation -> call histories
    for i in range(max(12, n // 6)):
        case = lr.g_case(ctx.rng, max_src=2, max_sens=3, maxlen=3)
        field = "BHJM"[i % 4]
        cache = {}
        for kind in ("sensor-method", "observer-collection", "positions", "dataframe"):
            try:
                X = lr.entry_variants(case, field, kind)
            except Exception as e:   # pylint: disable=broad-except
                ctx.impl_fail(f"sensor-spec/entry:{kind}:raises", f"{kind} form of get{field} raised {type(e).__name__}: {e}",
                              {"kind": "real-entry", "entry": kind, "field": field, "case": case})
                continue
            if X is None:
                continue
            ctx.bump("real:entry:" + kind)
            mm = lr.element_mismatches(case, field, B=X, cache=cache)
            if mm:
                l, m, k, p, got, one = mm[0]
                ctx.impl_fail(f"sensor-spec/entry:{kind}:{sensor_kind(case['sensors'][k])}",
                              f"get{field} through `{kind}`: element (source {l}, path {m}, sensor {k}, pixel {p}) = {got}, the "
                              f"single static sensor pixel alone sees {one}",
                              {"kind": "real-entry", "entry": kind, "field": field, "case": case})
        try:
            h = lr.history_mismatch(ctx.rng, case, field)
        except Exception as e:   # pylint: disable=broad-except
            h = f"raised {type(e).__name__}: {e}"
        ctx.bump("real:history")
        if h:
            ctx.impl_fail("sensor-spec/history", "call -> pixel / handedness / position setters -> call differs from the call on "
                          "fresh twins: " + h[:400], {"kind": "real-history", "field": field, "case": case})


def observers_as_collections(ctx, cases, limit):
    """exact: the same sensors handed over as (nested) Collections, with a source among the children that must
    be ignored as observer, give the same result as the plain sensor list"""
    import magpylib as magpy
    done = 0
    for c in cases:
        if done >= limit:
            break
        if any("dup" in s for s in c["sensors"]) or len(c["sensors"]) < 2:
            continue
        done += 1
        ref = l2.impl_run(c)
        srcs, sens = l2.build(c)
        extra = l2.build_leaf({"key": 1, "tag": [1], "pos": [[9, 9, 9]], "ori": [octa.IDENT]})
        obs = [magpy.Collection(sens[0], extra), magpy.Collection(magpy.Collection(*sens[1:]))]
        B = magpy.getB(srcs, obs, squeeze=False, sumup=c["sumup"], pixel_agg=l2.AGG[c["agg"]])
        got = octa.ints(B.reshape(B.shape[0], B.shape[1], B.shape[2], -1, 3))
        ctx.count("observer_collection_cases")
        if got != ref:
            ctx.impl_fail("sensor-spec/observers-in-collections", "sensors passed inside (nested) Collections give a different "
                          "result than the same sensors passed as a list", {"kind": "exact", "case": c})


# ------------------------------------------------------------------ run
def run(ctx):
    ctx.extra["rule"] = ("exact: getB through the real getBH_level2 with integer stub sources and Sensor objects "
                         "(octahedral orientations, integer positions / pixels, 1-4 sensors, mixed pixel shapes, "
                         "static / translating / rotating paths, both handednesses, pixel_agg none/sum/min/max) compared "
                         "with the Coq model and its declarative specification; distinct by canonical JSON. real: "
                         "getB/getH(sources, sensors[, pixel_agg]) on real classes with generic rotations vs getB(sources, "
                         "explicit global pixel positions) rotated back by hand and reduced with the named numpy function")
    ctx.trusted += [
        "translator translate/gen_l2arith.py (python expressions of the level-2 data flow -> deep embedding pyexp)",
        "hand model coq/Model/Level2Model.v of getBH_level2 (poso construction, pix_inds slices, the three "
        "back-rotation branches with flags taken before tiling, handedness flip, both pixel-shaping paths), tied by "
        "the exact correspondence; check_format_input_observers / Sensor setters are exercised, not modelled",
        "the aggregator is an abstract function list V -> V in the theorems (numpy's reductions are not modelled); "
        "the quaternion comparison behind the fast-path flags is only assumed sound (equal => same rotation)",
    ]
    ok = ctx.regen(["GenL2Arith"])
    built = ctx.build_props() and ok
    if ctx.tier == "thorough" and built:
        ctx.coqchk("MV.Props.C04")

    def corr():
        cases = layout_cases()
        for _ in range(ctx.n(220, 2500)):
            cases.append(l2.g_case(ctx.rng, max_src=3, max_sens=4, maxlen=5))
        cs = []
        for c in cases:
            try:
                out = l2.impl_run(c)
            except Exception as e:   # pylint: disable=broad-except
                ctx.impl_fail("sensor-spec/raises", f"valid call raised {type(e).__name__}: {e}", {"kind": "exact", "case": c})
                continue
            cs.append((c, out))
            ctx.case(json.dumps(c, sort_keys=True), True)
            bucket(ctx, c)
        ctx.samples.append({"exact_case": cs[7][0], "impl_out": cs[7][1]})
        if not built:
            return cases
        bad = l2.model_check(ctx, "c04_" + ctx.tier, cs)
        if bad is None:
            return cases
        ctx.count("traces_validated_against_impl", len(cs) - len(bad))
        for bi in bad[:3]:
            ctx.add_broken("broken-correspondence", "Level2Model / spec vs getBH_level2", json.dumps(cs[bi][0]))
        return cases

    cases = run_guarded(ctx, corr, "C04 correspondence") or []
    big = bool(ctx.broken)
    run_guarded(ctx, lambda: exact_oracle(ctx, cases, ctx.n(60, 600) * (5 if big else 1)), "C04 exact oracle")
    run_guarded(ctx, lambda: observers_as_collections(ctx, cases, ctx.n(60, 600)), "C04 observers in collections")
    run_guarded(ctx, lambda: real_sweep(ctx, ctx.n(100, 2000) * (4 if big else 1)), "C04 real-class sweep")


def replay(ctx, obj):
    rp = obj.get("replay", obj)
    if rp.get("kind") == "real-entry":
        X = lr.entry_variants(rp["case"], rp["field"], rp["entry"])
        mm = lr.element_mismatches(rp["case"], rp["field"], B=X)
        print("replay:", "property holds" if not mm else f"FAILS: element {mm[0][:4]} = {mm[0][4]}, alone = {mm[0][5]}")
        if mm:
            print("VIOLATION property=C04 replay=given")
        return 1 if mm else 0
    if rp.get("kind") == "real":
        mm = lr.sensor_mismatch(rp["case"], rp["field"], rp.get("agg"))
        print("replay:", "property holds on this call" if mm is None else f"FAILS at (source, path, sensor)={mm[:3]}: {mm[3][:400]}")
        if mm is not None:
            print("VIOLATION property=C04 replay=given")
        return 0 if mm is None else 1
    if rp.get("kind") == "exact":
        c = rp["case"]
        got = l2.impl_run(c)
        exp = octa.ints(np.array(l2.oracle_element(c), dtype=float))
        print("replay:", "property holds on this call" if got == exp else f"FAILS: got {got} expected {exp}")
        if got != exp:
            print("VIOLATION property=C04 replay=given")
        return 0 if got == exp else 1
    print(json.dumps(obj, indent=1)[:3000])
    return 0
