"""C13 -- a body gives the same field however it is represented or subdivided.

Stages: build Props/C13.v; correspondence of the executable parts of Model/ReprModel.v against /repo
(segment-internal dispatch with stub cores, np.unique mesh construction, to_TriangleCollection in Z^3, the
sphere / dipole / cylinder-J,M formula models on binary64); implementation-level search of the property itself
(harness/c13_search.py): random partitions and alternative representations, whole vs sum of parts.
"""
import json
import os
import re
import warnings

import numpy as np

from harness.common import run_guarded, VERIF
from harness import octa
from harness.octa import cz, cv, coct, clist
from harness import c13_search as S

import magpylib as magpy
import magpylib._src.fields.field_BH_cylinder_segment as SEGMOD
from magpylib._src.fields.field_BH_sphere import BHJM_magnet_sphere
from magpylib._src.fields.field_BH_dipole import BHJM_dipole
from magpylib._src.fields.field_BH_cylinder import BHJM_magnet_cylinder

FCODE = {"B": 1, "H": 2, "J": 3, "M": 4}
FCOQ = {"B": "FB", "H": "FH", "J": "FJ", "M": "FM"}

HEADER = """From Coq Require Import ZArith List Bool Floats.
From MV Require Import Lib.Rigid Lib.OctZ Model.ReprModel Model.ReprExec.
Import ListNotations. Open Scope Z_scope.
"""


# ------------------------------------------------------------------ (a) segment-internal dispatch with stub cores
def stub_seg(field, observers, dimension, polarization):
    n = len(observers)
    k = np.arange(n, dtype=float)
    o, p, d = observers, polarization, dimension
    if n == 0:
        return np.zeros((0, 3))
    return np.stack([1000000 * FCODE[field] + 1000 * k + o[:, 0] + 2 * o[:, 1] + 3 * o[:, 2],
                     7 * p[:, 0] - 5 * p[:, 1] + 3 * p[:, 2] + 11 * d[:, 0] + 13 * d[:, 1],
                     17 * d[:, 2] + 19 * d[:, 3] - 23 * d[:, 4] + k], axis=1)


def stub_cyl(field, observers, dimension, polarization):
    n = len(observers)
    k = np.arange(n, dtype=float)
    o, p, d = observers, polarization, dimension
    if n == 0:
        return np.zeros((0, 3))
    return np.stack([-2000000 * FCODE[field] + 500 * k + 3 * o[:, 0] - o[:, 1] + 2 * o[:, 2],
                     2 * p[:, 0] + 3 * p[:, 1] - 7 * p[:, 2] + 29 * d[:, 0],
                     31 * d[:, 1] - 37 * d[:, 0] + 5 * k + p[:, 0]], axis=1)


def gen_seg_case(rng):
    n = rng.choice([0, 1, 1, 2, 3, 4, 5, 6, 8, 16, 24])
    rows = []
    for _ in range(n):
        phi1 = rng.choice([-360, -180, -90, 0, 0, 30, 90, 200])
        span = rng.choice([30, 90, 180, 330, 359, 360, 360, 360, 361, 400])
        rows.append({"o": [rng.randint(-9, 9) for _ in range(3)], "p": [rng.randint(-5, 5) for _ in range(3)],
                     "d": [rng.choice([0, 0, 1, 2, 3]), rng.randint(1, 6), rng.randint(1, 6), phi1, phi1 + span]})
    return {"field": rng.choice("BHJM"), "rows": rows}


def impl_seg(case):
    rows = case["rows"]
    obs = np.array([r["o"] for r in rows], dtype=float).reshape(-1, 3)
    pol = np.array([r["p"] for r in rows], dtype=float).reshape(-1, 3)
    dim = np.array([r["d"] for r in rows], dtype=float).reshape(-1, 5)
    old = SEGMOD.BHJM_cylinder_segment, SEGMOD.BHJM_magnet_cylinder
    SEGMOD.BHJM_cylinder_segment, SEGMOD.BHJM_magnet_cylinder = stub_seg, stub_cyl
    try:
        out = SEGMOD.BHJM_cylinder_segment_internal(case["field"], obs, pol, dim)
    finally:
        SEGMOD.BHJM_cylinder_segment, SEGMOD.BHJM_magnet_cylinder = old
    return octa.ints(np.reshape(out, (-1, 3)))


def c_seg_case(case, out):
    rows = clist(["(%s, %s, (%s))" % (cv(r["o"]), cv(r["p"]), ", ".join(cz(x) for x in r["d"])) for r in case["rows"]])
    return "(%s, %s, %s)" % (FCOQ[case["field"]], rows, clist([cv(v) for v in out]))


def gen_reduce_case(rng):
    p1 = rng.randint(-1500, 1500)
    return [p1, p1 + rng.choice([1, 7, 90, 180, 270, 359, 360, rng.randint(1, 360)])]


def impl_reduce(cases):
    """the section angles BHJM_cylinder_segment hands to its core, in degrees (the prologue reduces them)"""
    seen = {}

    def stub(observers, dimensions, magnetizations):
        seen["dim"] = np.array(dimensions, dtype=float)
        return np.zeros((len(observers), 3))
    dims = np.array([[1.0, 2.0, 1.0, c[0], c[1]] for c in cases], dtype=float)
    obs = np.tile([7.0, 3.0, 5.0], (len(cases), 1))          # far outside: no surface rows are dropped
    old = SEGMOD.magnet_cylinder_segment_Hfield
    SEGMOD.magnet_cylinder_segment_Hfield = stub
    try:
        SEGMOD.BHJM_cylinder_segment("H", obs, dims, np.tile([0.0, 0.0, 1.0], (len(cases), 1)))
    finally:
        SEGMOD.magnet_cylinder_segment_Hfield = old
    if len(seen["dim"]) != len(cases):
        raise ValueError("rows were dropped before the core call")
    return octa.ints(np.degrees(seen["dim"][:, 2:4]), tol=1e-6)


# ------------------------------------------------------------------ (b) mesh constructors, (c) to_TriangleCollection
SKIP = {"check_open": "skip", "check_disconnected": "skip", "check_selfintersecting": "skip", "reorient_faces": "skip"}


def gen_mesh_case(rng):
    pool = []
    while len(pool) < rng.randint(3, 9):
        p = [rng.randint(-3, 3) for _ in range(3)]
        if p not in pool:
            pool.append(p)
    n = rng.randint(1, 8)
    mesh, tries = [], 0
    while len(mesh) < n:
        tries += 1
        if tries % 40 == 0:                     # a pool of collinear points has no proper triangle: enlarge it
            p = [rng.randint(-3, 3) for _ in range(3)]
            if p not in pool:
                pool.append(p)
        t = rng.sample(pool, 3)
        a, b, c = (np.array(x) for x in t)
        if np.any(np.cross(b - a, c - a)):      # Triangle objects want a non-degenerate triangle
            mesh.append(t)
    return {"mesh": mesh, "via": rng.choice(["from_mesh", "from_triangles", "from_triangles_coll"]),
            "pos": [rng.randint(-5, 5) for _ in range(3)], "rot": rng.randrange(24)}


def impl_mesh(case):
    mesh = np.array(case["mesh"], dtype=float)
    kw = dict(polarization=(0, 0, 1), position=case["pos"], orientation=octa.rot(case["rot"]), **SKIP)
    if case["via"] == "from_mesh":
        m = magpy.magnet.TriangularMesh.from_mesh(mesh=mesh, **kw)
    else:
        tris = [magpy.misc.Triangle(polarization=(0, 0, 1), vertices=v) for v in mesh]
        arg = tris if case["via"] == "from_triangles" else magpy.Collection(tris)
        m = magpy.magnet.TriangularMesh.from_triangles(triangles=arg, **kw)
    coll = m.to_TriangleCollection()
    children = []
    for t in coll.children:
        if not isinstance(t, magpy.misc.Triangle) or len(t._position) != 1:
            raise ValueError("to_TriangleCollection child is not a single-pose Triangle")
        children.append([octa.ints(t.vertices), octa.ints(t._position[0]), octa.rot_index(t._orientation.as_matrix()[0])])
    pols = [t.polarization for t in coll.children]
    return {"vertices": octa.ints(m.vertices), "faces": [[int(x) for x in f] for f in m.faces],
            "mesh_out": octa.ints(m.mesh), "cpos": octa.ints(coll._position[0]),
            "cori": octa.rot_index(coll._orientation.as_matrix()[0]), "children": children,
            "pol_ok": all(np.array_equal(p, m.polarization) for p in pols),
            "mpos": octa.ints(m._position[0]), "mori": octa.rot_index(m._orientation.as_matrix()[0])}


def c_tri(t):
    return "(" + ", ".join(cv(v) for v in t) + ")"


def c_mesh_case(case, r):
    return "(%s, %s, %s, %s)" % (clist([c_tri(t) for t in case["mesh"]]), clist([cv(v) for v in r["vertices"]]),
                                 clist(["(%d, %d, %d)%%nat" % tuple(f) for f in r["faces"]]),
                                 clist([c_tri(t) for t in r["mesh_out"]]))


def c_tricoll_case(case, r):
    kids = clist(["(%s, %s, %s)" % (c_tri(v), cv(p), coct(o)) for v, p, o in r["children"]])
    return "(%s, %s, %s, %s, %s, %s)" % (clist([c_tri(t) for t in r["mesh_out"]]), cv(r["mpos"]), coct(r["mori"]),
                                         cv(r["cpos"]), coct(r["cori"]), kids)


def run_checker(ctx, tag, ctype, checker, items, chunk=250):
    """items: list of Coq terms; returns indices rejected by the model, or None when the model run broke"""
    bad = []
    for ci in range(0, len(items), chunk):
        part = items[ci:ci + chunk]
        txt = HEADER + f"Definition cases : list {ctype} :=\n" + clist(part).replace("; ((", ";\n ((").replace(
            "; (F", ";\n (F") + f".\nEval vm_compute in (failing {checker} cases).\n"
        ok, out = ctx.coq_eval(f"c13_{tag}_{ctx.tier}_{ci}", txt)
        res = octa.parse_z_list(out) if ok else None
        if res is None:
            ctx.add_broken("broken-correspondence", f"c13_{tag}_{ci}", "model evaluation failed:\n" + out[-1500:])
            return None
        bad += [ci + i for i in res]
    return bad


# ------------------------------------------------------------------ (d) formula models on binary64
def fl(x):
    h = float(x).hex()
    return f"({h})%float" if h.startswith("-") else f"{h}%float"


def fv(v):
    return "(" + ", ".join(fl(x) for x in v) + ")"


FLOAT_TOKEN = re.compile(r"neg_infinity|infinity|nan|-?\d+(?:\.\d*)?(?:e[+-]?\d+)?")


def parse_floats(out):
    m = re.search(r"=\s*(\[.*\])\s*:\s*list", out, flags=re.S)
    if not m:
        return None
    body = m.group(1).replace("%float", "")
    vals = []
    for tok in FLOAT_TOKEN.findall(body):
        vals.append({"neg_infinity": -np.inf, "infinity": np.inf, "nan": np.nan}.get(tok) if tok[0] in "ni" else float(tok))
    return vals


def gen_float_rows(rng, n):
    rows = []
    for i in range(n):
        kind = ("sphere", "dipole", "sphere_as_dipole", "cyl", "fullseg")[i % 5]
        f = rng.choice("BHJM")
        o = [rng.uniform(-3, 3) for _ in range(3)]
        p = [rng.uniform(-2, 2) for _ in range(3)]
        if rng.random() < 0.15:
            p[rng.randrange(3)] = 0.0
        row = {"kind": kind, "field": f, "o": o, "p": p}
        if kind in ("sphere", "sphere_as_dipole"):
            row["d"] = rng.uniform(0.2, 4) * rng.choice([1, 1, 1, -1])
            if kind == "sphere_as_dipole":       # outside only
                while np.linalg.norm(row["o"]) <= abs(row["d"]) / 2 * 1.001:
                    row["o"] = [rng.uniform(-3, 3) for _ in range(3)]
        elif kind == "dipole":
            if rng.random() < 0.1:
                row["o"] = [0.0, 0.0, 0.0]      # the r == 0 branch: moment / 0.0 and nan_to_num
                row["p"] = [rng.choice([0.0, 1.5, -2.0]) for _ in range(3)]
        elif kind == "cyl":
            row["d"] = rng.uniform(0.2, 4)
            row["h"] = rng.uniform(0.2, 4)
            row["field"] = rng.choice("JM")
        else:
            # a full-angle (possibly hollow) segment through the shortcut, J and M only (modelled branches)
            r2 = rng.uniform(0.3, 3)
            row["dim"] = [rng.choice([0.0, rng.uniform(0.1, 0.9) * r2]), r2, rng.uniform(0.2, 4), 0.0, 360.0]
            row["field"] = rng.choice("JM")
            if rng.random() < 0.3:      # on / next to the plane of a face
                row["o"][2] = rng.choice([-1, 1]) * row["dim"][2] / 2 * rng.choice([1.0, 1 + 2.3e-16, 1 - 1.2e-16])
        rows.append(row)
    # the witness row of C13_full_segment_J_binary64_refuted (known finding): model and implementation must agree on it
    rows.append({"kind": "fullseg", "field": "J", "o": [float.fromhex("0x1.c5f52a2fdcc89p-3"), float.fromhex("0x1.617fa3e939600p-2"),
                                                        float.fromhex("-0x1.dc28f5c28f5c4p-1")], "p": [0.0, 0.0, 1.0],
                 "dim": [float.fromhex("0x1.a4189374bc6a8p-1"), float.fromhex("0x1.38d4fdf3b645ap+0"),
                         float.fromhex("0x1.dc28f5c28f5c3p+0"), 0.0, 360.0]})
    return rows


def impl_float_row(row):
    o = np.array([row["o"]], dtype=float)
    p = np.array([row["p"]], dtype=float)
    f = row["field"]
    with np.errstate(all="ignore"):
        if row["kind"] == "sphere":
            return BHJM_magnet_sphere(f, o, np.array([row["d"]]), p)[0]
        if row["kind"] == "dipole":
            return BHJM_dipole(f, o, p)[0]
        if row["kind"] == "sphere_as_dipole":
            # the Dipole object equivalent to the Sphere: moment = M * V
            d = abs(row["d"])
            return BHJM_dipole(f, o, p * (np.pi * d ** 3 / 6) / S.MU0)[0]
        if row["kind"] == "fullseg":
            return SEGMOD.BHJM_cylinder_segment_internal(f, o, p, np.array([row["dim"]], dtype=float))[0]
        return BHJM_magnet_cylinder(f, o, np.array([[row["d"], row["h"]]]), p)[0]


def c_float_row(row):
    f, mu0 = FCOQ[row["field"]], fl(S.MU0)
    if row["kind"] == "sphere":
        return f"run_sphere {f} {mu0} {fv(row['o'])} {fl(row['d'])} {fv(row['p'])}"
    if row["kind"] == "dipole":
        return f"run_dipole {f} {mu0} {fv(row['o'])} {fv(row['p'])}"
    if row["kind"] == "sphere_as_dipole":
        return f"run_sphere_as_dipole {f} {mu0} {fv(row['o'])} {fl(row['d'])} {fv(row['p'])}"
    if row["kind"] == "fullseg":
        return f"run_full_segment_JM {f} {mu0} {fv(row['o'])} " + " ".join(fl(x) for x in row["dim"]) + f" {fv(row['p'])}"
    return f"run_cyl_JM {f} {mu0} {fv(row['o'])} {fl(row['d'])} {fl(row['h'])} {fv(row['p'])}"


def float_correspondence(ctx, n):
    rows = gen_float_rows(ctx.rng, n)
    impl = [impl_float_row(r) for r in rows]
    txt = HEADER + "Eval vm_compute in (concat [\n " + ";\n ".join(c_float_row(r) for r in rows) + "]).\n"
    ok, out = ctx.coq_eval(f"c13_float_{ctx.tier}", txt)
    vals = parse_floats(out) if ok else None
    if vals is None or len(vals) != 3 * len(rows):
        ctx.add_broken("broken-correspondence", "c13_float", "model evaluation failed / output not understood:\n" + out[-1500:])
        return
    nbad = 0
    for i, (r, a) in enumerate(zip(rows, impl)):
        b = np.array(vals[3 * i:3 * i + 3])
        ctx.case(("float", json.dumps(r, sort_keys=True)), True)
        ctx.bump(f"float:{r['kind']}:{r['field']}")
        fin = np.isfinite(a)
        same = np.array_equal(fin, np.isfinite(b)) and np.array_equal(a[~fin], b[~fin]) and \
            np.allclose(a[fin], b[fin], rtol=1e-11, atol=1e-13 * (np.abs(a[fin]).max() if fin.any() else 0.0))
        if same:
            ctx.count("traces_validated_against_impl")
        else:
            nbad += 1
            if nbad <= 3:
                ctx.add_broken("broken-correspondence", f"formula model {r['kind']} vs implementation",
                               json.dumps({"row": r, "impl": a.tolist(), "model": b.tolist()}))
    if len(ctx.samples) < 8:
        ctx.samples.append({"formula_row": rows[0], "impl": impl[0].tolist(), "model": vals[0:3]})


# ------------------------------------------------------------------ exact correspondences
def exact_correspondence(ctx, built):
    rng = ctx.rng
    # (a) dispatch
    seg_cases = [gen_seg_case(rng) for _ in range(ctx.n(400, 3000))]
    items, kept = [], []
    for c in seg_cases:
        out = impl_seg(c)
        items.append(c_seg_case(c, out))
        kept.append((c, out))
        nfull = sum(1 for r in c["rows"] if r["d"][4] - r["d"][3] >= 360)
        nhollow = sum(1 for r in c["rows"] if r["d"][4] - r["d"][3] >= 360 and r["d"][0] != 0)
        ctx.case(("seg", json.dumps(c, sort_keys=True)), nfull > 0)
        ctx.bump(f"dispatch:rows={min(len(c['rows']), 4)}{'+' if len(c['rows']) > 4 else ''}")
        ctx.bump("dispatch:full-angle-rows", nfull)
        ctx.bump("dispatch:hollow-full-rows", nhollow)
    ctx.samples.append({"dispatch_case": kept[len(kept) // 2][0], "impl_output": kept[len(kept) // 2][1]})
    if built:
        bad = run_checker(ctx, "seg", "seg_case", "seg_case_ok", items)
        if bad is not None:
            ctx.count("traces_validated_against_impl", len(items) - len(bad))
            for bi in bad[:3]:
                ctx.add_broken("broken-correspondence", "seg_internal model vs BHJM_cylinder_segment_internal",
                               json.dumps({"case": kept[bi][0], "impl": kept[bi][1]}))
    # (a') the angle reduction prologue of BHJM_cylinder_segment
    rcases = [gen_reduce_case(rng) for _ in range(ctx.n(300, 2000))]
    rout = impl_reduce(rcases)
    for c, o in zip(rcases, rout):
        ctx.case(("reduce", tuple(c)), c[1] > 360 or c[0] < -360)
        ctx.bump("reduce:" + ("above" if c[1] > 360 else "below" if c[0] < -360 else "in-range"))
    if built:
        bad = run_checker(ctx, "reduce", "reduce_case", "reduce_case_ok",
                          ["(%s, %s, %s, %s)" % (cz(c[0]), cz(c[1]), cz(o[0]), cz(o[1])) for c, o in zip(rcases, rout)], chunk=2000)
        if bad is not None:
            ctx.count("traces_validated_against_impl", len(rcases) - len(bad))
            for bi in bad[:3]:
                ctx.add_broken("broken-correspondence", "seg_reduce model vs BHJM_cylinder_segment prologue",
                               json.dumps({"angles": rcases[bi], "impl": rout[bi]}))
    # (b)+(c) meshes
    mesh_cases = [gen_mesh_case(rng) for _ in range(ctx.n(250, 1000))]
    mitems, titems, mk = [], [], []
    for c in mesh_cases:
        with warnings.catch_warnings():
            warnings.simplefilter("ignore")
            r = impl_mesh(c)
        mitems.append(c_mesh_case(c, r))
        titems.append(c_tricoll_case(c, r))
        mk.append((c, r))
        nshared = 3 * len(c["mesh"]) - len(r["vertices"])
        ctx.case(("mesh", json.dumps(c, sort_keys=True)), nshared > 0)
        ctx.bump("mesh:" + c["via"])
        ctx.bump("mesh:shared-vertices", nshared)
    ctx.samples.append({"mesh_case": mk[0][0], "impl": {k: mk[0][1][k] for k in ("vertices", "faces", "cpos", "cori")}})
    if built:
        for tag, ctype, chk, its, what in (("mesh", "mesh_case", "mesh_case_ok", mitems, "np.unique mesh construction"),
                                           ("tricoll", "tricoll_case", "tricoll_case_ok", titems, "to_TriangleCollection")):
            bad = run_checker(ctx, tag, ctype, chk, its)
            if bad is not None:
                ctx.count("traces_validated_against_impl", len(its) - len(bad))
                for bi in bad[:3]:
                    ctx.add_broken("broken-correspondence", f"model of {what} vs implementation",
                                   json.dumps({"case": mk[bi][0], "impl": mk[bi][1]}))
    return mk


OBS4 = np.array([[7.3, -5.1, 6.7], [-6.2, 8.9, 5.3], [0.31, 0.17, -9.4], [0.13, -0.29, 0.37]])


def build_exact_mesh(c):
    mesh = np.array(c["mesh"], dtype=float)
    kw = dict(polarization=(0.3, -0.5, 0.7), position=c["pos"], orientation=octa.rot(c["rot"]), **SKIP)
    tris = [magpy.misc.Triangle(polarization=(0.3, -0.5, 0.7), vertices=v) for v in mesh]
    if c["via"] == "from_mesh":
        m = magpy.magnet.TriangularMesh.from_mesh(mesh=mesh, **kw)
    else:
        arg = tris if c["via"] == "from_triangles" else magpy.Collection(tris)
        m = magpy.magnet.TriangularMesh.from_triangles(triangles=arg, **kw)
    posed = [magpy.misc.Triangle(polarization=(0.3, -0.5, 0.7), vertices=v, position=c["pos"],
                                 orientation=octa.rot(c["rot"])) for v in mesh]
    return m, posed


def mesh_field_fails(c):
    """the property itself on an exact mesh case: H of the constructed mesh = H of the input triangles (same pose)
    = H of its to_TriangleCollection; returns the list of converters that do not preserve the field"""
    with warnings.catch_warnings():
        warnings.simplefilter("ignore")
        m, posed = build_exact_mesh(c)
        Hs = [t.getH(OBS4) for t in posed]
        H0 = np.sum(Hs, axis=0)
        Hm = m.getH(OBS4)
        Hc = m.to_TriangleCollection().getH(OBS4)
    # scale: the single-triangle fields (random integer meshes contain triangles that cancel each other)
    scale = max(np.sum([np.abs(h).max() for h in Hs]), 1e-30)
    bad = []
    if np.abs(Hm - H0).max() > 1e-7 * scale:
        bad.append(c["via"].replace("_coll", ""))
    if np.abs(Hc - Hm).max() > 1e-7 * scale:
        bad.append("to_TriangleCollection")
    return bad


def mesh_oracle(ctx, mk):
    """on the exact mesh cases: where the structural statement of the theorems (vertices[faces] = input mesh, one
    Triangle per face with the mesh pose) does not hold on the implementation, decide by the FIELD whether the
    property is violated (a reordering that preserves the field is not a violation)"""
    for c, r in mk:
        exp = [[t, c["pos"], c["rot"]] for t in r["mesh_out"]]
        structural = r["mesh_out"] == c["mesh"] and r["children"] == exp and r["cpos"] == c["pos"] and r["cori"] == c["rot"] \
            and r["pol_ok"]
        if structural and ctx.counts.get("mesh_field_checks", 0) >= 40:
            continue
        ctx.count("mesh_field_checks")
        for conv in mesh_field_fails(c):
            ctx.impl_fail(f"TriangularMesh.{conv}/H:exact-mesh",
                          f"{conv} does not preserve the H-field of the input triangles (integer mesh, checks skipped)",
                          {"kind": "mesh", "case": c})


# ------------------------------------------------------------------ search
QUICK_N = {"cuboid_partition": 300, "cylinder_partition": 200, "cuboid_repr": 300, "sphere_dipole": 100,
           "polyline_circle": 60, "mesh_convert": 200, "mixed_partition": 200, "hollow_mesh": 80}


THOROUGH_FACTOR = 8


def load_corpus():
    p = os.path.join(VERIF, "corpus", "C13.json")
    try:
        return json.load(open(p))["cases"]
    except (OSError, ValueError, KeyError):
        return []


def search(ctx, factor):
    with warnings.catch_warnings():
        warnings.simplefilter("ignore")
        for c in load_corpus():
            check_case(ctx, c, "corpus")
        for fam, gen in S.FAMILIES.items():
            n = int(QUICK_N[fam] * (1 if ctx.tier == "quick" else THOROUGH_FACTOR) * factor)
            for _ in range(n):
                check_case(ctx, gen(ctx.rng), "random")
            ctx.log(f"search {fam}: {n} cases")


def check_case(ctx, c, origin):
    canon = json.dumps(c, sort_keys=True)
    sub = c.get("kind") or c.get("rep") or c.get("conv") or ""
    ctx.case(("search", canon), True)
    ctx.bump(f"search:{c['family']}" + (f":{sub}" if sub else ""))
    ctx.bump(f"search:scale={c.get('scale', 1.0):g}")
    if len(ctx.samples) < 8 and origin == "random" and ctx.dist[f"search:{c['family']}" + (f":{sub}" if sub else "")] == 1 \
            and c["family"] in ("cylinder_partition", "cuboid_repr"):
        ctx.samples.append({"search_case": c})
    fls = S.evaluate(c)
    if not fls:
        return
    # shrink only the first few failures of each (unshrunk) signature: a broad defect fails on most cases
    fl = max(fls, key=lambda x: (x["field"] in "BH", x["rel"]))
    sig0 = S.signature(c, fl, {x["field"] for x in fls if x["obs_index"] == fl["obs_index"] and x["clause"] == fl["clause"]})
    seen = ctx.extra.setdefault("_c13_seen", {})
    if sig0 in seen or len(seen) >= 12:
        sig = seen.get(sig0, sig0)
        ctx.impl_fail(sig, fl["detail"], {"kind": "search", "case": c})
        return
    r = S.find_and_shrink(c)
    if r is not None:
        sig, what, shrunk = r
        seen[sig0] = sig
        ctx.impl_fail(sig, what, {"kind": "search", "case": shrunk})


def run(ctx):
    ctx.extra["rule"] = ("a case is one generated input (a dispatch batch, a mesh, a formula row, or a body with a "
                         "partition / alternative representation, pose and 4-6 observers); distinct by canonical JSON; "
                         "non-trivial: dispatch batches with at least one full-angle row, meshes with at least one "
                         "shared vertex, every formula row and every search case")
    ctx.trusted += [
        "translator translate/gen_cuboid.py: the six closed-form terms of magnet_cuboid_Bfield and the table that "
        "assembles B from them are re-translated from /repo on every run (Gen/GenCuboid.v); arctan2 is a parameter "
        "of the theorems (hypotheses: odd in the first argument, reflection law in the second; proved for numpy's "
        "arctan2 on the reals), np.log -> ln, np.sqrt -> sqrt over R; the octant flip is modelled from the translated "
        "masks (checked literally) and sign tables; translate/gen_cylmask.py: placement of the |z|<=z0 test of "
        "BHJM_magnet_cylinder",
        "hand models coq/Model/ReprModel.v (+ReprExec.v) of BHJM_magnet_sphere, BHJM_dipole, "
        "BHJM_cylinder_segment_internal, J/M of BHJM_magnet_cylinder, np.unique(return_inverse) mesh construction, "
        "to_TriangleCollection, tied by correspondence only (no translator): integer dispatch batches with stub "
        "cores, integer meshes, octahedral poses, binary64 formula rows (rtol 1e-11)",
        "BHJM_magnet_cylinder is taken to be row-wise in the shortcut theorem (its batch-level `any(mask)` guards "
        "do not change rows); Collection position/orientation setters are modelled for a single pose",
        "identities between different closed forms (Cuboid/mesh/tetrahedra/triangles, Cylinder/segments, "
        "Polyline->Circle, from_ConvexHull) are NOT proved: numerical search only (harness/c13_search.py), "
        "tolerances 1e-7..2e-6 of the local field",
    ]
    ok = ctx.regen(["GenCuboid", "GenCylMask"])
    built = ctx.build_props() and ok
    if ctx.tier == "thorough" and built:
        ctx.coqchk("MV.Props.C13")
    ctx.partial += [t for t in ctx.theorems if t.endswith("_partial")]
    ctx.refuted += [t for t in ctx.theorems if t.endswith("_refuted")]
    mk = run_guarded(ctx, lambda: exact_correspondence(ctx, built), "C13 exact correspondence") or []
    ctx.log(f"exact correspondence done ({ctx.counts['traces_validated_against_impl']} cases agree)")
    if built:
        run_guarded(ctx, lambda: float_correspondence(ctx, ctx.n(240, 1200)), "C13 float correspondence")
        ctx.log("float correspondence done")
    run_guarded(ctx, lambda: mesh_oracle(ctx, mk), "C13 mesh oracle")
    big = bool(ctx.broken)
    run_guarded(ctx, lambda: search(ctx, 5 if big else 1), "C13 search")
    ctx.log(f"search done ({ctx.counts['evaluations']} evaluations in total)")
    ctx.extra.pop("_c13_seen", None)


def replay(ctx, obj):
    rp = obj.get("replay", obj)
    if rp.get("kind") == "search":
        with warnings.catch_warnings():
            warnings.simplefilter("ignore")
            fls = S.evaluate(rp["case"])
        if not fls:
            print("replay: property holds on this case")
            return 0
        for f in fls:
            failed = {x["field"] for x in fls if x["obs_index"] == f["obs_index"] and x["clause"] == f["clause"]}
            print(f"replay: FAILS [{S.signature(rp['case'], f, failed)}] {f['detail']}")
        print(f"VIOLATION property=C13 replay={obj.get('how_to_rerun', '').split()[-1] or 'given'}")
        return 1
    if rp.get("kind") == "mesh":
        bad = mesh_field_fails(rp["case"])
        print("replay:", "property holds on this mesh" if not bad else f"FAILS: field not preserved by {bad}")
        if bad:
            print(f"VIOLATION property=C13 replay={obj.get('how_to_rerun', '').split()[-1] or 'given'}")
        return 1 if bad else 0
    print(json.dumps(obj, indent=1)[:3000])
    return 0
