"""C19 -- show() draws each object where it is and does not alter it.

stage 1/2: GenUnits regenerated from utility.py / traces_generic.py, Props/C19.v rebuilt.
stage 3 (tie): (a) translated get_unit_factor / unit_prefix vs the real functions on unit strings,
               (b) DisplayModel.get_rot_pos_from_path vs the real function (all selectors, n <= 5),
               (c) DisplayModel.place vs place_and_orient_model3d on exact inputs,
               (d) DisplayModel.object_frames / path_trace vs the plotly figure of show() for a Polyline with
                   integer positions, octahedral orientations, integer unit factors.
stage 4 (search): the property itself on figures returned by show() for every class (see `check_single`,
               `check_scene`, `check_unchanged`).
"""
import copy
import json
import math
import re
import warnings

import numpy as np
from scipy.spatial.transform import Rotation as R

from harness.common import run_guarded
from harness import octa
from harness.octa import cz, cv, coct, clist, copt

import magpylib as magpy
from magpylib._src.display.traces_utility import get_rot_pos_from_path, place_and_orient_model3d
from magpylib._src import utility as mutil

warnings.filterwarnings("ignore")

# ---------------------------------------------------------------------------------------------------------
# harness-own SI table (specification side; NOT read from the repo)
SI = {"y": -24, "z": -21, "a": -18, "f": -15, "p": -12, "n": -9, "µ": -6, "m": -3, "c": -2, "d": -1, "": 0,
      "k": 3, "M": 6, "G": 9, "T": 12, "P": 15, "E": 18, "Z": 21, "Y": 24}


def unit_metres(unit):
    """how many metres one announced unit is; None if the label announces no unit"""
    if unit is None:
        return None
    if unit == "m":
        return 1.0
    if len(unit) == 2 and unit[1] == "m" and unit[0] in SI:
        return 10.0 ** SI[unit[0]]
    raise ValueError(f"axis label announces an unknown unit {unit!r}")


def parse_label(lbl, axis):
    """'x (mm)' -> 'mm'; 'x' -> None"""
    lbl = "" if lbl is None else str(lbl)
    if lbl == axis:
        return None
    if lbl.startswith(axis + " (") and lbl.endswith(")"):
        return lbl[len(axis) + 2:-1]
    raise ValueError(f"axis label {lbl!r} not understood")


# ---------------------------------------------------------------------------------------------------------
# figure -> drawn data
def _farr(a):
    return np.array([np.nan if v is None else v for v in np.asarray(a, dtype=object).ravel()], dtype=float)


def drawn_plotly(fig, scene="scene", data=None):
    sc = fig.layout[scene]
    units = [parse_label(getattr(sc, f"{k}axis").title.text, k) for k in "xyz"]
    traces = []
    for d in (fig.data if data is None else data):
        if d.type not in ("mesh3d", "scatter3d"):
            continue
        t = {"type": d.type, "mode": getattr(d, "mode", None) or "", "name": d.name,
             "xyz": np.array([_farr(d.x), _farr(d.y), _farr(d.z)]).T}
        if d.type == "mesh3d" and d.i is not None:
            t["ijk"] = np.array([d.i, d.j, d.k], dtype=int).T
            if getattr(d, "facecolor", None) is not None:
                t["facecolor"] = np.array(d.facecolor, dtype=object)
        traces.append(t)
    return {"units": units, "traces": traces}


def drawn_matplotlib(fig):
    ax = fig.axes[0]
    units = [parse_label(ax.get_xlabel(), "x"), parse_label(ax.get_ylabel(), "y"), parse_label(ax.get_zlabel(), "z")]
    traces = []
    for col in ax.collections:
        faces = getattr(col, "_faces", None)
        if faces is None:
            continue
        faces = np.asarray(faces, dtype=float)
        traces.append({"type": "mesh3d", "mode": "", "name": col.get_label(), "xyz": faces.reshape(-1, 3)})
    for ln in ax.lines:
        x, y, z = ln.get_data_3d()
        mk = ln.get_marker()
        has_marker = mk not in (None, "None", "", " ")
        has_line = ln.get_linestyle() not in (None, "None", "", " ")
        mode = "+".join(([] if not has_marker else ["markers"]) + ([] if not has_line else ["lines"]))
        traces.append({"type": "scatter3d", "mode": mode, "name": ln.get_label(),
                       "xyz": np.array([_farr(x), _farr(y), _farr(z)]).T})
    return {"units": units, "traces": traces}


def to_metres(dr):
    """convert drawn coordinates to metres using the unit ANNOUNCED on the axes"""
    u = dr["units"]
    if not (u[0] == u[1] == u[2]):
        raise AssertionError(f"axes announce different units {u}")
    f = unit_metres(u[0])
    f = 1.0 if f is None else f
    return [{**t, "xyz": t["xyz"] * f} for t in dr["traces"]], u[0]


def is_path_trace(t):
    return t["type"] == "scatter3d" and "markers" in t["mode"] and "lines" in t["mode"]


def split_nan(xyz):
    """split a merged scatter trace at the None separators"""
    out, cur = [], []
    for row in xyz:
        if np.isnan(row).all():
            if cur:
                out.append(np.array(cur))
            cur = []
        else:
            cur.append(row)
    if cur:
        out.append(np.array(cur))
    return out


# ---------------------------------------------------------------------------------------------------------
# objects from JSON specs
DECOR_OFF = {"style_orientation_show": False, "style_arrow_show": False}
MAGNETS = ["Cuboid", "Cylinder", "CylinderSegment", "Sphere", "Tetrahedron", "TriangularMesh", "Triangle"]
CURRENTS = ["Polyline", "Circle"]
OTHERS = ["Dipole", "Sensor"]
ALL_CLASSES = MAGNETS + CURRENTS + OTHERS


def build(spec, pose=True):
    cls, p = spec["cls"], spec["params"]
    pol = p.get("pol", (0.1, 0.2, 0.3))
    if cls == "Cuboid":
        o = magpy.magnet.Cuboid(polarization=pol, dimension=p["dim"])
    elif cls == "Cylinder":
        o = magpy.magnet.Cylinder(polarization=pol, dimension=p["dim"])
    elif cls == "CylinderSegment":
        o = magpy.magnet.CylinderSegment(polarization=pol, dimension=p["dim"])
    elif cls == "Sphere":
        o = magpy.magnet.Sphere(polarization=pol, diameter=p["d"])
    elif cls == "Tetrahedron":
        o = magpy.magnet.Tetrahedron(polarization=pol, vertices=p["verts"])
    elif cls == "TriangularMesh":
        o = magpy.magnet.TriangularMesh.from_ConvexHull(polarization=pol, points=p["points"])
        ctor = p.get("ctor", "hull")
        if ctor == "mesh":
            o = magpy.magnet.TriangularMesh.from_mesh(polarization=pol, mesh=np.array(o.mesh))
        elif ctor == "triangles":
            o = magpy.magnet.TriangularMesh.from_triangles(
                polarization=pol, triangles=[magpy.misc.Triangle(polarization=pol, vertices=t) for t in o.mesh])
        elif ctor == "faces":
            o = magpy.magnet.TriangularMesh(polarization=pol, vertices=np.array(o.vertices), faces=np.array(o.faces))
    elif cls == "Triangle":
        o = magpy.misc.Triangle(polarization=pol, vertices=p["verts"])
    elif cls == "Polyline":
        o = magpy.current.Polyline(current=p.get("current", 1.5), vertices=p["verts"])
    elif cls == "Circle":
        o = magpy.current.Circle(current=p.get("current", 1.5), diameter=p["d"])
    elif cls == "Dipole":
        o = magpy.misc.Dipole(moment=p["moment"])
    elif cls == "Sensor":
        o = magpy.Sensor(pixel=p["pixel"], handedness=p.get("handedness", "right"))
    else:
        raise ValueError(cls)
    for k, v in spec.get("style", {}).items():
        o.style.update({k: v})
    if pose:
        o.position = spec["pos"]
        o.orientation = R.from_rotvec(np.array(spec["rotvec"], dtype=float))
    return o


AXES6 = [[1, 0, 0], [-1, 0, 0], [0, 1, 0], [0, -1, 0], [0, 0, 1], [0, 0, -1]]


def special_dir(rng, zero=True):
    """a vector exactly along +-x, +-y, +-z (or zero): the degenerate branches of every rotation-onto-axis code"""
    if zero and rng.random() < 0.15:
        return [0.0, 0.0, 0.0]
    k = rng.choice([1.0, 0.5, 2.5])
    return [k * c for c in rng.choice(AXES6)]


def gen_params(rng, cls, scale=1.0):
    p = gen_params_geom(rng, cls, scale)
    if cls in ("Tetrahedron", "TriangularMesh", "Triangle", "Polyline") and rng.random() < 0.3:
        # bodies far off their local origin (the local frame origin is not the body's centre)
        off = np.array([rng.choice([-10.0, 7.0, 0.0]) * scale for _ in range(3)])
        key = "points" if cls == "TriangularMesh" else "verts"
        p[key] = (np.array(p[key], dtype=float) + off).tolist()
    if cls == "TriangularMesh":
        p["ctor"] = rng.choice(["hull", "mesh", "triangles", "faces"])
    if cls == "Cuboid" and rng.random() < 0.4:          # every axis the long one
        ax = rng.randrange(3)
        p["dim"][ax] = p["dim"][ax] * rng.choice([8.0, 30.0])
    if cls == "Cylinder" and rng.random() < 0.4:
        ax = rng.randrange(2)
        p["dim"][ax] = p["dim"][ax] * rng.choice([8.0, 30.0])
    if cls in MAGNETS and "pol" not in p and rng.random() < 0.5:
        p["pol"] = special_dir(rng)
    return p


def gen_params_geom(rng, cls, scale=1.0):
    u = lambda a, b: round(rng.uniform(a, b), 3) * scale   # noqa: E731
    vec = lambda a=-1.5, b=1.5: [u(a, b) for _ in range(3)]   # noqa: E731
    if cls == "Cuboid":
        return {"dim": [u(0.3, 3), u(0.3, 3), u(0.3, 3)]}
    if cls == "Cylinder":
        return {"dim": [u(0.3, 3), u(0.3, 3)]}
    if cls == "CylinderSegment":
        r1 = u(0.0, 1.5) if rng.random() < 0.8 else 0.0
        p1 = round(rng.uniform(-360, 300), 1)
        span = rng.choice([round(rng.uniform(10, 359), 1), 359.9, 360.0, 0.5, 180.0])
        if span == 360.0:
            p1 = float(round(p1))
        r2 = r1 + (u(0.2, 2) if rng.random() < 0.8 else 1e-3 * scale)       # thin shells
        return {"dim": [r1, r2, u(0.3, 3), p1, round(p1 + span, 1)]}
    if cls == "Circle":
        return {"d": u(0.3, 3), "current": rng.choice([1.5, -2.0, 0.0])}
    if cls == "Sphere":
        return {"d": u(0.3, 3)}
    if cls == "Tetrahedron":
        while True:
            v = [vec() for _ in range(4)]
            a = np.array(v)
            if abs(np.linalg.det(a[1:] - a[0])) > 0.2 * scale ** 3:
                return {"verts": v}
    if cls == "TriangularMesh":
        while True:
            pts = [vec() for _ in range(rng.randint(4, 8))]
            a = np.array(pts)
            if abs(np.linalg.det(a[1:4] - a[0])) > 0.2 * scale ** 3:
                return {"points": pts}
    if cls == "Triangle":
        while True:
            v = [vec() for _ in range(3)]
            a = np.array(v)
            if np.linalg.norm(np.cross(a[1] - a[0], a[2] - a[0])) > 0.3 * scale ** 2:
                return {"verts": v, "pol": [0.1, 0.2, 0.3] if rng.random() < 0.6 else [0.0, 0.0, 0.0]}
    if cls == "Polyline":
        return {"verts": [vec() for _ in range(rng.randint(2, 6))], "current": rng.choice([1.5, -2.0, 0.0])}
    if cls == "Dipole":
        return {"moment": [round(rng.uniform(-2, 2), 3) for _ in range(3)] if rng.random() < 0.5
                else special_dir(rng, zero=False), "pivot": rng.choice(["middle", "tail", "tip"])}
    if cls == "Sensor":
        k = rng.choice([0, 1, 2, 4])
        hand = rng.choice(["right", "left"])
        if k == 0:
            return {"pixel": [0.0, 0.0, 0.0] if rng.random() < 0.5 else vec(-0.5, 0.5), "handedness": hand}
        off = [0.0, 0.0, 0.0] if rng.random() < 0.7 else [3.0 * scale, -2.0 * scale, 0.0]
        return {"pixel": [[a + b for a, b in zip(vec(-0.5, 0.5), off)] for _ in range(k)], "handedness": hand}
    raise ValueError(cls)


def gen_pose(rng, n, generic=True):
    if generic:
        pos = [[round(rng.uniform(-5, 5), 3) for _ in range(3)] for _ in range(n)]
        rv = [[round(rng.uniform(-2, 2), 3) for _ in range(3)] for _ in range(n)]
        for k in range(n):          # exact half turns (about an axis, about a diagonal) and exact quarter turns
            if rng.random() < 0.25:
                ax = rng.choice(AXES6 + [[1, 1, 0], [1, 1, 1], [0, -1, 1]])
                ang = rng.choice([math.pi, math.pi, math.pi / 2])
                rv[k] = (np.array(ax, dtype=float) / np.linalg.norm(ax) * ang).tolist()
    else:
        pos, rv = [[0.0, 0.0, 0.0]] * n, [[0.0, 0.0, 0.0]] * n
    return (pos[0], rv[0]) if n == 1 and rng.random() < 0.5 else (pos, rv)


def gen_frames(rng, n):
    x = rng.random()
    if x < 0.25:
        return None
    if x < 0.55:
        return rng.choice([1, 2, 3, -1, -2, -3, 0, n, n + 2])
    k = rng.randint(0, 4)
    return [rng.randint(-n - 1 if rng.random() < 0.15 else -n, n + 2) for _ in range(k)]


UNITS = ["auto", "m", "mm", "cm", "dm", "µm", "nm", "km", "Mm", None]


def spec_frames(n, sel):
    """documented meaning of style.path.frames ("integer i: displays the object(s) at every i'th path position;
    array_like: displays object(s) at given path indices"; default: the current = last position).
    returns the list of acceptable sets of displayed path indices -- for an integer the documentation does not
    say where the counting starts, so every residue class is acceptable -- or None when numpy cannot index the
    selection (entry < -n: show raises)"""
    if sel is None:
        return [{n - 1}]
    if isinstance(sel, int):
        if sel == 0:
            return [{n - 1}]
        k = abs(sel)
        return [s for s in ({e for e in range(n) if e % k == r} for r in range(k)) if s]
    if len(sel) == 0:
        return [{n - 1}]
    out = set()
    for i in sel:
        if i < -n:
            return None
        c = min(i, n - 1)
        out.add(n + c if c < 0 else c)
    return [out]


def special_specs(rng):
    """exact special values for every class: vectors along +-x, +-y, +-z and zero, both chiralities, currents
    0 / negative, degenerate-but-valid sizes, both handednesses, all pivots.  `_flips`: also run at the exact
    half turns about x, y, z"""
    base = {"kind": "single", "pos": [0.3, -0.2, 0.1], "rotvec": [0.4, -0.3, 0.2], "frames": None, "units": "m",
            "backend": "plotly"}
    out = []

    def add(cls, params, flips=False, **kw):
        out.append({**base, "cls": cls, "params": params, "_flips": flips, **kw})
    for d in AXES6:
        for piv in ("middle", "tail", "tip"):
            add("Dipole", {"moment": [2.5 * c for c in d], "pivot": piv}, flips=(piv == "middle"))
    geoms = {
        "Cuboid": [{"dim": [1.0, 2.0, 3.0]}, {"dim": [2.0, 2.0, 1e-3]}],
        "Cylinder": [{"dim": [1.0, 2.0]}, {"dim": [3.0, 1e-3]}],
        "CylinderSegment": [{"dim": [0.0, 1.0, 2.0, 0.0, 360.0]}, {"dim": [0.5, 1.0, 1.0, -90.0, 90.0]},
                            {"dim": [0.0, 2.0, 0.5, 350.0, 370.0]}, {"dim": [1.0, 1.001, 1.0, -360.0, 0.0]}],
        "Sphere": [{"d": 1.5}],
        "Tetrahedron": [{"verts": [[0, 0, 0], [1, 0, 0], [0, 1, 0], [0, 0, 1]]},
                        {"verts": [[0, 0, 0], [0, 1, 0], [1, 0, 0], [0, 0, 1]]}],          # both chiralities
        "TriangularMesh": [{"points": [[x, y, z] for x in (0, 1) for y in (0, 1) for z in (0, 2)]},
                           {"points": [[0, 0, 0], [1, 0, 0], [0, 1, 0], [0, 0, 1], [1, 1, 1]]}],
        "Triangle": [{"verts": [[0, 0, 0], [1, 0, 0], [0, 1, 0]]}, {"verts": [[0, 0, 0], [0, 1, 0], [1, 0, 0]]},
                     {"verts": [[0, 0, 1], [0, 2, 1], [0, 0, 3]]}],
    }
    for cls, gl in geoms.items():
        for gi, g in enumerate(gl):
            for di, d in enumerate(AXES6 + [[0, 0, 0]]):
                if gi > 0 and di % 3 != gi % 3 and cls not in ("Triangle",):
                    continue            # every direction on the first geometry, a third of them on the others
                add(cls, {**g, "pol": [0.5 * c for c in d]}, flips=(gi == 0 and di in (0, 3, 5)))
    for cur in (1.5, -2.0, 0.0):
        add("Polyline", {"verts": [[0, 0, 0], [1, 0, 0], [1, 0, 0], [1, 1, 0], [1, 1, -1]], "current": cur}, flips=cur < 0)
        add("Polyline", {"verts": [[0, 0, 0], [0, -1, 0]], "current": cur})
        add("Circle", {"d": 2.0, "current": cur}, flips=cur < 0)
    for hand in ("right", "left"):
        add("Sensor", {"pixel": [0.0, 0.0, 0.0], "handedness": hand}, flips=True)
        add("Sensor", {"pixel": [[x, y, 0.0] for x in (-0.1, 0.1) for y in (-0.2, 0.2)], "handedness": hand})
        add("Sensor", {"pixel": [[0.1, 0.0, 0.0], [0.3, 0.0, 0.0]], "handedness": hand})
    return out


def gen_single(rng, cls, generic=True, scale=1.0):
    n = rng.choice([1, 1, 2, 3, 5])
    pos, rv = gen_pose(rng, n, generic)
    return {"kind": "single", "cls": cls, "params": gen_params(rng, cls, scale), "pos": pos, "rotvec": rv,
            "frames": gen_frames(rng, n), "units": rng.choice(UNITS), "backend": "plotly"}


# ---------------------------------------------------------------------------------------------------------
# showing
DIPOLE_SIZE = 0.7
AXIS_COLORS = {"x": "#ff0001", "y": "#00ff01", "z": "#0100ff"}


def show_kwargs(spec, decor=False):
    kw = {"backend": spec.get("backend", "plotly"), "return_fig": True}
    if spec.get("frames", None) is not None:
        kw["style_path_frames"] = spec["frames"]
    if "units" in spec and spec["units"] != "default":
        kw["units_length"] = spec["units"]
    if not decor:
        kw.update(DECOR_OFF)
    if spec["cls"] in OTHERS and spec.get("absolute", True):
        kw["style_sizemode"] = "absolute"
    if spec["cls"] == "Dipole":
        kw["style_size"] = DIPOLE_SIZE
        kw["style_pivot"] = spec["params"].get("pivot", "middle")
    if spec["cls"] == "Sensor":
        kw.update({f"style_arrows_{a}_color": c for a, c in AXIS_COLORS.items()})
    kw.update(spec.get("show_kw", {}))
    return kw


def do_show(objs, kw):
    import matplotlib.pyplot as plt
    try:
        fig = magpy.show(*objs, **kw)
        if kw.get("backend") == "matplotlib":
            dr = drawn_matplotlib(fig)
        else:
            dr = drawn_plotly(fig)
    finally:
        plt.close("all")
    return dr


def path_arrays(spec):
    pos = np.reshape(np.array(spec["pos"], dtype=float), (-1, 3))
    rv = np.reshape(np.array(spec["rotvec"], dtype=float), (-1, 3))
    return pos, R.from_rotvec(rv)


# ---------------------------------------------------------------------------------------------------------
# local geometry oracles: is a point of the LOCAL frame on the surface of the body; support function
def _tol(L):
    return 1e-9 * max(L, 1e-300)


def seg_dist(p, a, b):
    ab = b - a
    t = 0.0 if np.dot(ab, ab) == 0 else min(1.0, max(0.0, np.dot(p - a, ab) / np.dot(ab, ab)))
    return np.linalg.norm(p - (a + t * ab))


def tri_dist(p, a, b, c):
    n = np.cross(b - a, c - a)
    nn = np.linalg.norm(n)
    n = n / nn
    d = np.dot(p - a, n)
    q = p - d * n
    # barycentric test
    def side(u, v, w):
        return np.dot(np.cross(v - u, q - u), n) >= 0
    if side(a, b, c) and side(b, c, a) and side(c, a, b):
        return abs(d)
    return min(seg_dist(p, a, b), seg_dist(p, b, c), seg_dist(p, c, a))


def body_geometry(spec, obj):
    """returns (size L, surface_distance(p), true extreme points used for the extent check (array),
    discretisation allowance for the extent (relative), exact vertex set or None)"""
    cls, p = spec["cls"], spec["params"]
    if cls == "Cuboid":
        h = np.array(p["dim"], dtype=float) / 2
        corners = np.array([[sx * h[0], sy * h[1], sz * h[2]] for sx in (-1, 1) for sy in (-1, 1) for sz in (-1, 1)])

        def dist(q):
            out = np.maximum(np.abs(q) - h, 0)
            if out.any():
                return np.linalg.norm(out)
            return float(np.min(h - np.abs(q)))
        return 2 * h.max(), dist, corners, 0.0, corners
    if cls == "Cylinder":
        d, hh = p["dim"]
        r0, z0 = d / 2, hh / 2

        def dist(q):
            r, z = math.hypot(q[0], q[1]), abs(q[2])
            if r <= r0 and z <= z0:
                return min(r0 - r, z0 - z)
            return math.hypot(max(r - r0, 0), max(z - z0, 0))
        ang = np.linspace(0, 2 * np.pi, 400, endpoint=False)
        ext = np.array([[r0 * np.cos(a), r0 * np.sin(a), s * z0] for a in ang for s in (-1, 1)])
        return max(d, hh), dist, ext, 0.01, None
    if cls == "CylinderSegment":
        r1, r2, hh, p1, p2 = p["dim"]
        z0 = hh / 2
        a1, a2 = np.deg2rad(p1), np.deg2rad(p2)
        full = (p2 - p1) >= 360

        def dist(q):
            r, z = math.hypot(q[0], q[1]), abs(q[2])
            if z > z0 + 1e-9 * max(hh, r2) or r > r2 * (1 + 1e-9) or r < r1 * (1 - 1e-9):
                return max(z - z0, r - r2, r1 - r)
            cands = [z0 - z, r2 - r, r - r1]
            if not full:
                if r > 0:
                    phi = math.atan2(q[1], q[0])
                    rel = (phi - a1) % (2 * np.pi)
                    span = a2 - a1
                    if rel > span + 1e-9:
                        if abs(rel - 2 * np.pi) < 1e-9:
                            rel = 0.0
                        else:
                            return r * min(rel - span, 2 * np.pi - rel)
                    cands += [r * abs(math.sin(min(rel, np.pi / 2))) if rel < np.pi / 2 else r,
                              r * abs(math.sin(min(span - rel, np.pi / 2))) if span - rel < np.pi / 2 else r]
                else:
                    cands.append(0.0)
            return max(0.0, min(cands))
        ang = np.linspace(a1, a2, 400)
        ext = np.array([[rr * np.cos(a), rr * np.sin(a), s * z0] for a in ang for s in (-1, 1) for rr in (r1, r2)])
        return max(2 * r2, hh), dist, ext, 0.01, None
    if cls == "Sphere":
        r0 = p["d"] / 2
        dirs = np.array([[1, 0, 0], [-1, 0, 0], [0, 1, 0], [0, -1, 0], [0, 0, 1], [0, 0, -1]], dtype=float)
        return p["d"], (lambda q: abs(np.linalg.norm(q) - r0)), dirs * r0, 0.03, None
    if cls == "Tetrahedron":
        v = np.array(p["verts"], dtype=float)
        faces = [(0, 1, 2), (0, 1, 3), (0, 2, 3), (1, 2, 3)]
        L = np.ptp(v, axis=0).max()
        return L, (lambda q: min(tri_dist(q, v[a], v[b], v[c]) for a, b, c in faces)), v, 0.0, v
    if cls == "TriangularMesh":
        v, f = np.array(obj.vertices, dtype=float), np.array(obj.faces)
        L = np.ptp(v, axis=0).max()
        vu = v[np.unique(f)]          # from_ConvexHull keeps interior points as unused vertices
        return L, (lambda q: min(tri_dist(q, v[a], v[b], v[c]) for a, b, c in f)), vu, 0.0, vu
    if cls == "Triangle":
        v = np.array(p["verts"], dtype=float)
        L = np.ptp(v, axis=0).max()
        return L, (lambda q: tri_dist(q, v[0], v[1], v[2])), v, 0.0, None
    raise ValueError(cls)


def _seg_dist_v(q, a, b):
    ab = b - a
    den = np.einsum("ij,ij->i", ab, ab)
    t = np.clip(np.einsum("ij,ij->i", q - a, ab) / np.where(den == 0, 1, den), 0, 1)
    return np.linalg.norm(q - (a + t[:, None] * ab), axis=1)


def pt_tris_min_dist(q, tris):
    """distance of the point q to the nearest of the triangles tris (m,3,3); degenerate triangles count as segments"""
    a, b, c = tris[:, 0], tris[:, 1], tris[:, 2]
    n = np.cross(b - a, c - a)
    nn = np.linalg.norm(n, axis=1)
    ok = nn > 0
    nh = n / np.where(ok, nn, 1)[:, None]
    d = np.einsum("ij,ij->i", q - a, nh)
    pr = q - d[:, None] * nh
    inside = ok.copy()
    for u, v in ((a, b), (b, c), (c, a)):
        inside &= np.einsum("ij,ij->i", np.cross(v - u, pr - u), nh) >= 0
    edge = np.minimum(np.minimum(_seg_dist_v(q, a, b), _seg_dist_v(q, b, c)), _seg_dist_v(q, c, a))
    return float(np.min(np.where(inside, np.abs(d), edge)))


def surface_samples(spec, obj, count=24):
    """points ON the true surface of the body (local frame), fixed pseudo-random choice"""
    rs = np.random.RandomState(4242)
    cls, p = spec["cls"], spec["params"]
    pts = []
    if cls == "Cuboid":
        h = np.array(p["dim"], dtype=float) / 2
        for _ in range(count):
            q = rs.uniform(-1, 1, 3) * h
            ax = rs.randint(3)
            q[ax] = h[ax] * rs.choice([-1, 1])
            pts.append(q)
    elif cls in ("Tetrahedron", "TriangularMesh", "Triangle"):
        if cls == "TriangularMesh":
            v, f = np.array(obj.vertices, dtype=float), np.array(obj.faces)
        elif cls == "Tetrahedron":
            v, f = np.array(p["verts"], dtype=float), np.array([(0, 1, 2), (0, 1, 3), (0, 2, 3), (1, 2, 3)])
        else:
            v, f = np.array(p["verts"], dtype=float), np.array([(0, 1, 2)])
        for _ in range(count):
            a, b, c = v[f[rs.randint(len(f))]]
            w = rs.dirichlet([1, 1, 1])
            pts.append(w[0] * a + w[1] * b + w[2] * c)
    elif cls == "Cylinder":
        d, hh = p["dim"]
        for _ in range(count):
            t = rs.uniform(0, 2 * np.pi)
            if rs.rand() < 0.5:
                pts.append([d / 2 * np.cos(t), d / 2 * np.sin(t), rs.uniform(-hh / 2, hh / 2)])
            else:
                r = d / 2 * np.sqrt(rs.rand())
                pts.append([r * np.cos(t), r * np.sin(t), hh / 2 * rs.choice([-1, 1])])
    elif cls == "Sphere":
        for _ in range(count):
            u = rs.normal(size=3)
            pts.append(u / np.linalg.norm(u) * p["d"] / 2)
    elif cls == "CylinderSegment":
        r1, r2, hh, p1, p2 = p["dim"]
        for _ in range(count):
            t = np.deg2rad(rs.uniform(p1, p2))
            k = rs.randint(4 if (p2 - p1) < 360 else 3)
            if k == 0:
                r, z = r2, rs.uniform(-hh / 2, hh / 2)
            elif k == 1:
                r, z = r1, rs.uniform(-hh / 2, hh / 2)
            elif k == 2:
                r, z = rs.uniform(r1, r2), hh / 2 * rs.choice([-1, 1])
            else:
                r, z, t = rs.uniform(r1, r2), rs.uniform(-hh / 2, hh / 2), np.deg2rad(rs.choice([p1, p2]))
            pts.append([r * np.cos(t), r * np.sin(t), z])
    return np.array(pts, dtype=float)


def support_gap(drawn, truth, L):
    """largest amount by which the true body sticks out of the drawn vertex cloud, over the 6 axis directions
    and 20 fixed oblique ones (relative to L)"""
    rs = np.random.RandomState(12345)
    dirs = np.vstack([np.eye(3), -np.eye(3), rs.normal(size=(20, 3))])
    dirs /= np.linalg.norm(dirs, axis=1)[:, None]
    gap = (truth @ dirs.T).max(axis=0) - (drawn @ dirs.T).max(axis=0)
    return float(gap.max()) / L


# ---------------------------------------------------------------------------------------------------------
def rescale_params(spec, k):
    """the same object with every length multiplied by k (angles and the dipole moment are not lengths)"""
    p = copy.deepcopy(spec["params"])
    for key in ("dim", "d", "verts", "points", "pixel"):
        if key in p:
            a = np.array(p[key], dtype=float) * k
            if key == "dim" and spec["cls"] == "CylinderSegment":
                a[3:] = np.array(p[key], dtype=float)[3:]
            p[key] = a.tolist()
    return {**spec, "params": p}


def body_size(spec):
    p = spec["params"]
    vals = [np.abs(np.atleast_1d(np.array(p[k], dtype=float))[:3 if k == "dim" else None]).max()
            for k in ("dim", "d", "verts", "points") if k in p]
    return max(vals) if vals else 1.0


def features(spec):
    pos, rot = path_arrays(spec)
    f = []
    if spec["cls"] == "Triangle":
        v = np.array(spec["params"]["verts"], dtype=float)
        nrm = np.cross(v[1] - v[0], v[2] - v[1])
        if np.all(np.cross(np.array(spec["params"].get("pol", (0.1, 0.2, 0.3)), dtype=float), nrm) == 0):
            f.append("magnetised-along-normal-or-not")      # the branch of make_Triangle that thickens the facet
    vecp = spec["params"].get("moment") if spec["cls"] == "Dipole" else (
        spec["params"].get("pol") if spec["cls"] in MAGNETS else None)
    if vecp is not None:
        nz = [i for i, c in enumerate(vecp) if c != 0]
        if len(nz) == 1:
            f.append("along" + ("+" if vecp[nz[0]] > 0 else "-") + "xyz"[nz[0]])
        elif not nz:
            f.append("zero-vector")
    if spec["cls"] == "Sensor" and spec["params"].get("handedness") == "left":
        f.append("left-handed")
    if spec.get("scale_dependent"):
        f.append("scale-dependent")        # the same object scaled down to size 0.1 passes
    if len(pos) > 1:
        f.append("path")
    if np.abs(rot.as_rotvec()).max() > 0:
        f.append("rot")
    if np.abs(pos).max() > 0:
        f.append("pos")
    fr = spec.get("frames")
    if fr is not None:
        f.append("frames-int" if isinstance(fr, int) else "frames-list")
    if spec.get("units", "default") not in ("default", "m"):
        f.append(f"units-{spec['units']}")
    if spec.get("backend", "plotly") != "plotly":
        f.append(spec["backend"])
    return ",".join(f) or "plain"


def body_traces(traces, cls):
    if cls in CURRENTS:
        return [t for t in traces if t["type"] == "scatter3d" and not is_path_trace(t)]
    return [t for t in traces if t["type"] == "mesh3d"]


def copies_of(trace, k):
    """the k copies merged into one trace (mesh3d: equal chunks; scatter: None separated)"""
    if trace["type"] == "mesh3d":
        nv = len(trace["xyz"])
        if k == 0 or nv % k:
            return None
        return [trace["xyz"][i * nv // k:(i + 1) * nv // k] for i in range(k)]
    parts = split_nan(trace["xyz"])
    return parts if len(parts) == k else None


def check_single(spec):
    """the property on one object shown alone.  returns None or (clause, detail)"""
    cls = spec["cls"]
    pos, rot = path_arrays(spec)
    n = len(pos)
    exp = spec_frames(n, spec.get("frames"))
    obj = build(spec)
    kw = show_kwargs(spec)
    if exp is None:          # numpy cannot index this selection: show raises, nothing to look at
        try:
            do_show([obj], kw)
        except IndexError:
            pass
        return None      # neither raising nor any particular drawing is demanded by the property for such a selection
    dr = do_show([obj], kw)
    traces, unit = to_metres(dr)
    want = spec.get("units", "default")
    if want not in ("default", "auto") and unit != want:
        return ("unit-label", f"axes announce {unit!r} for units_length={want!r}")
    Lsc = max(np.abs(pos).max(), 1e-300)

    # reference: the same object at the origin, unrotated, in metres
    ref_spec = {**spec, "pos": [0.0, 0.0, 0.0], "rotvec": [0.0, 0.0, 0.0], "frames": None, "units": "m"}
    ref_tr, _ = to_metres(do_show([build(ref_spec)], show_kwargs(ref_spec)))
    ref_body = body_traces(ref_tr, cls)
    body = body_traces(traces, cls)
    if len(ref_body) != 1 or len(body) != 1:
        return ("placed-at-pose", f"expected one body trace, got {len(body)} (reference {len(ref_body)})")
    local = ref_body[0]["xyz"]
    size = max(np.ptp(local, axis=0).max(), 1e-300) if len(local) else 1.0

    # ---- local shape: on the surface, full extent (magnets); through the conductor's points (currents)
    if cls in MAGNETS:
        L, dist, truth, allow, exact = body_geometry(spec, build(ref_spec))
        used = local[np.unique(ref_body[0]["ijk"])] if "ijk" in ref_body[0] else local   # vertices of drawn facets
        worst = max(dist(q) for q in used)
        tol = 1e-9 * L
        if cls == "Triangle":
            tol = 4e-3 * L       # make_Triangle thickens a facet magnetised along its normal "slightly"
        if worst > tol:
            return ("on-surface", f"a drawn vertex is {worst / L:.3g} x size away from the surface")
        gap = support_gap(used, truth, L)
        if gap > allow + 1e-9:
            return ("full-extent", f"the body sticks out of the drawn model by {gap:.3g} x size")
        if exact is not None:
            for v in exact:
                if np.min(np.linalg.norm(used - v, axis=1)) > 1e-9 * L:
                    return ("full-extent", "a corner of the body is not a drawn vertex")
    elif cls == "Polyline":
        v = np.array(spec["params"]["verts"], dtype=float)
        if local.shape != v.shape or np.abs(local - v).max() > 1e-9 * max(np.abs(v).max(), 1e-300):
            return ("current-line", "the drawn line does not pass through the vertices in order")
    elif cls == "Circle":
        r0 = spec["params"]["d"] / 2
        rr = np.hypot(local[:, 0], local[:, 1])
        if np.abs(rr - r0).max() > 1e-9 * r0 or np.abs(local[:, 2]).max() > 1e-9 * r0:
            return ("current-line", "drawn circle points are not on the loop")
        ang = np.unwrap(np.arctan2(local[:, 1], local[:, 0]))
        if abs(abs(ang[-1] - ang[0]) - 2 * np.pi) > 1e-6 or np.abs(np.diff(ang)).max() > 2 * np.pi / 36:
            return ("current-line", "drawn circle does not go once around the loop")
    elif cls == "Sensor":
        pix = np.reshape(np.array(spec["params"]["pixel"], dtype=float), (-1, 3))
        if np.min(np.linalg.norm(local, axis=1)) > 1e-12:
            return ("placed-at-pose", "the sensor origin is not a vertex of its model")
        lo, hi = local.min(axis=0), local.max(axis=0)
        if (pix < lo - 1e-9).any() or (pix > hi + 1e-9).any():
            return ("placed-at-pose", "a pixel lies outside the drawn sensor model")
        # every pixel is the centre of a drawn cube (default style.pixel.size > 0)
        corners = np.array([[sx, sy, sz] for sx in (-1, 1) for sy in (-1, 1) for sz in (-1, 1)], dtype=float)
        for q in pix:
            d = np.abs(local - q)
            cand = d[(np.abs(d[:, 0] - d[:, 1]) < 1e-9 * size) & (np.abs(d[:, 0] - d[:, 2]) < 1e-9 * size)
                     & (d[:, 0] > 1e-9 * size)][:, 0]
            ok = False
            for h in np.unique(np.round(cand / size, 9)) * size:
                want_c = q + h * corners
                if all(np.min(np.linalg.norm(local - w, axis=1)) < 1e-8 * size for w in want_c):
                    ok = True
                    break
            if not ok:
                return ("placed-at-pose", "no pixel cube is drawn around a pixel position")
    elif cls == "Dipole":
        m = np.array(spec["params"]["moment"], dtype=float)
        m /= np.linalg.norm(m)
        ax = local @ m                                        # coordinate along the moment
        rad = np.linalg.norm(local - np.outer(ax, m), axis=1)   # distance from the moment axis
        lo, hi = {"middle": (-0.5, 0.5), "tail": (0.0, 1.0), "tip": (-1.0, 0.0)}[spec["params"].get("pivot", "middle")]
        if abs(ax.min() - lo * DIPOLE_SIZE) > 1e-9 or abs(ax.max() - hi * DIPOLE_SIZE) > 1e-9:
            return ("placed-at-pose", f"the dipole arrow spans [{ax.min():.3g}, {ax.max():.3g}] along its moment, "
                                      f"expected [{lo * DIPOLE_SIZE:.3g}, {hi * DIPOLE_SIZE:.3g}]")
        if rad.max() > 0.2 * DIPOLE_SIZE:
            return ("placed-at-pose", "the dipole arrow is not a slender body around the moment axis")
        top, bottom = rad[ax > ax.max() - 1e-9], rad[ax < ax.min() + 1e-9]
        if top.max() > 1e-9 or bottom.max() < 1e-3 * DIPOLE_SIZE:
            return ("placed-at-pose", "the dipole arrow does not point along the moment (apex at the wrong end)")
    if cls == "Sensor" and "facecolor" in ref_body[0] and "ijk" in ref_body[0]:
        # the coloured axis arrows point along the sensor's local +x, +y, +z (x flipped for a left-handed sensor)
        fc, ijk0 = ref_body[0]["facecolor"], ref_body[0]["ijk"]
        for k, a in enumerate("xyz"):
            idx = np.unique(ijk0[fc == AXIS_COLORS[a]])
            if len(idx) == 0:
                return ("placed-at-pose", f"the sensor's {a}-axis arrow is not drawn")
            pts = local[idx]
            tipv = pts[np.argmax(np.linalg.norm(pts, axis=1))]
            want_dir = np.eye(3)[k] * (-1.0 if (a == "x" and spec["params"].get("handedness") == "left") else 1.0)
            if np.linalg.norm(tipv) == 0 or tipv @ want_dir < 0.999 * np.linalg.norm(tipv):
                return ("placed-at-pose", f"the sensor's {a}-axis arrow does not point along its local {a} axis")

    # ---- copies: one per displayed index, each = R_e local + p_e  (an index selected twice, e.g. -1 and n-1,
    # is drawn twice: any number of copies is accepted as long as each sits at a displayed pose)
    if body[0]["type"] == "mesh3d":
        nv = len(local)
        cps = copies_of(body[0], len(body[0]["xyz"]) // nv) if nv and len(body[0]["xyz"]) % nv == 0 else None
    else:
        cps = split_nan(body[0]["xyz"])
    if not cps:
        return ("frames", "cannot split the body trace into copies")
    tol = 1e-9 * (size + Lsc)
    matches = []
    for c in cps:
        mc = {e for e in range(n) if c.shape == local.shape
              and np.abs(c - (rot[e].apply(local) + pos[e])).max() <= tol}
        if not mc:
            for e in range(n):      # right place up to a common factor: the coordinates are not in the announced unit
                w = rot[e].apply(local) + pos[e]
                if c.shape == w.shape and np.abs(w).max() > 0:
                    lam = np.linalg.norm(c) / np.linalg.norm(w)
                    if abs(lam - 1) > 1e-6 and np.abs(c - lam * w).max() <= 1e-9 * lam * (size + Lsc):
                        return ("unit-scale", f"coordinates are {lam:.6g} times what the announced unit {unit!r} says")
            return ("placed-at-pose", "a drawn copy is not the local model moved to any path pose (R.v + p)")
        matches.append(mc)
    if not any(all(mc & a for mc in matches) and all(any(e in mc for mc in matches) for e in a) for a in exp):
        return ("frames", f"copies drawn at path indices {[sorted(mc) for mc in matches]}, documented selection "
                          f"is {' or '.join(str(sorted(a)) for a in exp)}")

    # ---- facets: every drawn triangle joins three vertices of ONE copy and lies on the surface
    if body[0]["type"] == "mesh3d" and "ijk" in body[0] and cls in MAGNETS:
        ijk, nv = body[0]["ijk"], len(local)
        if ijk.min() < 0 or ijk.max() >= len(body[0]["xyz"]) or (ijk // nv != (ijk // nv)[:, :1]).any():
            return ("on-surface", "a drawn facet joins vertices of different copies (or missing vertices)")
        if len(ijk) != len(cps) * len(ref_body[0]["ijk"]):
            return ("on-surface", "copies have different numbers of facets")
        first = ijk[ijk[:, 0] // nv == 0] % nv
        cen = local[first].mean(axis=1)
        slack = {"Cuboid": 1e-9, "Tetrahedron": 1e-9, "TriangularMesh": 1e-9, "Triangle": 4e-3}.get(cls, 0.03)
        worst = max(dist(q) for q in cen)
        if worst > slack * L:
            return ("on-surface", f"a drawn facet's centre is {worst / L:.3g} x size away from the surface")
        # no holes: points of the true surface are covered by the drawn facets
        tris = local[first]
        cover = {"Cuboid": 1e-9, "Tetrahedron": 1e-9, "TriangularMesh": 1e-9, "Triangle": 4e-3}.get(cls, 0.03)
        for q in surface_samples(spec, build(ref_spec)):
            if pt_tris_min_dist(q, tris) > cover * L:
                return ("full-extent", "a part of the body's surface is not covered by any drawn facet")

    # ---- the default display (orientation cones, current arrows, ... switched on) contains the same body
    full, _ = to_metres(do_show([build(spec)], show_kwargs(spec, decor=True)))
    cloud = vertex_cloud(full, "mesh3d" if body[0]["type"] == "mesh3d" else "lines")
    mine = np.vstack(cps)
    if len(cloud) == 0 or max(np.min(np.linalg.norm(cloud - v, axis=1)) for v in mine) > tol:
        return ("placed-at-pose", "with the default decorations the body is drawn elsewhere")

    # ---- path line
    pts = [t for t in traces if is_path_trace(t)]
    if n > 1:
        if len(pts) != 1:
            return ("path-line", f"{len(pts)} path traces for a path of {n} positions")
        got = pts[0]["xyz"]
        if got.shape != pos.shape or np.abs(got - pos).max() > 1e-9 * Lsc:
            return ("path-line", "the path line does not pass through the path positions in order")
    return None


def check_mag_arrows(spec):
    """style_magnetization_mode='arrow': the arrow starts at the barycenter and points along the magnetization,
    at the displayed pose"""
    cls = spec["cls"]
    if cls not in MAGNETS:
        return None
    s1 = {**spec, "pos": np.reshape(spec["pos"], (-1, 3))[-1].tolist(),
          "rotvec": np.reshape(spec["rotvec"], (-1, 3))[-1].tolist(), "frames": None}
    obj = build(s1)
    pol = np.array(s1["params"].get("pol", (0.1, 0.2, 0.3)), dtype=float)
    for backend, kw in (("plotly", {"style_magnetization_mode": "arrow"}), ("matplotlib", {})):
        tr, _ = to_metres(do_show([obj], {**show_kwargs({**s1, "backend": backend}), **kw}))
        lines = [t for t in tr if t["type"] == "scatter3d" and not is_path_trace(t) and "lines" in t["mode"]]
        if not pol.any():
            if lines:
                return ("placed-at-pose", "a magnetization arrow is drawn for an unmagnetised body")
            continue
        if len(lines) != 1:
            return ("placed-at-pose", f"{backend}: {len(lines)} magnetization arrows drawn, expected 1")
        pts = lines[0]["xyz"]
        pts = pts[~np.isnan(pts).any(axis=1)]
        pos, rot = path_arrays(s1)
        want_tail = np.array(getattr(obj, "barycenter", obj.position), dtype=float).reshape(-1, 3)[-1]
        want_dir = rot[0].apply(pol / np.linalg.norm(pol))
        shaft = pts[-1] - pts[0]
        L = max(np.linalg.norm(shaft), 1e-300)
        if np.linalg.norm(pts[0] - want_tail) > 1e-9 * (np.abs(pos).max() + body_size(s1) + L):
            return ("placed-at-pose", f"{backend}: the magnetization arrow does not start at the barycenter")
        if np.linalg.norm(shaft / L - want_dir) > 1e-6:
            return ("placed-at-pose", f"{backend}: the magnetization arrow does not point along the magnetization")
        head = pts[1:-1]
        if len(head) and ((head - pts[0]) @ want_dir).max() > L * (1 + 1e-9):
            return ("placed-at-pose", f"{backend}: the arrow head lies beyond the shaft")
    return None


def check_orientation_symbols(spec):
    """Triangle / TriangularMesh with style.orientation.show: every facet's arrow sits on the facet's axis
    (through its centroid) and points along the facet normal given by the vertex order (right-hand rule)"""
    cls = spec["cls"]
    if cls not in ("Triangle", "TriangularMesh"):
        return None
    ref = {**spec, "pos": [0.0, 0.0, 0.0], "rotvec": [0.0, 0.0, 0.0], "frames": None, "units": "m", "backend": "plotly"}
    obj = build(ref)
    if cls == "Triangle":
        verts, faces = np.array(obj.vertices, dtype=float), np.array([[0, 1, 2]])
    else:
        verts, faces = np.array(obj.vertices, dtype=float), np.array(obj.faces)
    tr, _ = to_metres(do_show([obj], {"backend": "plotly", "return_fig": True, "units_length": "m",
                                      "style_orientation_show": True, "style_magnetization_show": False}))
    meshes = [t for t in tr if t["type"] == "mesh3d"]
    if len(meshes) != 2:
        return ("placed-at-pose", f"{len(meshes)} meshes drawn, expected the body and its orientation symbols")
    sym = max(meshes, key=lambda t: len(t["xyz"]))["xyz"]
    if len(sym) % len(faces):
        return ("placed-at-pose", "orientation symbols cannot be assigned to the facets")
    k = len(sym) // len(faces)
    for fi, f in enumerate(faces):
        a, b, c = verts[f]
        n = np.cross(b - a, c - b)
        n = n / np.linalg.norm(n)
        cen = (a + b + c) / 3
        pts = sym[fi * k:(fi + 1) * k] - cen
        ax = pts @ n
        rad = np.linalg.norm(pts - np.outer(ax, n), axis=1)
        ext = max(np.ptp(ax), 1e-300)
        top, bottom = rad[ax > ax.max() - 1e-9 * ext], rad[ax < ax.min() + 1e-9 * ext]
        if top.max() > 1e-6 * ext or bottom.max() < 1e-3 * ext:
            return ("placed-at-pose", "a facet's orientation arrow does not point along the facet normal "
                                      "(right-hand rule of its vertex order)")
    return None


def safe_check(fn, spec):
    try:
        return fn(spec)
    except Exception as e:   # pylint: disable=broad-except
        return ("raises", f"{type(e).__name__}: {str(e)[:200]}")


def shrink_spec(spec, fails):
    """greedy simplification that keeps the same clause failing"""
    cur = copy.deepcopy(spec)
    pos, rot = path_arrays(cur)
    cur["pos"], cur["rotvec"] = pos.tolist(), rot.as_rotvec().tolist()

    def attempt(c):
        try:
            return fails(c)
        except Exception:   # pylint: disable=broad-except
            return False
    for key, val in (("frames", None), ("units", "m"), ("backend", "plotly")):
        if cur.get(key) != val and attempt({**cur, key: val}):
            cur = {**cur, key: val}
    cands = []
    n = len(cur["pos"])
    if n > 1:
        cands.append({**cur, "pos": cur["pos"][-1:], "rotvec": cur["rotvec"][-1:]})
        cands.append({**cur, "pos": cur["pos"][:2], "rotvec": cur["rotvec"][:2]})
    for c in cands:
        if attempt(c):
            cur = c
            break
    L = body_size(cur)
    if L > 0 and abs(math.log10(L / 0.1)) > 0.05:
        unit = rescale_params(cur, 0.1 / L)       # the same object at size 0.1
        if attempt(unit):
            cur = unit
        else:
            cur = {**cur, "scale_dependent": True}
    z = [[0.0, 0.0, 0.0]] * len(cur["pos"])
    if attempt({**cur, "rotvec": z}):
        cur = {**cur, "rotvec": z}
    if attempt({**cur, "pos": z}):
        cur = {**cur, "pos": z}
    return cur


def report(ctx, spec, res, fn=check_single):
    clause = res[0]
    seen = ctx.__dict__.setdefault("_c19_reported", {})
    key = (clause, spec["cls"], fn.__name__)
    seen[key] = seen.get(key, 0) + 1
    if seen[key] > 3:          # same clause on the same class many times: do not shrink each of them again
        for f in ctx.impl_failures:
            if f["signature"].startswith(f"{clause}/{spec['cls']}:"):
                f["count"] += 1
                return
    small = shrink_spec(spec, lambda s: (safe_check(fn, s) or (None,))[0] == clause)
    res2 = safe_check(fn, small) or res
    ctx.impl_fail(f"{clause}/{small['cls']}:{features(small)}", res2[1], small)


# ---------------------------------------------------------------------------------------------------------
# scenes: collections, nesting, several objects -- drawn vertices = union of the objects drawn alone
def vertex_cloud(traces, kind):
    if kind == "mesh3d":
        sel = [t["xyz"] for t in traces if t["type"] == "mesh3d"]
    elif kind == "path":
        sel = [t["xyz"] for t in traces if is_path_trace(t)]
    else:
        sel = [t["xyz"] for t in traces if t["type"] == "scatter3d" and not is_path_trace(t)]
    if not sel:
        return np.zeros((0, 3))
    a = np.vstack(sel)
    return a[~np.isnan(a).any(axis=1)]


def same_cloud(a, b, tol):
    if a.shape != b.shape:
        return False
    if len(a) == 0:
        return True
    ka = np.lexsort(np.round(a / tol / 1e3).T[::-1])
    kb = np.lexsort(np.round(b / tol / 1e3).T[::-1])
    if np.abs(a[ka] - b[kb]).max() <= tol:
        return True
    # robust fallback (sorting ties): nearest neighbour both ways
    from scipy.spatial import cKDTree
    return cKDTree(a).query(b)[0].max() <= tol and cKDTree(b).query(a)[0].max() <= tol


def gen_scene(rng, classes):
    k = rng.randint(2, 4)
    leaves = []
    for _ in range(k):
        s = gen_single(rng, rng.choice(classes))
        s.pop("frames"), s.pop("units"), s.pop("backend")
        leaves.append(s)
    # nesting: a tree as nested lists of leaf indices; moves applied to collections afterwards
    shape = rng.choice(["flat", "nested", "deep"])
    moves = [{"d": [round(rng.uniform(-3, 3), 2) for _ in range(3)],
              "rotvec": [round(rng.uniform(-1, 1), 2) for _ in range(3)]} for _ in range(3)]
    return {"kind": "scene", "cls": "Collection", "leaves": leaves, "shape": shape, "moves": moves,
            "frames": rng.choice([None, 1, 2, [0, -1]]), "units": rng.choice(["auto", "m", "mm", "km"]),
            "backend": "plotly", "pos": [0, 0, 0], "rotvec": [0, 0, 0]}


def build_scene(spec):
    objs = [build(s) for s in spec["leaves"]]
    mv = spec["moves"]

    def moved(col, m):
        col.move(m["d"])
        col.rotate(R.from_rotvec(m["rotvec"]), anchor=0)
        return col
    if spec["shape"] == "flat":
        top = moved(magpy.Collection(*objs), mv[0])
    elif spec["shape"] == "nested":
        inner = moved(magpy.Collection(*objs[1:]), mv[0])
        top = moved(magpy.Collection(objs[0], inner), mv[1])
    else:
        inner = moved(magpy.Collection(objs[-1]), mv[0])
        mid = moved(magpy.Collection(inner, *objs[1:-1]), mv[1])
        top = moved(magpy.Collection(objs[0], mid), mv[2])
    return top, objs


def check_scene(spec):
    top, objs = build_scene(spec)
    kw = {"backend": spec["backend"], "return_fig": True, "units_length": spec["units"],
          "style_sizemode": "absolute"}
    if spec["frames"] is not None:
        kw["style_path_frames"] = spec["frames"]
    # a selection that numpy cannot index for one of the leaves: nothing to compare
    for o in objs:
        if spec_frames(len(o._position), spec["frames"]) is None:
            return None
    whole, _ = to_metres(do_show([top], kw))
    parts = []
    for o in objs:
        tr, _ = to_metres(do_show([o], kw))
        parts += tr
    scale = max(max(np.abs(o._position).max() for o in objs), 1.0) + 5.0
    for kind, clause in (("mesh3d", "placed-at-pose"), ("lines", "current-line")):
        if not same_cloud(vertex_cloud(whole, kind), vertex_cloud(parts, kind), 1e-9 * scale):
            return (clause, f"{kind} vertices of the collection differ from those of its members drawn alone")
    # every member's path line is in the scene
    wp = vertex_cloud(whole, "path")
    for o in objs:
        if len(o._position) > 1:
            for p in o._position:
                if len(wp) == 0 or np.min(np.linalg.norm(wp - p, axis=1)) > 1e-9 * scale:
                    return ("path-line", "a member's path position is missing from the drawn path lines")
    return None


# ---------------------------------------------------------------------------------------------------------
# wave 4: many objects / twins / duplicates, animation of several path lengths, histories, entry points
def clouds_of(traces):
    mk = [t["xyz"] for t in traces if t["type"] == "scatter3d" and t["mode"] == "markers"]
    return {"mesh3d": vertex_cloud(traces, "mesh3d"), "path": vertex_cloud(traces, "path"),
            "lines": vertex_cloud([t for t in traces if not (t["type"] == "scatter3d" and t["mode"] == "markers")], "lines"),
            "markers": np.vstack(mk) if mk else np.zeros((0, 3))}


def uniq(a, tol):
    return np.unique(np.round(a / (tol * 1e3)), axis=0) * (tol * 1e3) if len(a) else a


def clouds_differ(a, b, tol, as_sets=False):
    for kind in ("mesh3d", "lines", "path", "markers"):
        x, y = (uniq(a[kind], tol), uniq(b[kind], tol)) if as_sets else (a[kind], b[kind])
        if not same_cloud(x, y, tol):
            return kind
    return None


def gen_many(rng):
    """>= 16 objects of interleaved classes in one call, twins (same geometry, other excitation), one object
    passed twice"""
    leaves = []
    for t in range(rng.randint(16, 19)):
        sp = gen_single(rng, ALL_CLASSES[(5 * t) % len(ALL_CLASSES)])
        sp.pop("frames"), sp.pop("units"), sp.pop("backend")
        leaves.append(sp)
        if t % 5 == 0:
            tw = copy.deepcopy(sp)          # twin: same geometry and pose, other excitation
            for key, val in (("pol", [-0.3, 0.0, 0.2]), ("current", -0.7), ("moment", [0.0, 0.0, -1.0])):
                if key in tw["params"] or (key == "pol" and tw["cls"] in MAGNETS):
                    tw["params"][key] = val
            leaves.append(tw)
    return {"kind": "many", "cls": "Collection", "leaves": leaves, "frames": rng.choice([None, 2, [0, -1]]),
            "units": rng.choice(["auto", "m", "mm"]), "backend": "plotly", "pos": [0, 0, 0], "rotvec": [0, 0, 0]}


def check_many(spec):
    objs = [build(sp) for sp in spec["leaves"]]
    for o in objs:
        if spec_frames(len(o._position), spec["frames"]) is None:
            return None
    kw = {"backend": "plotly", "return_fig": True, "units_length": spec["units"], "style_sizemode": "absolute"}
    if spec["frames"] is not None:
        kw["style_path_frames"] = spec["frames"]
    whole = clouds_of(to_metres(do_show(objs + [objs[0], objs[-1]], kw))[0])       # two objects passed twice
    parts = []
    for o in objs:
        parts += to_metres(do_show([o], kw))[0]
    scale = max(np.abs(o._position).max() for o in objs) + 5.0
    bad = clouds_differ(whole, clouds_of(parts), 1e-9 * scale, as_sets=True)
    if bad:
        return ("placed-at-pose" if bad != "path" else "path-line",
                f"{bad} vertices of {len(objs)} objects shown together differ from the objects drawn alone")
    return None


def gen_anim_scene(rng):
    a = gen_single(rng, rng.choice(["Cuboid", "Cylinder", "Tetrahedron", "Sphere"]))
    b = gen_single(rng, rng.choice(["Cuboid", "CylinderSegment", "TriangularMesh"]))
    m0, M = rng.choice([(2, 4), (3, 5), (2, 5), (1, 3)])
    pa, ra = gen_pose(rng, max(m0, 2))
    pb, rb = gen_pose(rng, M)
    a["pos"], a["rotvec"] = (pa[:m0], ra[:m0])
    b["pos"], b["rotvec"] = pb, rb
    return {"kind": "anim-scene", "cls": "Collection", "leaves": [a, b], "nest": rng.random() < 0.5,
            "pos": [0, 0, 0], "rotvec": [0, 0, 0]}


def check_anim_scene(spec):
    """objects with paths of different lengths animated together: frame k shows each object at path index
    min(k, its last index)"""
    objs = [build(sp) for sp in spec["leaves"]]
    show_objs = [objs[0], magpy.Collection(objs[1])] if spec.get("nest") else objs
    M = max(len(o._position) for o in objs)
    kw = {"backend": "plotly", "return_fig": True, "units_length": "m", "style_magnetization_show": False, **DECOR_OFF}
    fig = magpy.show(*show_objs, animation=True, **kw)
    if len(fig.frames) != M:
        return ("frames", f"animation has {len(fig.frames)} frames for a longest path of {M}")
    locs = []
    for sp in spec["leaves"]:
        ref = {**sp, "pos": [0.0, 0.0, 0.0], "rotvec": [0.0, 0.0, 0.0]}
        locs.append(vertex_cloud(to_metres(do_show([build(ref)], kw))[0], "mesh3d"))
    scale = max(np.abs(o._position).max() for o in objs) + 5.0
    for k, fr in enumerate(fig.frames):
        got = vertex_cloud(to_metres(drawn_plotly(fig, data=fr.data))[0], "mesh3d")
        want = []
        for o, loc in zip(objs, locs):
            e = min(k, len(o._position) - 1)
            want.append(o._orientation[e].apply(loc) + o._position[e])
        if not same_cloud(got, np.vstack(want), 1e-9 * scale):
            return ("placed-at-pose", f"animation frame {k}: objects are not at path index min({k}, last)")
    return None


def gen_anim_long(rng):
    """long paths with animation settings that force down-sampling of the path indices"""
    n1, n2 = rng.randint(150, 400), rng.randint(101, 149)
    a = gen_single(rng, rng.choice(["Cuboid", "Tetrahedron"]))
    b = gen_single(rng, rng.choice(["Cuboid", "Cylinder"]))
    for sp, n in ((a, n1), (b, n2)):
        p0, p1 = (np.array([rng.uniform(-5, 5) for _ in range(3)]) for _ in range(2))
        sp["pos"] = np.linspace(p0, p1, n).round(6).tolist()
        rv = np.array([rng.uniform(-1, 1) for _ in range(3)])
        sp["rotvec"] = (np.linspace(0, 1, n)[:, None] * rv * 2.5).round(6).tolist()
    kw = rng.choice([{}, {"animation_maxframes": rng.randint(7, 60)},
                     {"animation": rng.choice([1, 2, 3]), "animation_fps": rng.choice([5, 8, 13])},
                     {"animation_time": 2, "animation_fps": 9, "animation_maxframes": 500}])
    return {"kind": "anim-long", "cls": "Collection", "leaves": [a, b] if rng.random() < 0.5 else [a], "anim_kw": kw,
            "pos": [0, 0, 0], "rotvec": [0, 0, 0]}


def check_anim_long(spec):
    """every animation frame announces a path index (frame name / title, 1-based): the objects must be drawn at
    the pose they have at that index (their last one if their path is shorter), and the last index must be shown"""
    objs = [build(sp) for sp in spec["leaves"]]
    M = max(len(o._position) for o in objs)
    kw = {"backend": "plotly", "return_fig": True, "units_length": "m", "style_magnetization_show": False,
          "style_path_show": False, "animation": True, **DECOR_OFF, **spec["anim_kw"]}
    fig = magpy.show(*objs, **kw)
    locs = []
    for sp in spec["leaves"]:
        ref = {**sp, "pos": [0.0, 0.0, 0.0], "rotvec": [0.0, 0.0, 0.0]}
        locs.append(vertex_cloud(to_metres(do_show([build(ref)], {"backend": "plotly", "return_fig": True,
                                 "units_length": "m", "style_magnetization_show": False, **DECOR_OFF}))[0], "mesh3d"))
    scale = max(np.abs(o._position).max() for o in objs) + 5.0
    announced = []
    for fr in fig.frames:
        try:
            k = int(fr.name) - 1
        except (TypeError, ValueError):
            return ("frames", f"animation frame name {fr.name!r} does not announce a path index")
        ttl = fr.layout.title.text if fr.layout is not None and fr.layout.title is not None else None
        if ttl and "path index:" in ttl and int(ttl.split("path index:")[1]) - 1 != k:
            return ("frames", f"frame name {fr.name!r} and title {ttl!r} announce different path indices")
        if not 0 <= k < M:
            return ("frames", f"frame announces path index {k} for a longest path of {M}")
        announced.append(k)
        got = vertex_cloud(to_metres(drawn_plotly(fig, data=fr.data))[0], "mesh3d")
        want = np.vstack([o._orientation[min(k, len(o._position) - 1)].apply(loc) + o._position[min(k, len(o._position) - 1)]
                          for o, loc in zip(objs, locs)])
        if not same_cloud(got, want, 1e-9 * scale):
            return ("placed-at-pose", f"the animation frame announcing path index {k} does not show the objects at "
                                      f"path index {k}")
    if not announced or announced[-1] != M - 1 or announced[0] != 0:
        return ("frames", f"the animation runs over path indices {announced[:1]}..{announced[-1:]}, the path is 0..{M - 1}")
    return None


MUTATIONS = ["move-top", "rotate-top", "move-child", "setpos-child", "setori-child", "style-frames", "style-color",
             "resize", "remove", "add", "defaults-frames", "defaults-reset", "reset-path", "bad-show", "read"]


def apply_mutation(top, objs, m, extra):
    k = m["op"]
    o = objs[m["i"] % len(objs)]
    if k == "move-top":
        top.move(m["v"])
    elif k == "rotate-top":
        top.rotate(R.from_rotvec(m["v"]), anchor=m.get("anchor"))
    elif k == "move-child":
        o.move([m["v"], [2 * c for c in m["v"]]])
    elif k == "setpos-child":
        o.position = [m["v"], [c + 1 for c in m["v"]], [c - 1 for c in m["v"]]]
    elif k == "setori-child":
        o.orientation = R.from_rotvec(m["v"])
    elif k == "style-frames":
        o.style.path.frames = m["frames"]
    elif k == "style-color":
        o.style.update(color="#123456", opacity=0.5)
    elif k == "resize":
        for attr, val in (("dimension", None), ("diameter", 1.7), ("moment", (0.0, -2.0, 0.0)), ("pixel", [(0.2, 0, 0), (0, 0.3, 0)])):
            if hasattr(o, attr) and getattr(o, attr) is not None:
                if val is None:
                    val = np.array(getattr(o, attr), dtype=float)
                    val[:3] = val[:3] * 1.5            # lengths only (a CylinderSegment's angles stay)
                setattr(o, attr, val)
                break
        else:
            if hasattr(o, "vertices") and not hasattr(o, "faces"):
                o.vertices = np.array(o.vertices, dtype=float)[::-1] * 1.5 + 0.25
    elif k == "remove":
        if getattr(o, "parent", None) is not None and len(objs) > 1:
            o.parent.remove(o)
    elif k == "add":
        if extra.parent is None:
            top.add(extra)
    elif k == "defaults-frames":
        magpy.defaults.display.style.base.path.frames = m["frames"]
    elif k == "defaults-reset":
        magpy.defaults.reset()
        magpy.defaults.reset()
    elif k == "reset-path":
        o.reset_path()
    elif k == "read":
        _ = (o.style.as_dict(), o.position, top.children_all if hasattr(top, "children_all") else None, repr(o))
    elif k == "bad-show":
        import matplotlib.pyplot as plt
        try:
            magpy.show(top, backend="plotly", return_fig=True, units_length="xx")
        except ValueError:
            pass
        finally:
            plt.close("all")


def gen_history(rng):
    sc = gen_scene(rng, ALL_CLASSES)
    sc["kind"] = "history"
    sc["frames"] = None
    sc["units"] = rng.choice(["m", "mm", "auto"])
    sc["extra"] = {**gen_single(rng, rng.choice(["Cuboid", "Polyline", "Sphere"]))}
    muts = []
    for _ in range(rng.randint(2, 5)):
        muts.append({"op": rng.choice(MUTATIONS), "i": rng.randrange(8),
                     "v": [round(rng.uniform(-2, 2), 2) for _ in range(3)],
                     "anchor": rng.choice([None, 0, [1.0, 0.5, -1.0]]), "frames": rng.choice([1, 2, [0], [0, -1]])})
    sc["mutations"] = muts
    sc["shows"] = rng.choice([1, 2])
    return sc


def check_history(spec):
    """show -> public mutations (moves, setters, tree edits, style and defaults updates/resets, a rejected show,
    reads) -> show: the second figure is the figure of a twin built directly in the final state"""
    kw = {"backend": "plotly", "return_fig": True, "units_length": spec["units"], "style_sizemode": "absolute"}
    magpy.defaults.reset()
    try:
        top, objs = build_scene(spec)
        extra = build(spec["extra"])
        for _ in range(spec.get("shows", 1)):
            do_show([top], kw)
        for m in spec["mutations"]:
            apply_mutation(top, objs, m, extra)
        frames_now = [o.style.path.frames for o in all_objs(top) if not hasattr(o, "children")]
        dflt = magpy.defaults.display.style.base.path.frames
        for o, fr in zip([o for o in all_objs(top) if not hasattr(o, "children")], frames_now):
            if spec_frames(len(o._position), fr if fr is not None else dflt) is None:
                return None
        got = clouds_of(to_metres(do_show([top], kw))[0])
        magpy.defaults.reset()
        top2, objs2 = build_scene(spec)
        extra2 = build(spec["extra"])
        for m in spec["mutations"]:
            if m["op"] != "bad-show":
                apply_mutation(top2, objs2, m, extra2)
        want = clouds_of(to_metres(do_show([top2], kw))[0])
    finally:
        magpy.defaults.reset()
    scale = max(np.abs(o._position).max() for o in all_objs(top)) + 5.0
    bad = clouds_differ(got, want, 1e-9 * scale)
    if bad:
        return ("placed-at-pose" if bad != "path" else "path-line",
                f"{bad} vertices after show/mutate/show differ from a fresh twin in the same final state")
    return None


ENTRY_POINTS = ["args", "list", "collection-method", "context", "plotly-canvas", "mpl-canvas", "subplot-col2",
                "frames-style-dict", "frames-style-nested", "frames-on-object", "markers", "markers-ndarray"]


def gen_entry(rng):
    sc = gen_scene(rng, MAGNETS + CURRENTS)
    sc["kind"] = "entry"
    sc["frames"] = rng.choice([2, [0, -1], 1])
    sc["units"] = rng.choice(["m", "mm"])
    sc["entry"] = rng.choice(ENTRY_POINTS)
    return sc


def check_entry(spec):
    """the same scene through every public way of calling show / passing the frame selection draws the same"""
    import matplotlib.pyplot as plt
    import plotly.graph_objects as go
    top, objs = build_scene(spec)
    for o in objs:
        if spec_frames(len(o._position), spec["frames"]) is None:
            return None
    base = {"units_length": spec["units"], "style_path_frames": spec["frames"]}
    ref = clouds_of(to_metres(do_show([top], {"backend": "plotly", "return_fig": True, **base}))[0])
    e = spec["entry"]
    marks = np.array([[1.0, 2.0, 3.0], [-4.0, 0.5, 6.0]])
    try:
        if e == "args":
            dr = drawn_plotly(magpy.show(*top.children, top, backend="plotly", return_fig=True, **base))
        elif e == "list":
            dr = drawn_plotly(magpy.show([top], backend="plotly", return_fig=True, **base))
        elif e == "collection-method":
            dr = drawn_plotly(top.show(backend="plotly", return_fig=True, **base))
        elif e == "context":
            with magpy.show_context(top, backend="plotly", return_fig=True, **base) as ctxm:
                magpy.show()
            dr = drawn_plotly(ctxm.show_return_value)
        elif e == "plotly-canvas":
            f = go.Figure()
            magpy.show(top, canvas=f, canvas_update=True, **base)
            dr = drawn_plotly(f)
        elif e == "mpl-canvas":
            ax = plt.figure().add_subplot(projection="3d")
            magpy.show(top, canvas=ax, canvas_update=True, style_magnetization_show=False, **base)
            dr = drawn_matplotlib(ax.figure)
            ref = clouds_of(to_metres(do_show([top], {"backend": "matplotlib", "return_fig": True,
                                                        "style_magnetization_show": False, **base}))[0])
        elif e == "subplot-col2":
            dr = drawn_plotly(magpy.show(top, backend="plotly", return_fig=True, col=2, **base), scene="scene2")
        elif e == "frames-style-dict":
            dr = drawn_plotly(magpy.show(top, backend="plotly", return_fig=True, units_length=spec["units"],
                                         style={"path_frames": spec["frames"]}))
        elif e == "frames-style-nested":
            dr = drawn_plotly(magpy.show(top, backend="plotly", return_fig=True, units_length=spec["units"],
                                         style_path={"frames": spec["frames"]}))
        elif e == "frames-on-object":
            for o in all_objs(top):
                o.style.path.frames = spec["frames"]
            dr = drawn_plotly(magpy.show(top, backend="plotly", return_fig=True, units_length=spec["units"]))
        else:
            dr = drawn_plotly(magpy.show(top, backend="plotly", return_fig=True,
                                         markers=marks if e == "markers-ndarray" else marks.tolist(), **base))
            ref["markers"] = np.array([[1.0, 2.0, 3.0], [-4.0, 0.5, 6.0]])
            if not np.array_equal(marks, [[1.0, 2.0, 3.0], [-4.0, 0.5, 6.0]]):
                return ("unmodified-arguments", "show changed the markers array passed by the caller")
    finally:
        plt.close("all")
    got = clouds_of(to_metres(dr)[0])
    scale = max(np.abs(o._position).max() for o in objs) + 8.0
    bad = clouds_differ(got, ref, 1e-9 * scale)
    if bad:
        return ("placed-at-pose" if bad not in ("path",) else "path-line",
                f"{bad} vertices drawn through entry point {e!r} differ from show(collection)")
    return None


# ---------------------------------------------------------------------------------------------------------
# show() modifies nothing
def _canon(d):
    return re.sub(r" at 0x[0-9a-f]+", "", json.dumps(d, sort_keys=True, default=repr))


def style_dict(o):
    return _canon(o.style.as_dict())


def public_state(o):
    st = {"cls": type(o).__name__, "pos": o._position.copy(), "ori": o._orientation.as_quat().copy(),
          "style": style_dict(o), "parent": id(o.parent) if getattr(o, "parent", None) is not None else None}
    for a in ("dimension", "polarization", "magnetization", "diameter", "vertices", "faces", "current", "moment",
              "pixel", "handedness"):
        if hasattr(o, a):
            v = getattr(o, a)
            st[a] = None if v is None else np.array(v).copy() if not isinstance(v, str) else v
    if hasattr(o, "children"):
        st["children"] = [id(c) for c in o.children]
    return st


def raw_state(o):
    """private arrays byte for byte, identity of the style object, everything else in __dict__ by repr"""
    out = {}
    for k, v in vars(o).items():
        if k in ("_style", "_style_kwargs"):
            continue          # lazily materialised by the `style` getter; compared through public_state of a twin
        if isinstance(v, np.ndarray):
            out[k] = ("arr", v.dtype.str, v.shape, v.tobytes())
        elif isinstance(v, R):
            out[k] = ("rot", v.as_quat().tobytes())
        elif isinstance(v, (list, tuple)) and all(hasattr(x, "_position") for x in v):
            out[k] = ("objs", [id(x) for x in v])
        elif hasattr(v, "_position"):
            out[k] = ("obj", id(v))
        elif callable(v):
            out[k] = ("fn", id(v))
        else:
            out[k] = ("repr", repr(v))
    return out


def diff_state(a, b):
    """first key whose value differs.  TriangularMesh `_status_*` check results may go from None to a computed
    value: show() announces with a warning that it runs the unchecked status checks"""
    for k in a:
        if k.startswith("_status_") and a[k] == ("repr", "None"):
            continue
        if k not in b:
            return k
        x, y = a[k], b[k]
        if isinstance(x, np.ndarray) or isinstance(y, np.ndarray):
            if x is None or y is None or np.shape(x) != np.shape(y) or not np.array_equal(x, y):
                return k
        elif x != y:
            return k
    for k in b:
        if k not in a:
            return k
    return None


def defaults_state():
    return _canon(magpy.defaults.as_dict())


def all_objs(top):
    out = [top]
    for c in getattr(top, "children", []):
        out += all_objs(c)
    return out


BAD_SHOWS = [
    ("bad-units", {"units_length": "xx"}),
    ("bad-units-empty", {"units_length": ""}),
    ("bad-frames", {"style_path_frames": [-99]}),
    ("bad-style-key", {"style_nosuchkey": 1}),
    ("bad-style-value", {"style_opacity": "x"}),
    ("bad-backend", {"backend": "nonexistent"}),
    ("bad-markers", {"markers": [1, 2]}),
    ("bad-zoom", {"zoom": -3}),
    ("bad-animation", {"animation": "yes"}),
    ("bad-output", {"output": "Qx", "col": 2}),
    ("bad-extra-trace", None),          # an extra model3d trace without x coordinates (raises inside the body)
    ("bad-canvas", {"canvas": "nocanvas"}),
]


BAD_TRACE = {"y": [0.0], "z": [0.0]}     # no "x": place_and_orient_model3d raises inside the drawing body


def check_unchanged(spec):
    """show() -- returning or raising -- leaves objects, styles and defaults as they were.
    spec: scene or single spec + 'bad': name of a failing argument set or None + 'materialise': bool"""
    def make():
        if spec["kind"] == "scene":
            top, _ = build_scene(spec)
            return top
        return build(spec)
    magpy.defaults.reset()
    for k, v in spec.get("defaults", {}).items():
        magpy.defaults.display.style.update({k: v}) if k != "backend" else None
    top, twin = make(), make()
    objs = all_objs(top)
    if spec.get("materialise", True):
        for o in objs:
            _ = o.style
    bad = spec.get("bad")
    kw = {"backend": spec.get("backend", "plotly"), "return_fig": True}
    if spec.get("frames") is not None:
        kw["style_path_frames"] = spec["frames"]
    if spec.get("units", "default") != "default":
        kw["units_length"] = spec["units"]
    kw.update(spec.get("show_kw", {}))
    user_kw = copy.deepcopy(kw)
    if bad is not None:
        extra = dict(BAD_SHOWS)[bad]
        if extra is None:
            for o in objs:
                if not hasattr(o, "children"):
                    o.style.model3d.add_trace(backend="generic", constructor="scatter3d", kwargs=dict(BAD_TRACE))
            for o in all_objs(twin):
                if not hasattr(o, "children"):
                    o.style.model3d.add_trace(backend="generic", constructor="scatter3d", kwargs=dict(BAD_TRACE))
        else:
            kw.update(extra)
            user_kw = copy.deepcopy(kw)
    ids = [(id(getattr(o, "_style", None)) if getattr(o, "_style", None) is not None else None) for o in objs]
    raw0 = [raw_state(o) for o in objs]
    d0 = defaults_state()
    import matplotlib.pyplot as plt
    raised = None
    try:
        magpy.show(top, **kw)
    except Exception as e:   # pylint: disable=broad-except
        raised = e
    finally:
        plt.close("all")
    if bad is not None and raised is None:
        return None          # accepted after all: nothing this check is about
    if bad is None and raised is not None:
        exp_n = [spec_frames(len(o._position), spec.get("frames")) for o in objs if not hasattr(o, "children")]
        if not any(e is None for e in exp_n):
            return ("raises", f"valid show raised {type(raised).__name__}: {str(raised)[:200]}")
    tag = "after-exception" if raised is not None else "after-show"
    if json.dumps(kw, sort_keys=True, default=repr) != json.dumps(user_kw, sort_keys=True, default=repr):
        return ("unmodified-arguments", f"{tag}: a keyword argument of show was changed")
    if defaults_state() != d0:
        return ("unmodified-defaults", f"{tag}: magpylib.defaults changed")
    for o, i0, r0 in zip(objs, ids, raw0):
        if i0 is not None and id(getattr(o, "_style", None)) != i0:
            return ("unmodified-style", f"{tag}: {type(o).__name__}._style is not the object's own style any more")
        k = diff_state(r0, raw_state(o))
        if k is not None:
            return ("unmodified-object", f"{tag}: {type(o).__name__}.{k} changed")
    for o, t in zip(objs, all_objs(twin)):
        a, b = public_state(o), public_state(t)
        for key in ("parent", "children"):
            a.pop(key, None), b.pop(key, None)
        k = diff_state(a, b)
        if k is not None:
            return ("unmodified-style" if k == "style" else "unmodified-object",
                    f"{tag}: {type(o).__name__}.{k} differs from an identical object that was never shown")
    return None


def report_unchanged(ctx, spec, res):
    trig = spec.get("bad") or "valid"
    ctx.impl_fail(f"{res[0]}/{trig}:{spec['cls']}{'' if spec.get('materialise', True) else ':lazy-style'}",
                  res[1], spec)


# ---------------------------------------------------------------------------------------------------------
# backends agree on the drawn geometry (plotly figure vs matplotlib data)
def check_backends(spec):
    cls = spec["cls"]
    a, _ = to_metres(do_show([build(spec)], {**show_kwargs({**spec, "backend": "plotly"}),
                                             "style_magnetization_show": False}))
    b, ub = to_metres(do_show([build(spec)], {**show_kwargs({**spec, "backend": "matplotlib"}),
                                              "style_magnetization_show": False}))
    want = spec.get("units", "default")
    if want not in ("default", "auto") and ub != want:
        return ("unit-label", f"matplotlib axes announce {ub!r} for units_length={want!r}")
    pos, _ = path_arrays(spec)
    scale = np.abs(pos).max() + 5
    if cls in CURRENTS:
        ca, cb = vertex_cloud(a, "lines"), vertex_cloud(b, "lines")
    else:
        ta = [t for t in a if t["type"] == "mesh3d"]
        ca = np.vstack([t["xyz"][t["ijk"].ravel()] if "ijk" in t else t["xyz"] for t in ta]) if ta else np.zeros((0, 3))
        cb = vertex_cloud(b, "mesh3d")
        ca, cb = np.unique(np.round(ca, 9), axis=0), np.unique(np.round(cb, 9), axis=0)
    from scipy.spatial import cKDTree
    if len(ca) == 0 or len(cb) == 0:
        return ("placed-at-pose", "a backend drew no body") if len(ca) != len(cb) else None
    if cKDTree(ca).query(cb)[0].max() > 1e-8 * scale or cKDTree(cb).query(ca)[0].max() > 1e-8 * scale:
        return ("placed-at-pose", "matplotlib draws other body vertices than plotly")
    pa, pb = vertex_cloud(a, "path"), vertex_cloud(b, "path")
    if pa.shape != pb.shape or (len(pa) and np.abs(pa - pb).max() > 1e-9 * scale):
        return ("path-line", "matplotlib path line differs from plotly's")
    return None


# matplotlib with the magnetisation colouring (mesh is sliced: new vertices on the facets)
def check_mpl_sliced(spec):
    cls = spec["cls"]
    s1 = {**spec, "pos": np.reshape(spec["pos"], (-1, 3))[-1].tolist(),
          "rotvec": np.reshape(spec["rotvec"], (-1, 3))[-1].tolist(), "frames": None, "backend": "matplotlib"}
    tr, _ = to_metres(do_show([build(s1)], show_kwargs(s1)))
    pos, rot = path_arrays(s1)
    cloud = vertex_cloud(tr, "mesh3d")
    if len(cloud) == 0:
        return ("placed-at-pose", "matplotlib drew no body")
    local = rot[0].inv().apply(cloud - pos[0])
    L, dist, truth, allow, _ = body_geometry(s1, build({**s1, "pos": [0, 0, 0], "rotvec": [0, 0, 0]}))
    worst = max(dist(q) for q in local)
    slack = {"Cuboid": 1e-7, "Tetrahedron": 1e-7, "TriangularMesh": 1e-7, "Triangle": 4e-3}.get(cls, 0.03)
    if worst > slack * L + 1e-9 * np.abs(pos).max():
        return ("on-surface", f"matplotlib: a drawn vertex is {worst / L:.3g} x size away from the surface")
    gap = support_gap(local, truth, L)
    if gap > allow + 1e-7:
        return ("full-extent", f"matplotlib: the body sticks out of the drawn model by {gap:.3g} x size")
    return None


# animation: frame k of the plotly animation shows the object at path index k
def check_animation(spec):
    pos, rot = path_arrays(spec)
    n = len(pos)
    if n < 2:
        return None
    obj = build(spec)
    fig = magpy.show(obj, animation=True, **show_kwargs({**spec, "backend": "plotly", "units": "m", "frames": None}))
    ref_spec = {**spec, "pos": [0.0, 0.0, 0.0], "rotvec": [0.0, 0.0, 0.0], "frames": None, "units": "m"}
    ref_tr, _ = to_metres(do_show([build(ref_spec)], show_kwargs(ref_spec)))
    local = body_traces(ref_tr, spec["cls"])[0]["xyz"]
    if len(fig.frames) != n:
        return ("frames", f"animation has {len(fig.frames)} frames for a path of {n}")
    for k, fr in enumerate(fig.frames):
        tr, _ = to_metres(drawn_plotly(fig, data=fr.data))
        body = body_traces(tr, spec["cls"])
        if len(body) != 1 or body[0]["xyz"].shape != local.shape:
            return ("frames", "animation frame does not contain exactly one copy of the body")
        want = rot[k].apply(local) + pos[k]
        if np.abs(body[0]["xyz"] - want).max() > 1e-9 * (np.abs(pos).max() + np.ptp(local, axis=0).max() + 1e-300):
            return ("placed-at-pose", f"animation frame {k} does not show the object at path index {k}")
    return None


# ---------------------------------------------------------------------------------------------------------
# stage 3: correspondence
CASES_HEADER = """From Coq Require Import ZArith List Bool.
From MV Require Import Lib.ListZ Lib.Rigid Lib.OctZ Gen.GenUnits Model.DisplayModel Model.DisplayExec.
Import ListNotations. Open Scope Z_scope.
"""


def c_sel(s):
    if s is None:
        return "SelNone"
    if isinstance(s, bool):
        return f"(SelBool {'true' if s else 'false'})"
    if isinstance(s, int):
        return f"(SelInt {cz(s)})"
    return "(SelList " + clist([cz(i) for i in s]) + ")"


def c_path(pos, oris):
    return clist([f"({cv(p)}, {coct(o)})" for p, o in zip(pos, oris)])


def c_vlist(vs):
    return clist([cv(v) for v in vs])


def gen_selectors(n, rng, exhaustive):
    sels = [None, True, False] + list(range(-n - 2, n + 3))
    pool = list(range(-n - 1, n + 3))
    lists = [[]] + [[i] for i in pool] + [[i, j] for i in pool for j in pool if i != j][::3]
    if not exhaustive:
        lists = [[]] + [[rng.choice(pool) for _ in range(rng.randint(1, 4))] for _ in range(12)]
    else:
        lists += [[rng.choice(pool) for _ in range(rng.randint(3, 5))] for _ in range(10)]
    return sels + lists


def frames_cases(ctx, rng):
    out = []
    for n in range(1, 6):
        pos = [[rng.randint(-5, 5) for _ in range(3)] for _ in range(n)]
        oris = [rng.randrange(24) for _ in range(n)]
        s = magpy.Sensor(position=pos, orientation=octa.rot(oris))
        for sel in gen_selectors(n, rng, ctx.tier == "thorough"):
            arg = tuple(sel) if isinstance(sel, list) and rng.random() < 0.5 else sel
            try:
                rots, poss, inds = get_rot_pos_from_path(s, arg)
                exp = ("(Some (" + clist([coct(octa.rot_index(m)) for m in rots.as_matrix()]) + ", " +
                       c_vlist(octa.ints(poss)) + ", " + clist([cz(i) for i in inds]) + "))")
                outcome = "ok"
            except IndexError:
                exp, outcome = "None", "IndexError"
            out.append((f"(CFrames {c_path(pos, oris)} {c_sel(sel)} {exp})",
                        {"kind": "frames", "n": n, "sel": sel, "outcome": outcome}))
            ctx.bump("frames-sel:" + ("none" if sel is None else type(sel).__name__) + ":" + outcome)
    return out


def place_cases(ctx, rng, count):
    out = []
    for _ in range(count):
        ori = None if rng.random() < 0.3 else rng.randrange(24)
        pos = None if rng.random() < 0.3 else [rng.randint(-6, 6) for _ in range(3)]
        scale = rng.choice([1, 1, 2, 3, -1])
        lf = rng.choice([1, 1, 10, 1000, 2])
        vs = [[rng.randint(-4, 4) for _ in range(3)] for _ in range(rng.randint(1, 4))]
        x, y, z = np.array(vs, dtype=float).T
        tr = place_and_orient_model3d({"x": x, "y": y, "z": z, "type": "scatter3d"},
                                      orientation=None if ori is None else octa.rot(ori),
                                      position=pos, scale=scale, length_factor=lf)
        got = octa.ints(np.array([tr["x"], tr["y"], tr["z"]]).T, tol=1e-6)
        out.append((f"(CPlace {copt(ori, coct)} {copt(pos, cv)} {cz(scale)} {cz(lf)} {c_vlist(vs)} {c_vlist(got)})",
                    {"kind": "place", "ori": ori, "pos": pos, "scale": scale, "lf": lf}))
        ctx.bump("place:" + ("early-exit" if ori is None and pos is None and lf == 1 else "general"))
    return out


INT_UNITS = {"m": 1, "dm": 10, "cm": 100, "mm": 1000, "µm": 10 ** 6}


def show_cases(ctx, rng, count):
    out = []
    for _ in range(count):
        n = rng.choice([1, 2, 3, 4, 5])
        pos = [[rng.randint(-5, 5) for _ in range(3)] for _ in range(n)]
        oris = [rng.randrange(24) for _ in range(n)]
        local = [[rng.randint(-3, 3) for _ in range(3)] for _ in range(rng.randint(2, 4))]
        sel = gen_frames(rng, n)
        unit = rng.choice(list(INT_UNITS))
        f = INT_UNITS[unit]
        pl = magpy.current.Polyline(current=1, vertices=local, position=pos, orientation=octa.rot(oris))
        kw = {"backend": "plotly", "return_fig": True, "units_length": unit, "style_arrow_show": False}
        if sel is not None:
            kw["style_path_frames"] = sel
        try:
            dr = do_show([pl], kw)
            lines = [t for t in dr["traces"] if t["type"] == "scatter3d" and not is_path_trace(t)]
            paths = [t for t in dr["traces"] if is_path_trace(t)]
            if len(lines) != 1 or len(paths) > 1:
                raise AssertionError(f"unexpected traces for a Polyline: {len(lines)} line, {len(paths)} path")
            copies = [octa.ints(c, tol=1e-6) for c in split_nan(lines[0]["xyz"])]
            exp = "(Some " + clist([c_vlist(c) for c in copies]) + ")"
            exp_path = "None" if not paths else "(Some " + c_vlist(octa.ints(paths[0]["xyz"], tol=1e-6)) + ")"
            outcome = "ok"
        except IndexError:
            exp, exp_path, outcome = "None", ("None" if n == 1 else "(Some " + c_vlist(
                [[f * c for c in p] for p in pos]) + ")"), "IndexError"
        out.append((f"(CShow {c_path(pos, oris)} {c_sel(sel)} {cz(f)} {c_vlist(local)} {exp} {exp_path})",
                    {"kind": "show", "n": n, "sel": sel, "unit": unit, "outcome": outcome}))
        ctx.bump(f"show:{unit}:{outcome}")
    return out


def triangle_cases(ctx, rng, count):
    """make_Triangle through show(Triangle, units_length='mm'): both branches, integer facets on which
    sqrt(|cross|) is an integer dividing the cross product (exactly representable), in and out of the
    coordinate planes"""
    out = []
    quads = [((2, -1, 0), (0, 1, -1), 3), ((3, -2, 0), (0, 2, -1), 7)]     # e1 x e2 = (1,2,2) / (2,3,6), norm 3 / 7
    for t in range(count):
        kind = t % 4
        off = [rng.randint(-5, 5) for _ in range(3)]
        if kind in (0, 1):
            # right triangle with legs a, b in a coordinate plane, a*b = m^2
            m = rng.choice([1, 2, 3, 6, 10, 30])
            a = rng.choice([d for d in range(1, m * m + 1) if (m * m) % d == 0])
            b = m * m // a
            ax = rng.randrange(3)
            u, w = [(1, 2), (2, 0), (0, 1)][ax]
            e1, e2 = [0, 0, 0], [0, 0, 0]
            e1[u], e2[w] = a * rng.choice([-1, 1]), b * rng.choice([-1, 1])
            v0 = off
            v1 = [v0[i] + e1[i] for i in range(3)]
            v2 = [v1[i] + e2[i] - e1[i] for i in range(3)]      # v2 - v1 = e2 - e1: cross(e1, e2 - e1) = cross(e1, e2)
            mag = [0, 0, 0]
            if kind == 1:
                mag[ax] = rng.choice([-2, 1, 3])
        elif kind == 2:
            (p1, p2, nrm) = quads[rng.randrange(2)]
            tt = rng.choice([1, 2, 5])
            perm = rng.sample(range(3), 3)
            e1 = [nrm * tt * p1[perm[i]] for i in range(3)]
            e2 = [tt * p2[perm[i]] for i in range(3)]
            v0 = off
            v1 = [v0[i] + e1[i] for i in range(3)]
            v2 = [v1[i] + e2[i] for i in range(3)]
            mag = [0, 0, 0]
        else:
            while True:
                v0, v1, v2 = ([rng.randint(-40, 40) for _ in range(3)] for _ in range(3))
                a = np.array([v0, v1, v2])
                mag = [rng.randint(-3, 3) for _ in range(3)]
                if np.abs(np.cross(mag, np.cross(a[1] - a[0], a[2] - a[1]))).max() > 0:
                    break
        v = [v0, v1, v2]
        tri = magpy.misc.Triangle(magnetization=mag, vertices=v)
        dr = do_show([tri], {"backend": "plotly", "return_fig": True, "units_length": "mm",
                             "style_orientation_show": False})
        body = [x for x in dr["traces"] if x["type"] == "mesh3d"]
        if len(body) != 1:
            raise AssertionError("Triangle figure without exactly one mesh")
        got = octa.ints(body[0]["xyz"], tol=1e-6 * max(1.0, np.abs(body[0]["xyz"]).max()))
        out.append((f"(CTri {cv(mag)} {cv(v[0])} {cv(v[1])} {cv(v[2])} {c_vlist(got)})",
                    {"kind": "triangle", "mag": mag, "verts": v, "drawn_vertices": len(got)}))
        ctx.bump("triangle:" + ("thickened" if len(got) == 6 else "plain") + (":oblique" if kind == 2 else ""))
    return out


def triangle_float_check(ctx, rng, count):
    """facets on which sqrt|cross| is irrational (outside the exact model): the implementation's offset along the
    normal is 1e-3*sqrt(|cross|) -- validates the formula the model states, proves nothing"""
    for _ in range(count):
        sc = 10.0 ** rng.choice([-3, -1, 0, 1, 2])
        while True:
            a = np.array([[rng.uniform(-2, 2) * sc for _ in range(3)] for _ in range(3)])
            n = np.cross(a[1] - a[0], a[2] - a[1])
            if np.linalg.norm(n) > 0.3 * sc * sc:
                break
        tri = magpy.misc.Triangle(vertices=a)          # not magnetised: the thickened branch
        dr = do_show([tri], {"backend": "plotly", "return_fig": True, "units_length": "m",
                             "style_orientation_show": False})
        xyz = [x for x in dr["traces"] if x["type"] == "mesh3d"][0]["xyz"]
        nn = np.linalg.norm(n)
        off = np.abs((xyz - a[0]) @ (n / nn))
        ctx.case(("triangle-float", a.round(9).tolist()), True)
        ctx.bump("triangle-float")
        if len(xyz) != 6 or np.abs(off - 1e-3 * math.sqrt(nn)).max() > 1e-9 * math.sqrt(nn):
            ctx.add_broken("broken-correspondence", "make_Triangle offset formula",
                           f"offset along the normal is not 1e-3*sqrt|cross| for vertices {a.tolist()}")
            return


def circle_float_check(ctx, rng, count):
    """Model/DisplayCircle.v states x_k = cos(2 pi k/(base-1)) d/2, y_k = sin(..) d/2, z_k = 0 with base = 72:
    compare with the figure (floats: validates the formula model, proves nothing)"""
    for _ in range(count):
        d = round(rng.uniform(0.01, 50), 4)
        circ = magpy.current.Circle(current=1, diameter=d)
        dr = do_show([circ], {"backend": "plotly", "return_fig": True, "units_length": "m", "style_arrow_show": False})
        lines = [x for x in dr["traces"] if x["type"] == "scatter3d" and not is_path_trace(x)]
        ctx.case(("circle-float", d), True)
        ctx.bump("circle-float")
        t = np.arange(72) * (2 * np.pi / 71)
        want = np.array([np.cos(t) * d / 2, np.sin(t) * d / 2, 0 * t]).T
        if len(lines) != 1 or lines[0]["xyz"].shape != want.shape or np.abs(lines[0]["xyz"] - want).max() > 1e-12 * d:
            ctx.add_broken("broken-correspondence", "make_Circle line formula",
                           f"the drawn circle is not cos/sin(2 pi k/71) d/2, k = 0..71, for diameter {d}")
            return


# ---- float correspondences of the formula models over R (Model/DisplayRound.v, DisplayDipole.v): the python
# functions below transcribe the Coq definitions term by term; agreement validates the models, it proves nothing
def m_linspace(a, b, N, k):
    return a + k * ((b - a) / (N - 1))


def m_linspace_open(a, b, N, k):
    return a + k * ((b - a) / N)


def m_seg_vertex(r1, r2, h, p1, p2, N, b, k):
    r = r1 if b in (0, 2) else r2
    z = h / 2 if b in (0, 1) else -(h / 2)
    t = m_linspace(p1, p2, N, k) * (math.pi / 180)
    return [r * math.cos(t), r * math.sin(t), z]


def m_dipole_rotvec(nv):
    cr = np.cross(nv, [0.0, 0.0, 1.0])
    n = math.sqrt(cr @ cr)
    t = math.acos(max(-1.0, min(1.0, nv[2])))
    if n == 0:
        return (-t / 1) * np.array([-np.sign(nv[2]), 0.0, 0.0])
    return (-t / n) * cr


def m_rotvec_apply(vec, v):
    a = math.sqrt(vec @ vec)
    if a == 0:
        return np.array(v, dtype=float)
    k = vec / a
    return v * math.cos(a) + np.cross(k, v) * math.sin(a) + np.outer(v @ k * (1 - math.cos(a)), k)


def _body_xyz(obj, **kw):
    dr = do_show([obj], {"backend": "plotly", "return_fig": True, "units_length": "m", **kw})
    body = [x for x in dr["traces"] if x["type"] == "mesh3d"]
    if len(body) != 1:
        raise AssertionError("figure without exactly one mesh")
    return body[0]["xyz"]


def round_float_check(ctx, rng, count):
    def bad(name, what):
        ctx.add_broken("broken-correspondence", name, what)
    for t in range(count):
        kind = t % 4
        ctx.bump("round-float:" + ["segment", "cylinder", "sphere", "dipole"][kind])
        if kind == 0:
            r1 = rng.choice([0.0, round(rng.uniform(0.1, 2), 3)])
            r2 = r1 + round(rng.uniform(0.1, 2), 3)
            h = round(rng.uniform(0.1, 3), 3)
            p1 = rng.choice([0.0, -90.0, round(rng.uniform(-360, 300), 1)])
            p2 = round(p1 + rng.choice([360.0, 5.0, 0.5, round(rng.uniform(1, 359), 1)]), 1)
            if p2 - p1 > 360:
                p1, p2 = 0.0, 360.0
            ctx.case(("segment-float", r1, r2, h, p1, p2), True)
            got = _body_xyz(magpy.magnet.CylinderSegment(polarization=(0, 0, 1), dimension=(r1, r2, h, p1, p2)))
            N = max(5, int(25 * abs(p1 - p2) / 360))
            want = np.array([m_seg_vertex(r1, r2, h, p1, p2, N, b, k) for b in range(4) for k in range(N)])
            if got.shape != want.shape or np.abs(got - want).max() > 1e-12 * max(r2, h):
                return bad("make_CylinderSegment vertex formula", f"dimension {(r1, r2, h, p1, p2)}: the drawn vertices are "
                           f"not r cos/sin(deg2rad(phi1 + k (phi2 - phi1)/(N - 1))), +-h/2 with N = {N}")
        elif kind == 1:
            d, h = round(rng.uniform(0.1, 5), 3), round(rng.uniform(0.1, 5), 3)
            ctx.case(("cylinder-float", d, h), True)
            got = _body_xyz(magpy.magnet.Cylinder(polarization=(0, 0, 1), dimension=(d, h)))
            N = 50
            ts = [m_linspace_open(0, 2 * math.pi, N, k) for k in range(N)]
            want = np.array([[math.cos(x) * 0.5 * d, math.sin(x) * 0.5 * d, s * 0.5 * h] for s in (-1, 1) for x in ts]
                            + [[0, 0, -0.5 * h], [0, 0, 0.5 * h]])
            if got.shape != want.shape or np.abs(got - want).max() > 1e-12 * max(d, h):
                return bad("make_Prism vertex formula", f"Cylinder dimension {(d, h)}")
        elif kind == 2:
            d = round(rng.uniform(0.1, 5), 3)
            ctx.case(("sphere-float", d), True)
            got = _body_xyz(magpy.magnet.Sphere(polarization=(0, 0, 1), diameter=d))
            N = 15
            grid = [[math.cos(m_linspace(-math.pi / 2, math.pi / 2, N, i)) * math.sin(m_linspace_open(0, 2 * math.pi, N, j)) * d * 0.5,
                     math.cos(m_linspace(-math.pi / 2, math.pi / 2, N, i)) * math.cos(m_linspace_open(0, 2 * math.pi, N, j)) * d * 0.5,
                     math.sin(m_linspace(-math.pi / 2, math.pi / 2, N, i)) * d * 0.5] for i in range(N) for j in range(N)]
            want = np.array(grid[N - 1:len(grid) - N + 1])
            if got.shape != want.shape or np.abs(got - want).max() > 1e-12 * d:
                return bad("make_Ellipsoid vertex formula", f"Sphere diameter {d}")
        else:
            m = np.array(special_dir(rng, zero=False) if t % 8 == 3 else [rng.uniform(-2, 2) for _ in range(3)], dtype=float)
            ctx.case(("dipole-float", m.round(6).tolist()), True)
            kw = {"style_sizemode": "absolute", "style_size": DIPOLE_SIZE, "style_pivot": rng.choice(["middle", "tail", "tip"])}
            ref = _body_xyz(magpy.misc.Dipole(moment=(0, 0, 1)), **kw)
            got = _body_xyz(magpy.misc.Dipole(moment=m), **kw)
            nv = m / np.linalg.norm(m)
            want = m_rotvec_apply(m_dipole_rotvec(nv), ref)
            if got.shape != want.shape or np.abs(got - want).max() > 1e-9 * DIPOLE_SIZE:
                return bad("make_Dipole rotation formula", f"moment {m.tolist()}: the drawn arrow is not the +z arrow "
                           "turned by rotvec_apply(dipole_rotvec(m))")


def tetra_cases(ctx, rng, count):
    out = []
    for _ in range(count):
        while True:
            v = [[rng.randint(-9, 9) for _ in range(3)] for _ in range(4)]
            a = np.array(v)
            if abs(round(np.linalg.det(a[1:] - a[0]))) >= 1:
                break
        dr = do_show([magpy.magnet.Tetrahedron(polarization=(0, 0, 1), vertices=v)],
                     {"backend": "plotly", "return_fig": True, "units_length": "m"})
        body = [x for x in dr["traces"] if x["type"] == "mesh3d"]
        if len(body) != 1 or "ijk" not in body[0]:
            raise AssertionError("Tetrahedron figure without exactly one indexed mesh")
        out.append((f"(CTetra {cv(v[0])} {cv(v[1])} {cv(v[2])} {cv(v[3])} {c_vlist(octa.ints(body[0]['xyz']))} "
                    f"{c_vlist(body[0]['ijk'].tolist())})", {"kind": "tetrahedron", "verts": v}))
        ctx.bump("tetra-table:" + ("swapped" if np.linalg.det(a[1:] - a[0]) < 0 else "kept"))
    return out


def cuboid_cases(ctx, rng, count):
    """make_Cuboid through show(Cuboid(dimension=ints)): doubled vertex coordinates and the facet index table"""
    out = []
    for _ in range(count):
        dim = [rng.randint(1, 40) for _ in range(3)]
        cub = magpy.magnet.Cuboid(polarization=(0, 0, 1), dimension=dim)
        dr = do_show([cub], {"backend": "plotly", "return_fig": True, "units_length": "m"})
        body = [x for x in dr["traces"] if x["type"] == "mesh3d"]
        if len(body) != 1 or "ijk" not in body[0]:
            raise AssertionError("Cuboid figure without exactly one indexed mesh")
        out.append((f"(CCuboid {cv(dim)} {c_vlist(octa.ints(2 * body[0]['xyz']))} {c_vlist(body[0]['ijk'].tolist())})",
                    {"kind": "cuboid", "dim": dim}))
        ctx.bump("cuboid-table")
    return out


def shapes_model_check(ctx, cases):
    txt = (CASES_HEADER.replace("Model.DisplayExec.", "Model.DisplayExec Model.DisplayShapes.")
           + "Definition cases : list scase :=\n" + clist([c for c, _ in cases]).replace("; (C", ";\n (C")
           + ".\nEval vm_compute in (sfailing cases).\n")
    ok, out = ctx.coq_eval("c19_shapes", txt)
    res = octa.parse_z_list(out) if ok else None
    if res is None:
        ctx.add_broken("broken-correspondence", "c19_shapes", "model evaluation failed:\n" + out[-1500:])
        return
    ctx.count("traces_validated_against_impl", len(cases) - len(res))
    for bi in res[:5]:
        ctx.add_broken("broken-correspondence", "DisplayShapes (cuboid / tetrahedron tables) vs implementation",
                       json.dumps(cases[bi][1]) + " :: " + cases[bi][0][:400])


def triangle_model_check(ctx, cases):
    txt = (CASES_HEADER.replace("Model.DisplayExec.", "Model.DisplayExec Model.DisplayTriangle Model.DisplayTriangleExec.")
           + "Definition cases : list tcase :=\n" + clist([c for c, _ in cases]).replace("; (C", ";\n (C")
           + ".\nEval vm_compute in (tfailing cases).\n")
    ok, out = ctx.coq_eval("c19_triangle", txt)
    res = octa.parse_z_list(out) if ok else None
    if res is None:
        ctx.add_broken("broken-correspondence", "c19_triangle", "model evaluation failed:\n" + out[-1500:])
        return
    ctx.count("traces_validated_against_impl", len(cases) - len(res))
    for bi in res[:5]:
        ctx.add_broken("broken-correspondence", "DisplayTriangle vs make_Triangle", json.dumps(cases[bi][1]) + " :: "
                       + cases[bi][0][:400])


def model_check(ctx, tag, cases):
    bad = []
    chunk = 500
    for ci in range(0, len(cases), chunk):
        part = cases[ci:ci + chunk]
        txt = CASES_HEADER + "Definition cases : list dcase :=\n" + clist([c for c, _ in part]).replace(
            "; (C", ";\n (C") + ".\nEval vm_compute in (dfailing cases).\n"
        ok, out = ctx.coq_eval(f"c19_{tag}_{ci}", txt)
        res = octa.parse_z_list(out) if ok else None
        if res is None:
            ctx.add_broken("broken-correspondence", f"c19_{tag}_{ci}", "model evaluation failed:\n" + out[-1500:])
            return None
        bad += [ci + i for i in res]
    return bad


def c_str(s):
    return "[" + "; ".join(str(ord(c)) for c in s) + "]"


def units_correspondence(ctx):
    """the TRANSLATED get_unit_factor / unit_prefix against the real functions"""
    prefs = list(SI) + ["x", "h", "da", "K", "u", " "]
    strings = sorted(set([p + "m" for p in prefs] + ["", "m", "mm", "mmm", "km ", "k", "M", "meter", "cmm", "c",
                                                       "None", "mN", "kg", "1m", "µ", "µm", "dm", "am"]))
    items, exp = [], []
    for s in strings:
        for dc in (True, False):
            for tgt in ("m", "T"):
                mutil.get_unit_factor.cache_clear()
                try:
                    f = mutil.get_unit_factor(s, target_unit=tgt, deci_centi=dc)
                    if f == 1 and (s == tgt):
                        e = "UF_one"
                    else:
                        p = round(-math.log10(f))
                        if abs(f * 10.0 ** p - 1) > 1e-9:
                            raise AssertionError(f"factor {f} is not a power of ten")
                        e = f"(UF_power {cz(p)})"
                except ValueError:
                    e = "UF_invalid"
                items.append(f"(get_unit_factor (Some {c_str(s)}) {c_str(tgt)} {'true' if dc else 'false'}, {e})")
                exp.append((s, tgt, dc, e))
                ctx.case(("unit", s, tgt, dc), True)
                ctx.bump("unit-string:" + e.split()[0].strip("("))
    try:
        assert mutil.get_unit_factor(None, target_unit="m") == 1
        items.append("(get_unit_factor None [109] true, UF_one)")
    except Exception as e:   # pylint: disable=broad-except
        ctx.add_broken("broken-correspondence", "get_unit_factor(None)", str(e))
    autos = []
    for t in range(-30, 31):
        for mant in (1.0, 2.5, 9.99):
            x = mant * 10.0 ** t
            tt = int(math.log10(abs(x)))
            got = mutil.unit_prefix(x, as_tuple=True)[2] + "m"
            autos.append(f"(auto_units_length {cz(tt)}, {c_str(got)})")
            ctx.case(("auto-unit", t, mant), True)
    txt = (CASES_HEADER +
           "Definition ur_eqb (a b : uf_result) : bool := match a, b with UF_one, UF_one => true | "
           "UF_invalid, UF_invalid => true | UF_power p, UF_power q => p =? q | _, _ => false end.\n"
           "Fixpoint bad {A} (eqb : A -> A -> bool) (i : Z) (l : list (A * A)) : list Z := match l with [] => [] | "
           "(a, b) :: r => if eqb a b then bad eqb (i + 1) r else i :: bad eqb (i + 1) r end.\n"
           "Definition items : list (uf_result * uf_result) :=\n" + clist(items) + ".\n"
           "Definition autos : list (pystr * pystr) :=\n" + clist(autos) + ".\n"
           "Eval vm_compute in (bad ur_eqb 0 items ++ map (fun i => 100000 + i) (bad str_eqb 0 autos)).\n")
    ok, out = ctx.coq_eval("c19_units", txt)
    res = octa.parse_z_list(out) if ok else None
    if res is None:
        ctx.add_broken("broken-correspondence", "c19_units", "unit model evaluation failed:\n" + out[-1500:])
        return
    for i in res[:5]:
        what = exp[i] if i < 100000 else autos[i - 100000]
        ctx.add_broken("broken-correspondence", "GenUnits vs utility.py", f"translated function disagrees on {what}")
    ctx.count("traces_validated_against_impl", len(items) + len(autos) - len(res))


# ---------------------------------------------------------------------------------------------------------
def search(ctx, big):
    rng = ctx.rng
    mult = 2 if big else 1
    per_cls = ctx.n(10, 300) * mult
    # 1. every class alone, generic poses / paths / frames / units
    for cls in ALL_CLASSES:
        for t in range(per_cls):
            scale = 1.0 if t % 3 else 10.0 ** rng.choice([-3, -2, -1, 1, 2])
            spec = gen_single(rng, cls, scale=scale)
            res = safe_check(check_single, spec)
            ctx.case(("single", json.dumps(spec, sort_keys=True)), True,
                     sample={"spec": spec, "verdict": "property holds"} if t == 0 and cls in ("CylinderSegment", "Polyline") else None)
            ctx.bump("single:" + cls)
            ctx.bump("frames:" + ("none" if spec["frames"] is None else type(spec["frames"]).__name__))
            ctx.bump("units:" + str(spec["units"]))
            if res is not None:
                report(ctx, spec, res)
    # 1b. fixed battery: every class at the scale decades 1e-3 and 1e2, every branch of make_Triangle
    for cls in ALL_CLASSES:
        for scale in (1e-6, 1e-3, 1e2, 1e3):
            for variant in range(3 if cls == "Triangle" and scale in (1e-3, 1e2) else 1):
                spec = gen_single(rng, cls, scale=scale)
                if scale in (1e-6, 1e3):        # the whole scene at that length scale, poses included
                    spec["pos"] = (np.array(spec["pos"], dtype=float) * scale).tolist()
                    spec["units"] = rng.choice(["auto", "m", "µm" if scale < 1 else "km"])
                if cls == "Triangle":
                    v = np.array(spec["params"]["verts"], dtype=float)
                    spec["params"]["pol"] = [[0.1, 0.2, 0.3], [0.0, 0.0, 0.0], None][variant]
                    if variant == 2:      # exactly along the normal: a facet in a coordinate plane
                        spec["params"]["verts"] = (v * [1, 1, 0]).tolist()
                        spec["params"]["pol"] = [0.0, 0.0, 0.5]
                        e1, e2 = v[1, :2] - v[0, :2], v[2, :2] - v[0, :2]
                        if abs(e1[0] * e2[1] - e1[1] * e2[0]) < 0.05 * scale ** 2:
                            continue
                res = safe_check(check_single, spec)
                ctx.case(("single-scale", json.dumps(spec, sort_keys=True)), True)
                ctx.bump(f"scale-decade:{scale:g}")
                if res is not None:
                    report(ctx, spec, res)
    # 1c. fixed battery of exact special values (the degenerate branches of rotation-onto-axis code, sign
    # handling, chirality): every class, every run
    flips = [[math.pi, 0, 0], [0, math.pi, 0], [0, 0, math.pi]]
    for spec in special_specs(rng):
        for k, rv in enumerate(flips if spec.pop("_flips", False) else [None]):
            sp = copy.deepcopy(spec)
            if rv is not None:
                sp["rotvec"] = rv
                sp["pos"] = [0.5 * k, -1.0, 2.0]
            fns = [check_single] + ([check_mag_arrows] if sp["cls"] in MAGNETS else []) + (
                [check_orientation_symbols] if sp["cls"] in ("Triangle", "TriangularMesh") and rv is None else [])
            for fn in fns:
                res = safe_check(fn, sp)
                ctx.case(("special", fn.__name__, json.dumps(sp, sort_keys=True)), True)
                ctx.bump("special:" + sp["cls"])
                if res is not None:
                    report(ctx, {**sp, "kind": KIND_OF[fn.__name__]}, res, fn=fn)
    # 1d. magnetization arrows at generic poses
    for t in range(ctx.n(14, 200) * mult):
        spec = gen_single(rng, MAGNETS[t % len(MAGNETS)])
        res = safe_check(check_mag_arrows, spec)
        ctx.case(("mag-arrows", json.dumps(spec, sort_keys=True)), True)
        ctx.bump("mag-arrows:" + spec["cls"])
        if res is not None:
            report(ctx, {**spec, "kind": "mag-arrows"}, res, fn=check_mag_arrows)
        if spec["cls"] in ("Triangle", "TriangularMesh"):
            res = safe_check(check_orientation_symbols, spec)
            ctx.case(("orientation", json.dumps(spec, sort_keys=True)), True)
            if res is not None:
                report(ctx, {**spec, "kind": "orientation"}, res, fn=check_orientation_symbols)
    # 1e. wave 4: many objects / twins / duplicates; animated scenes of mixed path lengths; histories; entry points
    for name, gen, fn, nq, nt in (("many", gen_many, check_many, 2, 12), ("anim-scene", gen_anim_scene, check_anim_scene, 6, 60),
                                  ("anim-long", gen_anim_long, check_anim_long, 4, 40),
                                  ("history", gen_history, check_history, 14, 200), ("entry", gen_entry, check_entry, 12, 120)):
        for t in range(ctx.n(nq, nt) * mult):
            spec = gen(rng)
            if name == "entry":
                spec["entry"] = ENTRY_POINTS[t % len(ENTRY_POINTS)]
            res = safe_check(fn, spec)
            ctx.case((name, json.dumps(spec, sort_keys=True)), True)
            ctx.bump(name + (":" + spec["entry"] if name == "entry" else ""))
            if name == "history":
                for m in spec["mutations"]:
                    ctx.bump("history-op:" + m["op"])
            if res is not None:
                trig = spec.get("entry") or (",".join(sorted(spec["anim_kw"])) or "default-limits" if name == "anim-long" else None) or (",".join(sorted({m["op"] for m in spec["mutations"]})) if name == "history" else spec.get("shape", ""))
                ctx.impl_fail(f"{res[0]}/{name}:{trig}", res[1], spec)
    # 2. scenes with collections and nesting
    for t in range(ctx.n(25, 700) * mult):
        spec = gen_scene(rng, ALL_CLASSES)
        res = safe_check(check_scene, spec)
        ctx.case(("scene", json.dumps(spec, sort_keys=True)), True)
        ctx.bump("scene:" + spec["shape"])
        if res is not None:
            ctx.impl_fail(f"{res[0]}/Collection:{spec['shape']}", res[1], spec)
    # 3. nothing is modified: valid shows and every failing argument set, lazy and materialised styles
    for t in range(ctx.n(40, 1000) * mult):
        if t % 4 == 0:
            spec = gen_scene(rng, ALL_CLASSES)
        else:
            spec = gen_single(rng, ALL_CLASSES[t % len(ALL_CLASSES)])
        spec["bad"] = None if t % 3 == 0 else BAD_SHOWS[(t // 3) % len(BAD_SHOWS)][0]
        spec["materialise"] = bool(t % 2)
        spec["backend"] = "matplotlib" if t % 5 == 0 else "plotly"
        if t % 7 == 0:
            spec["show_kw"] = {"style": {"color": "red", "path": {"numbering": True}}, "style_magnetization_mode": "arrow"}
        if t % 7 == 3 and spec["bad"] is None:
            spec["backend"] = "plotly"
            spec["show_kw"] = {"animation": True, "animation_fps": 7, "animation_slider": True, "zoom": 1,
                               "style_path_show": False}
        res = safe_check(check_unchanged, spec)
        ctx.case(("unchanged", json.dumps(spec, sort_keys=True)), True)
        ctx.bump("unchanged:" + (spec["bad"] or "valid"))
        if res is not None:
            report_unchanged(ctx, spec, res)
    magpy.defaults.reset()
    # 4. matplotlib data = plotly data; sliced matplotlib meshes; animation frames
    for t in range(ctx.n(22, 500) * mult):
        cls = (MAGNETS + CURRENTS)[t % 9]
        spec = gen_single(rng, cls)
        if spec_frames(len(path_arrays(spec)[0]), spec["frames"]) is None:
            continue
        res = safe_check(check_backends, spec)
        ctx.case(("backends", json.dumps(spec, sort_keys=True)), True)
        ctx.bump("backends:" + cls)
        if res is not None:
            report(ctx, {**spec, "backend": "matplotlib"}, res, fn=check_backends)
        if cls in MAGNETS:
            res = safe_check(check_mpl_sliced, spec)
            ctx.case(("mpl-sliced", json.dumps(spec, sort_keys=True)), True)
            if res is not None:
                ctx.impl_fail(f"{res[0]}/{cls}:matplotlib-sliced", res[1], {**spec, "kind": "mpl-sliced"})
    for t in range(ctx.n(11, 250) * mult):
        spec = gen_single(rng, ALL_CLASSES[t % len(ALL_CLASSES)])
        spec["kind"] = "animation"
        res = safe_check(check_animation, spec)
        ctx.case(("animation", json.dumps(spec, sort_keys=True)), True)
        ctx.bump("animation")
        if res is not None:
            ctx.impl_fail(f"{res[0]}/{spec['cls']}:animation", res[1], spec)


KIND_OF = {"check_single": "single", "check_mag_arrows": "mag-arrows", "check_orientation_symbols": "orientation"}
CHECKS = {"anim-long": check_anim_long, "many": check_many, "anim-scene": check_anim_scene, "history": check_history, "entry": check_entry,
          "single": check_single, "mag-arrows": check_mag_arrows, "orientation": check_orientation_symbols, "scene": check_scene, "animation": check_animation, "mpl-sliced": check_mpl_sliced}


def run(ctx):
    ctx.extra["rule"] = (
        "correspondence: one case = one call of get_rot_pos_from_path / place_and_orient_model3d / show(Polyline) "
        "on integer positions, octahedral rotations and integer unit factors, or one unit string; search: one "
        "case = one figure specification (class, parameters, path, frame selection, unit, backend); distinct by "
        "canonical JSON")
    ctx.partial += ["C19_drawn_copies_partial"]
    ctx.trusted += [
        "translator translate/gen_units.py (_UNIT_PREFIX, get_unit_factor, unit_prefix head, the two call sites "
        "in get_frames -> Gen/GenUnits.v), cross-checked against the real functions on unit strings",
        "hand model coq/Model/DisplayModel.v of get_rot_pos_from_path, place_and_orient_model3d (per vertex), "
        "get_generic_traces3D's placement calls, make_path, rescale_traces, style_temp_edit/get_traces_3D; tied by "
        "correspondence on exact inputs (frames, placement, whole show() of a Polyline read from the plotly figure)",
        "hand models coq/Model/DisplayTriangle.v (make_Triangle as of 2fa0af8, exact on facets whose sqrt|cross| is an "
        "integer dividing the cross product; float check of the offset formula elsewhere) and "
        "coq/Model/DisplayShapes.v (make_Cuboid vertex/facet table, Polyline line), tied by correspondence with "
        "plotly figures of show() on integer inputs",
        "translator translate/gen_shapes.py: cuboid and tetrahedron tables and vertex-count constants translated from "
        "traces_base.py / traces_core.py; fail-closed AST fingerprints of 21 hand-modelled functions",
        "formula models over R (not executable): coq/Model/DisplayCircle.v, DisplayRound.v (cylinder segment, prism, "
        "ellipsoid vertex formulas with np.linspace as a + k (b - a)/(N - 1)), DisplayDipole.v (scipy from_rotvec "
        "MODELLED as Rodrigues' formula); compared with figures as floats only",
        "NOT modelled (PARTIAL): the other per-class local shape generators (traces_core.make_*, traces_base.py), "
        "group/merge of traces, the backends' conversion; these are covered only by the search oracle on figures",
        "SI prefix table in Model/DisplayUnits.v (si_prefix_spec) and in the harness (SI) are hand-written "
        "specifications",
    ]
    ok = ctx.regen(["GenUnits", "GenShapes"])
    built = ctx.build_props() and ok
    if ctx.tier == "thorough" and built:
        ctx.coqchk("MV.Props.C19")

    def corr():
        rng = ctx.rng
        cases = frames_cases(ctx, rng) + place_cases(ctx, rng, ctx.n(150, 1500)) + show_cases(ctx, rng, ctx.n(150, 1500))
        for c, info in cases:
            ctx.case(c, True)
        ctx.samples.append({"correspondence_case": cases[len(cases) // 2][1], "coq": cases[len(cases) // 2][0][:300]})
        if not built:
            return
        bad = model_check(ctx, ctx.tier, cases)
        if bad is None:
            return
        ctx.count("traces_validated_against_impl", len(cases) - len(bad))
        for bi in bad[:5]:
            ctx.add_broken("broken-correspondence", "DisplayModel vs implementation",
                           json.dumps(cases[bi][1]) + " :: " + cases[bi][0][:600])
        units_correspondence(ctx)
        tcs = triangle_cases(ctx, rng, ctx.n(80, 600))
        for c, _ in tcs:
            ctx.case(c, True)
        triangle_model_check(ctx, tcs)
        triangle_float_check(ctx, rng, ctx.n(30, 300))
        circle_float_check(ctx, rng, ctx.n(20, 200))
        round_float_check(ctx, rng, ctx.n(60, 600))
        ccs = cuboid_cases(ctx, rng, ctx.n(40, 300)) + tetra_cases(ctx, rng, ctx.n(40, 300))
        for c, _ in ccs:
            ctx.case(c, True)
        shapes_model_check(ctx, ccs)

    run_guarded(ctx, corr, "C19 correspondence")
    big = bool(ctx.broken)
    run_guarded(ctx, lambda: search(ctx, big), "C19 search")
    magpy.defaults.reset()


def replay(ctx, obj):
    spec = obj.get("replay", obj)
    if "bad" in spec or "materialise" in spec:
        res = safe_check(check_unchanged, spec)
    elif spec.get("backend") == "matplotlib" and spec.get("kind") == "single":
        res = safe_check(check_backends, spec) or safe_check(check_single, {**spec, "backend": "plotly"})
    else:
        res = safe_check(CHECKS.get(spec.get("kind", "single"), check_single), spec)
    print("replay:", "property holds on this input" if res is None else f"FAILS [{res[0]}]: {res[1]}")
    if res is not None:
        print(f"VIOLATION property=C19 replay={obj.get('how_to_rerun', '').split()[-1] or 'given'}")
    return 0 if res is None else 1
