"""Shared machinery of every check: regen -> build -> correspondence -> search -> verdict.

See DESIGN.md section 1.  Nothing here decides a property; it runs the stages, keeps the
books (obligations, counts, samples), matches failures against known_findings.json and
prints the verdict lines.
"""
import fcntl
import glob
import hashlib
import json
import os
import random
import re
import subprocess
import sys
import time
import traceback

VERIF = os.path.dirname(os.path.dirname(os.path.abspath(__file__)))
REPO = os.environ.get("VERIF_REPO", "/repo")
COQ = os.path.join(VERIF, "coq")
sys.path.insert(0, VERIF)
if REPO not in sys.path:
    sys.path.insert(0, REPO)

COQ_WARN = "-w -notation-overridden,-deprecated-hint-without-locality,-deprecated-instance-without-locality"
COQ_PROJECT_HEADER = (
    "-Q . MV\n"
    "-arg -w -arg -notation-overridden,-deprecated-hint-without-locality,"
    "-deprecated-instance-without-locality,-deprecated-hint-rewrite-without-locality\n"
)

# axioms of Coq's standard library (reals, classical logic, extensionality) that property
# theorems may depend on; anything else printed by Print Assumptions fails the check
ALLOWED_AXIOMS = {
    "ClassicalDedekindReals.sig_not_dec", "ClassicalDedekindReals.sig_forall_dec",
    "FunctionalExtensionality.functional_extensionality_dep", "Classical_Prop.classic",
    "functional_extensionality_dep", "classic", "sig_not_dec", "sig_forall_dec",
    "Eqdep.Eq_rect_eq.eq_rect_eq", "JMeq.JMeq_eq", "ProofIrrelevance.proof_irrelevance",
    "Classical_Prop.proof_irrelevance", "PropExtensionality.propositional_extensionality",
    "ClassicalEpsilon.constructive_indefinite_description",
    "Epsilon.epsilon_statement", "ClassicalUniqueChoice.dependent_unique_choice",
    "Description.constructive_definite_description",
    "IndefiniteDescription.constructive_indefinite_description",
}

FORBIDDEN = re.compile(
    r"\b(Admitted|admit|Axiom|Axioms|Parameter|Parameters|Conjecture|Conjectures|"
    r"Admit Obligations)\b|Unset Guard|bypass_check|type-in-type|impredicative-set|"
    r"Unset Universe Checking|Unset Positivity")


def sh(cmd, timeout, cwd=None, env=None):
    """run a command under a timeout; returns (rc, output)"""
    try:
        p = subprocess.run(cmd, shell=isinstance(cmd, str), cwd=cwd, env=env, timeout=timeout,
                           stdout=subprocess.PIPE, stderr=subprocess.STDOUT, text=True)
        return p.returncode, p.stdout
    except subprocess.TimeoutExpired as e:
        out = e.stdout.decode() if isinstance(e.stdout, bytes) else (e.stdout or "")
        return 124, out + f"\n[timeout after {timeout}s]"


class Lock:
    def __enter__(self):
        self.f = open(os.path.join(VERIF, ".lock"), "w")
        fcntl.flock(self.f, fcntl.LOCK_EX)
        return self

    def __exit__(self, *a):
        fcntl.flock(self.f, fcntl.LOCK_UN)
        self.f.close()


def write_if_changed(path, text):
    try:
        if open(path).read() == text:
            return False
    except OSError:
        pass
    os.makedirs(os.path.dirname(path), exist_ok=True)
    with open(path, "w") as f:
        f.write(text)
    return True


def coq_sources():
    out = []
    for d in ("Lib", "Gen", "Model", "Proofs", "Props"):
        out += sorted(glob.glob(os.path.join(COQ, d, "*.v")))
    return [os.path.relpath(p, COQ) for p in out]


def ensure_makefile():
    text = COQ_PROJECT_HEADER + "\n".join(coq_sources()) + "\n"
    changed = write_if_changed(os.path.join(COQ, "_CoqProject"), text)
    if changed or not os.path.exists(os.path.join(COQ, "Makefile")):
        rc, out = sh("coq_makefile -f _CoqProject -o Makefile", 60, cwd=COQ)
        if rc != 0:
            raise RuntimeError("coq_makefile failed: " + out)


def scan_forbidden():
    """no Admitted/admit/Axiom/Parameter/... anywhere in the development (comments stripped)"""
    hits = []
    for rel in coq_sources():
        txt = open(os.path.join(COQ, rel)).read()
        txt = re.sub(r"\(\*.*?\*\)", "", txt, flags=re.S)
        for m in FORBIDDEN.finditer(txt):
            hits.append(f"{rel}: {m.group(0)}")
    return hits


def parse_assumptions(vfile_text, output):
    """pair each `Print Assumptions X.` of the source with its output block"""
    names = re.findall(r"^Print Assumptions\s+([\w.']+)\s*\.", vfile_text, flags=re.M)
    blocks, cur = [], None
    for line in output.splitlines():
        if line.startswith("Closed under the global context"):
            if cur is not None:
                blocks.append(cur)
            blocks.append([])
            cur = None
        elif line.startswith("Axioms:"):
            if cur is not None:
                blocks.append(cur)
            cur = []
        elif cur is not None:
            m = re.match(r"^([A-Za-z_][\w.']*)\s*$|^([A-Za-z_][\w.']*)\s+:", line)
            if m:
                cur.append(m.group(1) or m.group(2))
            elif line.startswith(("COQC", "COQDEP", "make", "File ", "CLEAN")):
                blocks.append(cur)
                cur = None
    if cur is not None:
        blocks.append(cur)
    return names, blocks


class Ctx:
    def __init__(self, prop, tier, seed):
        self.prop, self.tier, self.seed = prop, tier, seed
        self.rng = random.Random(seed)
        self.t0 = time.time()
        self.broken = []          # proof / translator / correspondence failures
        self.impl_failures = []   # concrete counterexamples on the implementation
        self.obligations = 0
        self.discharged = 0
        self.theorems = []
        self.assumptions = {}
        self.counts = {"evaluations": 0, "traces_validated_against_impl": 0}
        self.distinct = set()
        self.samples = []
        self.dist = {}
        self.notes = []
        self.trusted = []
        self.checker_cmds = []
        self.refuted = []
        self.partial = []
        self.extra = {}
        self.quiet = False

    # ------------------------------------------------------------------ bookkeeping
    def log(self, msg):
        if not self.quiet:
            print(f"[{self.prop} {time.time() - self.t0:6.1f}s] {msg}", flush=True)

    def count(self, key, n=1):
        self.counts[key] = self.counts.get(key, 0) + n

    def bump(self, key, n=1):
        self.dist[key] = self.dist.get(key, 0) + n

    def case(self, canonical, nontrivial=True, sample=None):
        """register one evaluated case; canonical must be hashable/str"""
        self.counts["evaluations"] += 1
        if nontrivial:
            self.distinct.add(hashlib.sha1(repr(canonical).encode()).hexdigest())
        if sample is not None and len(self.samples) < 8:
            self.samples.append(sample)

    def is_quick(self):
        return self.tier == "quick"

    def n(self, quick, thorough):
        return quick if self.tier == "quick" else thorough

    # ------------------------------------------------------------------ stage 1: regen
    def regen(self, names):
        """stage 1: re-translate Gen/*.v from the current source (all generators; see _regen_nolock)"""
        self._own_gens = list(dict.fromkeys(list(getattr(self, "_own_gens", [])) + list(names)))
        with Lock():
            return self._regen_nolock(list(names), report=True)

    def _regen_nolock(self, names, report):
        from translate import GENERATORS
        ok = True
        own = list(names)
        # Every check re-translates ALL Gen files from the current source, not only its own: a Props file
        # may import models that depend on another property's Gen file, and that file must not be stale.
        # A translator outside `names` that fails leaves a stub, so only checks whose build depends on it
        # break (as broken-proof at the import), the others are unaffected.
        others = [n for n in sorted(GENERATORS) if n not in own] if os.environ.get("VERIF_REGEN_ALL", "1") == "1" else []
        for name in own + others:
            path = os.path.join(COQ, "Gen", name + ".v")
            try:
                text = GENERATORS[name](REPO)
                write_if_changed(path, text)
                if name in own and report:
                    self.log(f"regen {name}: ok")
            except Exception as e:   # fail closed
                # make dependants fail to build rather than reuse a stale model
                write_if_changed(path, "(* translator failed on this run *)\n"
                                 "Definition translator_failed : True := I.\n")
                if not report:
                    continue
                if name in own:
                    ok = False
                    self.broken.append({"kind": "broken-translator", "name": name,
                                        "detail": f"{type(e).__name__}: {e}"})
                    self.log(f"regen {name}: FAILED {type(e).__name__}: {e}")
                else:
                    self.notes.append(f"translator {name} (not owned by this check) failed: "
                                      f"{type(e).__name__}: {str(e)[:200]}")
                    self.log(f"regen {name} (dependency of other checks): FAILED {type(e).__name__}")
        return ok

    # ------------------------------------------------------------------ stage 2: build
    def build_props(self, props_file=None, timeout=900):
        """(re)compile Props/<prop>.v and everything it needs; parse Print Assumptions"""
        rel = props_file or f"Props/{self.prop}.v"
        vo = rel[:-2] + ".vo"
        src = open(os.path.join(COQ, rel)).read()
        thms = re.findall(r"^\s*(?:Theorem|Lemma|Example|Corollary)\s+([\w']+)", src, flags=re.M)
        self.theorems += thms
        self.obligations += len(thms)
        with Lock():
            # regen and build under ONE lock: the Gen files are shared by all runs (also runs against a scratch
            # copy via VERIF_REPO), so they are re-translated from THIS run's tree right before make
            self._regen_nolock(list(getattr(self, "_own_gens", [])), report=False)
            ensure_makefile()
            try:
                os.remove(os.path.join(COQ, vo))
            except OSError:
                pass
            cmd = f"make -j8 {vo}"
            self.checker_cmds.append(f"cd {COQ} && coq_makefile -f _CoqProject -o Makefile && {cmd}")
            rc, out = sh(cmd, timeout, cwd=COQ)
        forb = scan_forbidden()
        if forb:
            self.broken.append({"kind": "broken-proof", "name": rel,
                                "detail": "forbidden constructs: " + "; ".join(forb[:10])})
        if rc != 0:
            err = out[-3000:]
            m = re.search(r'File "\./([^"]+)", line (\d+)', out)
            where = f"{m.group(1)}:{m.group(2)}" if m else rel
            self.broken.append({"kind": "broken-proof", "name": where, "detail": err})
            self.log(f"build {vo}: FAILED at {where}")
            return False
        names, blocks = parse_assumptions(src, out)
        if len(names) != len(blocks):
            self.broken.append({"kind": "broken-proof", "name": rel,
                                "detail": f"Print Assumptions output not understood "
                                          f"({len(names)} commands, {len(blocks)} blocks)"})
            return False
        bad = False
        for nme, blk in zip(names, blocks):
            self.assumptions[nme] = blk if blk else ["Closed under the global context"]
            for ax in blk:
                if ax not in ALLOWED_AXIOMS and ax.split(".")[-1] not in ALLOWED_AXIOMS:
                    bad = True
                    self.broken.append({"kind": "broken-proof", "name": nme,
                                        "detail": f"depends on non-standard axiom {ax}"})
        missing = [t for t in thms if t not in names]
        if missing:
            self.notes.append(f"theorems without Print Assumptions: {missing}")
        if not bad and not forb:
            self.discharged += len(thms)
            self.log(f"build {vo}: ok, {len(thms)} theorems, axioms: "
                     f"{sorted({a for b in blocks for a in b}) or 'none'}")
        return not bad and not forb

    def coqchk(self, vo_logical, timeout=1800):
        cmd = f"coqchk -silent -o -Q . MV {vo_logical}"
        self.checker_cmds.append(f"cd {COQ} && {cmd}")
        rc, out = sh(cmd, timeout, cwd=COQ)
        self.extra["coqchk"] = out[-2000:]
        if rc != 0:
            self.broken.append({"kind": "broken-proof", "name": "coqchk " + vo_logical, "detail": out[-2000:]})
        return rc == 0

    # ------------------------------------------------------------------ stage 3: run the model
    def coq_eval(self, name, text, timeout=600):
        """compile a generated cases file; returns (ok, stdout)"""
        d = os.path.join(COQ, "Cases")
        os.makedirs(d, exist_ok=True)
        path = os.path.join(d, name + ".v")
        with open(path, "w") as f:
            f.write(text)
        rc, out = sh(f"coqc {COQ_WARN} -Q . MV Cases/{name}.v", timeout, cwd=COQ)
        return rc == 0, out

    # ------------------------------------------------------------------ failures
    def add_broken(self, kind, name, detail):
        self.broken.append({"kind": kind, "name": name, "detail": str(detail)[:4000]})
        self.log(f"{kind}: {name}")

    def impl_fail(self, signature, what, replay):
        """a concrete input on which the property fails on the real code"""
        for f in self.impl_failures:
            if f["signature"] == signature:
                f["count"] += 1
                return
        self.impl_failures.append({"signature": signature, "what": what, "replay": replay, "count": 1})
        self.log(f"impl counterexample [{signature}]: {what}")

    # ------------------------------------------------------------------ stage 5: verdict
    def finish(self):
        kf = load_known()
        open_sigs = {k["signature"]: k for k in kf if k["property"] == self.prop and k.get("status") == "open"}
        lines, violations, known_hit = [], 0, []
        rdir = os.path.join(VERIF, "replays", self.prop)
        unknown = []
        for f in self.impl_failures:
            if f["signature"] in open_sigs:
                known_hit.append(f["signature"])
                lines.append(f"KNOWN-FINDING: property={self.prop} {f['signature']}: {f['what']}")
            else:
                unknown.append(f)
        for i, f in enumerate(unknown[:6]):
            os.makedirs(rdir, exist_ok=True)
            path = os.path.join(rdir, f"{self.seed}-{i}.json")
            json.dump({"property": self.prop, "kind": "impl-counterexample", "signature": f["signature"],
                       "what": f["what"], "replay": f["replay"],
                       "how_to_rerun": f"./check {self.prop} --replay {path}"},
                      open(path, "w"), indent=1, default=str)
            lines.append(f"VIOLATION property={self.prop} replay={path}")
            violations += 1
        if self.broken and not unknown:
            os.makedirs(rdir, exist_ok=True)
            path = os.path.join(rdir, f"{self.seed}-broken.json")
            json.dump({"property": self.prop, "kind": self.broken[0]["kind"], "broken": self.broken,
                       "note": "the model/proof/correspondence no longer checks against /repo and the "
                               "search found no input on which the property itself fails",
                       "known_findings_seen": known_hit},
                      open(path, "w"), indent=1, default=str)
            lines.append(f"VIOLATION property={self.prop} replay={path} no-failing-input-found")
            violations += 1
        elif self.broken:
            # also record what broke next to the concrete counterexamples
            path = os.path.join(rdir, f"{self.seed}-broken.json")
            json.dump({"property": self.prop, "kind": self.broken[0]["kind"], "broken": self.broken},
                      open(path, "w"), indent=1, default=str)
        self.write_evidence(violations, known_hit)
        for ln in lines:
            print(ln, flush=True)
        if violations == 0:
            print(f"OK property={self.prop} tier={self.tier} obligations={self.obligations} "
                  f"discharged={self.discharged} evaluations={self.counts['evaluations']} "
                  f"wall={time.time() - self.t0:.0f}s", flush=True)
        return 1 if violations else 0

    def write_evidence(self, violations, known_hit):
        cov = {
            "obligations": self.obligations,
            "discharged": self.discharged,
            "checker_cmd": " ; ".join(dict.fromkeys(self.checker_cmds)) or "none run",
            "trusted_base": self.trusted,
            "evaluations": self.counts["evaluations"],
            "distinct_nontrivial": len(self.distinct),
            "rule": self.extra.pop("rule", ""),
            "samples": self.samples or [{"theorems": self.theorems[:5]}],
            "traces_validated_against_impl": self.counts.get("traces_validated_against_impl", 0),
            "theorems": self.theorems,
            "print_assumptions": self.assumptions,
            "refuted_theorems": self.refuted,
            "partial_theorems": self.partial,
            "input_distribution": self.dist,
            "counts": self.counts,
            "broken": self.broken,
            "known_findings_hit": known_hit,
            "impl_counterexamples": [{k: f[k] for k in ("signature", "what", "count")} for f in self.impl_failures],
        }
        cov.update(self.extra)
        if self.obligations < 1 or self.discharged < 1:
            # nothing was discharged on this run (broken build): the schema's proof keys need >= 1,
            # so report the counts under other names and let the generic counts stand
            cov["obligations_total"] = cov.pop("obligations")
            cov["obligations_discharged"] = cov.pop("discharged")
        ev = {
            "property_id": self.prop, "tier": self.tier, "seed": self.seed, "level": "proof",
            "coverage": cov, "assumptions": self.notes, "wall_s": round(time.time() - self.t0, 2),
            "violations": violations,
        }
        # VERIF_EVIDENCE_DIR: mutation runs against a scratch copy must not overwrite the real evidence
        evdir = os.environ.get("VERIF_EVIDENCE_DIR") or os.path.join(VERIF, "evidence")
        os.makedirs(evdir, exist_ok=True)
        with open(os.path.join(evdir, f"{self.prop}.json"), "w") as f:
            json.dump(ev, f, indent=1, default=str)


def load_known():
    """known findings are committed, one file per property: known_findings/<id>.json =
    {"findings": [{"property", "signature", "status": "open"|"fixed", "what", "commit"?, "replay"?}]}"""
    out = []
    for p in sorted(glob.glob(os.path.join(VERIF, "known_findings", "*.json"))):
        try:
            out += json.load(open(p))["findings"]
        except (OSError, ValueError, KeyError):
            pass
    return out


BASE_TRUST = [
    "Coq 8.16.1 kernel (coqc; coqchk in the thorough tier); vm_compute used in reflexive proofs and to "
    "run models; native_compute not used",
    "no Axiom/Parameter/Conjecture/Admitted/admit in the development (grepped on every run); axioms "
    "reported by Print Assumptions are copied into print_assumptions and must be standard-library ones",
    "numpy/scipy primitives (np.pad, np.tile, np.repeat, reshape, Rotation) are modelled as list "
    "functions, not verified; binary64 rounding is outside every theorem",
]


def run_guarded(ctx, fn, name):
    """run a stage; an exception in our own machinery is a broken correspondence, never silence"""
    try:
        return fn()
    except Exception as e:   # pylint: disable=broad-except
        ctx.add_broken("broken-correspondence", name, f"{type(e).__name__}: {e}\n{traceback.format_exc()[-2500:]}")
        return None
