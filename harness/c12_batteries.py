"""C12 -- fixed batteries run on every check (wave 4): special geometries, batch composition, nesting,
histories, the functional interface / core functions / from_* constructors, in_out modes.
Everything is compared under EXACT scalings (powers of two), so a unit-independent implementation gives
bit-identical decisions; tolerances are relative to the norm of the observer's own field row.
Every demand is an instance of the property text: same configuration at another length unit ->
B, H unchanged (magnets) / divided by s (currents) / by s^3 (dipoles), proportional to the excitation,
inside/outside, mesh status and face orientation unchanged."""
import math
import warnings

import numpy as np
from scipy.spatial.transform import Rotation as R

import magpylib as magpy

from harness.props import C12 as H

BSCALES = [H.P2(-30), H.P2(-20), H.P2(-10), H.P2(10), H.P2(30)]
PI = math.pi


# ------------------------------------------------------------------ (b)(c) special configurations
def special_configs(cls):
    """fixed configurations: every axis the long one, thin plates / shells, solid vs hollow, negative angles and
    spans near / equal 360, bodies and meshes off their local origin, excitation exactly along +-x,+-y,+-z and 0,
    negative and zero currents, both vertex orders, exact quarter turns / 180 degree flips as orientation"""
    poses = [{"position": [0.0, 0.0, 0.0], "rotvec": [0.0, 0.0, 0.0]},
             {"position": [0.5, -0.25, 1.0], "rotvec": [0.0, 0.0, PI / 2]},
             {"position": [-1.0, 0.5, 0.25], "rotvec": [PI, 0.0, 0.0]},
             {"position": [0.125, 2.0, -0.5], "rotvec": [0.3, -1.1, 0.7]}]
    axes = [[1, 0, 0], [0, -1, 0], [0, 0, 1], [0, 0, -1], [0.3, -0.2, 0.9], [0, 0, 0]]
    out = []

    def add(i, **kw):
        c = {"cls": cls, "pose": poses[i % len(poses)]}
        c.update(kw)
        out.append(c)
    if cls == "Cuboid":
        for i, d in enumerate([[3, 0.5, 0.7], [0.5, 3, 0.7], [0.5, 0.7, 3], [2, 2, 0.002], [0.002, 1, 2]]):
            add(i, exc=axes[i % len(axes)], dim=d)
        add(5, exc=axes[5], dim=[1, 1, 1])
    elif cls == "Cylinder":
        for i, d in enumerate([[3, 0.1], [0.3, 4], [1, 1]]):
            add(i, exc=axes[i], dim=d)
        add(3, exc=axes[4], dim=[2, 0.002])
    elif cls == "CylinderSegment":
        dims = [[0.0, 1.0, 1.0, 0, 90], [0.5, 0.5005, 1.0, -270, -100], [0.4, 1.2, 0.8, -350, -20],
                [0.4, 1.2, 0.8, 0, 359.9], [0.4, 1.2, 0.8, 0, 360], [0.0, 1.0, 2.0, -180, 180],
                [0.3, 2.0, 0.004, 10, 200]]
        for i, d in enumerate(dims):
            add(i, exc=axes[i % 5], dim=d)
    elif cls == "Sphere":
        for i in range(3):
            add(i, exc=axes[i], dim=[0.4, 1.0, 3.0][i])
    elif cls in ("Tetrahedron", "Triangle"):
        V = np.array(H.TETRA_V, dtype=float) + np.array([[0.05, -0.1, 0.02], [0.1, 0.0, -0.1], [-0.1, 0.12, 0.03],
                                                         [0.02, 0.04, -0.08]])
        n = 4 if cls == "Tetrahedron" else 3
        add(0, exc=axes[4], verts=V[:n].tolist())
        add(1, exc=axes[2], verts=V[:n][::-1].tolist())                       # other vertex order / chirality
        add(2, exc=axes[0], verts=(V[:n] + np.array([5.0, -3.0, 2.0])).tolist())     # off the local origin
        add(3, exc=axes[1], verts=(V[:n] * np.array([4.0, 0.05, 1.0])).tolist())     # thin / elongated
    elif cls == "TriangularMesh":
        for i, (V, Fc, kind) in enumerate([(H.TETRA_V, H.TETRA_F, "tetra"), (H.CUBE_V, H.CUBE_F, "cube")]):
            V = np.array(V, dtype=float)
            for j, (off, stretch) in enumerate([((5.0, -3.0, 2.0), (1, 1, 1)), ((-40.0, 30.0, 20.0), (1, 1, 1)),
                                                ((0.0, 0.0, 0.0), (6, 0.25, 1))]):
                Fj = [list(f) for f in Fc]
                if j == 1:
                    Fj = [[f[0], f[2], f[1]] for f in Fj]          # given inside out
                add(i + j, exc=axes[(i + j) % 5], verts=(V * np.array(stretch) + np.array(off)).tolist(), faces=Fj,
                    kind=f"{kind}-off{j}")
    elif cls == "Circle":
        for i, (cur, d) in enumerate([(-2.0, 1.0), (0.0, 1.0), (1.5, 3.0), (1e-3, 0.4)]):
            add(i, exc=cur, dim=d)
    elif cls == "Polyline":
        vs = [[[0, 0, 0], [1, 0, 0]], [[0, 0, -1], [0, 0, 1], [0, 1, 1]], [[0, 0, 0], [1, 0, 0], [1, 0, 0], [1, 1, 0]],
              [[0, 0, 0], [1, 0, 0], [1, 1, 0], [0, 1, 0], [0, 0, 0]], [[0.2, 0.1, -0.3], [3.0, 0.1, -0.3]]]
        for i, v in enumerate(vs):
            add(i, exc=[-1.5, 2.0, 0.0, 1.0, -0.5][i], verts=[[float(x) for x in p] for p in v])
    elif cls == "Dipole":
        for i in range(6):
            add(i, exc=axes[i])
    return out


def check_special(ctx, scales, excitations):
    for cls in H.CLASSES:
        for c in special_configs(cls):
            obs = H.local_observers(ctx.rng, c, 4)
            fails = H.check_config(ctx, c, obs, scales, excitations)
            ctx.case(("special", H.json.dumps(c, sort_keys=True)), True)
            ctx.bump("special:" + cls)
            if fails:
                H.report(ctx, c, obs, fails)


# ------------------------------------------------------------------ helpers
def row_ok(got, want):
    """per observer row: |got - want| <= 1e-9 * |want row| (+ an absolute floor far below the call's scale)"""
    got, want = np.asarray(got, dtype=float), np.asarray(want, dtype=float)
    if got.shape != want.shape:
        return np.zeros(want.shape[:-1] or (1,), dtype=bool)
    fin = np.isfinite(got) & np.isfinite(want)
    same = (np.isnan(got) & np.isnan(want)) | ((got == want) & ~fin)
    w = np.where(np.isfinite(want), want, 0.0)
    rown = np.sqrt(np.sum(w * w, axis=-1, keepdims=True))
    glob = float(np.max(rown)) if rown.size else 0.0
    ok = (np.abs(np.where(fin, got - want, 0.0)) <= 1e-9 * rown + 1e-13 * glob) & (fin | same)
    return np.all(ok, axis=-1)


def fail(ctx, clause, trigger, what, data):
    ctx.impl_fail(f"{clause}/{trigger}", what, dict(data, kind="battery"))


# ------------------------------------------------------------------ (d) batch composition, (f) nesting
def batch_sources(rng, s, order):
    classes = ["Cuboid", "Circle", "Dipole", "Cylinder", "Polyline", "Sphere", "Tetrahedron", "Triangle",
               "CylinderSegment", "TriangularMesh"]
    cfgs = getattr(batch_sources, "cfgs", None)
    if cfgs is None:
        cfgs = [H.gen_config(rng, cls, aligned=(i % 2 == 0)) for i, cls in enumerate(classes)]
        for c in cfgs:      # spread the sources out
            c["pose"]["position"] = [round(3 * x, 3) for x in c["pose"]["position"]]
        batch_sources.cfgs = cfgs
    srcs, degs = [], []
    for c in cfgs:
        srcs.append(H.build(c, s=s))
        degs.append(H.LENGTH_DEGREE.get(c["cls"], 0))
    # twins: same geometry, excitation ratio 2^40, and an exact duplicate
    srcs += [H.build(cfgs[0], s=s, e=H.P2(20)), H.build(cfgs[0], s=s, e=H.P2(-20)), H.build(cfgs[1], s=s)]
    degs += [0, 0, -1]
    idx = list(range(len(srcs)))
    if order:
        idx = idx[order:] + idx[:order]          # cyclic shift: a permutation that is not an involution
    return [srcs[i] for i in idx], [degs[i] for i in idx], idx


def check_batch(ctx):
    rng = ctx.rng
    batch_sources.cfgs = None
    obs = np.array([[rng.uniform(-6, 6) for _ in range(3)] for _ in range(19)])
    for order in (0, 3):
        srcs1, degs, idx = batch_sources(rng, 1.0, order)
        with warnings.catch_warnings():
            warnings.simplefilter("ignore")
            ref = {f: getattr(magpy, "get" + f)(srcs1, obs, sumup=False) for f in ("B", "H")}
            one1 = magpy.getB(srcs1, obs[0], sumup=False)
        n0 = idx.index(0)
        hi, lo = idx.index(len(idx) - 3), idx.index(len(idx) - 2)
        if not row_ok(ref["B"][hi], ref["B"][lo] * H.P2(40)).all():
            fail(ctx, "excitation-law", "batch:twins", "twin sources with excitation ratio 2^40 in one call: fields not "
                 "in that ratio", {"order": order})
        for s in BSCALES:
            srcs, _, _ = batch_sources(rng, s, order)
            for f in ("B", "H"):
                got = getattr(magpy, "get" + f)(srcs, obs * s, sumup=False)
                for i, k in enumerate(degs):
                    ok = row_ok(got[i], ref[f][i] * s ** k)
                    ctx.count("oracle_evaluations", len(obs))
                    if not ok.all():
                        cls = type(srcs[i]).__name__
                        fail(ctx, "scale-law", f"batch:{cls}:{H.scale_class(s)}",
                             f"{cls} in a call with {len(srcs)} interleaved sources: {f} at scale {s:g} breaks the scale law "
                             f"for observer {int(np.argmin(ok))}", {"order": order, "scale": s, "field": f})
            got1 = magpy.getB(srcs, obs[0] * s, sumup=False)
            for i, k in enumerate(degs):
                if not row_ok(got1[i][None], one1[i][None] * s ** k).all():
                    fail(ctx, "scale-law", f"batch-one-observer:{type(srcs[i]).__name__}:{H.scale_class(s)}",
                         "single observer call breaks the scale law", {"order": order, "scale": s})
            ctx.case(("batch", order, s), True)
            ctx.bump("batch")
        del n0


def check_nesting(ctx):
    rng = ctx.rng
    cfgs = [H.gen_config(rng, cls) for cls in ("Cuboid", "Cylinder", "Sphere", "Tetrahedron")]
    obs = np.array([[rng.uniform(-4, 4) for _ in range(3)] for _ in range(8)])
    P1, P2_, rv = np.array([0.5, -1.0, 0.25]), np.array([-2.0, 0.5, 1.0]), [0.2, 0.9, -0.4]

    def make(s):
        kids = [H.build(c, s=s) for c in cfgs]
        inner = magpy.Collection(kids[0], kids[1])
        inner.position = P1 * s                      # via attribute: moves the children along
        inner.rotate(R.from_rotvec(rv))
        outer = magpy.Collection(inner, kids[2], kids[3])
        outer.position = P2_ * s
        outer.rotate(R.from_rotvec([PI / 2, 0, 0]), anchor=0)
        return outer
    ref = make(1.0).getB(obs)
    refH = make(1.0).getH(obs)
    for s in BSCALES:
        co = make(s)
        for f, r in (("B", ref), ("H", refH)):
            got = getattr(co, "get" + f)(obs * s)
            if not row_ok(got, r).all():
                fail(ctx, "scale-law", f"nested-collection:{H.scale_class(s)}",
                     f"Collection(Collection(Cuboid, Cylinder), Sphere, Tetrahedron) moved by attributes: {f} at scale "
                     f"{s:g} differs from scale 1", {"scale": s, "field": f})
        ctx.case(("nesting", s), True)
        ctx.bump("nesting")


# ------------------------------------------------------------------ (g) histories
def check_histories(ctx):
    rng = ctx.rng
    for cls in ("Cuboid", "Cylinder", "CylinderSegment", "Sphere", "Circle", "Polyline", "Tetrahedron", "Triangle"):
        c = H.gen_config(rng, cls)
        obs = H.local_observers(rng, c, 5)
        loc = [p for r, p in obs if r == "generic"]
        k = H.LENGTH_DEGREE.get(cls, 0)
        src = H.build(c)
        ref = src.getB(H.to_global(c, loc, 1.0))
        for s in (H.P2(-20), H.P2(10), H.P2(10), 1.0):           # the same value twice, then back to scale 1
            fresh = H.build(c, s=s)
            try:
                if cls in ("Cuboid", "Cylinder"):
                    src.dimension = fresh.dimension
                elif cls == "CylinderSegment":
                    src.dimension = fresh.dimension
                elif cls in ("Sphere", "Circle"):
                    src.diameter = fresh.diameter
                else:
                    src.vertices = fresh.vertices
                try:
                    src.position = "not a position"           # a rejected call in the middle
                except Exception:   # pylint: disable=broad-except
                    pass
                src.position = fresh.position
                _ = src.getH(H.to_global(c, loc[:1], s))       # a read between the writes
                got = src.getB(H.to_global(c, loc, s))
            except Exception as e:   # pylint: disable=broad-except
                fail(ctx, "scale-law", f"history:{cls}:raises:{type(e).__name__}", f"rescaling {cls} by setters raised {e}",
                     {"scale": s})
                break
            want = np.atleast_2d(ref) * s ** k
            if not row_ok(np.atleast_2d(got), want).all() or \
                    not row_ok(np.atleast_2d(got), np.atleast_2d(fresh.getB(H.to_global(c, loc, s)))).all():
                fail(ctx, "scale-law", f"history:{cls}:{H.scale_class(s) if s != 1 else 'back'}",
                     f"{cls} rescaled through its setters after a field call differs from the scale law / a fresh object "
                     f"at scale {s:g}", {"scale": s, "config": c})
            ctx.case(("history", cls, s), True)
            ctx.bump("history")
    # TriangularMesh: reorient_faces again after a field call changes nothing, at every scale
    c = [x for x in special_configs("TriangularMesh") if x["kind"].endswith("off1")][0]
    for s in [1.0] + BSCALES:
        m = H.build(c, s=s)
        p = H.to_global(c, [[0.3, 0.2, 1.7]], s)
        b0, f0 = m.getB(p), m.faces.tolist()
        with warnings.catch_warnings():
            warnings.simplefilter("ignore")
            m.reorient_faces("ignore")
        if m.faces.tolist() != f0 or not row_ok(np.atleast_2d(m.getB(p)), np.atleast_2d(b0)).all():
            fail(ctx, "face-orientation", f"history:reorient-twice:{H.scale_class(s) if s != 1 else 'unit'}",
                 f"reorient_faces called again after getB changes the faces at scale {s:g}", {"scale": s})


# ------------------------------------------------------------------ (h) functional interface, core, from_*, in_out
def functional_kwargs(c, s, e=1.0):
    cls = c["cls"]
    exc = np.array(c["exc"], dtype=float) * e
    if cls in ("Cuboid", "Cylinder"):
        return cls, {"dimension": np.array(c["dim"], dtype=float) * s, "polarization": exc}
    if cls == "CylinderSegment":
        d = np.array(c["dim"], dtype=float)
        d[:3] *= s
        return cls, {"dimension": d, "polarization": exc}
    if cls == "Sphere":
        return cls, {"diameter": c["dim"] * s, "polarization": exc}
    if cls in ("Tetrahedron", "Triangle"):
        return cls, {"vertices": np.array(c["verts"], dtype=float) * s, "polarization": exc}
    if cls == "Circle":
        return cls, {"diameter": c["dim"] * s, "current": float(exc)}
    if cls == "Polyline":
        V = np.array(c["verts"], dtype=float) * s
        return cls, {"segment_start": V[0], "segment_end": V[1], "current": float(exc)}
    if cls == "Dipole":
        return cls, {"moment": exc}
    return None, None


def check_functional(ctx):
    """no pose: the observers ARE local coordinates (z == 0, r == r0 ... stay exact)"""
    rng = ctx.rng
    for cls in H.CLASSES:
        if cls == "TriangularMesh":
            continue
        cfgs = [H.gen_config(rng, cls, aligned=True)] + special_configs(cls)[:3]
        for c in cfgs:
            obs = H.local_observers(rng, c, 6)
            regions = [r for r, _ in obs]
            loc = np.array([p for _, p in obs], dtype=float)
            k = H.LENGTH_DEGREE.get(cls, 0)
            name, kw1 = functional_kwargs(c, 1.0)
            fields = ("B", "H") + (("J",) if cls not in ("Circle", "Polyline", "Dipole", "Triangle") else ())
            try:
                ref = {f: np.atleast_2d(getattr(magpy, "get" + f)(name, loc, **kw1)) for f in fields}
            except Exception as e:   # pylint: disable=broad-except
                fail(ctx, "scale-law", f"functional:{cls}:raises:{type(e).__name__}", str(e), {"config": c})
                continue
            for s in BSCALES:
                _, kws = functional_kwargs(c, s)
                for f in fields:
                    got = np.atleast_2d(getattr(magpy, "get" + f)(name, loc * s, **kws))
                    fac = 1.0 if f == "J" else s ** k
                    ok = row_ok(got, ref[f] * fac)
                    ctx.count("oracle_evaluations", len(loc))
                    if not ok.all():
                        i = int(np.argmin(ok))
                        clause = "inside-outside" if f == "J" else "scale-law"
                        cz = dict(c, pose={"position": [0.0, 0.0, 0.0], "rotvec": [0.0, 0.0, 0.0]})
                        cl2, trig = H.diagnose(cz, loc[i].tolist(), s, clause, regions[i])
                        if not trig.startswith(cls + ":"):       # explained by an (open) absolute tolerance
                            fail(ctx, cl2, trig, f"functional interface get{f}('{name}', ...): observer region "
                                 f"{regions[i]} at scale {s:g}: expected {(ref[f][i] * fac).tolist()} got {got[i].tolist()}",
                                 {"config": c, "scale": s, "field": f, "observer_local": loc[i].tolist()})
                            continue
                        fail(ctx, clause, f"functional:{cls}:{regions[i]}:{H.scale_class(s)}",
                             f"functional interface get{f}('{name}', ...): observer region {regions[i]} at scale {s:g}: "
                             f"expected {(ref[f][i] * fac).tolist()} got {got[i].tolist()}",
                             {"config": c, "scale": s, "field": f, "observer_local": loc[i].tolist()})
            _, kwe = functional_kwargs(c, 1.0, e=H.P2(30))
            got = np.atleast_2d(magpy.getB(name, loc, **kwe))
            if not row_ok(got, ref["B"] * H.P2(30)).all():
                fail(ctx, "excitation-law", f"functional:{cls}", "B not proportional to the excitation (x 2^30)",
                     {"config": c})
            ctx.case(("functional", H.json.dumps(c, sort_keys=True)), True)
            ctx.bump("functional:" + cls)


def check_core(ctx):
    rng = ctx.rng
    n = 12
    o = np.array([[rng.uniform(-2, 2) for _ in range(3)] for _ in range(n)])
    pol = np.array([[rng.uniform(-1, 1) for _ in range(3)] for _ in range(n)])
    dim = np.array([[rng.uniform(0.4, 2) for _ in range(3)] for _ in range(n)])
    V = np.array([[[rng.uniform(-1, 1) for _ in range(3)] for _ in range(3)] for _ in range(n)])
    cur = np.array([rng.uniform(0.5, 2) for _ in range(n)])
    rr = np.abs(o[:, 0]) + 0.1
    core = magpy.core
    calls = {
        "dipole_Hfield": (lambda s: core.dipole_Hfield(observers=o * s, moments=pol), -3),
        "magnet_cuboid_Bfield": (lambda s: core.magnet_cuboid_Bfield(observers=o * s, dimensions=dim * s, polarizations=pol), 0),
        "magnet_sphere_Bfield": (lambda s: core.magnet_sphere_Bfield(observers=o * s, diameters=dim[:, 0] * s, polarizations=pol), 0),
        "triangle_Bfield": (lambda s: core.triangle_Bfield(observers=o * s, vertices=V * s, polarizations=pol), 0),
        "current_polyline_Hfield": (lambda s: core.current_polyline_Hfield(observers=o * s, segments_start=V[:, 0] * s,
                                                                         segments_end=V[:, 1] * s, currents=cur), -1),
        "current_circle_Hfield": (lambda s: core.current_circle_Hfield(r0=dim[:, 0] * s, r=rr * s, z=o[:, 2] * s, i0=cur).T, -1),
    }
    for name, (f, k) in calls.items():
        ref = np.atleast_2d(f(1.0))
        for s in BSCALES:
            got = np.atleast_2d(f(s))
            ctx.bump("core:" + name)
            if not row_ok(got, ref * s ** k).all():
                fail(ctx, "scale-law", f"core:{name}:{H.scale_class(s)}", f"magpylib.core.{name} breaks the scale law at "
                     f"scale {s:g}", {"scale": s})


def check_mesh_constructors(ctx):
    rng = ctx.rng
    pts = np.array([[rng.uniform(-1, 1) for _ in range(3)] for _ in range(14)]) + np.array([2.0, -1.0, 0.5])
    cubeV, cubeF = np.array(H.CUBE_V, dtype=float) + np.array([3.0, 1.0, -2.0]), np.array(H.CUBE_F)
    tri = cubeV[cubeF]
    tri[::2] = tri[::2][:, [0, 2, 1]]               # half of the facets given inside out
    obs = np.array([[3.4, 1.3, -1.6], [3.5, 1.5, 0.5], [6.0, 1.0, -2.0], [2.0, -1.0, 0.5], [2.1, -0.8, 0.9]])
    kw = {"check_open": "ignore", "check_disconnected": "ignore", "reorient_faces": "ignore"}

    def make(which, s):
        with warnings.catch_warnings():
            warnings.simplefilter("ignore")
            if which == "from_ConvexHull":
                return magpy.magnet.TriangularMesh.from_ConvexHull(points=pts * s, polarization=(0.1, -0.2, 1), **kw)
            if which == "from_mesh":
                return magpy.magnet.TriangularMesh.from_mesh(mesh=tri * s, polarization=(0.1, -0.2, 1), **kw)
            trs = [magpy.misc.Triangle(polarization=(0.1, -0.2, 1), vertices=t * s) for t in tri]
            return magpy.magnet.TriangularMesh.from_triangles(triangles=trs, polarization=(0.1, -0.2, 1), **kw)
    for which in ("from_ConvexHull", "from_mesh", "from_triangles"):
        try:
            m1 = make(which, 1.0)
            ref = {f: getattr(m1, "get" + f)(obs) for f in ("B", "J")}
            refio = {io: m1.getJ(obs, in_out=io) for io in ("inside", "outside")}
            f1 = m1.faces.tolist()
        except Exception as e:   # pylint: disable=broad-except
            fail(ctx, "mesh-status", f"{which}:raises:{type(e).__name__}", str(e), {})
            continue
        for s in BSCALES:
            ctx.case(("constructor", which, s), True)
            ctx.bump("constructor:" + which)
            try:
                m = make(which, s)
            except Exception as e:   # pylint: disable=broad-except
                fail(ctx, "mesh-status", f"{which}:raises:{type(e).__name__}:{H.scale_class(s)}",
                     f"TriangularMesh.{which} raised at scale {s:g}: {e}", {"scale": s})
                continue
            if which != "from_ConvexHull" and m.faces.tolist() != f1:
                fail(ctx, "face-orientation", f"{which}:{H.scale_class(s)}", f"faces after reorientation differ at scale {s:g}",
                     {"scale": s})
                continue
            for f in ("B", "J"):
                if not row_ok(getattr(m, "get" + f)(obs * s), ref[f]).all():
                    fail(ctx, "inside-outside" if f == "J" else "scale-law", f"{which}:{H.scale_class(s)}",
                         f"TriangularMesh.{which}: {f} at scale {s:g} differs from scale 1", {"scale": s, "field": f})
            for io in ("inside", "outside"):
                if not row_ok(m.getJ(obs * s, in_out=io), refio[io]).all():
                    fail(ctx, "inside-outside", f"{which}:in_out={io}:{H.scale_class(s)}", "getJ with in_out differs",
                         {"scale": s})
    # Tetrahedron in_out modes
    c = special_configs("Tetrahedron")[2]
    t1 = H.build(c)
    o = H.to_global(c, [[5.2, -2.8, 2.2], [9.0, 0.0, 0.0]], 1.0)
    for io in ("inside", "outside", "auto"):
        r = t1.getB(o, in_out=io)
        for s in BSCALES:
            if not row_ok(H.build(c, s=s).getB(H.to_global(c, [[5.2, -2.8, 2.2], [9.0, 0.0, 0.0]], s), in_out=io), r).all():
                fail(ctx, "scale-law", f"Tetrahedron:in_out={io}:{H.scale_class(s)}", "getB with in_out differs",
                     {"scale": s})


def run_all(ctx, scales, excitations):
    from harness.common import run_guarded
    run_guarded(ctx, lambda: check_special(ctx, scales, excitations), "C12 special configurations")
    run_guarded(ctx, lambda: check_batch(ctx), "C12 batch composition")
    run_guarded(ctx, lambda: check_nesting(ctx), "C12 nesting")
    run_guarded(ctx, lambda: check_histories(ctx), "C12 histories")
    run_guarded(ctx, lambda: check_functional(ctx), "C12 functional interface")
    run_guarded(ctx, lambda: check_core(ctx), "C12 core functions")
    run_guarded(ctx, lambda: check_mesh_constructors(ctx), "C12 mesh constructors / in_out")
