#!/bin/bash
# offline build of the whole framework from files on disk
set -e
cd "$(dirname "$0")"
export PYTHONPATH=/repo PYTHONHASHSEED=0 PYTHONDONTWRITEBYTECODE=1
/venv/bin/python -W ignore - <<'PY'
import sys
import os
sys.path.insert(0, os.getcwd())
from harness.common import Ctx, ensure_makefile, Lock
from translate import GENERATORS
c = Ctx("setup", "quick", 0)
c.regen(sorted(GENERATORS))
with Lock():
    ensure_makefile()
for b in c.broken:
    print("setup: translator failed:", b["name"], b["detail"][:300])
PY
cd coq
timeout 3000 make -j16 -k 2>&1 | grep -v "^COQDEP\|^COQC\|Closed under\|^make" | tail -30 || true
echo "setup done"
