#!/usr/bin/env python3
"""prints the per-property seed summary table of DESIGN.md 16.2 from seeded/*/meta.json"""
import json, glob, collections, os
V = os.path.dirname(os.path.dirname(os.path.abspath(__file__)))
c = collections.Counter()
for f in glob.glob(f'{V}/seeded/*/meta.json'):
    m = json.load(open(f)); pid = m['property']
    if 'status_on_current_tree' in m:
        c[pid, 'obs'] += 1; continue
    r = m.get('runs', {}).get(pid)
    if not r or not r['detected']: c[pid, 'miss'] += 1
    elif 'impl counterexample' in r['stages_that_fired']: c[pid, 'conc'] += 1
    else: c[pid, 'noin'] += 1
print("| property | seeds | detected with a concrete failing input | detected, no-failing-input-found | not detected by its own check | obsolete on the current tree |")
print("|---|---|---|---|---|---|")
tot = collections.Counter()
for i in range(1, 21):
    p = f"C{i:02d}"; row = [c[p, 'conc'], c[p, 'noin'], c[p, 'miss'], c[p, 'obs']]; n = sum(row)
    print(f"| {p} | {n} | {row[0]} | {row[1]} | {row[2]} | {row[3]} |")
    for k, v in zip('ncimo', [n] + row): tot[k] += v
print(f"| all | {tot['n']} | {tot['c']} | {tot['i']} | {tot['m']} | {tot['o']} |")
