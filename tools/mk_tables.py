#!/usr/bin/env python3
"""prints the markdown tables of DESIGN.md sections 12-13 from meta / evidence / known_findings / seeded"""
import glob, json, os
V = os.path.dirname(os.path.dirname(os.path.abspath(__file__)))
ALL = [f"C{i:02d}" for i in range(1, 21)]
print("| id | theorems in Props (obligations) | axioms reported by Print Assumptions | open / fixed findings | technique |")
print("|---|---|---|---|---|")
for pid in ALL:
    m = json.load(open(f"{V}/harness/props/{pid}.meta.json"))
    ev = json.load(open(f"{V}/evidence/{pid}.json")) if os.path.exists(f"{V}/evidence/{pid}.json") else {}
    cov = ev.get("coverage", {})
    kf = json.load(open(f"{V}/known_findings/{pid}.json"))["findings"] if os.path.exists(f"{V}/known_findings/{pid}.json") else []
    ax = sorted({a.split(".")[-1] for v in cov.get("print_assumptions", {}).values() for a in v if not a.startswith("Closed")})
    print(f"| {pid} | {cov.get('obligations')} | {', '.join(ax) or 'none (closed under the global context)'} | "
          f"{sum(1 for f in kf if f.get('status') == 'open')} / {sum(1 for f in kf if f.get('status') == 'fixed')} | {m['technique']} |")
print()
print("| seed | property | what the change does | needs to manifest | detected by (check: stages) |")
print("|---|---|---|---|---|")
for meta in sorted(glob.glob(f"{V}/seeded/*/meta.json")):
    m = json.load(open(meta))
    runs = m.get("runs", {})
    det = "; ".join(f"{k}: {'+'.join(r['stages_that_fired']) or 'VIOLATION'}{' (no-failing-input-found)' if r.get('no_failing_input_found') and 'impl counterexample' not in r['stages_that_fired'] else ''}"
                    for k, r in runs.items() if r["detected"])
    miss = ", ".join(k for k, r in runs.items() if not r["detected"])
    if "status_on_current_tree" in m:
        det = "obsolete on the current tree (equivalent mutant after a fix); caught before"
    print(f"| {m['seed']} | {m['property']} | {(m.get('summary') or '')[:160]} | {(m.get('needs_to_manifest') or '')[:160]} | {det or 'MISSED'}{' [not detected by: ' + miss + ']' if miss and det else ''} |")

print()
print("Open known findings (from known_findings/*.json):")
print()
print("| property | signature | what |")
print("|---|---|---|")
for pid in ALL:
    pth = f"{V}/known_findings/{pid}.json"
    if not os.path.exists(pth):
        continue
    for f in json.load(open(pth))["findings"]:
        if f.get("status") == "open":
            print(f"| {pid} | `{f['signature']}` | {(f.get('what') or '')[:220].replace('|', '/')} |")
print()
fixed = []
for pid in ALL:
    pth = f"{V}/known_findings/{pid}.json"
    if os.path.exists(pth):
        fixed += [(f.get("commit", "?"), pid, f["signature"]) for f in json.load(open(pth))["findings"] if f.get("status") == "fixed"]
print(f"Fixed findings recorded: {len(fixed)} entries over {len({c for c, _, _ in fixed})} distinct commits.")
