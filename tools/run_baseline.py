#!/usr/bin/env python3
"""Run the pinned test suite of a repo tree and compare with /root/.vp/BASELINE.json stable_pass.
usage: run_baseline.py [repo_dir]   -> prints missing passes; exit 0 iff every stable_pass test passed"""
import json
import os
import subprocess
import sys
import tempfile
import xml.etree.ElementTree as ET

repo = sys.argv[1] if len(sys.argv) > 1 else "/repo"
base = json.load(open("/root/.vp/BASELINE.json"))
with tempfile.TemporaryDirectory(prefix="vbase") as d:
    xmlf = os.path.join(d, "r.xml")
    env = dict(os.environ)
    env.pop("MAGPYLIB_VERIF", None)
    env["PYTHONPATH"] = repo
    subprocess.run(f"cd {repo} && /venv/bin/python -m pytest -ra -q -p no:cacheprovider --timeout=900 "
                   f"--continue-on-collection-errors --junitxml={xmlf} -x -q 2>&1 | tail -5".replace(" -x -q", ""),
                   shell=True, env=env)
    passed = set()
    for tc in ET.parse(xmlf).getroot().iter("testcase"):
        if not any(ch.tag in ("failure", "error", "skipped") for ch in tc):
            passed.add(f"{tc.get('classname')}::{tc.get('name')}")
missing = [t for t in base["stable_pass"] if t not in passed]
print(f"stable_pass={len(base['stable_pass'])} passed_now={len(passed)} missing={len(missing)}")
for m in missing[:40]:
    print("  MISSING", m)
sys.exit(1 if missing else 0)
