#!/usr/bin/env python3
"""writes /verif/MANIFEST.json from the table below (single source of truth)"""
import json
import os

VERIF = os.path.dirname(os.path.dirname(os.path.abspath(__file__)))
ALL = [f"C{i:02d}" for i in range(1, 21)]

AX_CLOSED = "all property theorems are closed under the global context (no axioms)"
AX_REAL = ("theorems over R depend on the standard-library axioms ClassicalDedekindReals.sig_not_dec, "
           "ClassicalDedekindReals.sig_forall_dec, FunctionalExtensionality.functional_extensionality_dep, "
           "Classical_Prop.classic (as Print Assumptions reports; copied into the evidence)")
COMMON = ("Trusted: Coq 8.16.1 kernel + vm_compute (no native_compute); no Axiom/Parameter/Admitted of our own "
          "(grepped each run); numpy/scipy primitives are modelled, binary64 rounding is outside the theorems. ")

def load_checks():
    """one harness/props/Cxx.meta.json per claimed property: {text, note, technique, design}"""
    out = {}
    ready = set(open(os.path.join(VERIF, "tools", "ready.txt")).read().split())
    for pid in ALL:
        p = os.path.join(VERIF, "harness", "props", pid + ".meta.json")
        if os.path.exists(p) and pid in ready:
            out[pid] = json.load(open(p))
    return out


CHECKS = load_checks()

NA = {}   # property id -> reason, for properties the technique cannot decide
NOT_YET = "not built yet in this development (work in progress; see DESIGN.md section 9 build order)"


def main():
    checks = []
    for pid in ALL:
        if pid not in CHECKS:
            continue
        c = CHECKS[pid]
        checks.append({
            "property_id": pid,
            "quick_cmd": f"./check {pid} --tier quick",
            "thorough_cmd": f"./check {pid} --tier thorough",
            "evidence_file": f"/verif/evidence/{pid}.json",
            "replay_cmd_template": f"./check {pid} --replay {{path}}",
            "engine": "coq-harness",
            "level_claimed": {"category": "proof", "text": c["text"], "design_ref": c["design"]},
            "level_note": COMMON + c["note"],
            "technique": c["technique"],
        })
    man = {
        "version": 1,
        "setup_cmd": "cd /verif && ./setup.sh",
        "hooks": {
            "guard": "MAGPYLIB_VERIF",
            "enable": "no hooks are needed: checks import /repo's working tree directly (PYTHONPATH=/repo)",
            "baseline_off_cmd": "cd /repo && /venv/bin/python -m pytest -ra -q -p no:cacheprovider --timeout=900 "
                                "--continue-on-collection-errors",
            "source_commits": [],
            "add_only": True,
        },
        "engines": [{
            "name": "coq-harness", "path": "/verif/check",
            "serves_properties": sorted(CHECKS),
            "kind_free_text": "Coq 8.16.1 development (coq/) + translators (translate/) + Python correspondence "
                              "and search harness (harness/)",
        }],
        "checks": checks,
        "not_applicable": [{"property_id": p, "reason": NA.get(p, NOT_YET)} for p in ALL if p not in CHECKS],
        "notes": "See DESIGN.md. Every check: regen Gen/*.v from /repo -> make -> correspondence -> search -> verdict.",
    }
    with open(os.path.join(VERIF, "MANIFEST.json"), "w") as f:
        json.dump(man, f, indent=1)
    print("wrote MANIFEST.json with", len(checks), "checks")


if __name__ == "__main__":
    main()
