#!/bin/bash
# tools/try_seed.sh <seed dir name, e.g. C04-A> [check ids...]: run checks against a scratch copy of /repo with the seeded patch
# (non-disruptive variant of "git -C /repo apply; run; git checkout": other work may be using /repo)
seed=$1; shift; ids="$@"; [ -z "$ids" ] && ids=${seed%%-*}
sc=/tmp/repo_lead_$seed
rm -rf $sc; cp -r /repo $sc; git -C $sc checkout -q -- . 
git -C $sc apply /verif/seeded/$seed/patch.diff || { echo "patch does not apply to current /repo"; rm -rf $sc; exit 2; }
mkdir -p /verif/.cache/seedruns
for id in $ids; do
  s=$(date +%s)
  (cd /verif && VERIF_REPO=$sc VERIF_EVIDENCE_DIR=/verif/.cache/seedruns/ev_$seed timeout 3000 ./check $id --tier ${TIER:-quick} > /verif/.cache/seedruns/$seed.$id.log 2>&1); rc=$?
  e=$(date +%s)
  echo "seed=$seed check=$id rc=$rc wall=$((e-s))s :: $(grep '^VIOLATION\|^OK' /verif/.cache/seedruns/$seed.$id.log | head -3 | tr '\n' ' ')"
done
rm -rf $sc
