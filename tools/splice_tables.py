#!/usr/bin/env python3
"""rewrites the generated tables of DESIGN.md 16.1 (per property) and 16.2 (seed summary) in place"""
import subprocess, os
V = os.path.dirname(os.path.dirname(os.path.abspath(__file__)))
p = f"{V}/DESIGN.md"; s = open(p).read()
t = subprocess.run(['python3', f'{V}/tools/mk_tables.py'], capture_output=True, text=True).stdout
t1 = t[:t.index("\n\n")] + "\n"
a = s.index("| id | theorems in Props (obligations)"); b = s.index("| C20 |", a); b = s.index("\n", b) + 1
s = s[:a] + t1 + s[b:]
t2 = subprocess.run(['python3', f'{V}/tools/seed_summary.py'], capture_output=True, text=True).stdout
a = s.index("| property | seeds | detected with a concrete failing input"); b = s.index("| all |", a); b = s.index("\n", b) + 1
s = s[:a] + t2 + s[b:]
open(p, 'w').write(s)
