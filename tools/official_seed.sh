#!/bin/bash
# tools/official_seed.sh <seed> ...: the brief's procedure on /repo ITSELF, one seed at a time:
#   git -C /repo apply seeded/<seed>/patch.diff ; ./check <own property> --tier quick ; git -C /repo checkout -- .
# (only when nothing else is using /repo). Evidence of these runs goes to .cache/official/ev so evidence/ keeps describing the unchanged tree.
cd /verif; mkdir -p .cache/official
for seed in "$@"; do
  id=${seed%%-*}
  [ -z "$(git -C /repo status --short | grep -v '^??')" ] || { echo "/repo not clean"; exit 2; }
  git -C /repo apply /verif/seeded/$seed/patch.diff || { echo "seed=$seed patch does not apply"; continue; }
  s=$(date +%s)
  VERIF_EVIDENCE_DIR=/verif/.cache/official/ev timeout 3000 ./check $id --tier quick > .cache/official/$seed.log 2>&1; rc=$?
  git -C /repo checkout -- .
  e=$(date +%s)
  echo "official seed=$seed check=$id rc=$rc wall=$((e-s))s violations=$(grep -c '^VIOLATION' .cache/official/$seed.log) no-input=$(grep -c 'no-failing-input-found' .cache/official/$seed.log) repo_clean=$([ -z "$(git -C /repo status --short | grep -v '^??')" ] && echo yes || echo NO)"
done
