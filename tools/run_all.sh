#!/bin/bash
# tools/run_all.sh [quick|thorough] [ids...]: run every claimed check sequentially, summarise
cd "$(dirname "$0")/.."
tier=${1:-quick}; shift
ids="$@"
[ -z "$ids" ] && ids=$(ls harness/props/C??.meta.json | sed 's/.*\(C..\)\.meta\.json/\1/')
mkdir -p .cache/runall
for id in $ids; do
  s=$(date +%s)
  timeout 3600 ./check $id --tier $tier > .cache/runall/$id.$tier.log 2>&1; rc=$?
  e=$(date +%s)
  v=$(grep -c '^VIOLATION' .cache/runall/$id.$tier.log); k=$(grep -c '^KNOWN-FINDING' .cache/runall/$id.$tier.log)
  ev=$(python3-vt -c "import json,jsonschema,sys; jsonschema.validate(json.load(open('evidence/$id.json')), json.load(open('/root/.vp/EVIDENCE.schema.json'))); print('evidence-ok')" 2>&1 | tail -1)
  echo "$id rc=$rc wall=$((e-s))s violations=$v known=$k $ev | $(grep '^OK\|^VIOLATION' .cache/runall/$id.$tier.log | head -2 | tr '\n' ' ')"
done
