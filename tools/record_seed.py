#!/usr/bin/env python3
"""fill seeded/<seed>/meta.json 'runs' from .cache/seedruns/<seed>.<check>.log (written by tools/try_seed.sh)"""
import glob, json, os, re, sys
V = os.path.dirname(os.path.dirname(os.path.abspath(__file__)))
for meta in sorted(glob.glob(os.path.join(V, "seeded", "*", "meta.json"))):
    seed = os.path.basename(os.path.dirname(meta))
    m = json.load(open(meta))
    if "status_on_current_tree" in m:      # obsolete / equivalent on the current tree: keep the hand-written record
        print(seed, "obsolete on current tree")
        continue
    runs = m.get("runs", {})
    for log in sorted(glob.glob(os.path.join(V, ".cache", "seedruns", f"{seed}.C??.log"))):
        chk = log.split(".")[-2]
        txt = open(log).read()
        viol = re.findall(r"^VIOLATION .*$", txt, flags=re.M)
        ok = re.findall(r"^OK .*$", txt, flags=re.M)
        stage = sorted(set(re.findall(r"(broken-proof|broken-translator|broken-correspondence|impl counterexample)", txt)))
        runs[chk] = {"cmd": f"tools/try_seed.sh {seed} {chk}  (patch applied to a scratch copy of /repo, VERIF_REPO=<copy> ./check {chk} --tier quick)",
                     "detected": bool(viol), "violation_lines": [v[:200] for v in viol[:3]],
                     "no_failing_input_found": any("no-failing-input-found" in v for v in viol),
                     "stages_that_fired": stage, "ok_line": ok[:1]}
    m["runs"] = runs
    m["caught_by"] = sorted(k for k, r in runs.items() if r["detected"]) or None
    json.dump(m, open(meta, "w"), indent=1)
    print(seed, "caught_by", m["caught_by"], {k: r["stages_that_fired"] for k, r in runs.items()})
