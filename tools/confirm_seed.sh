#!/bin/bash
# tools/confirm_seed.sh Cxx A|B : confirm a seeded change in the scratch worktree /tmp/seed/Cxx, then keep it under seeded/
id=$1; v=$2; wt=/tmp/seed/$id; out=/tmp/seed/${id}_out/$v
[ -f $out/patch.diff ] || { echo "no patch"; exit 2; }
git -C $wt checkout -q -- . ; git -C $wt status --short | grep -v '^??' | head -3
run() { (cd $wt && PYTHONPATH=$wt timeout 900 /venv/bin/python -W ignore $out/demo.py > $out/demo.$1.log 2>&1; echo $?); }
c=$(run clean)
git -C $wt apply $out/patch.diff || { echo "patch does not apply"; exit 2; }
p=$(run patched)
b=$(/venv/bin/python /verif/tools/run_baseline.py $wt 2>&1 | grep stable_pass)
git -C $wt checkout -q -- .
echo "$id-$v demo_clean_rc=$c demo_patched_rc=$p baseline: $b"
if [ "$c" = 0 ] && [ "$p" != 0 ] && echo "$b" | grep -q "missing=0"; then
  d=/verif/seeded/$id-$v; mkdir -p $d; cp $out/patch.diff $out/demo.py $d/
  /venv/bin/python - "$id" "$v" "$out" "$d" "$c" "$p" "$b" <<'PY'
import json,sys
id,v,out,d,c,p,b=sys.argv[1:]
n=json.load(open(out+"/notes.json"))
json.dump({"seed":f"{id}-{v}","property":id,"summary":n.get("summary"),"why_it_breaks":n.get("why_it_breaks"),
 "needs_to_manifest":n.get("needs_to_manifest"),"author":"independent sub-agent given only the property text and a scratch worktree",
 "confirmed_by_lead":{"demo_clean_rc":int(c),"demo_patched_rc":int(p),"baseline":b.strip(),
 "how":"tools/confirm_seed.sh: demo on clean scratch worktree, git apply patch.diff, demo again, tools/run_baseline.py on the patched worktree, checkout"},
 "caught_by":None},open(d+"/meta.json","w"),indent=1)
PY
  echo "KEPT $d"
else echo "REJECTED $id-$v"; fi
