#!/bin/bash
# tools/process_seed.sh Cxx "K L": confirm each delivered seed (tools/confirm_seed.sh) and run the owning check against it (tools/try_seed.sh)
id=$1; for v in $2; do
  [ -f /tmp/seed/${id}_out/$v/patch.diff ] || { echo "$id-$v: no patch delivered"; continue; }
  tools/confirm_seed.sh $id $v 2>&1 | grep -v WARNING | tail -2
  [ -d seeded/$id-$v ] && tools/try_seed.sh $id-$v 2>&1 | grep -v WARNING | cut -c1-300
done
