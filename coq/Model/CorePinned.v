(* C01 -- fingerprints (translate/gen_core.py) of the implementation functions against which
   CoreModel.v / CoreFrame.v were written and checked by hand.  Gen/GenCore.v is regenerated from
   /repo on every run; Props/C01.v states that the two lists are equal.  Update this list ONLY
   after re-reading the changed function and updating the model. *)
From Coq Require Import List String.
Import ListNotations.
Open Scope string_scope.

Definition pinned_fingerprints : list (string * string) :=
  [("field_BH_dipole.dipole_Hfield", "2210c24c91b68fca58ff2d8c6b26e99c");
  ("field_BH_dipole.BHJM_dipole", "2bd0b5d1d3aa31ee6837af1a3b18a7c0");
  ("field_BH_sphere.BHJM_magnet_sphere", "886483d9939ea3c1c16c99b931e738a2");
  ("field_BH_polyline.current_polyline_Hfield", "4bce1a6ef5c965dfb8fbfd90959214ae");
  ("field_BH_polyline.BHJM_current_polyline", "f60c6a7a0a89dee787fffae75eae58e8");
  ("field_BH_circle.BHJM_circle", "7e22ab16a317fae3ca58f2fb1b3742e7");
  ("field_wrap_BH.getBH_level1", "339d706bf3e8e6db6618ebd20dfd5673");
  ("utility.cart_to_cyl_coordinates", "758b462237e80e8f4a0ac715b9056a2b");
  ("utility.cyl_field_to_cart", "7e9db6dc6bbb8da022ee7d220722b217");
  (* not modelled, pinned as whole modules (every top-level function): an edit must be reviewed and re-pinned *)
  ("field_BH_cylinder_segment.<all 161 functions>", "b845ea13de9e310363b4710c913793d4");
  ("special_el3.<all 4 functions>", "f06dd37fe10026518a2c19ff7efe7770");
  ("special_cel.<all 6 functions>", "3413733ee6d997671e104bd0c620f42e")].
