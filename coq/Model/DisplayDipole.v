(* C19 -- traces_core.make_Dipole: the rotation that turns the arrow model (built along +z) onto the moment
   (definitions only; over the real numbers, not executable).

        nvec = moment / |moment| ;  zaxis = (0, 0, 1)
        cross = np.cross(nvec, zaxis) ;  n = np.linalg.norm(cross)
        if n == 0:
            n = 1
            cross = np.array([-np.sign(nvec[-1]), 0, 0])
        dot = np.dot(nvec, zaxis) ;  t = np.arccos(dot)
        vec = -t * cross / n
        mag_orient = RotScipy.from_rotvec(vec)

   scipy's Rotation.from_rotvec(vec).apply(v) is MODELLED (not verified) as Rodrigues' formula for the angle
   |vec| about vec / |vec|, and the identity for the zero vector. *)
From Coq Require Import Reals.
From MV Require Import Model.DisplayRound.
Open Scope R_scope.

Definition dot3r (u v : P3) : R := let '(a, b, c) := u in let '(x, y, z) := v in a * x + b * y + c * z.
Definition cross3r (u v : P3) : P3 :=
  let '(a, b, c) := u in let '(x, y, z) := v in (b * z - c * y, c * x - a * z, a * y - b * x).
Definition smul3r (s : R) (v : P3) : P3 := let '(x, y, z) := v in (s * x, s * y, s * z).
Definition add3r (u v : P3) : P3 := let '(a, b, c) := u in let '(x, y, z) := v in (a + x, b + y, c + z).
Definition norm3r (v : P3) : R := sqrt (dot3r v v).
Definition zcomp (v : P3) : R := let '(_, _, z) := v in z.
Definition np_sign (x : R) : R := if Rlt_dec 0 x then 1 else if Rlt_dec x 0 then -1 else 0.

Definition rodrigues (k : P3) (t : R) (v : P3) : P3 :=
  add3r (add3r (smul3r (cos t) v) (smul3r (sin t) (cross3r k v))) (smul3r (dot3r k v * (1 - cos t)) k).
Definition rotvec_apply (vec v : P3) : P3 :=
  if Req_EM_T (norm3r vec) 0 then v else rodrigues (smul3r (/ norm3r vec) vec) (norm3r vec) v.

Definition zaxis : P3 := (0, 0, 1).
Definition dipole_rotvec (nvec : P3) : P3 :=
  let cr := cross3r nvec zaxis in
  let n := norm3r cr in
  let t := acos (dot3r nvec zaxis) in
  if Req_EM_T n 0 then smul3r (- t / 1) (- np_sign (zcomp nvec), 0, 0)
  else smul3r (- t / n) cr.

(* RECORD (seeded defect C19-C, not the current code): the degenerate branch without the replacement axis *)
Definition dipole_rotvec_seed_C19C (nvec : P3) : P3 :=
  let cr := cross3r nvec zaxis in
  let n := norm3r cr in
  let t := acos (dot3r nvec zaxis) in
  smul3r (- t / (if Req_EM_T n 0 then 1 else n)) cr.
