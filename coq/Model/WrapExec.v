(* WrapExec -- executable instance of WrapModel over canonical rationals (Qc), the integer-polynomial
   STUB cores that harness/props/C02.py monkey-patches into the field modules, and the case checker
   run by the correspondence stage.  DEFINITIONS ONLY.
   Every binary64 number is an exact rational; the model computes in exact arithmetic, the implementation
   rounds; results are compared with a relative tolerance of 2^-30 (mask decisions are compared exactly:
   a wrong mask changes an output by O(1)). *)
From Coq Require Import List Bool ZArith QArith Qcanon Qabs Qround.
From MV Require Import Model.WrapModel.
Import ListNotations.

Definition q (n : Z) (d : positive) : Qc := Q2Qc (n # d).
Definition z (n : Z) : Qc := Q2Qc (inject_Z n).

Definition qc_ltb (x y : Qc) : bool := negb (Qle_bool (this y) (this x)).
Definition qc_leb (x y : Qc) : bool := Qle_bool (this x) (this y).
Definition qc_abs (x : Qc) : Qc := Q2Qc (Qabs (this x)).
(* exact square root of a rational square (integer square roots of numerator and denominator);
   only reached by cir_axis_Hz, whose inputs the harness chooses as Pythagorean triples *)
Definition qc_ceil (x : Qc) : Qc := Q2Qc (inject_Z (Qceiling (this x))).
Definition qc_sqrt (x : Qc) : Qc :=
  Q2Qc (Z.sqrt (Qnum (this x)) # Pos.sqrt (Qden (this x))).

#[global] Instance QcOps : NumOps := {|
  F := Qc; f0 := 0%Qc; f1 := 1%Qc;
  fadd := Qcplus; fsub := Qcminus; fmul := Qcmult; fdiv := Qcdiv; fopp := Qcopp; finv := Qcinv;
  fabs := qc_abs; fsqrt := qc_sqrt; fceil := qc_ceil; fofZ := z;
  feqb := Qc_eq_bool; fltb := qc_ltb; fleb := qc_leb
|}.

Local Open Scope num_scope.

(* ------------------------------------------------------------------ stub cores (mirrored in harness/props/C02.py) *)
Definition n_ (k : Z) : Qc := z k.

Definition stub_cuboid (r : cub_row) : vec :=
  let '(x, y, zz) := cu_obs r in let '(dx, dy, dz) := cu_dim r in let '(px, py, pz) := cu_pol r in
  (n_ 2 * x + n_ 3 * dy + n_ 5 * pz + n_ 1,
   n_ 2 * dz - n_ 3 * y + n_ 7 * px + n_ 2,
   n_ 5 * zz + n_ 2 * dx - n_ 3 * py + x * y + n_ 3).

(* magnet_cylinder_diametral_Hfield(z0, r, z, phi - tetta) -> rows (Hr, Hphi, Hz) *)
Definition stub_cyl_tv (z0 rr zz : Qc) (r : cyl_row) : vec :=
  (z0 + n_ 2 * rr + n_ 1, zz - rr + cy_dphi r + n_ 2, n_ 3 * z0 + zz + n_ 3).
(* magnet_cylinder_axial_Bfield(z0, r, z) -> rows (Br, Bphi, Bz) *)
Definition stub_cyl_ax (z0 rr zz : Qc) (r : cyl_row) : vec :=
  (rr + z0 + n_ 1, n_ 2 * zz + rr + n_ 4, zz - n_ 2 * z0 + n_ 5).

(* magnet_cylinder_segment_Hfield(magnetizations=(m, phi_m, th_m), dimensions=(r1,r2,phi1,phi2,z1,z2),
   observers=(r,phi,z)) with m = |pol| / MU0 *)
Definition stub_seg (mu0 : Qc) (r : seg_row) : vec :=
  let m := cs_pabs r / mu0 in
  let r1 := qc_abs (cs_r1 r) in let r2 := qc_abs (cs_r2 r) in let h := qc_abs (cs_h r) in
  let z1 := (- h) / n_ 2 in let z2 := h / n_ 2 in
  (m / n_ 1048576 + r1 + n_ 2 * cs_r r + n_ 1,
   r2 + cs_phi1r r - cs_phi r + z2 + n_ 2,
   cs_z r + z1 + cs_phi2r r + n_ 3).

Definition stub_tri (r : tri_row) : vec :=
  let '(x, y, zz) := tr_obs r in let '(px, py, pz) := tr_pol r in
  let '(v0, v1, v2) := tr_v r in
  let '(a1, a2, a3) := v0 in let '(b1, b2, b3) := v1 in let '(c1, c2, c3) := v2 in
  (x + a1 + n_ 2 * b2 + px + n_ 1, y - c3 + py + a2 * n_ 3 + n_ 2, zz + b1 + n_ 3 * pz + c1 + n_ 3).

(* current_circle_Hfield(r0, r, z, i0) -> rows (Hr, Hphi, Hz); Hphi is discarded by the wrapper *)
Definition stub_circle (r : cir_row) : vec :=
  let r0 := cir_r0 r in
  (r0 + ci_r r * ci_i r + n_ 1, n_ 7, ci_z r - n_ 2 * r0 + ci_i r + n_ 2).

Definition stub_polyline (r : pol_row) : vec :=
  let '(x, y, zz) := pl_obs r in let '(a1, a2, a3) := pl_p1 r in let '(b1, b2, b3) := pl_p2 r in
  (x + a1 - b2 + pl_i r + n_ 1, y + n_ 2 * a3 + b1 + n_ 2, zz * pl_i r + a2 - b3 + n_ 3).

Definition stub_dipole (r : dip_row) : vec :=
  let '(x, y, zz) := di_obs r in let '(m1, m2, m3) := di_mom r in
  (x + n_ 2 * m2 + n_ 1, y * m1 - m3 + n_ 2, zz + m1 + n_ 3).

(* stub of mask_inside_trimesh(points, faces): the point's x lies left of the first vertex of the first face *)
Definition stub_mesh_inside (m : list tri) (p : vec) : bool :=
  match m with
  | ((a1, _, _), _, _) :: _ => let '(x, _, _) := p in qc_ltb x a1
  | [] => false
  end.

Definition veq (a b : vec) : bool := veqb a b.
Definition tri_eqb (s t : tri) : bool :=
  let '(a, b, c) := s in let '(a', b', c') := t in veq a a' && veq b b' && veq c c'.
Fixpoint list_eqb {A} (e : A -> A -> bool) (l m : list A) : bool :=
  match l, m with
  | [], [] => true
  | x :: l', y :: m' => e x y && list_eqb e l' m'
  | _, _ => false
  end.
Definition stub_mesh_eqb (a b : list tri) : bool := list_eqb tri_eqb a b.

(* ------------------------------------------------------------------ tolerances: filled in from the source *)
(* the executable Tols instance is built in the generated cases file from Gen.GenWrapTol *)
Definition mkTols (c1 c2 c3 c4 c5 c6 c7 c8 c9 c10 c11 c12 c13 : Qc) : @Tols QcOps :=
  {| t_cub_surf := c1; t_cyl_hull_r := c2; t_cyl_hull_a := c3; t_cyl_base_r := c4; t_cyl_base_a := c5;
     t_seg_close_r := c6; t_seg_close_a := c7; t_seg_r_lo := c8; t_seg_r_hi := c9; t_seg_z_lo := c10;
     t_seg_z_hi := c11; t_cir_sing := c12; t_cir_sing_z := c13 |}.

(* ------------------------------------------------------------------ cases *)
Definition eps : Qc := q 1 1073741824.
Definition nclose (e m : Qc) : bool := qc_leb (qc_abs (e - m)) (eps * (1 + qc_abs e)).
Definition vclose (e m : vec) : bool :=
  let '(e1, e2, e3) := e in let '(m1, m2, m3) := m in nclose e1 m1 && nclose e2 m2 && nclose e3 m3.
Fixpoint lclose (e m : list vec) : bool :=
  match e, m with
  | [], [] => true
  | x :: e', y :: m' => vclose x y && lclose e' m'
  | _, _ => false
  end.

Definition all_fields : list fld := [FB; FH; FJ; FM].

(* expected: the implementation's outputs for B, H, J, M in this order *)
Fixpoint forall2b {A B} (e : A -> B -> bool) (l : list A) (m : list B) : bool :=
  match l, m with
  | [], [] => true
  | x :: l', y :: m' => e x y && forall2b e l' m'
  | _, _ => false
  end.
Definition check4 (model : fld -> list vec) (exp : list (list vec)) : bool :=
  forall2b (fun f e => lclose e (model f)) all_fields exp.

Inductive xcase :=
| XCub (rows : list cub_row) (exp : list (list vec))
| XCyl (rows : list cyl_row) (exp : list (list vec))
| XSeg (rows : list seg_row) (exp : list (list vec))
| XSegI (rows : list seg_row) (exp : list (list vec))
| XSph (rows : list sph_row) (exp : list (list vec))
| XTri (rows : list tri_row) (exp : list (list vec))
| XTet (io : inout) (rows : list tet_row) (exp : list (list vec))
| XMsh (io : inout) (rows : list msh_row) (exp : list (list vec))
| XCir (rows : list cir_row) (exp : list (list vec))
| XPol (rows : list pol_row) (exp : list (list vec))
| XDip (rows : list dip_row) (exp : list (list vec))
| XExc (c_mul c_div : Qc) (h : list assign) (exp : list exc).

Definition oclose (a b : option vec) : bool :=
  match a, b with
  | None, None => true
  | Some x, Some y => vclose x y
  | _, _ => false
  end.
Definition exc_close (e m : exc) : bool := oclose (e_pol e) (e_pol m) && oclose (e_mag e) (e_mag m).
Fixpoint exc_trace (c_mul c_div : Qc) (s : exc) (h : list assign) : list exc :=
  match h with
  | [] => []
  | a :: h' => let s' := exc_step c_mul c_div s a in s' :: exc_trace c_mul c_div s' h'
  end.

Section Run.
Context {T : @Tols QcOps}.
Variable mu0 : Qc.

Definition run_case (c : xcase) : bool :=
  match c with
  | XCub rows exp => check4 (fun f => map (bhjm_cuboid stub_cuboid mu0 f) rows) exp
  | XCyl rows exp => check4 (fun f => map (bhjm_cylinder stub_cyl_tv stub_cyl_ax mu0 f) rows) exp
  | XSeg rows exp => check4 (fun f => bhjm_seg_batch (stub_seg mu0) mu0 f rows) exp
  | XSegI rows exp => check4 (fun f => bhjm_seg_internal_batch (stub_seg mu0) stub_cyl_tv stub_cyl_ax mu0 f rows) exp
  | XSph rows exp => check4 (fun f => map (bhjm_sphere mu0 f) rows) exp
  | XTri rows exp => check4 (fun f => map (bhjm_triangle stub_tri mu0 f) rows) exp
  | XTet io rows exp => check4 (fun f => map (bhjm_tetrahedron stub_tri mu0 io f) rows) exp
  | XMsh io rows exp => check4 (fun f => bhjm_trimesh_batch stub_tri stub_mesh_inside stub_mesh_eqb mu0 io f rows) exp
  | XCir rows exp => check4 (fun f => map (bhjm_circle stub_circle mu0 f) rows) exp
  | XPol rows exp => check4 (fun f => bhjm_polyline_batch stub_polyline mu0 f rows) exp
  | XDip rows exp => check4 (fun f => map (bhjm_dipole stub_dipole mu0 f) rows) exp
  | XExc c_mul c_div h exp => list_eqb exc_close exp (exc_trace c_mul c_div exc_init h)
  end.

Fixpoint failing_from (i : Z) (cs : list xcase) : list Z :=
  match cs with
  | [] => []
  | c :: cs' => if run_case c then failing_from (i + 1)%Z cs' else i :: failing_from (i + 1)%Z cs'
  end.
Definition failing (cs : list xcase) : list Z := failing_from 0%Z cs.
End Run.
