(* C05 -- the assembly of magnet_cuboid_Bfield (field_BH_cuboid.py) from the six geometry-only terms
   `cuboid_ff` and the contribution table `cuboid_contrib`, both TRANSLATED from /repo on every run
   (Gen/GenCuboid.v by translate/gen_cuboid.py, which also checks the form
   `[-]pol_k * ffN * qsigns[:, k, j]` of every contribution, the three octant masks and `B /= 4*pi`).
   Hand-written here: the octant flips of the observer and the qs_flip sign matrices.
   Also: WrapModel's numeric class instantiated with R.  Definitions only. *)
From Coq Require Import Reals List ZArith Bool.
From MV Require Import Gen.GenCuboid Model.CoreNum Model.WrapModel.
Import ListNotations.
Local Open Scope R_scope.

Definition cub_pick (k : nat) (v : R * R * R) : R := let '(a, b, c) := v in nth k [a; b; c] 0.

Definition cub_term (at2 : R -> R -> R) (i : nat) (x y z a b c : R) : R :=
  let '(t0, t1, t2, t3, t4, t5) := cuboid_ff at2 x y z a b c in nth i [t0; t1; t2; t3; t4; t5] 0.

(* component j of B: sum over the table rows feeding j of [-]pol_k * term_i * qsigns[k][j], over 4 pi *)
Definition cub_comp (tbl : list (nat * nat * bool * nat)) (q : nat -> nat -> R) (t : nat -> R)
    (pol : R * R * R) (j : nat) : R :=
  fold_right (fun e acc =>
                let '(k, j', neg, i) := e in
                if Nat.eqb j' j
                then (if neg : bool then - cub_pick k pol * t i * q k j else cub_pick k pol * t i * q k j) + acc
                else acc) 0 tbl / (4 * PI).

Definition sgn_mat (m : list (list R)) (k j : nat) : R := nth j (nth k m []) 1.
Definition qs_flipx := [[1; -1; -1]; [-1; 1; 1]; [-1; 1; 1]].
Definition qs_flipy := [[1; -1; 1]; [-1; 1; -1]; [1; -1; 1]].
Definition qs_flipz := [[1; 1; -1]; [1; 1; -1]; [-1; -1; 1]].

(* maskx = x < 0, masky = y > 0, maskz = z > 0; v[mask] = v[mask] * -1; qsigns[mask] *= qs_flip *)
Definition cub_qsigns (x y z : R) (k j : nat) : R :=
  (if Rltb x 0 then sgn_mat qs_flipx k j else 1) *
  (if Rltb 0 y then sgn_mat qs_flipy k j else 1) *
  (if Rltb 0 z then sgn_mat qs_flipz k j else 1).

Definition cuboid_B (at2 : R -> R -> R) (obs dim pol : R * R * R) : R * R * R :=
  let '(x, y, z) := obs in let '(dx, dy, dz) := dim in
  let a := dx / 2 in let b := dy / 2 in let c := dz / 2 in
  let x' := if Rltb x 0 then x * -1 else x in
  let y' := if Rltb 0 y then y * -1 else y in
  let z' := if Rltb 0 z then z * -1 else z in
  let t i := cub_term at2 i x' y' z' a b c in
  let q := cub_qsigns x y z in
  (cub_comp cuboid_contrib q t pol 0, cub_comp cuboid_contrib q t pol 1, cub_comp cuboid_contrib q t pol 2).

(* WrapModel's numeric operations over R (comparisons by excluded middle; sqrt / abs from the library) *)
Definition Rleb (a b : R) : bool := if Rle_dec a b then true else false.
Definition RWrap : NumOps := {|
  F := R; f0 := 0; f1 := 1; fadd := Rplus; fsub := Rminus; fmul := Rmult; fdiv := Rdiv;
  fopp := Ropp; finv := Rinv; fabs := Rabs; fsqrt := sqrt;
  fceil := fun x => - IZR (up (- x) - 1);        (* ceil x = - floor (- x) *)
  fofZ := IZR;
  feqb := Reqb; fltb := Rltb; fleb := Rleb |}.

(* BHJM_magnet_cuboid over R with this core *)
Definition cuboid_core_row (at2 : R -> R -> R) (r : @cub_row RWrap) : @vec RWrap :=
  cuboid_B at2 (cu_obs r) (cu_dim r) (cu_pol r).
