(* C16 -- executable model of the index-level mesh checks of
   /repo/magpylib/_src/fields/field_BH_triangularmesh.py :
     get_open_edges, get_disconnected_faces_subsets, get_inwards_mask (+ fix_trimesh_orientation).
   DEFINITIONS ONLY.  Vertex ids are binary naturals (N), face positions are nat.
   The model mirrors the Python line by line (order of effects, order of outputs); numpy
   primitives (np.sort(axis=1), np.unique(axis=0, return_counts=True), np.isin(...).all(axis=1),
   Python set operations) are modelled by their documented list/set meaning.
   The geometric seed test is_facet_inwards (ray casting in floating point) is NOT modelled.  Since every
   call is is_facet_inwards(msh[seed], msh) with the WHOLE mesh as second argument, its answer is a function
   of the seed face alone (for a fixed mesh): it enters get_inwards_mask as `orc : face -> bool`. *)
From Coq Require Import NArith List Bool Arith.
Import ListNotations.

Definition face := (N * N * N)%type.
Definition edge := (N * N)%type.

Definition f0 (f : face) : N := fst (fst f).
Definition f1 (f : face) : N := snd (fst f).
Definition f2 (f : face) : N := snd f.
Definition verts (f : face) : list N := [f0 f; f1 f; f2 f].

Definition edge_eq_dec : forall x y : edge, {x = y} + {x <> y}.
Proof. decide equality; apply N.eq_dec. Defined.

Definition edge_eqb (x y : edge) : bool := N.eqb (fst x) (fst y) && N.eqb (snd x) (snd y).

(* ------------------------------------------------------------------ get_open_edges *)
(* edges = np.concatenate([faces[:, 0:2], faces[:, 1:3], faces[:, ::2]], axis=0) *)
Definition raw_edges (fs : list face) : list edge :=
  map (fun f => (f0 f, f1 f)) fs ++ map (fun f => (f1 f, f2 f)) fs ++ map (fun f => (f0 f, f2 f)) fs.

(* edges = np.sort(edges, axis=1) *)
Definition sort2 (e : edge) : edge := if N.leb (fst e) (snd e) then (fst e, snd e) else (snd e, fst e).
Definition sorted_edges (fs : list face) : list edge := map sort2 (raw_edges fs).

(* np.unique(edges, axis=0, return_counts=True): the distinct rows in lexicographic order,
   each with its number of occurrences *)
Definition edge_leb (x y : edge) : bool :=
  if N.ltb (fst x) (fst y) then true
  else if N.eqb (fst x) (fst y) then N.leb (snd x) (snd y) else false.

Fixpoint insert_edge (e : edge) (l : list edge) : list edge :=
  match l with
  | [] => [e]
  | x :: r => if edge_leb e x then e :: l else x :: insert_edge e r
  end.
Definition isort (l : list edge) : list edge := fold_right insert_edge [] l.

Definition np_unique_counts (l : list edge) : list (edge * nat) :=
  map (fun e => (e, count_occ edge_eq_dec l e)) (isort (nodup edge_eq_dec l)).

(* return edges_uniq[edge_counts != 2] *)
Definition get_open_edges (fs : list face) : list edge :=
  map fst (filter (fun ec => negb (Nat.eqb (snd ec) 2)) (np_unique_counts (sorted_edges fs))).

(* ------------------------------------------------------------------ get_disconnected_faces_subsets *)
(* Python set of vertex ids = duplicate-free list (only membership and len are observed) *)
Definition vmem (v : N) (s : list N) : bool := existsb (N.eqb v) s.
Definition vadd (v : N) (s : list N) : list N := if vmem v s then s else s ++ [v].
Definition vunion (s : list N) (l : list N) : list N := fold_left (fun acc v => vadd v acc) l s.
Definition mkset (l : list N) : list N := vunion [] l.
(* len(first.intersection(set(r))) > 0 *)
Definition intersects (s : list N) (f : face) : bool := existsb (fun v => vmem v s) (verts f).

(*  rest2 = []
    for r in rest:
        if len(first.intersection(set(r))) > 0: first |= set(r)
        else: rest2.append(r)
    rest = rest2 *)
Fixpoint absorb (first : list N) (rest : list face) : list N * list face :=
  match rest with
  | [] => (first, [])
  | r :: rest' =>
      if intersects first r then absorb (vunion first (verts r)) rest'
      else let '(fs, r2) := absorb first rest' in (fs, r :: r2)
  end.

(*  lf = -1                      (None)
    while len(first) > lf:
        lf = len(first); <absorb pass> *)
Definition len_gt (s : list N) (lf : option nat) : bool :=
  match lf with None => true | Some k => Nat.ltb k (length s) end.

Fixpoint grow (fuel : nat) (first : list N) (lf : option nat) (rest : list face) : list N * list face :=
  match fuel with
  | O => (first, rest)
  | S k => if len_gt first lf
           then let '(first', rest') := absorb first rest in grow k first' (Some (length first)) rest'
           else (first, rest)
  end.

(*  while len(tria_temp) > 0:
        first, *rest = tria_temp ; first = set(first) ; <grow> ;
        subsets_inds.append(list(first)) ; tria_temp = rest *)
Fixpoint subsets_inds (fuel : nat) (tria_temp : list face) : list (list N) :=
  match fuel with
  | O => []
  | S k => match tria_temp with
           | [] => []
           | first :: rest =>
               let '(fs, rest') := grow (S (S (length rest))) (mkset (verts first)) None rest in
               fs :: subsets_inds k rest'
           end
  end.

(* faces[np.isin(faces, list(ps)).all(axis=1)] *)
Definition all_in (ps : list N) (f : face) : bool := forallb (fun v => vmem v ps) (verts f).

Definition get_disconnected_faces_subsets (faces : list face) : list (list face) :=
  map (fun ps => filter (all_in ps) faces) (subsets_inds (length faces) faces).

(* ------------------------------------------------------------------ get_inwards_mask *)
(* Python sets of directed edges = duplicate-free lists *)
Definition emem (e : edge) (s : list edge) : bool := existsb (edge_eqb e) s.
Definition eset (l : list edge) : list edge :=
  fold_left (fun acc e => if emem e acc then acc else acc ++ [e]) l [].
(* s ^ t *)
Definition exor (s t : list edge) : list edge :=
  filter (fun e => negb (emem e t)) s ++ filter (fun e => negb (emem e s)) t.
(* bool(s & t) *)
Definition einter (s t : list edge) : bool := existsb (fun e => emem e s) t.

Definition edges_of (t : face) : list edge := [(f0 t, f1 t); (f1 t, f2 t); (f2 t, f0 t)].
Definition edges_r_of (t : face) : list edge := [(f1 t, f0 t); (f2 t, f1 t); (f0 t, f2 t)].

(* body of `for tri_ind in indices` for one triangle: Some (flip, edges to xor into free_edges)
   when `common` is truthy, None otherwise *)
Definition try_tri (free : list edge) (tri : face) : option (bool * list edge) :=
  let edges := eset (edges_of tri) in
  let edges_r := eset (edges_r_of tri) in
  match free with
  | [] => Some (false, edges)                                  (* if not free_edges: common = True *)
  | _ => if einter free edges then Some (true, edges_r)        (* elif common: edges = edges_r; flip = True *)
         else if einter free edges_r then Some (false, edges)  (* else: common = free_edges & edges_r *)
         else None
  end.

Definition dface : face := (0%N, 0%N, 0%N).

Fixpoint find_tri (tris : list face) (free : list edge) (inds : list nat) : option (nat * bool * list edge) :=
  match inds with
  | [] => None
  | i :: r => match try_tri free (nth i tris dface) with
              | Some (fl, es) => Some (i, fl, es)
              | None => find_tri tris free r
              end
  end.

Fixpoint remove_first (i : nat) (l : list nat) : list nat :=
  match l with
  | [] => []
  | x :: r => if Nat.eqb x i then r else x :: remove_first i r
  end.

Fixpoint upd (i : nat) (f : bool -> bool) (m : list bool) : list bool :=
  match m, i with
  | [], _ => []
  | b :: r, O => f b :: r
  | b :: r, S k => b :: upd k f r
  end.

(* mask[indices] = b *)
Definition set_all (inds : list nat) (b : bool) (m : list bool) : list bool :=
  fold_left (fun acc i => upd i (fun _ => b) acc) inds m.

Record pstate := mkP {
  p_indices : list nat;      (* indices *)
  p_free : list edge;        (* free_edges *)
  p_mask : list bool;        (* mask *)
  p_any : bool;              (* any_connected *)
  p_calls : list (nat * nat) (* (seed face, number of faces the seed test is run against = whole mesh) of each
                                call so far, newest first *)
}.

(* one iteration of `while indices:` *)
Definition pstep (tris : list face) (orc : face -> bool) (s : pstate) : pstate :=
  let s1 :=
    if p_any s then s
    else mkP (p_indices s) []
             (set_all (p_indices s) (orc (nth (hd O (p_indices s)) tris dface)) (p_mask s))
             (p_any s)
             ((hd O (p_indices s), length tris) :: p_calls s) in
  match find_tri tris (p_free s1) (p_indices s1) with
  | Some (i, fl, es) =>
      mkP (remove_first i (p_indices s1)) (exor (p_free s1) es)
          (if fl then upd i negb (p_mask s1) else p_mask s1)
          true (p_calls s1)
  | None => mkP (p_indices s1) (p_free s1) (p_mask s1) false (p_calls s1)
  end.

Fixpoint ploop (fuel : nat) (tris : list face) (orc : face -> bool) (s : pstate) : pstate :=
  match fuel with
  | O => s
  | S k => match p_indices s with
           | [] => s
           | _ => ploop k tris orc (pstep tris orc s)
           end
  end.

Definition pinit (n : nat) : pstate := mkP (seq 0 n) [] (repeat false n) false [].

Definition pfinal (tris : list face) (orc : face -> bool) : pstate :=
  ploop (2 * length tris + 2) tris orc (pinit (length tris)).

Definition get_inwards_mask (tris : list face) (orc : face -> bool) : list bool :=
  p_mask (pfinal tris orc).

(* new_faces[inwards_mask] = new_faces[inwards_mask][:, [0, 2, 1]] *)
Definition flip_face (f : face) : face := (f0 f, f2 f, f1 f).
Fixpoint apply_mask (fs : list face) (m : list bool) : list face :=
  match fs, m with
  | f :: fr, b :: mr => (if b then flip_face f else f) :: apply_mask fr mr
  | _, _ => fs
  end.
Definition fix_trimesh_orientation (fs : list face) (orc : face -> bool) : list face :=
  apply_mask fs (get_inwards_mask fs orc).

(* the class level: status_open / status_disconnected as set by check_open / check_disconnected *)
Definition status_open (fs : list face) : bool := negb (Nat.eqb (length (get_open_edges fs)) 0).
Definition status_disconnected (fs : list face) : bool :=
  Nat.ltb 1 (length (get_disconnected_faces_subsets fs)).
