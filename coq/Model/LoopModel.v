(* C15 -- fuelled models of the convergence loops of magpylib/_src/fields/special_cel.py and of the
   two cores that feed them (field_BH_circle.py, field_BH_cylinder.py axial).  DEFINITIONS ONLY.

   The loop tests, loop bodies and return expressions are NOT written here: they are the functions
   <f>_cond / <f>_step / <f>_ret of Gen/GenLoop.v, re-translated from /repo on every run.  What is
   hand-written (and tied to the code by the bit-exact correspondence of harness/props/C15.py):
     * the control structure around them (while / np.any over the batch / the masked do-while of celv),
     * the prologues of cel0 and celv,
     * the dispatchers cel / cel_iter (thresholds and fall-through taken from GenLoop),
     * current_circle_Hfield and the masks of BHJM_circle,
     * magnet_cylinder_axial_Bfield and the on-edge mask of BHJM_magnet_cylinder.
   Fuel = number of loop-body executions allowed; running out of fuel is the distinct value
   [OutOfFuel] (the Python code would not return), `raise` is [Raised]. *)
From Coq Require Import ZArith List Bool.
From MV Require Import Model.LoopNum Gen.GenLoop.
Import ListNotations.

Section Loop.
Variable N : LNum.
Notation TT := (T N).
Declare Scope lm_scope.
Delimit Scope lm_scope with lm.
Local Open Scope lm_scope.
Infix "+" := (ladd N) : lm_scope.
Infix "-" := (lsub N) : lm_scope.
Infix "*" := (lmul N) : lm_scope.
Infix "/" := (ldiv N) : lm_scope.
Notation "- x" := (lopp N x) : lm_scope.

Definition c0 : TT := lofZ N 0.
Definition c1 : TT := lofZ N 1.
Definition c2 : TT := lofZ N 2.
Definition c4 : TT := lofZ N 4.
Definition c20 : TT := lofZ N 20.
Definition sq (x : TT) : TT := x * x.                 (* x**2 : numpy squares *)
Definition lit_1em6 : TT := llit N 1 (-6) 4722366482869645 (-72).            (* 1e-6 *)
Definition lit_1em15 : TT := llit N 1 (-15) 2535301200456459 (-101).          (* 1e-15 *)
Definition lit_4pi_inv : TT := llit N 7957747154594767 (-10) 1708913188941079 (-31).  (* 795774.7154594767 *)

Definition res_map {A B : Type} (f : A -> B) (r : res A) : res B :=
  match r with Done n v => Done n (f v) | OutOfFuel => OutOfFuel | Raised => Raised end.

(* all results of a list of fuelled runs, in order: the first row that does not return decides *)
Fixpoint res_all {A : Type} (l : list (res A)) : res (list A) :=
  match l with
  | [] => Done 0 []
  | Done n v :: t => match res_all t with Done m vs => Done (Nat.max n m) (v :: vs) | e => e end
  | OutOfFuel :: _ => OutOfFuel
  | Raised :: _ => Raised
  end.

(* ------------------------------------------------------------------ cel_iter0 / cel_iterv / cel_iter *)
Definition cel_iter0 (fuel : nat) (st : cel_iter0_state N) : res TT :=
  res_map (cel_iter0_ret N) (while_loop (cel_iter0_cond N) (cel_iter0_step N) fuel 0 st).

(* `while np.any(test(rows)): rows = body(rows)` : EVERY row is stepped while ANY row fails the test *)
Definition cel_iterv (fuel : nat) (rows : list (cel_iterv_state N)) : res (list TT) :=
  res_map (map (cel_iterv_ret N))
          (while_loop (existsb (cel_iterv_cond N)) (map (cel_iterv_step N)) fuel 0 rows).

(* cel_iter: for fewer than cel_iter_small_n rows the scalar loop runs on every row first; in the
   current source that branch does not return and the vectorised loop runs as well *)
Definition cel_iter (fuel : nat) (rows : list (cel_iter0_state N)) : res (list TT) :=
  if Nat.ltb (length rows) cel_iter_small_n then
    match res_all (map (cel_iter0 fuel) rows) with
    | Done n vs => if cel_iter_small_returns then Done n vs else cel_iterv fuel rows
    | e => e
    end
  else cel_iterv fuel rows.

(* ------------------------------------------------------------------ cel0 / celv / cel *)
(* the part of cel0 between the kc == 0 guard and the loop *)
Definition cel_init (else_branch : bool) (kc p c s : TT) : cel0_state N :=
  let k := labs N kc in
  let em := c1 in
  let '(pp, cc, ss) :=
    if else_branch then
      let f := kc * kc in
      let q := c1 - f in
      let g := c1 - p in
      let f := f - p in
      let q := q * (s - c * p) in
      let pp := lsqrt N (f / g) in
      let cc := (c - s) / g in
      let ss := (- q) / (g * g * pp) + cc * pp in
      (pp, cc, ss)
    else
      let pp := lsqrt N p in
      (pp, c, s / pp) in
  let f := cc in
  let cc := cc + ss / pp in
  let g := k / pp in
  let ss := c2 * (ss + f * g) in
  let pp := g + pp in
  let g := em in
  let em := k + em in
  let kk := k in
  (k, kk, cc, ss, pp, g, em).

(* cel0: `if p > 0` selects the first branch *)
Definition cel0 (fuel : nat) (kc p c s : TT) : res TT :=
  if cel0_raises_on_zero && leqb N kc c0 then Raised
  else res_map (cel0_ret N)
         (while_loop (cel0_cond N) (cel0_step N) fuel 0 (cel_init (negb (lltb N c0 p)) kc p c s)).

(* celv: `mask = p <= 0` selects the else branch; the loop is a do-while (mask starts all True) and
   only rows whose test still holds are stepped *)
Definition celv_masked_step (st : celv_state N) : celv_state N :=
  if celv_cond N st then celv_step N st else st.

Definition celv (fuel : nat) (rows : list (TT * TT * TT * TT)) : res (list TT) :=
  if celv_raises_on_zero && existsb (fun r => let '(kc, _, _, _) := r in leqb N kc c0) rows then Raised
  else
  let init := map (fun r => let '(kc, p, c, s) := r in cel_init (lleb N p c0) kc p c s) rows in
  match rows, fuel with
  | [], _ => Done 0 []                                   (* np.any of an empty mask is False *)
  | _, O => OutOfFuel
  | _, S fuel' =>
    res_map (map (celv_ret N))
            (while_loop (existsb (celv_cond N)) (map celv_masked_step) fuel' 1 (map (celv_step N) init))
  end.

Definition cel (fuel : nat) (rows : list (TT * TT * TT * TT)) : res (list TT) :=
  if Nat.ltb (length rows) cel_small_n then
    match res_all (map (fun r => let '(kc, p, c, s) := r in cel0 fuel kc p c s) rows) with
    | Done n vs => if cel_small_returns then Done n vs else celv fuel rows
    | e => e
    end
  else celv fuel rows.

(* ------------------------------------------------------------------ field_BH_circle.py *)
Record cir_in := { ci_r0 : TT; ci_r : TT; ci_z : TT; ci_i0 : TT }.

(* the straight-line part of current_circle_Hfield for one row *)
Record cir_mid := { cm_r : TT; cm_z : TT; cm_x0 : TT; cm_k2 : TT; cm_q2 : TT; cm_k : TT; cm_q : TT;
                    cm_p : TT; cm_pf : TT }.

Definition circle_mid (i : cir_in) : cir_mid :=
  let r0 := ci_r0 i in
  let r := ci_r i / r0 in
  let z := ci_z i / r0 in
  let z2 := sq z in
  let x0 := z2 + sq (r + c1) in
  let k2 := c4 * r / x0 in
  let q2 := (z2 + sq (r - c1)) / x0 in
  let k := lsqrt N k2 in
  let q := lsqrt N q2 in
  let p := c1 + q in
  let pf := k / lsqrt N r / q2 / c20 / r0 * lit_1em6 * ci_i0 i in
  {| cm_r := r; cm_z := z; cm_x0 := x0; cm_k2 := k2; cm_q2 := q2; cm_k := k; cm_q := q; cm_p := p; cm_pf := pf |}.

(* start values of the two cel_iter calls: cel_iter(q, p, ones, cc, ss, p, q) *)
Definition circle_start1 (m : cir_mid) : cel_iter0_state N :=
  let cc := cm_k2 m * cm_k2 m in
  let ss := c2 * cc * cm_q m / cm_p m in
  (cm_q m, cm_p m, c1, cc, ss, cm_p m, cm_q m).

Definition circle_start2 (m : cir_mid) : cel_iter0_state N :=
  let k2 := cm_k2 m in let q := cm_q m in let p := cm_p m in let r := cm_r m in
  let cc := k2 * (k2 - (cm_q2 m + c1) / r) in
  let ss := c2 * k2 * q * (k2 / p - p / r) in
  (q, p, c1, cc, ss, p, q).

(* current_circle_Hfield on a batch: (Hr, Hz) per row (Hphi = 0) *)
Definition circle_core (fuel : nat) (rows : list cir_in) : res (list (TT * TT)) :=
  let mids := map circle_mid rows in
  match cel_iter fuel (map circle_start1 mids) with
  | Done n1 e1 =>
    match cel_iter fuel (map circle_start2 mids) with
    | Done n2 e2 =>
      Done (Nat.max n1 n2)
           (map (fun t => let '(m, a, b) := t in
                          ((cm_pf m * cm_z m / cm_r m * a) * lit_4pi_inv, ((- cm_pf m) * b) * lit_4pi_inv))
                (combine (combine mids e1) e2))
    | e => res_map (fun _ => []) e
    end
  | e => res_map (fun _ => []) e
  end.

(* BHJM_circle, field H, in cylinder components before cyl_field_to_cart.
   row: r = sqrt(x^2+y^2) as numpy computed it, z, diameter, current *)
Record cir_row := { cw_r : TT; cw_z : TT; cw_d : TT; cw_i : TT }.
Definition cw_r0 (w : cir_row) : TT := labs N (cw_d w / c2).
Definition cir_mask1 (w : cir_row) : bool := leqb N (cw_r0 w) c0.
Definition cir_mask2 (w : cir_row) : bool :=          (* since fix 588c868: abs(z) < 1e-15 * r0 instead of z == 0 *)
  lltb N (labs N (cw_r w - cw_r0 w)) (lit_1em15 * cw_r0 w) && lltb N (labs N (cw_z w)) (lit_1em15 * cw_r0 w).
Definition cir_mask3 (w : cir_row) : bool := leqb N (cw_r w) c0.
Definition cir_mask5 (w : cir_row) : bool := negb ((cir_mask1 w || cir_mask2 w) || cir_mask3 w).
Definition cir_core_in (w : cir_row) : cir_in :=
  {| ci_r0 := cw_r0 w; ci_r := cw_r w; ci_z := cw_z w; ci_i0 := cw_i w |}.

(* the general-case rows go to the core as ONE batch *)
Definition circle_general (fuel : nat) (rows : list cir_row) : res (list (TT * TT)) :=
  circle_core fuel (map cir_core_in (filter cir_mask5 rows)).

(* ------------------------------------------------------------------ field_BH_cylinder.py (axial) *)
Record cyl_in := { cy_z0 : TT; cy_r : TT; cy_z : TT }.     (* already divided by the radius *)

Record cyl_mid := { ym_zph : TT; ym_zmh : TT; ym_dpr : TT; ym_dmr : TT; ym_sq0 : TT; ym_sq1 : TT;
                    ym_k1 : TT; ym_k0 : TT; ym_gamma : TT }.

Definition cyl_mid_of (i : cyl_in) : cyl_mid :=
  let zph := cy_z i + cy_z0 i in
  let zmh := cy_z i - cy_z0 i in
  let dpr := c1 + cy_r i in
  let dmr := c1 - cy_r i in
  let sq0 := lsqrt N (sq zmh + sq dpr) in
  let sq1 := lsqrt N (sq zph + sq dpr) in
  let k1 := lsqrt N ((sq zph + sq dmr) / (sq zph + sq dpr)) in
  let k0 := lsqrt N ((sq zmh + sq dmr) / (sq zmh + sq dpr)) in
  {| ym_zph := zph; ym_zmh := zmh; ym_dpr := dpr; ym_dmr := dmr; ym_sq0 := sq0; ym_sq1 := sq1;
     ym_k1 := k1; ym_k0 := k0; ym_gamma := dmr / dpr |}.

Definition res_bind {A B : Type} (r : res A) (f : nat -> A -> res B) : res B :=
  match r with Done n v => f n v | OutOfFuel => OutOfFuel | Raised => Raised end.

(* magnet_cylinder_axial_Bfield on a batch: (Br, Bz) per row; the four cel calls in source order *)
Definition cylinder_axial_core (fuel : nat) (rows : list cyl_in) : res (list (TT * TT)) :=
  let mids := map cyl_mid_of rows in
  let one := c1 in
  res_bind (cel fuel (map (fun m => (ym_k1 m, one, one, - one)) mids)) (fun n1 a1 =>
  res_bind (cel fuel (map (fun m => (ym_k0 m, one, one, - one)) mids)) (fun n2 a0 =>
  res_bind (cel fuel (map (fun m => (ym_k1 m, sq (ym_gamma m), one, ym_gamma m)) mids)) (fun n3 b1 =>
  res_bind (cel fuel (map (fun m => (ym_k0 m, sq (ym_gamma m), one, ym_gamma m)) mids)) (fun n4 b0 =>
    Done (Nat.max (Nat.max n1 n2) (Nat.max n3 n4))
      (map (fun t => let '(m, x1, x0, y1, y0) := t in
              ((x1 / ym_sq1 m - x0 / ym_sq0 m) / lpi N,
               c1 / ym_dpr m * (ym_zph m * y1 / ym_sq1 m - ym_zmh m * y0 / ym_sq0 m) / lpi N))
           (combine (combine (combine (combine mids a1) a0) b1) b0)))))).

(* BHJM_magnet_cylinder: np.isclose(a, b, rtol=1e-15, atol=0) and the on-edge mask, on the
   dimensionless row (z0, r, z) *)
Definition isclose15 (a b : TT) : bool := lleb N (labs N (a - b)) (c0 + lit_1em15 * labs N b).
Definition cyl_on_edge (i : cyl_in) : bool :=
  isclose15 (cy_r i) c1 && isclose15 (labs N (cy_z i)) (cy_z0 i).

End Loop.
