(* C19 -- meaning of the unit factor computed by get_unit_factor (Gen.GenUnits, generated from
   utility.py) and the hand-written SI specification it is compared with (definitions only). *)
From Coq Require Import ZArith QArith List Bool.
From MV Require Import Gen.GenUnits.
Import ListNotations.
Open Scope Z_scope.

(* factor = uf_factor_num / (uf_factor_base ** factor_power), as an exact rational *)
Definition uf_value (r : uf_result) : option Q :=
  match r with
  | UF_one => Some 1%Q
  | UF_power p => Some (inject_Z uf_factor_num / Qpower (inject_Z uf_factor_base) p)%Q
  | UF_invalid => None
  end.

(* SPECIFICATION (hand-written, SI brochure): prefix -> decimal exponent; the prefixed unit <pref>m
   is 10^e metres *)
Definition si_prefix_spec : list (pystr * Z) :=
  [([121], -24); ([122], -21); ([97], -18); ([102], -15); ([112], -12); ([110], -9); ([181], -6);
   ([109], -3); ([99], -2); ([100], -1); ([], 0);
   ([107], 3); ([77], 6); ([71], 9); ([84], 12); ([80], 15); ([69], 18); ([90], 21); ([89], 24)].

(* a coordinate of x metres is drawn as x * factor; it is announced in a unit of 10^e metres:
   consistent iff factor * 10^e = 1 *)
Definition factor_matches (r : uf_result) (e : Z) : bool :=
  match uf_value r with
  | Some v => Qeq_bool (v * Qpower (inject_Z 10) e) 1
  | None => false
  end.

Definition metre : pystr := [109].

Definition spec_entry_ok (pe : pystr * Z) : bool :=
  factor_matches (display_unit_factor (fst pe ++ metre)) (snd pe).

Fixpoint spec_lookup (pref : pystr) (p : Z) (l : list (pystr * Z)) : bool :=
  match l with
  | [] => false
  | (k, e) :: r => (str_eqb k pref && (e =? p)) || spec_lookup pref p r
  end.

(* every (prefix -> power) entry get_unit_factor can use is an SI prefix with that exponent *)
Definition prefs_in_spec : bool :=
  forallb (fun kp : pystr * Z => spec_lookup (fst kp) (snd kp) si_prefix_spec)
          (unit_prefix_reversed ++ uf_extra_prefixes).

(* no key occurs twice with different powers (dict override order is then irrelevant) *)
Definition prefs_functional : bool :=
  forallb (fun kp : pystr * Z =>
     forallb (fun kq : pystr * Z => negb (str_eqb (fst kp) (fst kq)) || (snd kp =? snd kq))
             (unit_prefix_reversed ++ uf_extra_prefixes))
          (unit_prefix_reversed ++ uf_extra_prefixes).
