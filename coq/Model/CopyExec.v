(* Executable observation / comparison for the copy model (C18 correspondence).  Definitions only. *)
From Coq Require Import List Bool Arith PeanoNat.
From MV Require Import Model.ForestModel Model.ForestExec Model.CopyModel.
Import ListNotations.

(* what the harness reads off one real object without touching it *)
Record cobs := mkCobs {
  b_parent : option nat;
  b_children : list nat;
  b_slots : list nat;          (* value token of every mutable attribute slot *)
  b_style : nat;               (* token of the effective style (label stripped) *)
  b_label : label;
  b_has_style : bool;          (* _style is not None *)
  b_pending : bool;            (* bool(_style_kwargs) *)
  b_cells : list nat }.        (* sharing classes of [slots..., _style_kwargs, _style?], numbered by
                                  first occurrence over the whole world *)

(* canonical numbering of cell ids by first occurrence *)
Fixpoint index_of (x : nat) (l : list nat) (i : nat) : option nat :=
  match l with [] => None | y :: r => if Nat.eqb y x then Some i else index_of x r (S i) end.

Fixpoint canon_row (seen : list nat) (row : list nat) : list nat * list nat :=
  match row with
  | [] => (seen, [])
  | c :: r =>
    match index_of c seen 0 with
    | Some k => let '(sn, out) := canon_row seen r in (sn, k :: out)
    | None => let '(sn, out) := canon_row (seen ++ [c]) r in (sn, length seen :: out)
    end
  end.

Fixpoint canon_rows (seen : list nat) (rows : list (list nat)) : list (list nat) :=
  match rows with
  | [] => []
  | r :: rest => let '(sn, out) := canon_row seen r in out :: canon_rows sn rest
  end.

Definition is_some {A} (o : option A) : bool := match o with Some _ => true | None => false end.

Definition cobserve_all (s : cstate) : list cobs :=
  let n := length (fs s) in
  let rows := canon_rows [] (map (fun i => if is_junk (fs s) i then [] else owned s i) (seq 0 n)) in
  map (fun i =>
         let o := cget s i in
         let fo := get (fs s) i in
         mkCobs (parent fo) (children fo) (map (hget s) (attrs o)) (style_view s i) (lab o)
                (is_some (style_cell o)) (skw_pending o)
                (if is_junk (fs s) i then [] else nth i rows []))
      (seq 0 n).

Definition label_eqb (a b : label) : bool :=
  match a, b with
  | None, None => true
  | Some (x, y), Some (u, v) => Nat.eqb x u && Nat.eqb y v
  | _, _ => false
  end.

Definition cobs_eqb (a b : cobs) : bool :=
  on_eqb (b_parent a) (b_parent b) && nl_eqb (b_children a) (b_children b)
  && nl_eqb (b_slots a) (b_slots b) && Nat.eqb (b_style a) (b_style b)
  && label_eqb (b_label a) (b_label b)
  && Bool.eqb (b_has_style a) (b_has_style b) && Bool.eqb (b_pending a) (b_pending b)
  && nl_eqb (b_cells a) (b_cells b).

Record ccase := mkCCase { cc_ops : list cop; cc_exp : list (list cobs) }.

Fixpoint cfirst_diff (s : cstate) (i : nat) (h : list cop) (es : list (list cobs)) : option nat :=
  match h, es with
  | [], [] => None
  | o :: h', e :: es' =>
    let s' := cstep s o in
    if list_eqb cobs_eqb (cobserve_all s') e then cfirst_diff s' (S i) h' es' else Some i
  | _, _ => Some i
  end.

Definition check_ccase (c : ccase) : option nat := cfirst_diff cinit 0 (cc_ops c) (cc_exp c).

Fixpoint cfailing_from (i : nat) (cs : list ccase) : list (nat * nat) :=
  match cs with
  | [] => []
  | c :: r => match check_ccase c with
              | None => cfailing_from (S i) r
              | Some k => (i, k) :: cfailing_from (S i) r
              end
  end.
Definition cfailing (cs : list ccase) : list (nat * nat) := cfailing_from 0 cs.

(* the model's own prediction, printable (used to show the first difference) *)
Definition cpredict (h : list cop) : list cobs := cobserve_all (crun cinit h).
