(* C01 -- executable instance of the numeric signature: Coq's primitive binary64 floats.
   Used only to RUN the models of CoreModel.v under vm_compute in generated case files
   (correspondence with numpy); no theorem mentions this file.  ln/atan2 have no primitive
   float counterpart: they are left as NaN producers here (the cuboid model is executed
   differently, see harness/props/C01.py). *)
From Coq Require Import ZArith List Bool.
From Coq Require Import Floats.PrimFloat.
From Coq Require Import Numbers.Cyclic.Int63.Uint63.
From MV Require Import Model.CoreNum Model.CoreModel.
Import ListNotations.

Definition f_ofZ (z : Z) : float :=
  match z with
  | Z0 => PrimFloat.zero
  | Zpos _ => PrimFloat.of_uint63 (Uint63.of_Z z)
  | Zneg p => PrimFloat.opp (PrimFloat.of_uint63 (Uint63.of_Z (Zpos p)))
  end.

Definition f_pi : float := 0x1.921fb54442d18p+1%float.
Definition f_nan : float := PrimFloat.div PrimFloat.zero PrimFloat.zero.

Definition NumF : Num :=
  mkNum float PrimFloat.add PrimFloat.sub PrimFloat.mul PrimFloat.div PrimFloat.opp
        PrimFloat.sqrt PrimFloat.abs PrimFloat.ltb PrimFloat.eqb f_ofZ f_pi
        (fun _ => f_nan) (fun _ _ => f_nan).

Definition FV3 : Type := (float * float * float)%type.
Definition flat (v : FV3) : list float := let '(a, b, c) := v in [a; b; c].

(* every runner returns a flat list: branch code followed by the three components *)
Definition run_dipole (f : field) (mu0 : float) (o m : FV3) : list float :=
  f_ofZ 0 :: flat (dipole_BH NumF f mu0 o m).

Definition run_sphere (f : field) (mu0 : float) (o : FV3) (d : float) (P : FV3) : list float :=
  (if sphere_out NumF o d then f_ofZ 1 else f_ofZ 0) :: flat (sphere_BH NumF f mu0 o d P).

Definition run_polyline (f : field) (mu0 : float) (o p1 p2 : FV3) (cur : float) : list float :=
  f_ofZ (Z.of_nat (fst (polyline_H_br NumF o p1 p2 cur))) :: flat (polyline_BH NumF f mu0 o p1 p2 cur).

Definition run_circle (f : field) (mu0 : float) (o : FV3) (d cur : float) : list float :=
  match circle_branch_of NumF o d, circle_BH NumF f mu0 o d cur with
  | CZero, Some v => f_ofZ 0 :: flat v
  | COnAxis, Some v => f_ofZ 1 :: flat v
  | _, _ => [f_ofZ 2; f_nan; f_nan; f_nan]
  end.
