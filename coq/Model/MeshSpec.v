(* C16 -- declarative notions the theorems are stated with (definitions only). *)
From Coq Require Import NArith List Bool Arith Relations Permutation.
From MV Require Import Model.MeshModel.
Import ListNotations.

(* a face with three distinct vertices *)
Definition nondegenerate (f : face) : Prop := f0 f <> f1 f /\ f1 f <> f2 f /\ f0 f <> f2 f.

(* the three undirected edges of a face, each as a sorted pair *)
Definition face_edges (f : face) : list edge := [sort2 (f0 f, f1 f); sort2 (f1 f, f2 f); sort2 (f0 f, f2 f)].

(* number of faces of the mesh the undirected edge e lies in *)
Definition has_edge (e : edge) (f : face) : bool := emem (sort2 e) (face_edges f).
Definition incident (e : edge) (fs : list face) : nat := length (filter (has_edge e) fs).

(* the mesh is closed: every undirected edge that occurs at all lies in exactly two faces *)
Definition closed_mesh (fs : list face) : Prop := forall e, incident e fs = 0 \/ incident e fs = 2.

(* vertex sharing between faces, and its reflexive-transitive closure inside the mesh *)
Definition share (f g : face) : Prop := exists v, In v (verts f) /\ In v (verts g).
Definition share_in (fs : list face) (f g : face) : Prop := In f fs /\ In g fs /\ share f g.
Definition connected (fs : list face) : relation face := clos_refl_trans face (share_in fs).

(* two faces lie together in one of the returned subsets *)
Definition together (P : list (list face)) (f g : face) : Prop := exists s, In s P /\ In f s /\ In g s.

(* the same mesh up to order of faces and, per face, any reordering of its three indices
   (cyclic rotation and reversed winding) *)
Definition vperm (f g : face) : Prop := Permutation (verts f) (verts g).
Definition mesh_equiv (fs fs' : list face) : Prop := exists fs'', Permutation fs fs'' /\ Forall2 vperm fs'' fs'.

(* vertex renumbering *)
Definition rename_face (r : N -> N) (f : face) : face := (r (f0 f), r (f1 f), r (f2 f)).
Definition rename_edge (r : N -> N) (e : edge) : edge := sort2 (r (fst e), r (snd e)).
Definition injective (r : N -> N) : Prop := forall a b, r a = r b -> a = b.

(* orientation: the directed edges of all faces; the mesh is consistently oriented when no directed
   edge is used twice (two faces sharing an edge traverse it in opposite directions) *)
Definition directed_edges (fs : list face) : list edge := concat (map edges_of fs).
Definition consistent (fs : list face) : Prop := NoDup (directed_edges fs).
(* orientable: some choice of flips makes it consistent *)
Definition orientable (fs : list face) : Prop :=
  exists sigma : list bool, length sigma = length fs /\ consistent (apply_mask fs sigma).
