(* C01 -- the first-principles side of the theorems (definitions only, over R).
   Nothing here mentions the implementation: these are the textbook definitions the models of
   CoreModel.v are proved equal to. *)
From Coq Require Import Reals.
From Coquelicot Require Import Coquelicot.
Open Scope R_scope.

Definition RV3 : Type := (R * R * R)%type.
Definition Rdot (a b : RV3) : R :=
  let '(a0, a1, a2) := a in let '(b0, b1, b2) := b in a0 * b0 + a1 * b1 + a2 * b2.
Definition Rnorm (a : RV3) : R := sqrt (Rdot a a).
Definition Rcross (a b : RV3) : RV3 :=
  let '(a0, a1, a2) := a in let '(b0, b1, b2) := b in
  (a1 * b2 - a2 * b1, a2 * b0 - a0 * b2, a0 * b1 - a1 * b0).
Definition Rvsub (a b : RV3) : RV3 :=
  let '(a0, a1, a2) := a in let '(b0, b1, b2) := b in (a0 - b0, a1 - b1, a2 - b2).
Definition Rvadd (a b : RV3) : RV3 :=
  let '(a0, a1, a2) := a in let '(b0, b1, b2) := b in (a0 + b0, a1 + b1, a2 + b2).
Definition Rvscale (t : R) (a : RV3) : RV3 := let '(a0, a1, a2) := a in (t * a0, t * a1, t * a2).
Definition comp (i : nat) (a : RV3) : R :=
  let '(a0, a1, a2) := a in match i with O => a0 | S O => a1 | _ => a2 end.

(* H-field of a point dipole with moment m at the origin, observer o <> 0:
   H = (3 (m.o) o / |o|^5 - m / |o|^3) / (4 pi) *)
Definition point_dipole_H (o m : RV3) : RV3 :=
  let r := Rnorm o in
  let c (oi mi : R) := (3 * Rdot m o * oi / r ^ 5 - mi / r ^ 3) / (4 * PI) in
  let '(x, y, z) := o in let '(mx, my, mz) := m in (c x mx, c y my, c z mz).

(* Biot-Savart: H(o) = I/(4 pi) * Integral dl x (o - l) / |o - l|^3 along the conductor.
   Straight segment l(s) = p1 + s (p2 - p1), s in [0,1], dl = (p2 - p1) ds: the integrand of
   component i at parameter s *)
Definition bs_segment_integrand (cur : R) (o p1 p2 : RV3) (i : nat) (s : R) : R :=
  let e := Rvsub p2 p1 in
  let d := Rvsub o (Rvadd p1 (Rvscale s e)) in
  cur / (4 * PI) * comp i (Rcross e d) / (Rnorm d) ^ 3.

(* Circular loop of radius r0 in the plane z = 0, l(phi) = r0 (cos phi, sin phi, 0),
   dl = r0 (-sin phi, cos phi, 0) dphi, phi in [0, 2 pi] *)
Definition bs_circle_integrand (cur r0 : R) (o : RV3) (i : nat) (phi : R) : R :=
  let l := (r0 * cos phi, r0 * sin phi, 0) in
  let dl := (- r0 * sin phi, r0 * cos phi, 0) in
  let d := Rvsub o l in
  cur / (4 * PI) * comp i (Rcross dl d) / (Rnorm d) ^ 3.

(* distance of o from the supporting line of p1 p2, times |p2 - p1| *)
Definition line_cross_norm (o p1 p2 : RV3) : R := Rnorm (Rcross (Rvsub p2 p1) (Rvsub o p1)).

(* quantities of a straight segment p1 -> p2 seen from o (used in the statements of C01):
   segA = |p2-p1|^2, segB = -2 (o-p1).(p2-p1), segC = |o-p1|^2, so that |o - p1 - s (p2-p1)|^2 = segA s^2 + segB s + segC;
   segX = (p2-p1) x (o-p1): |segX| = |p2-p1| * (distance of o from the supporting line) = line_cross_norm *)
Definition segA (o p1 p2 : RV3) := Rdot (Rvsub p2 p1) (Rvsub p2 p1).
Definition segB (o p1 p2 : RV3) := - 2 * Rdot (Rvsub o p1) (Rvsub p2 p1).
Definition segC (o p1 p2 : RV3) := Rdot (Rvsub o p1) (Rvsub o p1).
Definition segX (o p1 p2 : RV3) := Rcross (Rvsub p2 p1) (Rvsub o p1).

(* Coulombian surface-charge kernel of a face element seen at height distance h > 0 and in-plane
   offsets (u, v): the component normal to the face of (o - r')/|o - r'|^3; and its integral over the
   rectangular face [-a,a] x [-b,b] for an observer at in-plane position (x, y), as ITERATED
   one-dimensional Riemann integrals (Coquelicot has no two-dimensional integral) *)
Definition coulomb_kern (h u v : R) : R :=
  h / (sqrt (u * u + v * v + h * h) * sqrt (u * u + v * v + h * h) * sqrt (u * u + v * v + h * h)).
Definition face_integral (h x y a b : R) : R :=
  RInt (fun x' => RInt (fun y' => coulomb_kern h (x - x') (y - y')) (- b) b) (- a) a.
