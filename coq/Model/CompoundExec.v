(* Executable instance of CompoundModel on Z^3 x signed permutations, and the comparison
   functions used by the C10 correspondence check (model vs implementation, same trees and
   histories, all poses of all nodes compared after every operation). *)
From Coq Require Import ZArith List Bool.
From MV Require Import Lib.ListZ Lib.Rigid Lib.OctZ Gen.GenPath Model.PathModel Model.PathExec
  Model.CompoundModel.
Import ListNotations.
Open Scope Z_scope.

Definition xnode := @node OctOps.

(* initial tree: every object is created with (position, orientation) like any BaseGeo *)
Inductive xtree := XT (p : inp V3) (r : option (inp oct)) (ch : list xtree).

Fixpoint xbuild (t : xtree) : xnode :=
  match t with XT p r ch => Node (init_pose (O := OctOps) p r) (map xbuild ch) end.

(* all objects of the tree, parent before children, children in order *)
Fixpoint xflatten (t : xnode) : list xobj :=
  match t with Node o ch => o :: flat_map xflatten ch end.

Fixpoint objs_eqb (os : list xobj) (es : list xstate) : bool :=
  match os, es with
  | [], [] => true
  | o :: r1, e :: r2 => obj_eqb o e && objs_eqb r1 r2
  | _, _ => false
  end.

Definition xtop := (tpath * xop)%type.

Fixpoint check_tree_hist (t : xnode) (h : list xtop) (es : list (list xstate)) : bool :=
  match h, es with
  | [], [] => true
  | x :: h', e :: es' =>
      let t' := tree_step t x in objs_eqb (xflatten t') e && check_tree_hist t' h' es'
  | _, _ => false
  end.

Record xtcase := mkTCase { tc_tree : xtree; tc_ops : list xtop; tc_exp : list (list xstate) }.

Definition check_tcase (c : xtcase) : bool :=
  match tc_exp c with
  | e0 :: es => let t := xbuild (tc_tree c) in
                objs_eqb (xflatten t) e0 && check_tree_hist t (tc_ops c) es
  | [] => false
  end.

Fixpoint tfailing_from (i : Z) (cs : list xtcase) : list Z :=
  match cs with
  | [] => []
  | c :: r => if check_tcase c then tfailing_from (i + 1) r else i :: tfailing_from (i + 1) r
  end.
Definition tfailing (cs : list xtcase) : list Z := tfailing_from 0 cs.
