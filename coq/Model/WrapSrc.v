(* WrapSrc -- the executable wrapper model at the SOURCE's constants: tolerances from Gen.GenWrapTol,
   mu0 from Gen.GenConst (both regenerated from /repo on every run).  DEFINITIONS ONLY. *)
From Coq Require Import List Bool ZArith QArith Qcanon.
From MV Require Import Gen.GenConst Gen.GenWrapTol Model.WrapModel Model.WrapExec.

#[global] Instance SrcTols : @Tols QcOps :=
  mkTols (Q2Qc cub_rtol_surface)
         (Q2Qc cyl_hull_rtol) (Q2Qc cyl_hull_atol) (Q2Qc cyl_base_rtol) (Q2Qc cyl_base_atol)
         (Q2Qc seg_close_rtol) (Q2Qc seg_close_atol)
         (Q2Qc seg_r_lo) (Q2Qc seg_r_hi) (Q2Qc seg_z_lo) (Q2Qc seg_z_hi)
         (Q2Qc cir_sing_rtol) (Q2Qc cir_sing_z_rtol).

Definition mu0_src : Qc := Q2Qc mu0_exported.            (* magpylib.mu_0 *)
Definition mu0_stub : Qc := q 1 1048576.                 (* 2**-20, patched into the field modules *)
Definition c_setter_mag : Qc := Q2Qc mu0_setter_magnetization.
Definition c_setter_pol : Qc := Q2Qc mu0_setter_polarization.

(* every value bound to the name mu_0 / MU0 and every bare use of it equals the exported constant *)
Definition all_sites_exported (l : list (String.string * Q)) : bool :=
  forallb (fun sq => Qeq_bool (snd sq) mu0_exported) l.
