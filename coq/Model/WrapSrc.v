(* WrapSrc -- the executable wrapper model at the SOURCE's constants: tolerances from Gen.GenWrapTol,
   mu0 from Gen.GenConst (both regenerated from /repo on every run).  DEFINITIONS ONLY. *)
From Coq Require Import String List Bool ZArith QArith Qcanon.
From MV Require Import Gen.GenConst Gen.GenWrapTol Model.WrapModel Model.WrapExec.

#[global] Instance SrcTols : @Tols QcOps :=
  mkTols (Q2Qc cub_rtol_surface)
         (Q2Qc cyl_hull_rtol) (Q2Qc cyl_hull_atol) (Q2Qc cyl_base_rtol) (Q2Qc cyl_base_atol)
         (Q2Qc seg_close_rtol) (Q2Qc seg_close_atol)
         (Q2Qc seg_r_lo) (Q2Qc seg_r_hi) (Q2Qc seg_z_lo) (Q2Qc seg_z_hi)
         (Q2Qc cir_sing_rtol) (Q2Qc cir_sing_z_rtol).

Definition mu0_src : Qc := Q2Qc mu0_exported.            (* magpylib.mu_0 *)
Definition mu0_stub : Qc := q 1 1048576.                 (* 2**-20, patched into the field modules *)
Definition c_setter_mag : Qc := Q2Qc mu0_setter_magnetization.
Definition c_setter_pol : Qc := Q2Qc mu0_setter_polarization.

(* every value bound to the name mu_0 / MU0 and every bare use of it equals the exported constant *)
Definition all_sites_exported (l : list (String.string * Q)) : bool :=
  forallb (fun sq => Qeq_bool (snd sq) mu0_exported) l.

(* statement order of the setters (the two setter_paths tables of Gen.GenConst): on every execution path each of the two attributes is
   written exactly once and nothing that can raise sits between the two writes -- so an assignment is atomic for the pair
   even when a validation or a warning (escalated to an error) raises: the two-field update of exc_step is justified *)
Fixpoint path_atomic (writes : nat) (seen_own seen_other : bool) (p : list String.string) : bool :=
  match p with
  | nil => Nat.eqb writes 2 && seen_own && seen_other
  | t :: p' =>
    if String.eqb t "raise"%string then negb (Nat.eqb writes 1) && path_atomic writes seen_own seen_other p'
    else if String.eqb t "own"%string then negb seen_own && path_atomic (S writes) true seen_other p'
    else if String.eqb t "other"%string then negb seen_other && path_atomic (S writes) seen_own true p'
    else false
  end.
Definition setters_atomic : bool :=
  forallb (path_atomic 0 false false) setter_paths_magnetization &&
  forallb (path_atomic 0 false false) setter_paths_polarization &&
  negb (Nat.eqb (List.length setter_paths_magnetization) 0) && negb (Nat.eqb (List.length setter_paths_polarization) 0).
