(* C20 -- running the style model on the generated schema: histories of constructor / update / assignment /
   style setter / defaults update / reset / resolution, and the comparison with what the implementation
   produced (used by the correspondence check; definitions only). *)
From Coq Require Import ZArith List Bool String Ascii.
From MV Require Import Lib.STree Model.StyleModel Gen.GenStyle.
Import ListNotations.
Open Scope string_scope.
Open Scope list_scope.

(* ---------------------------------------------------------------- the generated tables, looked up *)
Fixpoint alookup {A} (k : string) (l : list (string * A)) : option A :=
  match l with
  | [] => None
  | (k', a) :: r => if String.eqb k k' then Some a else alookup k r
  end.

(* the generated colour table and magic_to_dict form of this run *)
Definition cenv : env := mkEnv colors magic_mode.

Definition dummy_schema : schema := SLeaf KOpaque.

Definition class_schema (cls : string) : schema :=
  match alookup cls object_classes with
  | Some (sc, _) => match alookup sc style_classes with Some s => s | None => dummy_schema end
  | None => dummy_schema
  end.

Definition class_families (cls : string) : list string :=
  match alookup cls object_classes with Some (_, f) => f | None => [] end.

(* schema of default_settings.display.style *)
Definition dstyle_schema : schema :=
  match sget ["display"; "style"] defaults_schema with Some s => s | None => dummy_schema end.

Fixpoint add_new (l acc : list string) : list string :=
  match l with
  | [] => acc
  | k :: r => add_new r (if smem k acc then acc else acc ++ [k])
  end.

(* validate_style_keys: {key for v in get_defaults_dict("display.style").values() for key in v} *)
Definition valid_keys : list string :=
  match tget ["display"; "style"] DEFAULTS with
  | Some (Node fams) =>
      fold_left (fun acc kv => match snd kv with Node d => add_new (keys d) acc | Leaf _ => acc end) fams []
  | _ => []
  end.

(* DefaultSettings() as created at import time *)
Definition defaults0 : tree * option err := defaults_new cenv reset_mode defaults_schema DEFAULTS.

(* ---------------------------------------------------------------- update on a sub-object: x.a.b.update(arg) *)
Fixpoint update_at (s : schema) (st : tree) (sub : path) (arg : dict) : tree * option err :=
  match sub with
  | [] => update cenv s st arg true false
  | k :: r =>
      match s, st with
      | SObj _ _ _ _ props, Node sd =>
          match slookup k props, dget k sd with
          | Some sp, Some t => let '(t', e) := update_at sp t r arg in (Node (dset k t' sd), e)
          | _, _ => (st, Some EName)
          end
      | _, _ => (st, Some EName)
      end
  end.

Definition lift_res (st : tree) (r : res tree) : tree * option err :=
  match r with inl t => (t, None) | inr e => (st, Some e) end.

(* ---------------------------------------------------------------- histories *)
Inductive op :=
| OUpd (on_def : bool) (sub : path) (arg : dict)    (* <style or defaults>.<sub>.update(arg) *)
| OAsg (on_def : bool) (p : path) (v : tree)        (* <style or defaults>.<p> = v *)
| OSetStyle (arg : dict)                            (* obj.style = {..} *)
| OSetStyleInst (arg : dict)                        (* src = Class(); src.style.update(arg); obj.style = src.style *)
| OSetStyleWrong                                    (* obj.style = 5 *)
| OReset                                            (* magpylib.defaults.reset() *)
| OResolve (show_kwargs : dict).                    (* style used by show(obj, show_kwargs) *)

Record world := mkW { w_def : tree; w_obj : tree }.

(* what is observed after an operation: error class, object style as_dict, and (for resolve) the resolved
   style as_dict / (for operations on the defaults) the defaults as_dict *)
Record obs := mkObs { o_err : option err; o_obj : tree; o_extra : option tree }.

Definition def_style_state (d : tree) : tree :=
  match tget ["display"; "style"] d with Some t => t | None => Leaf None end.

Definition step (cls : string) (w : world) (o : op) : world * obs :=
  let s := class_schema cls in
  match o with
  | OUpd false sub arg =>
      let '(t, e) := update_at s (w_obj w) sub arg in
      (mkW (w_def w) t, mkObs e (as_dict s t) None)
  | OUpd true sub arg =>
      let '(t, e) := update_at defaults_schema (w_def w) sub arg in
      (mkW t (w_obj w), mkObs e (as_dict s (w_obj w)) (Some (as_dict defaults_schema t)))
  | OAsg false p v =>
      let '(t, e) := lift_res (w_obj w) (assign cenv s (w_obj w) p v) in
      (mkW (w_def w) t, mkObs e (as_dict s t) None)
  | OAsg true p v =>
      let '(t, e) := lift_res (w_def w) (assign cenv defaults_schema (w_def w) p v) in
      (mkW t (w_obj w), mkObs e (as_dict s (w_obj w)) (Some (as_dict defaults_schema t)))
  | OSetStyle arg =>
      let '(t, e) := set_style cenv style_setter_takes_instance s (w_obj w) (SDict arg) in
      (mkW (w_def w) t, mkObs e (as_dict s t) None)
  | OSetStyleInst arg =>
      match update cenv s (match fresh cenv s with inl t0 => t0 | inr _ => Leaf None end) arg true false with
      | (inst, None) =>
          let '(t, e) := set_style cenv style_setter_takes_instance s (w_obj w) (SInst inst) in
          (mkW (w_def w) t, mkObs e (as_dict s t) None)
      | (_, Some _) => (w, mkObs (Some EOther) (as_dict s (w_obj w)) None)   (* the source object is not built *)
      end
  | OSetStyleWrong =>
      let '(t, e) := set_style cenv style_setter_takes_instance s (w_obj w) SWrong in
      (mkW (w_def w) t, mkObs e (as_dict s t) None)
  | OReset =>
      let '(t, e) := reset cenv reset_mode defaults_schema (w_def w) DEFAULTS in
      (mkW t (w_obj w), mkObs e (as_dict s (w_obj w)) (Some (as_dict defaults_schema t)))
  | OResolve kw =>
      let '(t, e) := get_style cenv s (class_families cls) dstyle_schema (def_style_state (w_def w))
                               valid_keys (w_obj w) (show_style_kwargs kw) in
      (w, mkObs e (as_dict s (w_obj w)) (match e with None => Some (as_dict s t) | Some _ => None end))
  end.

Fixpoint run_ops (cls : string) (w : world) (ops : list op) : list obs :=
  match ops with
  | [] => []
  | o :: r => let '(w', ob) := step cls w o in ob :: run_ops cls w' r
  end.

(* Class(style=style, style_kwargs), first access of .style, then the operations *)
Definition run_case (cls : string) (style kwargs : dict) (ops : list op) : list obs :=
  let s := class_schema cls in
  let '(t0, e0) := obj_new cenv s style kwargs in
  mkObs e0 (as_dict s t0) None :: run_ops cls (mkW (fst defaults0) t0) ops.

(* ---------------------------------------------------------------- comparison with the implementation *)
Definition err_same (a b : option err) : bool :=
  match a, b with
  | None, None => true
  | Some EName, Some EName | Some EValue, Some EValue => true
  | _, _ => false            (* EOther: outside the modelled inputs, counts as a disagreement *)
  end.

Definition otree_same (a b : option tree) : bool :=
  match a, b with
  | None, None => true
  | Some x, Some y => tree_same x y
  | _, _ => false
  end.

Definition obs_same (a b : obs) : bool :=
  err_same (o_err a) (o_err b) && tree_same (o_obj a) (o_obj b) && otree_same (o_extra a) (o_extra b).

Fixpoint obs_all_same (a b : list obs) : bool :=
  match a, b with
  | [], [] => true
  | x :: r1, y :: r2 => obs_same x y && obs_all_same r1 r2
  | _, _ => false
  end.

Record xcase := mkCase { c_cls : string; c_style : dict; c_kwargs : dict; c_ops : list op; c_exp : list obs }.

Definition case_ok (c : xcase) : bool :=
  obs_all_same (run_case (c_cls c) (c_style c) (c_kwargs c) (c_ops c)) (c_exp c).

Fixpoint failing_from (i : Z) (cs : list xcase) : list Z :=
  match cs with
  | [] => []
  | c :: r => if case_ok c then failing_from (i + 1)%Z r else i :: failing_from (i + 1)%Z r
  end.

Definition failing (cs : list xcase) : list Z := failing_from 0%Z cs.

(* first differing observation of a case (for diagnostics) *)
Fixpoint first_diff (i : Z) (a b : list obs) : option (Z * obs) :=
  match a, b with
  | [], [] => None
  | x :: r1, y :: r2 => if obs_same x y then first_diff (i + 1)%Z r1 r2 else Some (i, x)
  | x :: _, [] => Some (i, x)
  | [], _ :: _ => Some (i, mkObs (Some EOther) (Leaf None) None)
  end.

Definition case_diff (c : xcase) : option (Z * obs) :=
  first_diff 0%Z (run_case (c_cls c) (c_style c) (c_kwargs c) (c_ops c)) (c_exp c).
