(* WrapModel -- executable per-row models of the BHJM_* wrappers of magpylib/_src/fields/field_BH_*.py
   and of the BaseMagnet excitation setters.  DEFINITIONS ONLY.

   Everything is parametric in
     * a numeric carrier (class NumOps: field operations + boolean comparisons),
     * mu0,
     * the CORE field function of each module (a Section variable: the wrapper's only view of it
       is "a vector per row").
   The wrappers' masks, tolerances, the order of the J / M / B / H exits and WHICH mask each of
   them uses are reproduced line by line.  Quantities that numpy computes with sqrt / arctan2 /
   cos / sin BEFORE the mask logic (r = sqrt(x^2+y^2), cos phi, sin phi, |pol_xy|) are inputs of
   the row: the model starts after cart_to_cyl_coordinates. *)
From Coq Require Import List Bool ZArith.
Import ListNotations.

Class NumOps := {
  F : Type;
  f0 : F; f1 : F;
  fadd : F -> F -> F; fsub : F -> F -> F; fmul : F -> F -> F; fdiv : F -> F -> F;
  fopp : F -> F; finv : F -> F;
  fabs : F -> F; fsqrt : F -> F; fceil : F -> F;
  fofZ : Z -> F;
  feqb : F -> F -> bool; fltb : F -> F -> bool; fleb : F -> F -> bool
}.

(* the tolerance literals of the wrappers.  Theorems quantify over ALL values; the executable instance
   takes the values that translate/gen_wraptol.py reads from the source on every run (Gen/GenWrapTol.v) *)
Class Tols {N : NumOps} := {
  t_cub_surf : F;                          (* RTOL_SURFACE of BHJM_magnet_cuboid *)
  t_cyl_hull_r : F; t_cyl_hull_a : F;      (* np.isclose(r, 1, rtol, atol) *)
  t_cyl_base_r : F; t_cyl_base_a : F;      (* np.isclose(abs(z), z0, rtol, atol) *)
  t_seg_close_r : F; t_seg_close_a : F;    (* close() of field_BH_cylinder_segment *)
  t_seg_r_lo : F; t_seg_r_hi : F; t_seg_z_lo : F; t_seg_z_hi : F;   (* the four 1e-14 margins *)
  t_cir_sing : F; t_cir_sing_z : F         (* abs(r - r0) < c * r0 and abs(z) < c' * r0 of BHJM_circle (commit 588c868) *)
}.

Declare Scope num_scope.
Delimit Scope num_scope with num.
Infix "+" := fadd : num_scope.
Infix "-" := fsub : num_scope.
Infix "*" := fmul : num_scope.
Infix "/" := fdiv : num_scope.
Notation "- x" := (fopp x) : num_scope.
Infix "=?" := feqb : num_scope.
Infix "<?" := fltb : num_scope.
Infix "<=?" := fleb : num_scope.

Inductive fld := FB | FH | FJ | FM.

Section Wrap.
Context {N : NumOps} {T : Tols}.
Local Open Scope num_scope.

Definition vec : Type := (F * F * F)%type.
Definition vzero : vec := (f0, f0, f0).
Definition vadd (a b : vec) : vec := let '(a1, a2, a3) := a in let '(b1, b2, b3) := b in (a1 + b1, a2 + b2, a3 + b3).
Definition vsub (a b : vec) : vec := let '(a1, a2, a3) := a in let '(b1, b2, b3) := b in (a1 - b1, a2 - b2, a3 - b3).
Definition vmuls (a : vec) (k : F) : vec := let '(a1, a2, a3) := a in (a1 * k, a2 * k, a3 * k).
Definition vdivs (a : vec) (k : F) : vec := let '(a1, a2, a3) := a in (a1 / k, a2 / k, a3 / k).
Definition vsel (b : bool) (v : vec) : vec := if b then v else vzero.
Definition vdot (a b : vec) : F := let '(a1, a2, a3) := a in let '(b1, b2, b3) := b in a1 * b1 + a2 * b2 + a3 * b3.

Definition fneqb (x y : F) : bool := negb (x =? y).
Definition fgtb (x y : F) : bool := y <? x.
Definition two : F := fofZ 2.
Definition pol_is_null (p : vec) : bool :=                (* (pol_x == 0) * (pol_y == 0) * (pol_z == 0) *)
  let '(px, py, pz) := p in (px =? f0) && (py =? f0) && (pz =? f0).
(* np.isclose(a, b, rtol, atol) : |a - b| <= atol + rtol * |b| *)
Definition isclose (a b rtol atol : F) : bool := fabs (a - b) <=? atol + rtol * fabs b.
(* np.sign as -1 / 0 / 1 *)
Definition fsign (x : F) : Z := if x <? f0 then (-1)%Z else if f0 <? x then 1%Z else 0%Z.
Definition fsignF (x : F) : F := fofZ (fsign x).
(* cyl_field_to_cart(phi, Br, Bphi) applied to the first two components *)
Definition cyl_to_cart (c s : F) (v : vec) : vec :=
  let '(vr, vphi, vz) := v in (vr * c - vphi * s, vr * s + vphi * c, vz).

(* ------------------------------------------------------------------ getBH_level1: BH = orientation.apply(field_func(...))
   the orientation acts on the local output as a 3x3 matrix (rows r1 r2 r3); the observer transformation happens
   BEFORE the wrapper and only selects the local row *)
Definition mat : Type := (vec * vec * vec)%type.
Definition mapply (m : mat) (v : vec) : vec := let '(r1, r2, r3) := m in (vdot r1 v, vdot r2 v, vdot r3 v).
Definition level1 (m : mat) (local : fld -> vec) (f : fld) : vec := mapply m (local f).

(* ------------------------------------------------------------------ Cuboid *)
Record cub_row := { cu_obs : vec; cu_dim : vec; cu_pol : vec }.

Definition cub_inside (r : cub_row) : bool :=
  let '(x, y, z) := cu_obs r in let '(dx, dy, dz) := cu_dim r in
  let a := fabs dx / two in let b := fabs dy / two in let c := fabs dz / two in
  let rt := t_cub_surf in
  (fabs x - a <? rt * a) && (fabs y - b <? rt * b) && (fabs z - c <? rt * c).

Definition cub_gen (r : cub_row) : bool :=
  let '(x, y, z) := cu_obs r in let '(dx, dy, dz) := cu_dim r in
  let a := fabs dx / two in let b := fabs dy / two in let c := fabs dz / two in
  let rt := t_cub_surf in
  let pol_not_null := negb (pol_is_null (cu_pol r)) in
  let dim_not_null := fneqb (a * b * c) f0 in
  let xd := fabs x - a in let yd := fabs y - b in let zd := fabs z - c in
  let sx := fabs xd <? rt * a in let sy := fabs yd <? rt * b in let sz := fabs zd <? rt * c in
  let ix := xd <? rt * a in let iy := yd <? rt * b in let iz := zd <? rt * c in
  let xedge := sy && sz && ix in let yedge := sx && sz && iy in let zedge := sx && sy && iz in
  let not_edge := negb (xedge || yedge || zedge) in
  pol_not_null && dim_not_null && not_edge.

Definition bhjm_cuboid (core : cub_row -> vec) (mu0 : F) (f : fld) (r : cub_row) : vec :=
  let inside := cub_inside r in
  match f with
  | FJ => vsel inside (cu_pol r)
  | FM => vdivs (vsel inside (cu_pol r)) mu0
  | FB => vsel (cub_gen r) (core r)
  | FH => let b := vsel (cub_gen r) (core r) in
          vdivs (if inside then vsub b (cu_pol r) else b) mu0
  end.

(* ------------------------------------------------------------------ Cylinder
   row after cart_to_cyl_coordinates: cy_r = sqrt(x^2+y^2), (cy_c, cy_s) = (cos phi, sin phi),
   cy_pxy = sqrt(pol_x^2 + pol_y^2) as numpy computed them *)
Record cyl_row := { cy_r : F; cy_c : F; cy_s : F; cy_z : F; cy_d : F; cy_h : F; cy_pol : vec; cy_pxy : F;
                    cy_dphi : F (* phi - arctan2(pol_y, pol_x) as computed; only the diametral core sees it *) }.

Definition cyl_scaled (r : cyl_row) : F * F * F :=          (* (z0, r, z) made dimensionless *)
  let r0 := cy_d r / two in let z0 := cy_h r / two in (z0 / r0, cy_r r / r0, cy_z r / r0).

(* mask_between_bases is decided on the UNSCALED z and height (commit b977b89), mask_inside_hull on r / r0 *)
Definition cyl_inside0 (r : cyl_row) : bool :=
  let '(_, rr, _) := cyl_scaled r in (fabs (cy_z r) <=? cy_h r / two) && (rr <=? f1).

Definition cyl_on_edge (r : cyl_row) : bool :=
  let '(z0, rr, z) := cyl_scaled r in
  isclose rr f1 t_cyl_hull_r t_cyl_hull_a && isclose (fabs z) z0 t_cyl_base_r t_cyl_base_a.

(* the mask of the J and M outputs: closed body minus the edge *)
Definition cyl_inside (r : cyl_row) : bool := cyl_inside0 r && negb (cyl_on_edge r).

Section CylCores.
Variable tvcore : F -> F -> F -> cyl_row -> vec.   (* magnet_cylinder_diametral_Hfield(z0, r, z, phi - tetta) *)
Variable axcore : F -> F -> F -> cyl_row -> vec.   (* magnet_cylinder_axial_Bfield(z0, r, z) *)

Definition bhjm_cylinder (mu0 : F) (f : fld) (r : cyl_row) : vec :=
  let '(z0, rr, z) := cyl_scaled r in
  let '(px, py, pz) := cy_pol r in
  let inside0 := cyl_inside0 r in
  let not_on_edge := negb (cyl_on_edge r) in                 (* computed BEFORE the J / M exits (commit 41540a4) *)
  match f with
  | FJ => vsel (inside0 && not_on_edge) (cy_pol r)
  | FM => vdivs (vsel (inside0 && not_on_edge) (cy_pol r)) mu0
  | _ =>
    let pol_tv := fneqb px f0 || fneqb py f0 in
    let pol_ax := fneqb pz f0 in
    let gen := negb (pol_is_null (cy_pol r)) && not_on_edge in
    let tv := pol_tv && gen in let ax := pol_ax && gen in let inside := inside0 && gen in
    let v0 := vzero in
    let v1 := if tv then vmuls (tvcore z0 rr z r) (cy_pxy r) else v0 in
    let v2 := if ax then vadd v1 (vmuls (axcore z0 rr z r) pz) else v1 in
    let v3 := cyl_to_cart (cy_c r) (cy_s r) v2 in
    match f with
    | FB => if tv && inside then vadd v3 (px, py, f0) else v3
    | _ => vdivs (if ax && inside then vsub v3 (f0, f0, pz) else v3) mu0
    end
  end.
End CylCores.

(* ------------------------------------------------------------------ CylinderSegment
   row: cs_r, cs_phi = sqrt / arctan2 of the observer as numpy computed them; (cs_c, cs_s) = cos/sin of cs_phi *)
(* the prologue of BHJM_cylinder_segment (commit 526c29b): section angles (degrees) reduced by whole turns into [-360, 360]
     turns = where(phi2 > 360, ceil((phi2-360)/360), where(phi1 < -360, -ceil((-360-phi1)/360), 0)) *)
Definition seg_turns (phi1 phi2 : F) : F :=
  let c := fofZ 360 in
  if c <? phi2 then fceil ((phi2 - c) / c)
  else if phi1 <? - c then - fceil ((- c - phi1) / c)
  else f0.
Definition seg_reduce (phi1 phi2 : F) : F * F :=
  let t := seg_turns phi1 phi2 in (phi1 - fofZ 360 * t, phi2 - fofZ 360 * t).

Record seg_row := { cs_r : F; cs_phi : F; cs_phio2 : F (* phi - sign(phi)*2*pi as computed *);
                    cs_c : F; cs_s : F; cs_z : F;
                    cs_r1 : F; cs_r2 : F; cs_h : F; cs_phi1 : F; cs_phi2 : F;   (* dimension, degrees *)
                    cs_red1 : F; cs_red2 : F;       (* the section angles reduced into [-360, 360] by the HARNESS's own rule *)
                    cs_phi1r : F; cs_phi2r : F;     (* cs_red / 180 * pi as binary64 computes it *)
                    cs_pi : F;                      (* binary64 pi *)
                    cs_pol : vec; cs_pxy : F; cs_pabs : F (* sqrt(px^2+py^2+pz^2) as computed *);
                    cs_dphi : F (* only used by the 360-degree fallback to Cylinder *) }.

Definition close12 (a b : F) : bool := isclose a b t_seg_close_r t_seg_close_a.   (* close() of the module *)

Definition seg_masks (r : seg_row) : bool * bool :=     (* (mask_not_on_surf, mask_inside) *)
  let r1 := fabs (cs_r1 r) in let r2 := fabs (cs_r2 r) in let h := fabs (cs_h r) in
  let z1 := (- h) / two in let z2 := h / two in
  (* degrees reduced by the model's transcription of the prologue; the radians are the binary64 values handed in for the
     harness's reduction when both agree, the exact quotient otherwise (then the masks differ visibly) *)
  let '(d1, d2) := seg_reduce (cs_phi1 r) (cs_phi2 r) in
  let phi1 := if d1 =? cs_red1 r then cs_phi1r r else d1 / fofZ 180 * cs_pi r in
  let phi2 := if d2 =? cs_red2 r then cs_phi2r r else d2 / fofZ 180 * cs_pi r in
  let rr := cs_r r in let z := cs_z r in
  let phio1 := cs_phi r in
  let phio2 := cs_phio2 r in
  let mask_phi1 := close12 phio1 phi1 || close12 phio2 phi1 in
  let mask_phi2 := close12 phio1 phi2 || close12 phio2 phi2 in
  let r_in := (r1 - t_seg_r_lo <? rr) && (rr <? r2 + t_seg_r_hi) in
  let phi_in := negb (Z.eqb (fsign (phio1 - phi1)) (fsign (phio1 - phi2)))
             || negb (Z.eqb (fsign (phio2 - phi1)) (fsign (phio2 - phi2))) in
  let z_in := (z1 - t_seg_z_lo <? z) && (z <? z2 + t_seg_z_hi) in
  let surf_z := (close12 z z1 || close12 z z2) && phi_in && r_in in
  let surf_r := (close12 rr r1 || close12 rr r2) && phi_in && z_in in
  let surf_phi := (mask_phi1 || mask_phi2) && r_in && z_in in
  (negb (surf_z || surf_r || surf_phi), r_in && phi_in && z_in).

Definition seg_not_on_surf (r : seg_row) : bool := fst (seg_masks r).
Definition seg_inside (r : seg_row) : bool := snd (seg_masks r).
(* the mask of the J and M outputs: tolerance body minus its surface *)
Definition seg_inside_J (r : seg_row) : bool := seg_inside r && seg_not_on_surf r.

Section SegCores.
Variable segcore : seg_row -> vec.      (* magnet_cylinder_segment_Hfield row, cylindrical components *)

(* one row of BHJM_cylinder_segment GIVEN the batch-level flag any_off = np.any(mask_not_on_surf) *)
Definition bhjm_seg_row (mu0 : F) (f : fld) (any_off : bool) (r : seg_row) : vec :=
  if negb any_off then vzero                                   (* `return BHJM * 0` precedes everything *)
  else
    let inside := seg_inside r in let off := seg_not_on_surf r in
    match f with
    | FJ => vsel (inside && off) (cs_pol r)                      (* commit 77d60b2: zero on the surface too *)
    | FM => vdivs (vsel (inside && off) (cs_pol r)) mu0
    | FH => vsel off (cyl_to_cart (cs_c r) (cs_s r) (segcore r))
    | FB => let h := vsel off (cyl_to_cart (cs_c r) (cs_s r) (segcore r)) in
            let b := vmuls h mu0 in
            let b := if inside then vadd b (cs_pol r) else b in
            if off then b else vzero                           (* BHJM[~mask_not_on_surf] *= 0 *)
    end.

Definition bhjm_seg_batch (mu0 : F) (f : fld) (rows : list seg_row) : list vec :=
  let any_off := existsb seg_not_on_surf rows in
  map (bhjm_seg_row mu0 f any_off) rows.

(* BHJM_cylinder_segment_internal: full 360 degree sections fall back to Cylinder (minus the bore) *)
Variable tvcore : F -> F -> F -> cyl_row -> vec.
Variable axcore : F -> F -> F -> cyl_row -> vec.

Definition seg_is_segment (r : seg_row) : bool := cs_phi2 r - cs_phi1 r <? fofZ 360.
Definition seg_as_cyl (r : seg_row) (rad : F) : cyl_row :=
  {| cy_r := cs_r r; cy_c := cs_c r; cy_s := cs_s r; cy_z := cs_z r; cy_d := two * rad; cy_h := cs_h r;
     cy_pol := cs_pol r; cy_pxy := cs_pxy r; cy_dphi := cs_dphi r |}.

Definition bhjm_seg_internal_row (mu0 : F) (f : fld) (any_off : bool) (r : seg_row) : vec :=
  if seg_is_segment r then bhjm_seg_row mu0 f any_off r
  else
    let full := bhjm_cylinder tvcore axcore mu0 f (seg_as_cyl r (cs_r2 r)) in
    if fneqb (cs_r1 r) f0 then vsub full (bhjm_cylinder tvcore axcore mu0 f (seg_as_cyl r (cs_r1 r))) else full.

Definition bhjm_seg_internal_batch (mu0 : F) (f : fld) (rows : list seg_row) : list vec :=
  let any_off := existsb seg_not_on_surf (filter seg_is_segment rows) in
  map (bhjm_seg_internal_row mu0 f any_off) rows.
End SegCores.

(* ------------------------------------------------------------------ Sphere (no separate core) *)
Record sph_row := { sp_obs : vec; sp_r : F (* sqrt(x^2+y^2+z^2) as computed *); sp_d : F; sp_pol : vec }.

Definition sph_out (r : sph_row) : bool := fgtb (sp_r r) (fabs (sp_d r) / two).

Definition sph_outside_B (r : sph_row) : vec :=
  let rr := sp_r r in let rs := fabs (sp_d r) / two in
  let r2 := rr * rr in let r5 := r2 * r2 * rr in let rs3 := rs * rs * rs in
  let d := vdot (sp_pol r) (sp_obs r) in
  let v := vsub (vmuls (sp_obs r) (fofZ 3 * d)) (vmuls (sp_pol r) r2) in
  vdivs (vmuls (vdivs v r5) rs3) (fofZ 3).

Definition bhjm_sphere (mu0 : F) (f : fld) (r : sph_row) : vec :=
  let out := sph_out r in
  match f with
  | FJ => vsel (negb out) (sp_pol r)
  | FM => vdivs (vsel (negb out) (sp_pol r)) mu0
  | FB => if out then sph_outside_B r else vmuls (sp_pol r) (two / fofZ 3)
  | FH => let b := if out then sph_outside_B r else vmuls (sp_pol r) (two / fofZ 3) in
          vdivs (if out then b else vsub b (sp_pol r)) mu0
  end.

(* ------------------------------------------------------------------ Triangle *)
Definition tri := (vec * vec * vec)%type.
Record tri_row := { tr_obs : vec; tr_v : tri; tr_pol : vec }.

Section TriCore.
Variable tricore : tri_row -> vec.       (* triangle_Bfield row *)

Definition bhjm_triangle (mu0 : F) (f : fld) (r : tri_row) : vec :=
  match f with
  | FM => vzero
  | FJ => vzero
  | FB => tricore r
  | FH => vdivs (tricore r) mu0
  end.

(* ------------------------------------------------------------------ Tetrahedron *)
Inductive inout := Auto | Inside | Outside.
Record tet_row := { te_obs : vec; te_v0 : vec; te_v1 : vec; te_v2 : vec; te_v3 : vec; te_pol : vec }.

Definition det3 (a b c : vec) : F :=      (* determinant of the matrix with COLUMNS a b c *)
  let '(a1, a2, a3) := a in let '(b1, b2, b3) := b in let '(c1, c2, c3) := c in
  a1 * (b2 * c3 - b3 * c2) - b1 * (a2 * c3 - a3 * c2) + c1 * (a2 * b3 - a3 * b2).

(* barycentric coordinates of p w.r.t. (v0; v1, v2, v3): inv(mat) @ (p - v0), by Cramer's rule *)
Definition bary (p v0 v1 v2 v3 : vec) : vec :=
  let a := vsub v1 v0 in let b := vsub v2 v0 in let c := vsub v3 v0 in let q := vsub p v0 in
  let d := det3 a b c in
  (det3 q b c / d, det3 a q c / d, det3 a b q / d).

Definition point_inside (io : inout) (p v0 v1 v2 v3 : vec) : bool :=
  match io with
  | Inside => true
  | Outside => false
  | Auto =>
    let '(l1, l2, l3) := bary p v0 v1 v2 v3 in
    ((f0 <=? l1) && (f0 <=? l2) && (f0 <=? l3))
    && ((l1 <=? f1) && (l2 <=? f1) && (l3 <=? f1))
    && (l1 + l2 + l3 <=? f1)
  end.

(* check_chirality: p2 and p3 exchanged when det < 0 *)
Definition chirality (r : tet_row) : tet_row :=
  let d := det3 (vsub (te_v1 r) (te_v0 r)) (vsub (te_v2 r) (te_v0 r)) (vsub (te_v3 r) (te_v0 r)) in
  if d <? f0 then {| te_obs := te_obs r; te_v0 := te_v0 r; te_v1 := te_v1 r; te_v2 := te_v3 r; te_v3 := te_v2 r;
                     te_pol := te_pol r |}
  else r.

Definition tet_inside (io : inout) (r : tet_row) : bool :=
  point_inside io (te_obs r) (te_v0 r) (te_v1 r) (te_v2 r) (te_v3 r).

Definition tet_faces (r : tet_row) : list tri :=
  [ (te_v0 r, te_v2 r, te_v1 r); (te_v0 r, te_v1 r, te_v3 r); (te_v1 r, te_v2 r, te_v3 r); (te_v0 r, te_v3 r, te_v2 r) ].

Definition tri_sum (mu0 : F) (f : fld) (obs pol : vec) (faces : list tri) : vec :=
  fold_left (fun acc t => vadd acc (bhjm_triangle mu0 f {| tr_obs := obs; tr_v := t; tr_pol := pol |})) faces vzero.

Definition bhjm_tetrahedron (mu0 : F) (io : inout) (f : fld) (r : tet_row) : vec :=
  match f with
  | FJ => vsel (tet_inside io r) (te_pol r)                       (* original vertex order *)
  | FM => vdivs (vsel (tet_inside io r) (te_pol r)) mu0
  | FH => let r' := chirality r in tri_sum mu0 FH (te_obs r') (te_pol r') (tet_faces r')
  | FB => let r' := chirality r in
          let b := tri_sum mu0 FB (te_obs r') (te_pol r') (tet_faces r') in
          if tet_inside io r then vadd b (te_pol r') else b         (* commit 99f877e: mask taken BEFORE check_chirality *)
  end.

(* ------------------------------------------------------------------ TriangularMesh
   a mesh is a list of faces; the inside test of in_out='auto' (ray tracing) is an oracle *)
Record msh_row := { ms_obs : vec; ms_mesh : list tri; ms_pol : vec }.
Variable mesh_inside : list tri -> vec -> bool.      (* mask_inside_trimesh(points, faces) per point *)
Variable mesh_eqb : list tri -> list tri -> bool.    (* same shape and np.all(mesh_a == mesh_b) *)

(* the grouping loop of in_out='auto', literally (after commit 8fe828e):
     prev_ind = 0
     for new_ind in range(1, len(BHJM) + 1):
         if new_ind == len(BHJM) or mesh[new_ind] differs from mesh[prev_ind]:
             rows prev_ind:new_ind are tested against mesh[prev_ind]; prev_ind = new_ind
   returns the slices (from, to) evaluated so far; slice (a, b) is tested against mesh[a] *)
Fixpoint group_loop (meshes : list (list tri)) (n new_ind prev_ind : nat) (fuel : nat)
  (acc : list (nat * nat)) : list (nat * nat) :=
  match fuel with
  | O => acc
  | S fuel' =>
    if Nat.eqb new_ind n || negb (mesh_eqb (nth new_ind meshes []) (nth prev_ind meshes []))
    then group_loop meshes n (S new_ind) new_ind fuel' (acc ++ [(prev_ind, new_ind)])
    else group_loop meshes n (S new_ind) prev_ind fuel' acc
  end.

Definition mesh_slices (meshes : list (list tri)) : list (nat * nat) :=
  let n := length meshes in group_loop meshes n 1 0 n [].

(* index of the mesh tested for row i; None: the loop never visits row i (its polarization is never added) *)
Definition mesh_used (meshes : list (list tri)) (i : nat) : option nat :=
  match find (fun s : nat * nat => let '(a, b) := s in Nat.leb a i && Nat.ltb i b) (mesh_slices meshes) with
  | Some (a, _) => Some a
  | None => None
  end.

Definition msh_base (mu0 : F) (f : fld) (r : msh_row) : vec :=        (* sum of the faces' B, or zeros *)
  match f with
  | FB | FH => tri_sum mu0 FB (ms_obs r) (ms_pol r) (ms_mesh r)
  | _ => vzero
  end.

Definition msh_ins (io : inout) (meshes : list (list tri)) (i : nat) (r : msh_row) : bool :=
  match io with
  | Auto => match mesh_used meshes i with
            | Some k => mesh_inside (nth k meshes []) (ms_obs r)
            | None => false end
  | Inside => true
  | Outside => false
  end.

Definition bhjm_trimesh_row (mu0 : F) (io : inout) (f : fld) (meshes : list (list tri)) (ir : nat * msh_row) : vec :=
  let '(i, r) := ir in
  let base := msh_base mu0 f r in
  match f with
  | FH => vdivs base mu0                                         (* returns BEFORE the inside test *)
  | _ =>
    let v := if msh_ins io meshes i r then vadd base (ms_pol r) else base in
    match f with FM => vdivs v mu0 | _ => v end
  end.

Definition bhjm_trimesh_batch (mu0 : F) (io : inout) (f : fld) (rows : list msh_row) : list vec :=
  let meshes := map ms_mesh rows in
  map (bhjm_trimesh_row mu0 io f meshes) (combine (seq 0 (length rows)) rows).
End TriCore.

(* ------------------------------------------------------------------ Circle *)
Record cir_row := { ci_r : F; ci_c : F; ci_s : F; ci_z : F; ci_d : F; ci_i : F }.

Definition cir_r0 (r : cir_row) : F := fabs (ci_d r / two).
Definition cir_mask1 (r : cir_row) : bool := cir_r0 r =? f0.
Definition cir_mask2 (r : cir_row) : bool :=
  (fabs (ci_r r - cir_r0 r) <? t_cir_sing * cir_r0 r) && (fabs (ci_z r) <? t_cir_sing_z * cir_r0 r).
Definition cir_mask3 (r : cir_row) : bool := ci_r r =? f0.
Definition cir_general (r : cir_row) : bool := negb ((cir_mask1 r || cir_mask2 r) || cir_mask3 r).

Definition cir_axis_Hz (r : cir_row) : F :=      (* r0^2 / (z^2 + r0^2)^(3/2) * current * 0.5 *)
  let r0 := cir_r0 r in let s := ci_z r * ci_z r + r0 * r0 in
  r0 * r0 / (s * fsqrt s) * ci_i r * (f1 / two).

Section CirCore.
Variable circore : cir_row -> vec.     (* current_circle_Hfield row: (Hr, 0, Hz) *)

Definition bhjm_circle (mu0 : F) (f : fld) (r : cir_row) : vec :=
  match f with
  | FM | FJ => vzero
  | _ =>
    let v0 := if cir_mask3 r && negb (cir_mask1 r) then (f0, f0, cir_axis_Hz r) else vzero in
    let v1 := if cir_general r then circore r else v0 in
    let '(hr, _, hz) := v1 in
    let h := (hr * ci_c r, hr * ci_s r, hz) in            (* cyl_field_to_cart(phi, Br) with Bphi=None *)
    match f with FH => h | _ => vmuls h mu0 end
  end.
End CirCore.

(* ------------------------------------------------------------------ Polyline segment *)
Record pol_row := { pl_obs : vec; pl_p1 : vec; pl_p2 : vec; pl_i : F; pl_nan : bool (* start or end all-NaN *) }.

Definition veqb (a b : vec) : bool :=
  let '(a1, a2, a3) := a in let '(b1, b2, b3) := b in (a1 =? b1) && (a2 =? b2) && (a3 =? b3).
Definition pol_mask0 (r : pol_row) : bool := veqb (pl_p1 r) (pl_p2 r) || pl_nan r.

Section PolCore.
Variable polcore : pol_row -> vec.     (* current_polyline_Hfield row *)

Definition bhjm_polyline (mu0 : F) (f : fld) (r : pol_row) : vec :=
  match f with
  | FM | FJ => vzero
  | FH => vsel (negb (pol_mask0 r)) (polcore r)
  | FB => vmuls (vsel (negb (pol_mask0 r)) (polcore r)) mu0
  end.

(* batch: `if np.all(mask0): return BHJM` before the core is called *)
Definition bhjm_polyline_batch (mu0 : F) (f : fld) (rows : list pol_row) : list vec :=
  match f with
  | FM | FJ => map (fun _ => vzero) rows
  | _ => if forallb pol_mask0 rows then map (fun _ => vzero) rows else map (bhjm_polyline mu0 f) rows
  end.
End PolCore.

(* ------------------------------------------------------------------ Dipole *)
Record dip_row := { di_obs : vec; di_mom : vec }.

Section DipCore.
Variable dipcore : dip_row -> vec.     (* dipole_Hfield row *)
Definition bhjm_dipole (mu0 : F) (f : fld) (r : dip_row) : vec :=
  match f with
  | FM | FJ => vzero
  | FH => dipcore r
  | FB => vmuls (dipcore r) mu0
  end.
End DipCore.

(* ------------------------------------------------------------------ BaseMagnet excitation attributes
   (class_BaseExcitations.py, after commit e4a0461): two co-dependent attributes;
   check_format_input_vector(allow_None=True) returns None for None, and then BOTH attributes become None *)
Record exc := { e_pol : option vec; e_mag : option vec }.
(* Observe: any read through the public interface (the two getters, getJ, getM, copy): the getters are plain
   attribute reads, so an observation leaves the pair unchanged -- a getter with hidden state diverges from this *)
Inductive assign := SetPol (v : option vec) | SetMag (v : option vec) | Observe.

Definition exc_init : exc := {| e_pol := None; e_mag := None |}.

(* c_mul : constant of `self._polarization = self._magnetization * c`
   c_div : constant of `self._magnetization = self._polarization / c` *)
Definition exc_step (c_mul c_div : F) (s : exc) (a : assign) : exc :=
  match a with
  | SetMag (Some m) => {| e_pol := Some (vmuls m c_mul); e_mag := Some m |}
  | SetMag None => {| e_pol := None; e_mag := None |}
  | SetPol (Some p) => {| e_pol := Some p; e_mag := Some (vdivs p c_div) |}
  | SetPol None => {| e_pol := None; e_mag := None |}
  | Observe => s
  end.

Definition exc_run (c_mul c_div : F) (s : exc) (h : list assign) : exc :=
  fold_left (exc_step c_mul c_div) h s.

(* the relation the property states for the attributes: both unset, or polarization = mu0 * magnetization *)
Definition exc_sync (mu0 : F) (s : exc) : Prop :=
  match e_pol s, e_mag s with
  | None, None => True
  | Some p, Some m => p = vmuls m mu0
  | _, _ => False
  end.

End Wrap.
