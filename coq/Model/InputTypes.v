(* Carrier types shared by the GENERATED files Gen/GenTables.v, Gen/GenShape.v and the hand models
   Model/InputModel.v (C17), Model/DictIface.v (C07).  Definitions only. *)
From Coq Require Import ZArith QArith List Bool String.
Import ListNotations.
Open Scope Z_scope.

(* outcome of a validator: returns / raises MagpylibBadUserInput / raises anything else *)
Inductive res := Ok | Bad | Crash.

Definition res_eqb (a b : res) : bool :=
  match a, b with Ok, Ok | Bad, Bad | Crash, Crash => true | _, _ => false end.

(* ---- array shapes: a numpy shape is a list of non-negative integers ---- *)
Definition shape := list Z.
Definition ndim (s : shape) : Z := Z.of_nat (List.length s).
(* inp.shape[-1] : IndexError on a 0-d array *)
Definition shape_last (s : shape) : option Z :=
  match s with [] => None | _ => Some (last s 0) end.
(* len(inp) : TypeError on a 0-d array *)
Definition py_len (s : shape) : option Z :=
  match s with [] => None | n :: _ => Some n end.
(* inp.shape[0] *)
Definition shape_first (s : shape) : option Z := py_len s.
Definition zmem (x : Z) (l : list Z) : bool := existsb (Z.eqb x) l.
Definition size (s : shape) : Z := fold_right Z.mul 1 s.

(* shape_m1 is an int or the string 'any' (None here) *)
Definition eq_m1 (x : Z) (m1 : option Z) : bool :=
  match m1 with Some m => x =? m | None => false end.
Definition is_any (m1 : option Z) : bool := match m1 with None => true | Some _ => false end.
Definition is_none {A} (o : option A) : bool := match o with None => true | Some _ => false end.
Definition eq_len (x : Z) (l : option Z) : bool :=
  match l with Some m => x =? m | None => false end.

(* option-bool conditions: None = evaluating the condition raises a non-magpylib exception *)
Definition cond := option bool.
Definition cmap {A} (f : A -> bool) (o : option A) : cond :=
  match o with Some a => Some (f a) | None => None end.

(* ---- rational comparisons (every finite binary64 is a rational) ---- *)
Definition Qleb (a b : Q) : bool := Qle_bool a b.
Definition Qltb (a b : Q) : bool := negb (Qle_bool b a).
Definition Qgtb (a b : Q) : bool := Qltb b a.
Definition Qgeb (a b : Q) : bool := Qleb b a.
Definition qz (z : Z) : Q := inject_Z z.

(* four vertices (12 entries, row-major) lie in one plane: np.linalg.matrix_rank(v[1:] - v[0]) < 3, in exact
   arithmetic the determinant of the three edge vectors is zero *)
Definition det3 (a b c d e f g h i : Q) : Q :=
  (a * (e * i - f * h) - b * (d * i - f * g) + c * (d * h - e * g))%Q.
Definition coplanar4 (vals : list Q) : bool :=
  match vals with
  | [x0; y0; z0; x1; y1; z1; x2; y2; z2; x3; y3; z3] =>
      Qeq_bool (det3 (x1 - x0) (y1 - y0) (z1 - z0) (x2 - x0) (y2 - y0) (z2 - z0) (x3 - x0) (y3 - y0) (z3 - z0))%Q 0
  | _ => false
  end.

(* ---- keyword configuration of check_format_input_vector, as written at a call site ---- *)
Record vcfg := mkVcfg {
  v_dims : list Z;             (* dims=(1,2) / range(1,20) *)
  v_shape_m1 : option Z;       (* shape_m1=3 ; None = 'any' *)
  v_length : option Z;         (* length=4 *)
  v_allow_None : bool;
  v_forbid_negative0 : bool;
  v_reshape : bool             (* reshape=(-1, 3) given *)
}.

Inductive validator :=
| VVector (c : vcfg)                          (* check_format_input_vector(...) *)
| VScalar (allow_None forbid_negative : bool) (* check_format_input_scalar(...) *)
| VVertices                                   (* check_format_input_vertices(inp) *)
| VCylSeg                                     (* check_format_input_cylinder_segment(inp) *)
| VOrientation                                (* check_format_input_orientation(inp, init_format=True) *)
| VFieldFunc                                  (* validate_field_func(val) behind _editable_field_func *)
| VMemberSet (opts : list string)             (* `if val not in {..}: raise MagpylibBadUserInput` *)
| VMemberTuple (opts : list string)           (* `if val not in (..)` *)
| VMemberStr (opts : list string).            (* `if not isinstance(val, str) or val not in {..}` *)

(* one property setter (or constructor-only check) of one class *)
Record setter_row := mkSetter {
  s_class : string;
  s_attr : string;
  s_val : validator;
  s_post_uses : bool   (* after the validator the setter body uses the stored value in an expression
                          that is not guarded by an `is not None` test *)
}.

Record class_row := mkClass {
  c_name : string;
  c_bases : list string;
  c_ndim : option (list (string * Z));    (* own `_field_func_kwargs_ndim` literal, if defined in the class *)
  c_ctor : list string;                   (* positional parameters of __init__ in order (without self) *)
  c_ctor_kwonly : list string;
  c_ctor_sets : list (string * bool)      (* `self.<a> = <a>` in __init__; true = guarded by `<a> is not None` *)
}.

(* ---- abstract inputs of the validators ---- *)
Inductive vinput :=
| INone
| INotArrayLike                    (* not a list / tuple / ndarray (number, str, dict, object, ...) *)
| INotFloatable                    (* list/tuple/ndarray on which np.array(.., dtype=float) raises *)
| IArray (s : shape) (vals : list Q).   (* converts to a float array of this shape and these entries *)

Inductive vout :=
| Stored (v : option (shape * list Q))   (* None = the value None is returned *)
| Rejected                               (* MagpylibBadUserInput *)
| Crashed.                               (* any other exception *)

Inductive sinput :=
| SNone
| SReal (q : Q)          (* numbers.Number on which float() works: int, float, bool, numpy real scalars *)
| SComplex               (* numbers.Number on which float() raises TypeError *)
| SNotNumber.

Inductive sout := SStored (v : option Q) | SRejected | SCrashed.

Definition shape_eqb (a b : shape) : bool :=
  (Nat.eqb (List.length a) (List.length b)) && forallb (fun p => fst p =? snd p) (combine a b).

(* ---- orientation inputs: None, a scipy Rotation (single or a stack of n), anything else ---- *)
Inductive oinput := ONone | ORot (single : bool) (n : Z) | ONotRotation.
Inductive oout := OStored (n : Z) | ORejected | OCrashed.     (* number of stored quaternions *)

(* ---- field_func inputs: what validate_field_func can observe of a value ---- *)
Inductive fout := FoNone | FoNotArray | FoArray (s : shape) | FoRaises.   (* result of one probe call *)
Inductive finput :=
| FNone
| FNotCallable
| FCallable (args_ok : bool) (outs : list fout).   (* first two argument names are field, observers; probe results *)

(* values offered to a membership test *)
Inductive minput := MStr (s : string) | MHashable | MUnhashable.

Definition str_mem (s : string) (l : list string) : bool := existsb (String.eqb s) l.

Fixpoint assoc {A} (k : string) (l : list (string * A)) : option A :=
  match l with [] => None | (k', v) :: r => if String.eqb k k' then Some v else assoc k r end.
