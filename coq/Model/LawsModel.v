(* C14 -- differential and one-dimensional integral form of the laws of magnetostatics
   (definitions only, over R).

   A vector field is a function RV3 -> RV3 (RV3 = R*R*R from CoreSpec.v).  Partial derivatives
   are Coquelicot [Derive]s of the restriction to a coordinate line; divergence and curl are
   the textbook combinations.  [has_jacobian F o J] says that all nine partial derivatives of F
   exist at o and are the entries of J (so that the [Derive]s below are meaningful there).

   Nothing here mentions the implementation; the fields these operators are applied to in
   Props/C14.v are the models of Model/CoreModel.v (dipole_H, dipole_BH, sphere_BH,
   circle_axis_Hz) instantiated with Coq's reals.

   There is NO surface or line integral of a vector field in three dimensions here: the
   installed libraries (Coquelicot) only have the one-dimensional Riemann integral RInt, and no
   divergence / Stokes theorem.  The integral statements of Props/C14.v are therefore
   one-dimensional (a straight path on the axis of a current loop), everything else is in
   differential form or a jump condition at a magnet surface. *)
From Coq Require Import Reals.
From Coquelicot Require Import Coquelicot.
From MV Require Import Model.CoreNum Model.CoreModel Model.CoreSpec.
Open Scope R_scope.

(* replace coordinate j of o by t *)
Definition upd (j : nat) (o : RV3) (t : R) : RV3 :=
  let '(x, y, z) := o in
  match j with O => (t, y, z) | S O => (x, t, z) | _ => (x, y, t) end.

(* d F_i / d x_j at o *)
Definition partial (F : RV3 -> RV3) (i j : nat) (o : RV3) : R :=
  Derive (fun t => comp i (F (upd j o t))) (comp j o).

Definition has_jacobian (F : RV3 -> RV3) (o : RV3) (J : nat -> nat -> R) : Prop :=
  forall i j, (i < 3)%nat -> (j < 3)%nat ->
    is_derive (fun t => comp i (F (upd j o t))) (comp j o) (J i j).

Definition differentiable_at (F : RV3 -> RV3) (o : RV3) : Prop :=
  forall i j, (i < 3)%nat -> (j < 3)%nat ->
    ex_derive (fun t => comp i (F (upd j o t))) (comp j o).

Definition divergence (F : RV3 -> RV3) (o : RV3) : R :=
  partial F 0 0 o + partial F 1 1 o + partial F 2 2 o.

Definition curl (F : RV3 -> RV3) (o : RV3) : RV3 :=
  (partial F 2 1 o - partial F 1 2 o,
   partial F 0 2 o - partial F 2 0 o,
   partial F 1 0 o - partial F 0 1 o).

(* the local form of both laws in a current-free region: F differentiable, div F = 0, curl F = 0 *)
Definition source_free_at (F : RV3 -> RV3) (o : RV3) : Prop :=
  differentiable_at F o /\ divergence F o = 0 /\ curl F o = (0, 0, 0).

(* ------------------------------------------------------------------ the modelled fields, over R *)
Definition dipH (m : RV3) : RV3 -> RV3 := fun o => dipole_H NumR o m.
Definition dipBH (f : field) (mu0 : R) (m : RV3) : RV3 -> RV3 := fun o => dipole_BH NumR f mu0 o m.
Definition sphBH (f : field) (mu0 d : R) (P : RV3) : RV3 -> RV3 := fun o => sphere_BH NumR f mu0 o d P.

(* BHJM_magnet_sphere(field="J") row: J = P inside (r <= |d|/2), 0 outside *)
Definition sphJ (d : R) (P : RV3) : RV3 -> RV3 :=
  fun o => if sphere_out NumR o d then (0, 0, 0) else P.

(* radial scaling of a point, used for one-sided limits at the sphere surface *)
Definition radial (t : R) (o : RV3) : RV3 := Rvscale t o.

(* H_z on the axis of a Circle as a function of z (on-axis branch of BHJM_circle) *)
Definition circ_axis (d cur : R) : R -> R := fun z => circle_axis_Hz NumR z d cur.
