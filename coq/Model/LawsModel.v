(* C14 -- differential and one-dimensional integral form of the laws of magnetostatics
   (definitions only, over R).

   A vector field is a function RV3 -> RV3 (RV3 = R*R*R from CoreSpec.v).  Partial derivatives
   are Coquelicot [Derive]s of the restriction to a coordinate line; divergence and curl are
   the textbook combinations.  [has_jacobian F o J] says that all nine partial derivatives of F
   exist at o and are the entries of J (so that the [Derive]s below are meaningful there).

   Nothing here mentions the implementation; the fields these operators are applied to in
   Props/C14.v are the models of Model/CoreModel.v (dipole_H, dipole_BH, sphere_BH,
   circle_axis_Hz, polyline_H) instantiated with Coq's reals.

   There is NO surface or line integral of a vector field in three dimensions here: the
   installed libraries (Coquelicot) only have the one-dimensional Riemann integral RInt, and no
   divergence / Stokes theorem.  The integral statements of Props/C14.v are therefore
   one-dimensional (a straight path on the axis of a current loop), everything else is in
   differential form or a jump condition at a magnet surface. *)
From Coq Require Import Reals List.
From Coquelicot Require Import Coquelicot.
From MV Require Import Model.CoreNum Model.CoreModel Model.CoreSpec.
Import ListNotations.
Open Scope R_scope.

(* replace coordinate j of o by t *)
Definition upd (j : nat) (o : RV3) (t : R) : RV3 :=
  let '(x, y, z) := o in
  match j with O => (t, y, z) | S O => (x, t, z) | _ => (x, y, t) end.

(* d F_i / d x_j at o *)
Definition partial (F : RV3 -> RV3) (i j : nat) (o : RV3) : R :=
  Derive (fun t => comp i (F (upd j o t))) (comp j o).

Definition has_jacobian (F : RV3 -> RV3) (o : RV3) (J : nat -> nat -> R) : Prop :=
  forall i j, (i < 3)%nat -> (j < 3)%nat ->
    is_derive (fun t => comp i (F (upd j o t))) (comp j o) (J i j).

Definition differentiable_at (F : RV3 -> RV3) (o : RV3) : Prop :=
  forall i j, (i < 3)%nat -> (j < 3)%nat ->
    ex_derive (fun t => comp i (F (upd j o t))) (comp j o).

Definition divergence (F : RV3 -> RV3) (o : RV3) : R :=
  partial F 0 0 o + partial F 1 1 o + partial F 2 2 o.

Definition curl (F : RV3 -> RV3) (o : RV3) : RV3 :=
  (partial F 2 1 o - partial F 1 2 o,
   partial F 0 2 o - partial F 2 0 o,
   partial F 1 0 o - partial F 0 1 o).

(* the local form of both laws in a current-free region: F differentiable, div F = 0, curl F = 0 *)
Definition source_free_at (F : RV3 -> RV3) (o : RV3) : Prop :=
  differentiable_at F o /\ divergence F o = 0 /\ curl F o = (0, 0, 0).

(* ------------------------------------------------------------------ the modelled fields, over R *)
Definition dipH (m : RV3) : RV3 -> RV3 := fun o => dipole_H NumR o m.
Definition dipBH (f : field) (mu0 : R) (m : RV3) : RV3 -> RV3 := fun o => dipole_BH NumR f mu0 o m.
Definition sphBH (f : field) (mu0 d : R) (P : RV3) : RV3 -> RV3 := fun o => sphere_BH NumR f mu0 o d P.

(* BHJM_magnet_sphere(field="J") row: J = P inside (r <= |d|/2), 0 outside *)
Definition sphJ (d : R) (P : RV3) : RV3 -> RV3 :=
  fun o => if sphere_out NumR o d then (0, 0, 0) else P.

(* radial scaling of a point, used for one-sided limits at the sphere surface *)
Definition radial (t : R) (o : RV3) : RV3 := Rvscale t o.

(* H_z on the axis of a Circle as a function of z (on-axis branch of BHJM_circle) *)
Definition circ_axis (d cur : R) : R -> R := fun z => circle_axis_Hz NumR z d cur.

(* ------------------------------------------------------------------ Polyline
   current_vertices_field / Polyline: the field of a vertex chain is the sum over consecutive
   vertex pairs of the segment field (BHJM_current_polyline -> current_polyline_Hfield, modelled
   by polyline_H of CoreModel.v; zero-length segments contribute 0).  Generic in the numeric
   signature so that the same definition is executed with floats in the correspondence. *)
Fixpoint poly_sum_gen (N : Num) (cur : carrier N) (vs : list (V3 N)) (o : V3 N) : V3 N :=
  match vs with
  | v1 :: ((v2 :: _) as tl) => vadd N (polyline_H N o v1 v2 cur) (poly_sum_gen N cur tl o)
  | _ => zero3 N
  end.
Definition poly_sum (cur : R) (vs : list RV3) : RV3 -> RV3 := fun o => poly_sum_gen NumR cur vs o.

(* the same for field = "B": every segment row is multiplied by MU0 before the sum *)
Fixpoint poly_sumB_gen (N : Num) (mu0 cur : carrier N) (vs : list (V3 N)) (o : V3 N) : V3 N :=
  match vs with
  | v1 :: ((v2 :: _) as tl) => vadd N (polyline_BH N FB mu0 o v1 v2 cur) (poly_sumB_gen N mu0 cur tl o)
  | _ => zero3 N
  end.
Definition poly_sumB (mu0 cur : R) (vs : list RV3) : RV3 -> RV3 := fun o => poly_sumB_gen NumR mu0 cur vs o.

(* textbook closed form of the H-field of a straight segment p1 -> p2 carrying cur:
   H = cur/(4 pi) * (e x a) / |e x a|^2 * (a.e/|a| - b.e/|b|),  a = o - p1, b = o - p2, e = p2 - p1;
   seg_D a e = |e|^2 |a|^2 - (a.e)^2 = |e x a|^2 *)
Definition seg_D (a e : RV3) : R := Rdot e e * Rdot a a - Rdot a e * Rdot a e.
Definition seg_S (a e : RV3) : R :=
  Rdot a e / sqrt (Rdot a a) - Rdot (Rvsub a e) e / sqrt (Rdot (Rvsub a e) (Rvsub a e)).
Definition seg_H (cur : R) (p1 p2 o : RV3) : RV3 :=
  Rvscale (cur / (4 * PI) * (seg_S (Rvsub o p1) (Rvsub p2 p1) / seg_D (Rvsub o p1) (Rvsub p2 p1)))
          (Rcross (Rvsub p2 p1) (Rvsub o p1)).

(* the observer is clear of the supporting line of the segment by more than the code's on-line
   threshold: distance(o, line) / |p2 - p1| > 1e-15, and the segment is not degenerate *)
Definition seg_clear (o p1 p2 : RV3) : Prop :=
  p1 <> p2 /\
  1 / 1000000000000000 * Rdot (Rvsub p2 p1) (Rvsub p2 p1) < sqrt (seg_D (Rvsub o p1) (Rvsub p2 p1)).
Fixpoint poly_clear (o : RV3) (vs : list RV3) : Prop :=
  match vs with
  | v1 :: ((v2 :: _) as tl) => seg_clear o v1 v2 /\ poly_clear o tl
  | _ => True
  end.

(* cur/(4 pi) * v/|v|^3 : the point-source term left at each end of an open chain *)
Definition pointK (cur : R) (v : RV3) : RV3 := Rvscale (cur / (4 * PI) / (Rnorm v * Rdot v v)) v.
