(* C19 -- traces_core.make_Circle, kind "line" (definitions only; over the real numbers, not executable):
       t = np.linspace(0, 2 * np.pi, base)          # base = 72: t_k = k * 2 pi / (base - 1)
       x = np.cos(t) * obj.diameter / 2 ;  y = np.sin(t) * obj.diameter / 2 ;  z = np.zeros(x.shape)      *)
From Coq Require Import Reals.
Open Scope R_scope.

Definition linspace_2pi (base k : nat) : R := INR k * (2 * PI / INR (base - 1)).
Definition circle_point (base : nat) (d : R) (k : nat) : R * R * R :=
  (cos (linspace_2pi base k) * d / 2, sin (linspace_2pi base k) * d / 2, 0).
Definition circle_base : nat := 72.
