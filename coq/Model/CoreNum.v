(* C01 -- numeric signature for the formula models (definitions only).

   The closed-form field models of CoreModel.v are written ONCE against this record of
   operations.  Two instances exist:
     * [NumR]      (this file)      : Coq's real numbers, used by the theorems;
     * [NumF]      (CoreExec.v)     : Coq's primitive binary64 floats, used to RUN the model
                                      (vm_compute) in the correspondence check.
   Nothing relates the two instances formally: binary64 rounding is outside every theorem. *)
From Coq Require Import ZArith Reals Bool.

Record Num : Type := mkNum {
  carrier : Type;
  nadd : carrier -> carrier -> carrier;
  nsub : carrier -> carrier -> carrier;
  nmul : carrier -> carrier -> carrier;
  ndiv : carrier -> carrier -> carrier;
  nopp : carrier -> carrier;
  nsqrt : carrier -> carrier;
  nabs : carrier -> carrier;
  nltb : carrier -> carrier -> bool;
  neqb : carrier -> carrier -> bool;
  nofZ : Z -> carrier;
  npi : carrier;
  (* transcendental functions: used by the cuboid model only *)
  nln : carrier -> carrier;
  natan2 : carrier -> carrier -> carrier   (* natan2 y x, numpy argument order *)
}.

(* ---------------------------------------------------------------- the instance over R *)
Definition Rltb (a b : R) : bool := if Rlt_dec a b then true else false.
Definition Reqb (a b : R) : bool := if Req_EM_T a b then true else false.

(* numpy.arctan2 on the reals (the value at (0,0) is 0 as in IEEE) *)
Definition Ratan2 (y x : R) : R :=
  if Rlt_dec 0 x then atan (y / x)
  else if Rlt_dec x 0 then (if Rlt_dec y 0 then atan (y / x) - PI else atan (y / x) + PI)
  else if Rlt_dec 0 y then PI / 2
  else if Rlt_dec y 0 then - PI / 2
  else 0.

Definition NumR : Num :=
  mkNum R Rplus Rminus Rmult Rdiv Ropp sqrt Rabs Rltb Reqb IZR PI ln Ratan2.
