(* C13 / C14 -- executable models (DEFINITIONS ONLY; proofs live in Proofs/ReprProofs.v, Proofs/LawProofs.v).

   What is modelled, mirroring /repo line by line:
     * BHJM_magnet_sphere (field_BH_sphere.py), all four fields, inside and outside branch;
     * dipole_Hfield + BHJM_dipole (field_BH_dipole.py), incl. the r == 0 branch;
     * BHJM_cylinder_segment_internal (field_BH_cylinder_segment.py): the three masks
       (phi2-phi1 < 360, its negation, r1 != 0 & full) and the masked scatter/gather on batches,
       parametric in the two functions it calls (BHJM_cylinder_segment, BHJM_magnet_cylinder);
     * the J / M branches of BHJM_magnet_cylinder (field_BH_cylinder.py) in cylinder coordinates;
     * np.unique(axis=0, return_inverse=True) as used by TriangularMesh.from_mesh / from_triangles,
       vertices[faces], and TriangularMesh.to_TriangleCollection (single pose);
     * the corner-sum shape of a cuboid field (abstract, for the cut-additivity lemma).
   Formula models are written once over the signature NumOps and instantiated with R (theorems),
   with binary64 PrimFloat (run by vm_compute against numpy) and with Q (exact runs). *)
From Coq Require Import ZArith QArith Reals List Bool.
From MV Require Import Lib.Rigid Gen.GenCylMask.
Import ListNotations.

(* ------------------------------------------------------------------ numeric signature *)
Record NumOps := mkNum {
  num : Type;
  nadd : num -> num -> num;
  nsub : num -> num -> num;
  nmul : num -> num -> num;
  ndiv : num -> num -> num;
  nsqrt : num -> num;
  nabs : num -> num;
  nofZ : Z -> num;
  npi : num;
  nltb : num -> num -> bool;      (* a < b *)
  nleb : num -> num -> bool;      (* a <= b *)
  neqb : num -> num -> bool;      (* a == b *)
  ndiv0 : num -> num              (* numpy: x / 0.0 followed by np.nan_to_num(posinf=inf, neginf=-inf) *)
}.

Inductive fieldT := FB | FH | FJ | FM.

Section Formulas.
Context {N : NumOps}.
Local Notation "a + b" := (nadd N a b).
Local Notation "a - b" := (nsub N a b).
Local Notation "a * b" := (nmul N a b).
Local Notation "a / b" := (ndiv N a b).
Local Notation "# z" := (nofZ N z) (at level 1, format "# z").

Definition vec : Type := (num N * num N * num N)%type.
Definition vzero3 : vec := (#0, #0, #0).
Definition vmap (f : num N -> num N) (v : vec) : vec := let '(a, b, c) := v in (f a, f b, f c).
Definition vmap2 (f : num N -> num N -> num N) (v w : vec) : vec :=
  let '(a, b, c) := v in let '(a', b', c') := w in (f a a', f b b', f c c').
Definition vsub3 (v w : vec) : vec := vmap2 (nsub N) v w.
Definition vdivs (v : vec) (s : num N) : vec := vmap (fun a => a / s) v.
Definition vmuls (v : vec) (s : num N) : vec := vmap (fun a => a * s) v.

Definition pow3 (x : num N) := x * x * x.
Definition pow5 (x : num N) := x * x * x * x * x.

(* r = np.sqrt(x**2 + y**2 + z**2) *)
Definition norm3 (o : vec) : num N := let '(x, y, z) := o in nsqrt N (x * x + y * y + z * z).
(* np.sum(a * b, axis=1) *)
Definition dot3 (a b : vec) : num N :=
  let '(a1, a2, a3) := a in let '(b1, b2, b3) := b in a1 * b1 + a2 * b2 + a3 * b3.

(* ---- BHJM_magnet_sphere, one row ---- *)
Definition sphere_out (o : vec) (d : num N) : bool := nltb N (nabs N d / #2) (norm3 o).   (* r > r_sphere *)

Definition sphere_row (fld : fieldT) (mu0 : num N) (o : vec) (d : num N) (p : vec) : vec :=
  let r := norm3 o in
  let rs := nabs N d / #2 in
  let out := nltb N rs r in
  match fld with
  | FJ => if out then vzero3 else p
  | FM => vdivs (if out then vzero3 else p) mu0
  | _ =>
    let dt := dot3 p o in
    (* (3*sum(pol*obs)*obs - pol*r**2) / r**5 * r_sphere**3 / 3 *)
    let outside := vmap2 (fun pi oi => (#3 * dt * oi - pi * (r * r)) / pow5 r * pow3 rs / #3) p o in
    let inside := vmuls p (#2 / #3) in
    match fld with
    | FB => if out then outside else inside
    | _ => vdivs (if out then outside else vsub3 inside p) mu0
    end
  end.

(* ---- dipole_Hfield / BHJM_dipole, one row ---- *)
Definition dipole_H (o m : vec) : vec :=
  let r := norm3 o in
  if neqb N r #0 then vmap (ndiv0 N) m
  else let dt := dot3 m o in
       vmap2 (fun mi oi => (#3 * dt * oi / pow5 r - mi / pow3 r) / #4 / npi N) m o.

Definition bhjm_dipole (fld : fieldT) (mu0 : num N) (o m : vec) : vec :=
  match fld with
  | FJ | FM => vzero3
  | FH => dipole_H o m
  | FB => vmuls (dipole_H o m) mu0
  end.

(* the Dipole that magpylib documents as equivalent to a Sphere: moment = M * V = (J/mu0) * pi d^3/6 *)
Definition sphere_moment (mu0 d : num N) (p : vec) : vec :=
  vmap (fun pi => pi * (npi N * pow3 (nabs N d) / #6) / mu0) p.

(* ---- BHJM_magnet_cylinder, J and M branches, in cylinder coordinates (r, z) of the observer ---- *)
(* mask_between_bases = np.abs(z) <= z0 stands either before (pre = true) or after (pre = false) the scaling
   z = z / r0, z0 = z0 / r0; which one the code has NOW is translated on every run (Gen/GenCylMask.v) *)
Definition cyl_inside_gen (pre : bool) (r z d h : num N) : bool :=
  let r0 := d / #2 in let z0 := h / #2 in
  let r' := r / r0 in let z' := z / r0 in let z0' := z0 / r0 in
  (if pre then nleb N (nabs N z) z0 else nleb N (nabs N z') z0') && nleb N r' #1.
Definition cyl_inside : num N -> num N -> num N -> num N -> bool := cyl_inside_gen cyl_bases_before_scaling.

Definition cyl_JM_gen (pre : bool) (fld : fieldT) (mu0 r z d h : num N) (p : vec) : vec :=
  let j := if cyl_inside_gen pre r z d h then p else vzero3 in
  match fld with FM => vdivs j mu0 | _ => j end.
Definition cyl_JM : fieldT -> num N -> num N -> num N -> num N -> num N -> vec -> vec :=
  cyl_JM_gen cyl_bases_before_scaling.

End Formulas.

(* ------------------------------------------------------------------ masked batches *)
Section Masks.
Context {A : Type}.

(* a[mask] *)
Fixpoint gather (mask : list bool) (l : list A) : list A :=
  match mask, l with
  | b :: m, x :: t => if b then x :: gather m t else gather m t
  | _, _ => []
  end.

(* base[mask] = vals   (vals consumed in order at the true positions) *)
Fixpoint scatter (mask : list bool) (vals base : list A) : list A :=
  match mask, base with
  | b :: m, x :: t =>
      if b then match vals with v :: vs => v :: scatter m vs t | [] => x :: scatter m [] t end
      else x :: scatter m vals t
  | _, _ => base
  end.
End Masks.

(* ---- BHJM_cylinder_segment_internal on a batch ---- *)
Section SegInternal.
Context {N : NumOps}.
Definition dim5 : Type := (num N * num N * num N * num N * num N)%type.   (* r1 r2 h phi1 phi2 *)
Definition dim2 : Type := (num N * num N)%type.                            (* d h *)
Definition srow : Type := (@vec N * @vec N * dim5)%type.                   (* observer, polarization, dimension *)
Definition crow : Type := (@vec N * @vec N * dim2)%type.

(* the two functions the wrapper calls, on batches, exactly as it calls them *)
Variable seg : fieldT -> list srow -> list (@vec N).     (* BHJM_cylinder_segment *)
Variable cyl : fieldT -> list crow -> list (@vec N).     (* BHJM_magnet_cylinder  *)

Definition mask_segment (x : srow) : bool :=
  let '(_, _, (_, _, _, phi1, phi2)) := x in nltb N (nsub N phi2 phi1) (nofZ N 360).
Definition mask_hollow (x : srow) : bool :=
  let '(_, _, (r1, _, _, _, _)) := x in negb (neqb N r1 (nofZ N 0)) && negb (mask_segment x).
Definition outer_row (x : srow) : crow :=
  let '(o, p, (_, r2, h, _, _)) := x in (o, p, (nmul N (nofZ N 2) r2, h)).
Definition inner_row (x : srow) : crow :=
  let '(o, p, (r1, _, h, _, _)) := x in (o, p, (nmul N (nofZ N 2) r1, h)).

Definition seg_internal (fld : fieldT) (rows : list srow) : list (@vec N) :=
  let bh0 := map (fun _ => vzero3) rows in                                  (* np.zeros_like(observers) *)
  let mask1 := map mask_segment rows in
  let bh1 := scatter mask1 (seg fld (gather mask1 rows)) bh0 in
  let mask1x := map negb mask1 in
  let bh2 := scatter mask1x (cyl fld (map outer_row (gather mask1x rows))) bh1 in
  let mask2 := map mask_hollow rows in
  let sub := cyl fld (map inner_row (gather mask2 rows)) in
  scatter mask2 (map (fun '(a, b) => vsub3 a b) (combine (gather mask2 bh2) sub)) bh2.   (* BHfinal[mask2] -= ... *)
End SegInternal.

(* the result the property asks for on a full-angle row: Cylinder(2 r2, h) - [r1 != 0] Cylinder(2 r1, h), for a
   row-wise BHJM_magnet_cylinder cyl1 *)
Definition full_cylinder_spec {N : NumOps} (cyl1 : fieldT -> @crow N -> @vec N) (fld : fieldT) (x : @srow N) : @vec N :=
  let '(_, _, (r1, _, _, _, _)) := x in
  if neqb N r1 (nofZ N 0) then cyl1 fld (outer_row x)
  else vsub3 (cyl1 fld (outer_row x)) (cyl1 fld (inner_row x)).

(* ------------------------------------------------------------------ np.unique(axis=0, return_inverse=True) *)
Section Unique.
Context {A : Type}.
Variable eqb : A -> A -> bool.
Variable ltb : A -> A -> bool.

Fixpoint insert_u (x : A) (l : list A) : list A :=
  match l with
  | [] => [x]
  | y :: t => if eqb x y then l else if ltb x y then x :: l else y :: insert_u x t
  end.
Definition unique_rows (l : list A) : list A := fold_right insert_u [] l.
Fixpoint index_of (x : A) (l : list A) : nat :=
  match l with [] => O | y :: t => if eqb x y then O else S (index_of x t) end.
Definition inverse_rows (l : list A) : list nat := map (fun x => index_of x (unique_rows l)) l.

Definition tri3 (B : Type) : Type := (B * B * B)%type.
(* mesh.reshape((-1, 3)) on an (n,3,3) array: the vertices of all triangles in order *)
Definition flatten3 {B} (m : list (tri3 B)) : list B := flat_map (fun '(a, b, c) => [a; b; c]) m.
(* tr.reshape((-1, 3)) *)
Fixpoint chunk3 {B} (l : list B) : list (tri3 B) :=
  match l with a :: b :: c :: t => (a, b, c) :: chunk3 t | _ => [] end.

Definition mesh_vertices (mesh : list (tri3 A)) : list A := unique_rows (flatten3 mesh).
Definition mesh_faces (mesh : list (tri3 A)) : list (tri3 nat) := chunk3 (inverse_rows (flatten3 mesh)).
(* vertices[faces] *)
Definition index_faces (d : A) (verts : list A) (faces : list (tri3 nat)) : list (tri3 A) :=
  map (fun '(i, j, k) => (nth i verts d, nth j verts d, nth k verts d)) faces.
End Unique.

(* rows of integers in numpy's lexicographic order *)
Definition z3 : Type := (Z * Z * Z)%type.
Definition z3_eqb (a b : z3) : bool :=
  let '(a1, a2, a3) := a in let '(b1, b2, b3) := b in (a1 =? b1)%Z && (a2 =? b2)%Z && (a3 =? b3)%Z.
Definition z3_ltb (a b : z3) : bool :=
  let '(a1, a2, a3) := a in let '(b1, b2, b3) := b in
  (a1 <? b1)%Z || ((a1 =? b1)%Z && ((a2 <? b2)%Z || ((a2 =? b2)%Z && (a3 <? b3)%Z))).

(* ------------------------------------------------------------------ TriangularMesh.to_TriangleCollection *)
Section ToCollection.
Context {O : RigidOps}.
Variable Pol : Type.

Record triangle := mkTri { t_verts : tri3 V; t_pol : Pol; t_pos : V; t_ori : G }.

(* Triangle(polarization=self.polarization, vertices=v) for v in self.mesh : default pose *)
Definition new_triangles (pol : Pol) (mesh : list (tri3 V)) : list triangle :=
  map (fun v => mkTri v pol vzero gone) mesh.

(* Collection.position = p (single pose): every child keeps its relative position *)
Definition coll_set_position (cpos : V) (p : V) (ch : list triangle) : list triangle :=
  map (fun t => mkTri (t_verts t) (t_pol t) (vadd p (vsub (t_pos t) cpos)) (t_ori t)) ch.
(* Collection.orientation = q: child.rotate(q * old^-1, anchor=collection position, start=0) *)
Definition coll_set_orientation (cpos : V) (cori q : G) (ch : list triangle) : list triangle :=
  let g := gmul q (ginv cori) in
  map (fun t => mkTri (t_verts t) (t_pol t)
                      (vadd (act g (vsub (t_pos t) cpos)) cpos) (gmul g (t_ori t))) ch.

Definition to_triangle_collection (pol : Pol) (mesh : list (tri3 V)) (pos : V) (ori : G)
  : (V * G) * list triangle :=
  let tris := new_triangles pol mesh in                 (* coll = Collection(tris): pose (0, 1) *)
  let tris1 := coll_set_position vzero pos tris in      (* coll.position = self.position *)
  let tris2 := coll_set_orientation pos gone ori tris1 in   (* coll.orientation = self.orientation *)
  ((pos, ori), tris2).
End ToCollection.

(* ------------------------------------------------------------------ cuboid corner sum (abstract shape) *)
Section CornerSum.
Variable F : R -> R -> R -> R.      (* opaque corner function, already relative to the observer *)
Definition corner_sum (x0 x1 y0 y1 z0 z1 : R) : R :=
  (F x1 y1 z1 - F x0 y1 z1 - F x1 y0 z1 + F x0 y0 z1
   - F x1 y1 z0 + F x0 y1 z0 + F x1 y0 z0 - F x0 y0 z0)%R.
End CornerSum.

(* ------------------------------------------------------------------ instances *)
Definition RNum : NumOps := {|
  num := R; nadd := Rplus; nsub := Rminus; nmul := Rmult; ndiv := Rdiv; nsqrt := sqrt; nabs := Rabs;
  nofZ := IZR; npi := PI;
  nltb := fun a b => if Rlt_dec a b then true else false;
  nleb := fun a b => if Rle_dec a b then true else false;
  neqb := fun a b => if Req_EM_T a b then true else false;
  ndiv0 := fun _ => 0%R     (* no infinities in R: every theorem excludes r = 0 *)
|}.

From Coq Require Import Floats.

Definition float_ofZ (z : Z) : float :=
  match z with
  | Z0 => 0%float
  | Zpos p => PrimFloat.of_uint63 (Uint63.of_Z z)
  | Zneg p => PrimFloat.opp (PrimFloat.of_uint63 (Uint63.of_Z (Zpos p)))
  end.

Definition FNum : NumOps := {|
  num := float; nadd := PrimFloat.add; nsub := PrimFloat.sub; nmul := PrimFloat.mul; ndiv := PrimFloat.div;
  nsqrt := PrimFloat.sqrt; nabs := PrimFloat.abs;
  nofZ := float_ofZ; npi := 0x1.921fb54442d18p+1%float;
  nltb := PrimFloat.ltb; nleb := PrimFloat.leb; neqb := PrimFloat.eqb;
  ndiv0 := fun x => let q := PrimFloat.div x 0%float in if PrimFloat.is_nan q then 0%float else q
|}.

(* exact rationals (kept reduced); sqrt and pi are not available: models run over Q never call them *)
Definition QNum : NumOps := {|
  num := Q; nadd := fun a b => Qred (Qplus a b); nsub := fun a b => Qred (Qminus a b);
  nmul := fun a b => Qred (Qmult a b); ndiv := fun a b => Qred (Qdiv a b);
  nsqrt := fun _ => 0%Q; nabs := Qabs.Qabs; nofZ := inject_Z; npi := 0%Q;
  nltb := fun a b => match Qcompare a b with Lt => true | _ => false end;
  nleb := Qle_bool; neqb := Qeq_bool;
  ndiv0 := fun _ => 0%Q
|}.

(* BHJM_magnet_cylinder(field in "JM") on one row in Cartesian coordinates: r = np.sqrt(x**2 + y**2) *)
Definition cyl_JM_row_gen {N : NumOps} (pre : bool) (mu0 : num N) (fld : fieldT) (x : @crow N) : @vec N :=
  let '((ox, oy, oz), p, (d, h)) := x in
  cyl_JM_gen pre fld mu0 (nsqrt N (nadd N (nmul N ox ox) (nmul N oy oy))) oz d h p.
(* the variant the code has now (flag translated on every run) *)
Definition cyl_JM_row {N : NumOps} : num N -> fieldT -> @crow N -> @vec N := cyl_JM_row_gen cyl_bases_before_scaling.

(* a body cut along x into consecutive slabs [x0,c1], [c1,c2], ... : sum of the parts' corner sums *)
Fixpoint slab_sum (F : R -> R -> R -> R) (x0 : R) (cuts : list R) (y0 y1 z0 z1 : R) : R :=
  match cuts with
  | [] => 0%R
  | c :: t => (corner_sum F x0 c y0 y1 z0 z1 + slab_sum F c t y0 y1 z0 z1)%R
  end.
