(* C07 -- value level of the functional interface next to the level-2 model of builder l2a (Model/Level2Model.v, imported
   read-only): the ROWS that reach getBH_level1.

   Functional interface (getBH_dict_level2): every keyword is either given once -- then np.tile(val, (n, 1, ...)) makes n
   copies of it (this is the keyword the shape model Model/DictIface.v tiles: mode MSingle) -- or given as n rows, which are
   passed on unchanged (mode MBatch).  getBH_level1 then works row by row on (position, orientation, observer, parameters).
   Object interface: Level2Model.group_field builds posv / rotv / posov / props for one group of sources and maps level1
   over the combined rows.  Definitions only. *)
From Coq Require Import List Arith.
From MV Require Import Lib.Rigid Lib.ListIdx Model.Level2Model.
Import ListNotations.

Section DictRows.
Context {O : RigidOps}.
Variable P : Type.
Variable F : nat -> P -> V -> V.

Inductive given (A : Type) := One (v : A) | Many (l : list A).
Arguments One {A}. Arguments Many {A}.

(* after the tiling loop of getBH_dict_level2 with vec_len = n *)
Definition tiled {A} (n : nat) (g : given A) : list A :=
  match g with One v => repeat v n | Many l => l end.

Definition row := (((V * G) * V) * P)%type.

(* kwargs position / orientation / observers / the class parameters, zipped row-wise as getBH_level1 and the vectorised
   field function consume them *)
Definition dict_rows (n : nat) (pos : given V) (ori : given G) (obs : given V) (props : given P) : list row :=
  combine (combine (combine (tiled n pos) (tiled n ori)) (tiled n obs)) (tiled n props).

Definition row_field (k : nat) (r : row) : V :=
  match r with (((p, q), o), pr) => level1 P F k p q o pr end.

(* what getX('Class', observers, position=, orientation=, **params) returns before the final squeeze: (n, 3) *)
Definition dict_field (k n : nat) (pos : given V) (ori : given G) (obs : given V) (props : given P) : list V :=
  map (row_field k) (dict_rows n pos ori obs props).

(* the rows of Level2Model.group_field (its let-bound `rows`) *)
Definition l2_rows (gr : list (@leaf O P)) (n_pix n_pp : nat) (po : list V) : list row :=
  combine (combine (combine (repeat_each n_pix (flat_map l_pos gr)) (repeat_each n_pix (flat_map l_ori gr)))
                   (tile (List.length gr) po))
          (repeat_each n_pp (map l_prop gr)).

Definition static_leaf (x : @leaf O P) : Prop := List.length (l_pos x) = 1 /\ List.length (l_ori x) = 1.
End DictRows.

Arguments One {A}.
Arguments Many {A}.
