(* C19 -- executable instance of DisplayModel on Z^3 x signed permutations with integer scalars,
   and the comparison functions of the correspondence check (model vs implementation, same inputs). *)
From Coq Require Import ZArith List Bool.
From MV Require Import Lib.ListZ Lib.Rigid Lib.OctZ Model.DisplayModel.
Import ListNotations.
Open Scope Z_scope.

Definition v3smul (a : Z) (v : V3) : V3 := let '(x, y, z) := v in (a * x, a * y, a * z).

Global Instance OctScale : ScaleOps OctOps := {|
  Sc := Z; sone := 1; smulS := Z.mul; sis_one := fun a => a =? 1; smul := v3smul |}.

Fixpoint dlist_eqb {A} (eqb : A -> A -> bool) (l1 l2 : list A) : bool :=
  match l1, l2 with
  | [], [] => true
  | x :: r1, y :: r2 => eqb x y && dlist_eqb eqb r1 r2
  | _, _ => false
  end.

Definition dopt_eqb {A} (eqb : A -> A -> bool) (a b : option A) : bool :=
  match a, b with
  | None, None => true
  | Some x, Some y => eqb x y
  | _, _ => false
  end.

Definition xpose := (V3 * oct)%type.

Inductive dcase :=
  (* get_rot_pos_from_path(obj, show_path): expected (rots, poss, inds) or None = IndexError *)
| CFrames (path : list xpose) (s : selector) (exp : option (list oct * list V3 * list Z))
  (* place_and_orient_model3d(trace, orientation, position, scale, length_factor) on a vertex list *)
| CPlace (ori : option oct) (pos : option V3) (scale lf : Z) (vs exp : list V3)
  (* show(): copies of a polyline (one vertex list per displayed index, in drawing order) and the path line *)
| CShow (path : list xpose) (s : selector) (f : Z) (local : list V3)
        (exp : option (list (list V3))) (exp_path : option (list V3)).

Definition frames_eqb (a b : list oct * list V3 * list Z) : bool :=
  let '(r1, p1, i1) := a in let '(r2, p2, i2) := b in
  dlist_eqb oct_eqb r1 r2 && dlist_eqb v3eqb p1 p2 && dlist_eqb Z.eqb i1 i2.

Definition check_dcase (c : dcase) : bool :=
  match c with
  | CFrames path s exp =>
      dopt_eqb frames_eqb (get_rot_pos_from_path (O := OctOps) path s) exp
  | CPlace ori pos scale lf vs exp =>
      dlist_eqb v3eqb (map (place (O := OctOps) ori pos scale lf) vs) exp
  | CShow path s f local exp exp_path =>
      dopt_eqb (dlist_eqb (dlist_eqb v3eqb)) (object_frames (O := OctOps) path s f local) exp
      && (match exp with
          | None => true        (* IndexError: show raised, there is no figure *)
          | Some _ => dopt_eqb (dlist_eqb v3eqb) (path_trace_shown (O := OctOps) path f) exp_path
          end)
  end.

Fixpoint dfailing_from (i : Z) (cs : list dcase) : list Z :=
  match cs with
  | [] => []
  | c :: r => if check_dcase c then dfailing_from (i + 1) r else i :: dfailing_from (i + 1) r
  end.
Definition dfailing (cs : list dcase) : list Z := dfailing_from 0 cs.
