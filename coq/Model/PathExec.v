(* Executable instance of PathModel on Z^3 x signed permutations, and the comparison
   functions used by the correspondence check (model vs implementation, same histories). *)
From Coq Require Import ZArith List Bool.
From MV Require Import Lib.ListZ Lib.Rigid Lib.OctZ Gen.GenPath Model.PathModel.
Import ListNotations.
Open Scope Z_scope.

Fixpoint list_eqb {A} (eqb : A -> A -> bool) (l1 l2 : list A) : bool :=
  match l1, l2 with
  | [], [] => true
  | x :: r1, y :: r2 => eqb x y && list_eqb eqb r1 r2
  | _, _ => false
  end.

Definition xobj := @obj OctOps.
Definition xop := @op OctOps.
Definition xstate := (list V3 * list oct)%type.

Definition obj_eqb (o : xobj) (e : xstate) : bool :=
  list_eqb v3eqb (pos o) (fst e) && list_eqb oct_eqb (ori o) (snd e).

Fixpoint check_hist (o : xobj) (h : list xop) (es : list xstate) : bool :=
  match h, es with
  | [], [] => true
  | x :: h', e :: es' => let o' := step o x in obj_eqb o' e && check_hist o' h' es'
  | _, _ => false
  end.

Record xcase := mkCase {
  c_p : inp V3; c_r : option (inp oct); c_ops : list xop; c_exp : list xstate }.

Definition check_case (c : xcase) : bool :=
  match c_exp c with
  | e0 :: es => let o := init_pose (O := OctOps) (c_p c) (c_r c) in
                obj_eqb o e0 && check_hist o (c_ops c) es
  | [] => false
  end.

Fixpoint failing_from (i : Z) (cs : list xcase) : list Z :=
  match cs with
  | [] => []
  | c :: r => if check_case c then failing_from (i + 1) r else i :: failing_from (i + 1) r
  end.
Definition failing (cs : list xcase) : list Z := failing_from 0 cs.
