(* Hand-written model of class_BaseTransform.py (path_padding, apply_move,
   multi_anchor_behavior, apply_rotation) and of the pose setters / initialiser /
   reset_path of class_BaseGeo.py, for ONE object.  It is built on the TRANSLATED
   functions Gen.GenPath.path_padding_param and Gen.GenPath.pad_slice_path.
   Definitions only: this file must still run when a proof breaks. *)
From Coq Require Import ZArith List Bool.
From MV Require Import Lib.ListZ Lib.Rigid Gen.GenPath.
Import ListNotations.
Open Scope Z_scope.

Section PathModel.
Context {O : RigidOps}.

(* _position and _orientation are two separately stored arrays *)
Record obj := mkObj { pos : list V; ori : list G }.

(* user input: one operation (ndim 1 / single Rotation) or a sequence of them *)
Inductive inp (A : Type) := Scalar (x : A) | Vector (xs : list A).
Arguments Scalar {A} x.
Arguments Vector {A} xs.

Definition is_scalar {A} (i : inp A) : bool := match i with Scalar _ => true | Vector _ => false end.
Definition ilen {A} (i : inp A) : Z := match i with Scalar _ => 1 | Vector xs => zlen xs end.
(* value used at offset j of the updated slice (numpy broadcasting for scalar input) *)
Definition iget {A} (d : A) (i : inp A) (j : Z) : A :=
  match i with Scalar x => x | Vector xs => nthZ d xs j end.
(* np.reshape(x, (-1, 3)) *)
Definition as_rows {A} (i : inp A) : list A := match i with Scalar x => [x] | Vector xs => xs end.

(* path_padding(inpath, start, target_object) *)
Definition path_padding (sc : bool) (lenvec : Z) (start : option Z) (o : obj)
  : list V * list G * Z * Z * bool :=
  let lenip := if sc then 1 else lenvec in
  let '(padding, start) := path_padding_param sc (zlen (pos o)) lenip start in
  let '(ppath, opath) :=
    match padding with
    | Some (b, a) => (edge_pad vzero b a (pos o), edge_pad gone b a (ori o))
    | None => (pos o, ori o)
    end in
  let e := if sc then zlen ppath else start + lenip in
  (ppath, opath, start, e, match padding with Some _ => true | None => false end).

(* apply_move(target_object, displacement, start) *)
Definition apply_move (o : obj) (d : inp V) (start : option Z) : obj :=
  let '(ppath, opath, s, e, padded) := path_padding (is_scalar d) (ilen d) start o in
  {| pos := upd_range s e (fun j p => vadd p (iget vzero d j)) ppath;
     ori := if padded then opath else ori o |}.

(* multi_anchor_behavior(anchor, inrotQ, rotation) *)
Definition multi_anchor (anchor : inp V) (r : inp G) : inp V * inp G :=
  let len_r := match r with Scalar _ => 0 | Vector xs => zlen xs end in
  let len_a := match anchor with Scalar _ => 0 | Vector xs => zlen xs end in
  if len_r >? len_a then
    let a := as_rows anchor in
    (Vector (edge_pad vzero 0 (len_r - zlen a) a), r)
  else if len_r <? len_a then
    let q := as_rows r in
    (anchor, Vector (edge_pad gone 0 (len_a - zlen q) q))
  else (anchor, r).

(* apply_rotation(target_object, rotation, anchor, start, parent_path) *)
Definition apply_rotation (o : obj) (r : inp G) (anchor : option (inp V)) (start : option Z)
    (parent_path : option (list V)) : obj :=
  let '(anchor, r) :=
    match anchor with
    | Some a => let '(a', r') := multi_anchor a r in (Some a', r')
    | None => (None, r)
    end in
  let '(ppath, opath, newstart, e, _) := path_padding (is_scalar r) (ilen r) start o in
  let anc : option (Z -> V) :=
    match anchor, parent_path with
    | Some a, _ => Some (iget vzero a)
    | None, Some pp =>
        let len_anchor := e - newstart in
        let '(padding, start2) := path_padding_param (is_scalar r) (zlen pp) len_anchor start in
        let pp' := match padding with Some (b, a) => edge_pad vzero b a pp | None => pp end in
        Some (fun j => nthZ vzero pp' (start2 + j))
    | None, None => None
    end in
  let ppath' :=
    match anc with
    | Some a => upd_range newstart e
                  (fun j p => vadd (act (iget gone r j) (vsub p (a j))) (a j)) ppath
    | None => ppath
    end in
  {| pos := ppath';
     ori := upd_range newstart e (fun j q => gmul (iget gone r j) q) opath |}.

(* BaseGeo._init_position_orientation *)
Definition init_pose (p : inp V) (r : option (inp G)) : obj :=
  let ps := as_rows p in
  let qs := match r with None => [gone] | Some r => as_rows r end in
  let lp := zlen ps in let lo := zlen qs in
  if lp >? lo then {| pos := ps; ori := edge_pad gone 0 (lp - lo) qs |}
  else if lp <? lo then {| pos := edge_pad vzero 0 (lo - lp) ps; ori := qs |}
  else {| pos := ps; ori := qs |}.

(* BaseGeo.position setter, object without children *)
Definition set_position (o : obj) (p : inp V) : obj :=
  let ps := as_rows p in
  {| pos := ps; ori := pad_slice_path gone ps (ori o) |}.

(* BaseGeo.orientation setter, object without children *)
Definition set_orientation (o : obj) (r : option (inp G)) : obj :=
  let qs := match r with None => [gone] | Some r => as_rows r end in
  {| pos := pad_slice_path vzero qs (pos o); ori := qs |}.

Definition reset_path (o : obj) : obj :=
  set_orientation (set_position o (Scalar vzero)) None.

(* histories of operations on one object *)
Inductive op :=
| Move (d : inp V) (start : option Z)
| Rotate (r : inp G) (anchor : option (inp V)) (start : option Z)
| SetPos (p : inp V)
| SetOri (r : option (inp G))
| Reset.

Definition step (o : obj) (x : op) : obj :=
  match x with
  | Move d st => apply_move o d st
  | Rotate r a st => apply_rotation o r a st None
  | SetPos p => set_position o p
  | SetOri r => set_orientation o r
  | Reset => reset_path o
  end.

Definition run (o : obj) (h : list op) : obj := fold_left step h o.

(* ---------------- declarative specification the theorems compare against *)

(* result path of "apply op, at offsets j = 0.. , to k entries (all later entries when
   scalar) starting at index start, edge-padding where needed" *)
Definition spec_path {A} (d : A) (P : list A) (k : Z) (sc : bool) (st : option Z)
    (f : Z -> A -> A) : list A :=
  let n := zlen P in
  let s0 := match st with None => if sc then 0 else n | Some s => s end in
  let s1 := if s0 <? 0 then n + s0 else s0 in
  let b := Z.max 0 (- s1) in
  let s2 := Z.max 0 s1 in
  let n' := Z.max (b + n) (s2 + k) in
  tabulate n' (fun i =>
    let old := nthZ d P (clampZ (i - b) 0 (n - 1)) in
    if (s2 <=? i) && (sc || (i <? s2 + k)) then f (i - s2) old else old).

Definition spec_move (o : obj) (d : inp V) (st : option Z) : obj :=
  let sc := is_scalar d in let k := if sc then 1 else ilen d in
  {| pos := spec_path vzero (pos o) k sc st (fun j p => vadd p (iget vzero d j));
     ori := spec_path gone (ori o) k sc st (fun _ q => q) |}.

(* rotation with inputs already brought to a common length *)
Definition spec_rotate (o : obj) (r : inp G) (anchor : option (Z -> V)) (st : option Z) : obj :=
  let sc := is_scalar r in let k := if sc then 1 else ilen r in
  {| pos := spec_path vzero (pos o) k sc st
              (fun j p => match anchor with
                          | Some a => vadd (act (iget gone r j) (vsub p (a j))) (a j)
                          | None => p end);
     ori := spec_path gone (ori o) k sc st (fun j q => gmul (iget gone r j) q) |}.

(* other path after a setter assigned a path of length m: edge-pad at the end or keep
   the last m *)
Definition spec_fit {A} (d : A) (m : Z) (P : list A) : list A :=
  let n := zlen P in
  tabulate m (fun i => if m <=? n then nthZ d P (n - m + i) else nthZ d P (Z.min i (n - 1))).

Definition wf (o : obj) : Prop := 1 <= zlen (pos o) /\ zlen (pos o) = zlen (ori o).
Definition wf_inp {A} (i : inp A) : Prop := 1 <= ilen i.
Definition wf_op (x : op) : Prop :=
  match x with
  | Move d _ => wf_inp d
  | Rotate r a _ => wf_inp r /\ match a with Some a => wf_inp a | None => True end
  | SetPos p => wf_inp p
  | SetOri r => match r with Some r => wf_inp r | None => True end
  | Reset => True
  end.

End PathModel.

Arguments Scalar {A} x.
Arguments Vector {A} xs.
