(* C20 -- executable model of magpylib's style machinery (definitions only).
   Mirrors, quirks included:
     defaults_utility.py : magic_to_dict, linearize_dict, update_nested_dict (both flags),
                           MagicProperties.__init__ / as_dict / update / __setattr__,
                           validate_property_class, validate_style_keys
     style.py            : get_style (55-92), the property setters by KIND (GenStyle gives the kind of each)
     defaults_classes.py : DefaultSettings.__init__ / reset
     class_BaseGeo.py    : _process_style_kwargs, the lazy `style` property, the `style` setter
     display.py          : how show() turns its style arguments into get_style's kwargs
   A style object of class C is a tree: Node [(prop, sub-state)] over the NON-alias properties of C in dir()
   order; an alias property (Magnetization.size -> arrow.size) has no storage of its own. *)
From Coq Require Import ZArith List Bool String Ascii.
From MV Require Import Lib.STree.
Import ListNotations.
Open Scope string_scope.
Open Scope list_scope.

(* ---------------------------------------------------------------- schema *)
Inductive vkind :=
| KBool            (* assert val is None or isinstance(val, bool) *)
| KBoolStrict      (* assert isinstance(val, bool) *)
| KNumGe0          (* None or isinstance(val,(int,float)) and val >= 0 *)
| KNumGt0          (* None or number > 0 *)
| KNumGt0Strict    (* number > 0, None rejected *)
| KUnit            (* None or number with 0 <= val <= 1 *)
| KNum             (* None or number *)
| KIntGt0          (* None or isinstance(val,int) and val > 0 *)
| KStr             (* None or str *)
| KToStr           (* val if val is None else str(val): modelled on str/None only *)
| KEnum (allowed : list val)   (* None or val in allowed *)
| KColor           (* color_validator(val): table of the value pool, generated *)
| KColorSeq        (* None or tuple(color_validator(c, allow_None=False) for c in val) *)
| KFrames          (* Path.frames *)
| KOutput          (* Animation.output *)
| KData            (* Model3d.data: None -> []; modelled on None / [] only *)
| KOpaque.         (* anything else: modelled on None only *)

Inductive schema :=
| SLeaf (k : vkind)
| SAlias (target : path) (k : vkind)     (* getter reads / setter writes self.<target>; k = kind of the target leaf *)
         (vis : bool)                    (* listed by as_dict() (false: the class overrides as_dict and pops it) *)
| SObj (cname : string)
       (strtext : bool)                  (* the owning setter turns a str into Class(text=val) *)
       (haskw : bool)                    (* the class __init__ takes keyword catch-all *)
       (ctor : list (string * option val))   (* explicit __init__ parameters, in the order they reach
                                                MagicProperties.__init__, with their defaults *)
       (props : list (string * schema)). (* properties in dir() order *)

Inductive err := EName | EValue | EOther.

(* the two forms of DefaultSettings.reset that the translator recognises *)
(* the forms of magic_to_dict's merge of keys with the same head that the translator recognises *)
Inductive mmode :=
| MDeep        (* update_nested_dict(existing, val) for underscore AND plain keys (812b0e7) *)
| MFresh       (* {**existing, **val} for underscore keys only, a plain key overwrites *)
| MInplace.    (* existing.update(val): same result as MFresh, but writes into the caller's dict *)

Inductive rmode :=
| RRebuild     (* for key, val in get_defaults_dict().items(): setattr(self, key, val) *)
| RMerge.      (* self.update(get_defaults_dict(), _match_properties=False)   (before f095e9f) *)
Definition res (A : Type) := (A + err)%type.

Definition sprops (s : schema) : list (string * schema) :=
  match s with SObj _ _ _ _ ps => ps | _ => [] end.

Fixpoint slookup (k : string) (ps : list (string * schema)) : option schema :=
  match ps with
  | [] => None
  | (k', s) :: r => if String.eqb k k' then Some s else slookup k r
  end.

Fixpoint sget (p : path) (s : schema) : option schema :=
  match p with
  | [] => Some s
  | k :: p' => match slookup k (sprops s) with Some s' => sget p' s' | None => None end
  end.

Definition smem (k : string) (l : list string) : bool := existsb (String.eqb k) l.

(* ---------------------------------------------------------------- validators *)
Definition color_table := list (val * option val).

Fixpoint ct_lookup (ct : color_table) (v : val) : option (option val) :=
  match ct with
  | [] => None
  | (k, r) :: rest => if val_same k v then Some r else ct_lookup rest v
  end.

Definition is_num (v : val) : bool := match num_view v with Some _ => true | None => false end.
Definition num_test (f : Z -> positive -> bool) (v : val) : bool :=
  match num_view v with Some (n, d) => f n d | None => false end.
Definition is_int (v : val) : bool := match v with VInt _ | VBool _ => true | _ => false end.
Definition is_strict_int (v : val) : bool := match v with VInt _ => true | _ => false end.

Definition ok {A} (a : A) : res A := inl a.

(* what the generated tables fix for a run: the colour table and the form of magic_to_dict *)
Record env := mkEnv { e_ct : color_table; e_mm : mmode }.

Section Validate.
Variable ct : env.

Definition color1 (v : val) : res val :=
  match ct_lookup (e_ct ct) v with
  | Some (Some v') => inl v'
  | Some None => inr EValue
  | None => inr EOther           (* value outside the generated pool: not modelled *)
  end.

Fixpoint color_all (l : list val) : res (list val) :=
  match l with
  | [] => inl []
  | x :: r => match color1 x with
              | inl x' => match color_all r with inl r' => inl (x' :: r') | inr e => inr e end
              | inr e => inr e
              end
  end.

Definition guard (b : bool) (o : option val) : res (option val) := if b then inl o else inr EValue.

Definition validate (k : vkind) (o : option val) : res (option val) :=
  match k, o with
  | KBoolStrict, None => inr EValue
  | KNumGt0Strict, None => inr EValue
  | KData, None => inl (Some (VTup []))
  | _, None => inl None
  | KBool, Some v => guard (match v with VBool _ => true | _ => false end) o
  | KBoolStrict, Some v => guard (match v with VBool _ => true | _ => false end) o
  | KNumGe0, Some v => guard (num_test (fun n _ => (0 <=? n)%Z) v) o
  | KNumGt0, Some v => guard (num_test (fun n _ => (0 <? n)%Z) v) o
  | KNumGt0Strict, Some v => guard (num_test (fun n _ => (0 <? n)%Z) v) o
  | KUnit, Some v => guard (num_test (fun n d => (0 <=? n)%Z && (n <=? Zpos d)%Z) v) o
  | KNum, Some v => guard (is_num v) o
  | KIntGt0, Some v => guard (is_int v && num_test (fun n _ => (0 <? n)%Z) v) o
  | KStr, Some v => guard (match v with VStr _ => true | _ => false end) o
  | KToStr, Some v => match v with VStr _ => inl o | _ => inr EOther end
  | KEnum allowed, Some v => guard (existsb (val_eqb v) allowed) o
  | KColor, Some v => match color1 v with inl v' => inl (Some v') | inr e => inr e end
  | KColorSeq, Some v =>
      match v with
      | VTup l => match color_all l with inl l' => inl (Some (VTup l')) | inr e => inr e end
      | VStr _ => inr EOther
      | _ => inr EValue
      end
  | KFrames, Some v =>
      match v with
      | VInt _ => inl o
      | VTup l => guard (forallb is_strict_int l) o
      | _ => inr EValue
      end
  | KOutput, Some v =>
      match v with
      | VStr s => guard (ends_with "mp4" s || ends_with "gif" s) o
      | _ => inr EValue
      end
  | KData, Some v => match v with VTup [] => inl o | _ => inr EOther end
  | KOpaque, Some _ => inr EOther
  end.

(* ---------------------------------------------------------------- update_nested_dict(d, u, same_keys_only, replace_None_only) *)
Definition is_none_tree (o : option tree) : bool :=
  match o with None | Some (Leaf None) => true | _ => false end.

Fixpoint und (sko rno : bool) (d : tree) (u : tree) : tree :=
  match u with
  | Leaf _ => d
  | Node ud =>
      match d with
      | Leaf o => if (match o with None => true | Some _ => false end) || negb rno then Node ud else d
      | Node dd =>
          Node ((fix go (ud : dict) (new : dict) : dict :=
                   match ud with
                   | [] => new
                   | (k, v) :: r =>
                       go r
                         (if dmem k new || negb sko then
                            match v with
                            | Node _ => dset k (und sko rno (match dget k new with Some t => t | None => Node [] end) v) new
                            | Leaf _ => if is_none_tree (dget k new) || negb rno
                                        then (if negb sko || dmem k new then dset k v new else new)
                                        else new
                            end
                          else new)
                   end) ud dd)
      end
  end.

(* ---------------------------------------------------------------- magic_to_dict *)
Definition magic_step (sep : ascii) (new : dict) (kv : string * tree) : dict :=
  match split_on sep (fst kv) with
  | [] => new
  | k0 :: rest =>
      let sub := join_with (String sep EmptyString) rest in
      match e_mm ct with
      | MDeep =>
          (* val = v if len(keys) == 1 else {sep.join(keys[1:]): v};
             both dicts -> new[k0] = update_nested_dict(new[k0], val), else new[k0] = val *)
          let val := match rest with [] => snd kv | _ :: _ => Node [(sub, snd kv)] end in
          match val, dget k0 new with
          | Node _, Some (Node d') => dset k0 (und false false (Node d') val) new
          | _, _ => dset k0 val new
          end
      | _ =>
          match rest with
          | [] => dset k0 (snd kv) new
          | _ :: _ =>
              match dget k0 new with
              | Some (Node d') => dset k0 (Node (dset sub (snd kv) d')) new    (* {**new[k0], **{sub: v}} *)
              | _ => dset k0 (Node [(sub, snd kv)]) new
              end
          end
      end
  end.

Fixpoint m2d (fuel : nat) (sep : ascii) (kw : dict) : dict :=
  let new := fold_left (magic_step sep) kw [] in
  match fuel with
  | O => new
  | S n => map (fun kv => (fst kv, match snd kv with Node d => Node (m2d n sep d) | t => t end)) new
  end.

(* enough fuel for every key to be split completely at every level *)
Fixpoint tfuel (t : tree) : nat :=
  match t with
  | Leaf _ => 0
  | Node d => S ((fix go (d : dict) : nat :=
                    match d with [] => 0 | (k, t') :: r => String.length k + tfuel t' + go r end) d)
  end.

Definition us : ascii := "_"%char.
Definition magic_to_dict (kw : dict) : dict := m2d (tfuel (Node kw)) us kw.

(* ---------------------------------------------------------------- linearize_dict *)
Fixpoint lin (sep : string) (t : tree) : dict :=
  match t with
  | Leaf _ => []
  | Node d =>
      (fix go (d : dict) (acc : dict) : dict :=
         match d with
         | [] => acc
         | (k, t') :: r =>
             match t' with
             | Leaf _ => go r (dset k t' acc)
             | Node _ => go r (fold_left (fun a kv => dset (String.append k (String.append sep (fst kv))) (snd kv) a)
                                         (lin sep t') acc)
             end
         end) d []
  end.

(* ---------------------------------------------------------------- MagicProperties *)
Definition or_none (o : option tree) : tree := match o with Some t => t | None => Leaf None end.

(* as_dict(): properties in dir() order; sub-objects recursively; an alias reads its target *)
Fixpoint as_dict (s : schema) (st : tree) : tree :=
  match s with
  | SObj _ _ _ _ props =>
      Node ((fix go (ps : list (string * schema)) : dict :=
               match ps with
               | [] => []
               | (p, sp) :: r =>
                   match sp with
                   | SAlias tgt _ vis => if vis then (p, or_none (tget tgt st)) :: go r else go r
                   | _ => (p, as_dict sp (or_none (tget [p] st))) :: go r
                   end
               end) props)
  | _ => st
  end.

(* the alias setter: `if val is not None: self.<target> = val` *)
Definition set_alias (tgt : path) (k : vkind) (v : tree) (st : dict) : res dict :=
  match v with
  | Leaf None => inl st
  | Leaf o => match validate k o with
              | inl o' => match tset tgt (Leaf o') (Node st) with
                          | Some (Node st') => inl st'
                          | _ => inr EOther
                          end
              | inr e => inr e
              end
  | Node _ => inr EValue
  end.

(* the keyword arguments as they reach MagicProperties.__init__: explicit parameters first *)
Definition bind_ctor (ctor : list (string * option val)) (d : dict) : dict :=
  map (fun cv => (fst cv, match dget (fst cv) d with Some t => t | None => Leaf (snd cv) end)) ctor
  ++ filter (fun kv => negb (smem (fst kv) (map fst ctor))) d.

(* the value a setter stores for input v: leaf -> validated value; sub-object -> Class(kw=v) built by
   MagicProperties.__init__ (unknown names -> AttributeError before anything is set; then every
   property in dir() order through its setter, absent ones with None) *)
Fixpoint set_into (s : schema) (v : tree) : res tree :=
  match s with
  | SLeaf k =>
      match v with
      | Leaf o => match validate k o with inl o' => inl (Leaf o') | inr e => inr e end
      | Node _ => inr EValue
      end
  | SAlias _ _ _ => inr EOther
  | SObj _ strtext haskw ctor props =>
      match (match v with
             | Node d => Some d
             | Leaf None => Some []
             | Leaf (Some (VStr s)) => if strtext then Some [("text", v)] else None
             | Leaf _ => None
             end) with
      | None => inr EValue                     (* validate_property_class: ValueError *)
      | Some d =>
          if negb haskw && existsb (fun kv => negb (smem (fst kv) (map fst ctor))) d
          then inr EName                       (* TypeError: unexpected keyword argument *)
          else
            let mk := magic_to_dict (bind_ctor ctor d) in
            if existsb (fun k => negb (smem k (map fst props))) (keys mk) then inr EName
            else
              (fix go (ps : list (string * schema)) (st : dict) : res tree :=
                 match ps with
                 | [] => inl (Node st)
                 | (p, sp) :: r =>
                     match sp with
                     | SAlias tgt k _ => match set_alias tgt k (or_none (dget p mk)) st with
                                       | inl st' => go r st'
                                       | inr e => inr e
                                       end
                     | _ => match set_into sp (or_none (dget p mk)) with
                            | inl t => go r (st ++ [(p, t)])
                            | inr e => inr e
                            end
                     end
                 end) props []
      end
  end.

(* setattr(self, k, v) on a frozen object *)
Definition setattr (props : list (string * schema)) (st : dict) (k : string) (v : tree) : res dict :=
  match slookup k props with
  | None => inr EName
  | Some (SAlias tgt kd _) => set_alias tgt kd v st
  | Some sp => match set_into sp v with inl t => inl (dset k t st) | inr e => inr e end
  end.

Fixpoint apply_items (props : list (string * schema)) (items : dict) (st : dict) : dict * option err :=
  match items with
  | [] => (st, None)
  | (k, v) :: r => match setattr props st k v with
                   | inl st' => apply_items props r st'
                   | inr e => (st, Some e)       (* what was set before the failing key stays set *)
                   end
  end.

(* update(arg, _match_properties, _replace_None_only) *)
Definition update (s : schema) (st : tree) (arg : dict) (matchp rno : bool) : tree * option err :=
  match s, st with
  | SObj _ _ _ _ props, Node sd =>
      match und (negb matchp) rno (as_dict s st) (Node (magic_to_dict arg)) with
      | Node new => let '(sd', e) := apply_items props new sd in (Node sd', e)
      | Leaf _ => (st, Some EOther)
      end
  | _, _ => (st, Some EOther)
  end.

(* obj.a.b.c = v : getattr along the path, then the last object's setter *)
Fixpoint assign (s : schema) (st : tree) (p : path) (v : tree) : res tree :=
  match p, s, st with
  | [], _, _ => inr EOther
  | [k], SObj _ _ _ _ props, Node sd =>
      match setattr props sd k v with inl sd' => inl (Node sd') | inr e => inr e end
  | k :: p', SObj _ _ _ _ props, Node sd =>
      match slookup k props, dget k sd with
      | Some sp, Some t => match assign sp t p' v with
                           | inl t' => inl (Node (dset k t' sd))
                           | inr e => inr e
                           end
      | _, _ => inr EName                      (* AttributeError on getattr *)
      end
  | _, _, _ => inr EName
  end.

Definition fresh (s : schema) : res tree := set_into s (Leaf None).

(* ---------------------------------------------------------------- BaseGeo *)
Definition drop6 (s : string) : string := String.substring 6 (String.length s - 6) s.

(* _process_style_kwargs(style, kwargs): style.update(stripped kwargs) -- on the caller's dict *)
Definition process_style_kwargs (style : dict) (kwargs : dict) : dict :=
  fold_left (fun a kv => dset (drop6 (fst kv)) (snd kv) a) kwargs style.

(* Class(style=style, style_kwargs) followed by the first access of .style *)
Definition obj_new (s : schema) (style kwargs : dict) : tree * option err :=
  match fresh s with
  | inl st0 => match process_style_kwargs style kwargs with
               | [] => (st0, None)
               | d => update s st0 d true false
               end
  | inr e => (Leaf None, Some e)
  end.

(* obj.style = val  (BaseGeo.style setter -> _validate_style): a dict is merged with update; an instance of
   the object's style class is taken over as a copy (`takes`; before 9298ef3 it was silently ignored);
   anything else raises ValueError.  The instance is given by its state. *)
Inductive style_arg :=
| SDict (d : dict)
| SInst (inst : tree)
| SWrong.

Definition set_style (takes : bool) (s : schema) (st : tree) (a : style_arg) : tree * option err :=
  match a with
  | SDict d => update s st d true false
  | SInst inst => if takes then (inst, None) else (st, None)
  | SWrong => (st, Some EValue)
  end.

(* ---------------------------------------------------------------- show() and get_style *)
(* display.py: style_kwargs = linearize_dict({k: v for k in kwargs if k.startswith("style")}, "_") *)
Definition show_style_kwargs (kwargs : dict) : dict :=
  lin "_" (Node (filter (fun kv => starts_with "style" (fst kv)) kwargs)).

Definition first_seg (k : string) : string :=
  match split_on us k with x :: _ => x | [] => "" end.

Definition not_none (t : tree) : bool := match t with Leaf None => false | _ => true end.

(* get_style(obj, default_settings, kwargs), style.py:55-92.
   ds / dst: schema and state of default_settings.display.style; valid_keys: the keys that
   validate_style_keys collects from the hard-coded DEFAULTS *)
Definition get_style (s : schema) (families : list string) (ds : schema) (dst : tree)
           (valid_keys : list string) (ost : tree) (kwargs : dict) : tree * option err :=
  match (match dget "style" kwargs with
         | None => Some []
         | Some (Node d) => Some d
         | Some (Leaf _) => None
         end) with
  | None => (ost, Some EOther)
  | Some sk0 =>
      let sk := fold_left (fun a kv => if starts_with "style" (fst kv) && negb (String.eqb (fst kv) "style")
                                       then dset (drop6 (fst kv)) (snd kv) a else a) kwargs sk0 in
      let flat_of fam := match slookup fam (sprops ds), tget [fam] dst with
                         | Some fs, Some ft => Some (lin "_" (as_dict fs ft))
                         | _, _ => None
                         end in
      match flat_of "base" with
      | None => (ost, Some EOther)
      | Some base_flat =>
          let flat := fold_left (fun acc fam =>
                                   match flat_of fam with
                                   | Some fd => fold_left (fun a kv => if not_none (snd kv) then dset (fst kv) (snd kv) a else a) fd acc
                                   | None => acc
                                   end) families base_flat in
          if existsb (fun kv => negb (smem (first_seg (fst kv)) valid_keys)) sk
          then (ost, Some EValue)                 (* validate_style_keys: ValueError *)
          else
            let top := match as_dict s ost with Node d => keys d | Leaf _ => [] end in
            let specific := filter (fun kv => smem (first_seg (fst kv)) top) sk in
            match update s ost specific true false with
            | (st1, Some e) => (st1, Some e)
            | (st1, None) => update s st1 flat false true
            end
      end
  end.

(* ---------------------------------------------------------------- defaults *)
(* DefaultSettings.reset() *)
Definition reset (m : rmode) (s : schema) (st : tree) (DEFAULTS : tree) : tree * option err :=
  match DEFAULTS with
  | Node d =>
      match m with
      | RMerge => update s st d false false
      | RRebuild =>
          match s, st with
          | SObj _ _ _ _ props, Node sd => let '(sd', e) := apply_items props d sd in (Node sd', e)
          | _, _ => (st, Some EOther)
          end
      end
  | Leaf _ => (st, Some EOther)
  end.

(* DefaultSettings(): MagicProperties.__init__(display=None) then reset() *)
Definition defaults_new (m : rmode) (s : schema) (DEFAULTS : tree) : tree * option err :=
  match fresh s with
  | inl st0 => reset m s st0 DEFAULTS
  | inr e => (Leaf None, Some e)
  end.

End Validate.
