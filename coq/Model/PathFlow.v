(* The statement-level structure of the path machinery that the hand models PathModel.v (one object)
   and CompoundModel.v (trees) were written against: a verbatim record of the control and data flow of
   multi_anchor_behavior, path_padding, apply_move, apply_rotation, BaseTransform.move / _rotate /
   rotate / rotate_from_*, BaseGeo._init_position_orientation, the position / orientation setters and
   reset_path, in the deep embedding of Model/L2Arith.v.  translate/gen_pathflow.py re-derives the same
   record from /repo on every run (Gen/GenPathFlow.v); Proofs/PathFlowProofs.v proves that the two are
   equal and interprets the pad widths, slice bounds and forwarded arguments against the hand models.
   Definitions only. *)
From Coq Require Import ZArith List String Bool.
From MV Require Import Model.L2Arith.
Import ListNotations.
Open Scope string_scope.
Open Scope Z_scope.

(* ---- reading a translated statement *)
Definition arg (n : nat) (e : pyexp) : pyexp :=
  match e with PCall _ args _ => nth n args PNone | _ => PNone end.
Definition nargs (e : pyexp) : nat := match e with PCall _ args _ => List.length args | _ => 0%nat end.
Fixpoint assoc_kw (k : string) (l : list (string * pyexp)) : pyexp :=
  match l with [] => PNone | (k', v) :: r => if String.eqb k k' then v else assoc_kw k r end.
Definition kwarg (k : string) (e : pyexp) : pyexp :=
  match e with PCall _ _ kw => assoc_kw k kw | _ => PNone end.
Definition kwnames (e : pyexp) : list string := match e with PCall _ _ kw => map fst kw | _ => [] end.
Definition callee (e : pyexp) : pyexp := match e with PCall f _ _ => f | _ => PNone end.

(* np.pad(X, ((before, after), (0, 0)), "edge")  ->  (X, before, after) *)
Definition edge_pad_call (e : pyexp) : option (pyexp * pyexp * pyexp) :=
  match e with
  | PCall (PAttr (PName "np") "pad")
          [x; PTuple [PTuple [b; a]; PTuple [PInt 0; PInt 0]]; PStr "edge"] [] => Some (x, b, a)
  | _ => None
  end.

(* X[lo:hi] -> (X, lo, hi) *)
Definition slice_call (e : pyexp) : option (pyexp * pyexp * pyexp) :=
  match e with PSub x (PSlice (Some lo) (Some hi)) => Some (x, lo, hi) | _ => None end.

(* index of the first entry of a function with the given kind whose expression satisfies p *)
Fixpoint index_of (f k : string) (p : pyexp -> bool) (i : nat) (l : list entry) : option nat :=
  match l with
  | [] => None
  | (f', k', _, e) :: r =>
      if (String.eqb f f' && String.eqb k k' && p e)%bool then Some i else index_of f k p (S i) r
  end.

Definition is_call_of (name : pyexp) (e : pyexp) : bool :=
  match e, name with
  | PCall (PName a) _ _, PName b => String.eqb a b
  | PCall (PAttr (PName a) m) _ _, PAttr (PName b) m' => (String.eqb a b && String.eqb m m')%bool
  | _, _ => false
  end.

(* integer expressions with conditional expressions on boolean names and len(name) *)
Section EvalB.
Variable env : string -> option Z.
Variable benv : string -> option bool.
Fixpoint evalZb (e : pyexp) : option Z :=
  match e with
  | PInt z => Some z
  | PName s => env s
  | PAttr (PName s) a => env (s ++ "." ++ a)
  | PSub (PAttr (PName s) "shape") (PInt 0) => env ("len(" ++ s ++ ")")
  | PCall (PName "len") [PName s] [] => env ("len(" ++ s ++ ")")
  | PBin op a b =>
      match evalZb a, evalZb b with Some x, Some y => zbin op x y | _, _ => None end
  | PIfExp (PName c) a b =>
      match benv c with Some true => evalZb a | Some false => evalZb b | None => None end
  | _ => None
  end.
End EvalB.

Definition env0 : string -> option Z := fun _ => None.
Definition benv0 : string -> option bool := fun _ => None.
Definition bind {A} (s : string) (v : A) (e : string -> option A) : string -> option A :=
  fun x => if String.eqb x s then Some v else e x.

(* `ppth = self._position if parent_path is None else parent_path` as a function of the node's own
   position path and the parent path it was handed *)
Definition interp_ppth (e : pyexp) : option (forall A : Type, A -> option A -> A) :=
  match e with
  | PIfExp (PCmp "is" (PName "parent_path") PNone) (PAttr (PName "self") "_position") (PName "parent_path") =>
      Some (fun A selfpos pp => match pp with None => selfpos | Some p => p end)
  | _ => None
  end.

(* pad_slice_path(path1, path2) -> the two argument expressions *)
Definition psp_args (e : pyexp) : option (pyexp * pyexp) :=
  match e with PCall (PName "pad_slice_path") [a; b] [] => Some (a, b) | _ => None end.

Definition SELFPOS := PAttr (PName "self") "_position".
Definition CHILDPOS := PAttr (PName "child") "_position".

(* the rotate_from_* front ends: every argument handed to R.from_<x> and to self.rotate is a plain
   name passed positionally or under its own keyword *)
Definition passthrough (l : list (string * string)) : bool :=
  forallb (fun kv => (String.eqb (fst kv) "" || String.eqb (fst kv) (snd kv))%bool) l.
Definition rotate_call_ok (l : list (string * string)) : bool :=
  (passthrough l && match map snd l with ["rot"; "anchor"; "start"] => true | _ => false end)%bool.

Definition expected_flow : list (string * string * string * pyexp) := [
  ("multi_anchor_behavior", "def", "anchor, inrotQ, rotation",
     PNone);
  ("multi_anchor_behavior", "assign", "len_inrotQ",
     (PIfExp (PCmp "==" (PAttr (PName "inrotQ") "ndim") (PInt 1)) (PInt 0) (PSub (PAttr (PName "inrotQ") "shape") (PInt 0))));
  ("multi_anchor_behavior", "assign", "len_anchor",
     (PIfExp (PCmp "==" (PAttr (PName "anchor") "ndim") (PInt 1)) (PInt 0) (PSub (PAttr (PName "anchor") "shape") (PInt 0))));
  ("multi_anchor_behavior", "if", "",
     (PCmp ">" (PName "len_inrotQ") (PName "len_anchor")));
  ("multi_anchor_behavior", "if", "",
     (PCmp "==" (PName "len_anchor") (PInt 0)));
  ("multi_anchor_behavior", "assign", "anchor",
     (PCall (PAttr (PName "np") "reshape") [(PName "anchor"); (PTuple [(PInt 1); (PInt 3)])] []));
  ("multi_anchor_behavior", "assign", "len_anchor",
     (PInt 1));
  ("multi_anchor_behavior", "end", "if",
     PNone);
  ("multi_anchor_behavior", "assign", "anchor",
     (PCall (PAttr (PName "np") "pad") [(PName "anchor"); (PTuple [(PTuple [(PInt 0); (PBin "-" (PName "len_inrotQ") (PName "len_anchor"))]); (PTuple [(PInt 0); (PInt 0)])]); (PStr "edge")] []));
  ("multi_anchor_behavior", "else", "",
     PNone);
  ("multi_anchor_behavior", "if", "",
     (PCmp "<" (PName "len_inrotQ") (PName "len_anchor")));
  ("multi_anchor_behavior", "if", "",
     (PCmp "==" (PName "len_inrotQ") (PInt 0)));
  ("multi_anchor_behavior", "assign", "inrotQ",
     (PCall (PAttr (PName "np") "reshape") [(PName "inrotQ"); (PTuple [(PInt 1); (PInt 4)])] []));
  ("multi_anchor_behavior", "assign", "len_inrotQ",
     (PInt 1));
  ("multi_anchor_behavior", "end", "if",
     PNone);
  ("multi_anchor_behavior", "assign", "inrotQ",
     (PCall (PAttr (PName "np") "pad") [(PName "inrotQ"); (PTuple [(PTuple [(PInt 0); (PBin "-" (PName "len_anchor") (PName "len_inrotQ"))]); (PTuple [(PInt 0); (PInt 0)])]); (PStr "edge")] []));
  ("multi_anchor_behavior", "assign", "rotation",
     (PCall (PAttr (PName "R") "from_quat") [(PName "inrotQ")] []));
  ("multi_anchor_behavior", "end", "if",
     PNone);
  ("multi_anchor_behavior", "end", "if",
     PNone);
  ("multi_anchor_behavior", "return", "",
     (PTuple [(PName "anchor"); (PName "inrotQ"); (PName "rotation")]));
  ("path_padding", "def", "inpath, start, target_object",
     PNone);
  ("path_padding", "assign", "scalar_input",
     (PCmp "==" (PAttr (PName "inpath") "ndim") (PInt 1)));
  ("path_padding", "assign", "ppath",
     (PCall (PAttr (PAttr (PName "target_object") "_position") "copy") [] []));
  ("path_padding", "assign", "opath",
     (PCall (PAttr (PAttr (PName "target_object") "_orientation") "as_quat") [] []));
  ("path_padding", "assign", "lenip",
     (PIfExp (PName "scalar_input") (PInt 1) (PCall (PName "len") [(PName "inpath")] [])));
  ("path_padding", "assign", "(padding, start)",
     (PCall (PName "path_padding_param") [(PName "scalar_input"); (PCall (PName "len") [(PName "ppath")] []); (PName "lenip"); (PName "start")] []));
  ("path_padding", "if", "",
     (PName "padding"));
  ("path_padding", "assign", "ppath",
     (PCall (PAttr (PName "np") "pad") [(PName "ppath"); (PTuple [(PName "padding"); (PTuple [(PInt 0); (PInt 0)])]); (PStr "edge")] []));
  ("path_padding", "assign", "opath",
     (PCall (PAttr (PName "np") "pad") [(PName "opath"); (PTuple [(PName "padding"); (PTuple [(PInt 0); (PInt 0)])]); (PStr "edge")] []));
  ("path_padding", "end", "if",
     PNone);
  ("path_padding", "assign", "end",
     (PIfExp (PName "scalar_input") (PCall (PName "len") [(PName "ppath")] []) (PBin "+" (PName "start") (PName "lenip"))));
  ("path_padding", "return", "",
     (PTuple [(PName "ppath"); (PName "opath"); (PName "start"); (PName "end"); (PCall (PName "bool") [(PName "padding")] [])]));
  ("apply_move", "def", "target_object, displacement, start='auto'",
     PNone);
  ("apply_move", "assign", "inpath",
     (PCall (PName "check_format_input_vector") [(PName "displacement")] [("dims", (PTuple [(PInt 1); (PInt 2)])); ("shape_m1", (PInt 3)); ("sig_name", (PStr "displacement")); ("sig_type", (PStr "array_like (list, tuple, ndarray) with shape (3,) or (n,3)"))]));
  ("apply_move", "expr", "",
     (PCall (PName "check_start_type") [(PName "start")] []));
  ("apply_move", "assign", "(ppath, opath, start, end, padded)",
     (PCall (PName "path_padding") [(PName "inpath"); (PName "start"); (PName "target_object")] []));
  ("apply_move", "if", "",
     (PName "padded"));
  ("apply_move", "assign", "target_object._orientation",
     (PCall (PAttr (PName "R") "from_quat") [(PName "opath")] []));
  ("apply_move", "end", "if",
     PNone);
  ("apply_move", "aug+", "ppath[start:end]",
     (PName "inpath"));
  ("apply_move", "assign", "target_object._position",
     (PName "ppath"));
  ("apply_move", "return", "",
     (PName "target_object"));
  ("apply_rotation", "def", "target_object, rotation: R, anchor=None, start='auto', parent_path=None",
     PNone);
  ("apply_rotation", "assign", "(rotation, inrotQ)",
     (PCall (PName "check_format_input_orientation") [(PName "rotation")] []));
  ("apply_rotation", "assign", "anchor",
     (PCall (PName "check_format_input_anchor") [(PName "anchor")] []));
  ("apply_rotation", "expr", "",
     (PCall (PName "check_start_type") [(PName "start")] []));
  ("apply_rotation", "if", "",
     (PCmp "is not" (PName "anchor") PNone));
  ("apply_rotation", "assign", "(anchor, inrotQ, rotation)",
     (PCall (PName "multi_anchor_behavior") [(PName "anchor"); (PName "inrotQ"); (PName "rotation")] []));
  ("apply_rotation", "end", "if",
     PNone);
  ("apply_rotation", "assign", "(ppath, opath, newstart, end, _)",
     (PCall (PName "path_padding") [(PName "inrotQ"); (PName "start"); (PName "target_object")] []));
  ("apply_rotation", "if", "",
     (PBin "and" (PCmp "is" (PName "anchor") PNone) (PCmp "is not" (PName "parent_path") PNone)));
  ("apply_rotation", "assign", "len_anchor",
     (PBin "-" (PName "end") (PName "newstart")));
  ("apply_rotation", "assign", "(padding, start)",
     (PCall (PName "path_padding_param") [(PCmp "==" (PAttr (PName "inrotQ") "ndim") (PInt 1)); (PSub (PAttr (PName "parent_path") "shape") (PInt 0)); (PName "len_anchor"); (PName "start")] []));
  ("apply_rotation", "if", "",
     (PName "padding"));
  ("apply_rotation", "assign", "parent_path",
     (PCall (PAttr (PName "np") "pad") [(PName "parent_path"); (PTuple [(PName "padding"); (PTuple [(PInt 0); (PInt 0)])]); (PStr "edge")] []));
  ("apply_rotation", "end", "if",
     PNone);
  ("apply_rotation", "assign", "anchor",
     (PSub (PName "parent_path") (PSlice (Some (PName "start")) (Some (PBin "+" (PName "start") (PName "len_anchor"))))));
  ("apply_rotation", "end", "if",
     PNone);
  ("apply_rotation", "if", "",
     (PCmp "is not" (PName "anchor") PNone));
  ("apply_rotation", "aug-", "ppath[newstart:end]",
     (PName "anchor"));
  ("apply_rotation", "assign", "ppath[newstart:end]",
     (PCall (PAttr (PName "rotation") "apply") [(PSub (PName "ppath") (PSlice (Some (PName "newstart")) (Some (PName "end"))))] []));
  ("apply_rotation", "aug+", "ppath[newstart:end]",
     (PName "anchor"));
  ("apply_rotation", "end", "if",
     PNone);
  ("apply_rotation", "assign", "oldrot",
     (PCall (PAttr (PName "R") "from_quat") [(PSub (PName "opath") (PSlice (Some (PName "newstart")) (Some (PName "end"))))] []));
  ("apply_rotation", "assign", "opath[newstart:end]",
     (PCall (PAttr (PBin "*" (PName "rotation") (PName "oldrot")) "as_quat") [] []));
  ("apply_rotation", "assign", "target_object._orientation",
     (PCall (PAttr (PName "R") "from_quat") [(PName "opath")] []));
  ("apply_rotation", "assign", "target_object._position",
     (PName "ppath"));
  ("apply_rotation", "return", "",
     (PName "target_object"));
  ("move", "def", "self, displacement, start='auto'",
     PNone);
  ("move", "for", "child",
     (PCall (PName "getattr") [(PName "self"); (PStr "children"); (PList [])] []));
  ("move", "expr", "",
     (PCall (PAttr (PName "child") "move") [(PName "displacement")] [("start", (PName "start"))]));
  ("move", "end", "for",
     PNone);
  ("move", "expr", "",
     (PCall (PName "apply_move") [(PName "self"); (PName "displacement")] [("start", (PName "start"))]));
  ("move", "return", "",
     (PName "self"));
  ("_rotate", "def", "self, rotation: R, anchor=None, start='auto', parent_path=None",
     PNone);
  ("_rotate", "for", "child",
     (PCall (PName "getattr") [(PName "self"); (PStr "children"); (PList [])] []));
  ("_rotate", "assign", "ppth",
     (PIfExp (PCmp "is" (PName "parent_path") PNone) (PAttr (PName "self") "_position") (PName "parent_path")));
  ("_rotate", "expr", "",
     (PCall (PAttr (PName "child") "_rotate") [(PName "rotation")] [("anchor", (PName "anchor")); ("start", (PName "start")); ("parent_path", (PName "ppth"))]));
  ("_rotate", "end", "for",
     PNone);
  ("_rotate", "expr", "",
     (PCall (PName "apply_rotation") [(PName "self"); (PName "rotation")] [("anchor", (PName "anchor")); ("start", (PName "start")); ("parent_path", (PName "parent_path"))]));
  ("_rotate", "return", "",
     (PName "self"));
  ("rotate", "def", "self, rotation: R, anchor=None, start='auto'",
     PNone);
  ("rotate", "return", "",
     (PCall (PAttr (PName "self") "_rotate") [] [("rotation", (PName "rotation")); ("anchor", (PName "anchor")); ("start", (PName "start"))]));
  ("rotate_from_angax", "def", "self, angle, axis, anchor=None, start='auto', degrees=True",
     PNone);
  ("rotate_from_angax", "assign", "angle",
     (PCall (PName "check_format_input_angle") [(PName "angle")] []));
  ("rotate_from_angax", "assign", "axis",
     (PCall (PName "check_format_input_axis") [(PName "axis")] []));
  ("rotate_from_angax", "expr", "",
     (PCall (PName "check_start_type") [(PName "start")] []));
  ("rotate_from_angax", "expr", "",
     (PCall (PName "check_degree_type") [(PName "degrees")] []));
  ("rotate_from_angax", "if", "",
     (PName "degrees"));
  ("rotate_from_angax", "assign", "angle",
     (PBin "*" (PBin "/" (PName "angle") (PInt 180)) (PAttr (PName "np") "pi")));
  ("rotate_from_angax", "end", "if",
     PNone);
  ("rotate_from_angax", "if", "",
     (PCall (PName "isinstance") [(PName "angle"); (PAttr (PName "numbers") "Number")] []));
  ("rotate_from_angax", "assign", "angle",
     (PBin "*" (PCall (PAttr (PName "np") "ones") [(PInt 3)] []) (PName "angle")));
  ("rotate_from_angax", "else", "",
     PNone);
  ("rotate_from_angax", "assign", "angle",
     (PAttr (PCall (PAttr (PName "np") "tile") [(PName "angle"); (PTuple [(PInt 3); (PInt 1)])] []) "T"));
  ("rotate_from_angax", "end", "if",
     PNone);
  ("rotate_from_angax", "assign", "axis",
     (PBin "*" (PBin "/" (PName "axis") (PCall (PAttr (PAttr (PName "np") "linalg") "norm") [(PName "axis")] [])) (PName "angle")));
  ("rotate_from_angax", "assign", "rot",
     (PCall (PAttr (PName "R") "from_rotvec") [(PName "axis")] []));
  ("rotate_from_angax", "return", "",
     (PCall (PAttr (PName "self") "rotate") [(PName "rot"); (PName "anchor"); (PName "start")] []));
  ("rotate_from_rotvec", "def", "self, rotvec, anchor=None, start='auto', degrees=True",
     PNone);
  ("rotate_from_rotvec", "assign", "rot",
     (PCall (PAttr (PName "R") "from_rotvec") [(PName "rotvec")] [("degrees", (PName "degrees"))]));
  ("rotate_from_rotvec", "return", "",
     (PCall (PAttr (PName "self") "rotate") [(PName "rot")] [("anchor", (PName "anchor")); ("start", (PName "start"))]));
  ("rotate_from_euler", "def", "self, angle, seq, anchor=None, start='auto', degrees=True",
     PNone);
  ("rotate_from_euler", "assign", "rot",
     (PCall (PAttr (PName "R") "from_euler") [(PName "seq"); (PName "angle")] [("degrees", (PName "degrees"))]));
  ("rotate_from_euler", "return", "",
     (PCall (PAttr (PName "self") "rotate") [(PName "rot")] [("anchor", (PName "anchor")); ("start", (PName "start"))]));
  ("rotate_from_matrix", "def", "self, matrix, anchor=None, start='auto'",
     PNone);
  ("rotate_from_matrix", "assign", "rot",
     (PCall (PAttr (PName "R") "from_matrix") [(PName "matrix")] []));
  ("rotate_from_matrix", "return", "",
     (PCall (PAttr (PName "self") "rotate") [(PName "rot")] [("anchor", (PName "anchor")); ("start", (PName "start"))]));
  ("rotate_from_mrp", "def", "self, mrp, anchor=None, start='auto'",
     PNone);
  ("rotate_from_mrp", "assign", "rot",
     (PCall (PAttr (PName "R") "from_mrp") [(PName "mrp")] []));
  ("rotate_from_mrp", "return", "",
     (PCall (PAttr (PName "self") "rotate") [(PName "rot")] [("anchor", (PName "anchor")); ("start", (PName "start"))]));
  ("rotate_from_quat", "def", "self, quat, anchor=None, start='auto'",
     PNone);
  ("rotate_from_quat", "assign", "rot",
     (PCall (PAttr (PName "R") "from_quat") [(PName "quat")] []));
  ("rotate_from_quat", "return", "",
     (PCall (PAttr (PName "self") "rotate") [(PName "rot")] [("anchor", (PName "anchor")); ("start", (PName "start"))]));
  ("_init_position_orientation", "def", "self, position, orientation",
     PNone);
  ("_init_position_orientation", "assign", "pos",
     (PCall (PName "check_format_input_vector") [(PName "position")] [("dims", (PTuple [(PInt 1); (PInt 2)])); ("shape_m1", (PInt 3)); ("sig_name", (PStr "position")); ("sig_type", (PStr "array_like (list, tuple, ndarray) with shape (3,) or (n,3)")); ("reshape", (PTuple [(PInt (-1)); (PInt 3)]))]));
  ("_init_position_orientation", "assign", "oriQ",
     (PCall (PName "check_format_input_orientation") [(PName "orientation")] [("init_format", PTrue)]));
  ("_init_position_orientation", "assign", "len_pos",
     (PSub (PAttr (PName "pos") "shape") (PInt 0)));
  ("_init_position_orientation", "assign", "len_ori",
     (PSub (PAttr (PName "oriQ") "shape") (PInt 0)));
  ("_init_position_orientation", "if", "",
     (PCmp ">" (PName "len_pos") (PName "len_ori")));
  ("_init_position_orientation", "assign", "oriQ",
     (PCall (PAttr (PName "np") "pad") [(PName "oriQ"); (PTuple [(PTuple [(PInt 0); (PBin "-" (PName "len_pos") (PName "len_ori"))]); (PTuple [(PInt 0); (PInt 0)])]); (PStr "edge")] []));
  ("_init_position_orientation", "else", "",
     PNone);
  ("_init_position_orientation", "if", "",
     (PCmp "<" (PName "len_pos") (PName "len_ori")));
  ("_init_position_orientation", "assign", "pos",
     (PCall (PAttr (PName "np") "pad") [(PName "pos"); (PTuple [(PTuple [(PInt 0); (PBin "-" (PName "len_ori") (PName "len_pos"))]); (PTuple [(PInt 0); (PInt 0)])]); (PStr "edge")] []));
  ("_init_position_orientation", "end", "if",
     PNone);
  ("_init_position_orientation", "end", "if",
     PNone);
  ("_init_position_orientation", "assign", "self._position",
     (PName "pos"));
  ("_init_position_orientation", "assign", "self._orientation",
     (PCall (PAttr (PName "R") "from_quat") [(PName "oriQ")] []));
  ("position.setter", "def", "self, inp",
     PNone);
  ("position.setter", "assign", "old_pos",
     (PAttr (PName "self") "_position"));
  ("position.setter", "assign", "self._position",
     (PCall (PName "check_format_input_vector") [(PName "inp")] [("dims", (PTuple [(PInt 1); (PInt 2)])); ("shape_m1", (PInt 3)); ("sig_name", (PStr "position")); ("sig_type", (PStr "array_like (list, tuple, ndarray) with shape (3,) or (n,3)")); ("reshape", (PTuple [(PInt (-1)); (PInt 3)]))]));
  ("position.setter", "assign", "oriQ",
     (PCall (PAttr (PAttr (PName "self") "_orientation") "as_quat") [] []));
  ("position.setter", "assign", "self._orientation",
     (PCall (PAttr (PName "R") "from_quat") [(PCall (PName "pad_slice_path") [(PAttr (PName "self") "_position"); (PName "oriQ")] [])] []));
  ("position.setter", "for", "child",
     (PCall (PName "getattr") [(PName "self"); (PStr "children"); (PList [])] []));
  ("position.setter", "assign", "old_pos",
     (PCall (PName "pad_slice_path") [(PAttr (PName "self") "_position"); (PName "old_pos")] []));
  ("position.setter", "assign", "child_pos",
     (PCall (PName "pad_slice_path") [(PAttr (PName "self") "_position"); (PAttr (PName "child") "_position")] []));
  ("position.setter", "assign", "rel_child_pos",
     (PBin "-" (PName "child_pos") (PName "old_pos")));
  ("position.setter", "assign", "child.position",
     (PBin "+" (PAttr (PName "self") "_position") (PName "rel_child_pos")));
  ("position.setter", "end", "for",
     PNone);
  ("orientation.setter", "def", "self, inp",
     PNone);
  ("orientation.setter", "assign", "old_oriQ",
     (PCall (PAttr (PAttr (PName "self") "_orientation") "as_quat") [] []));
  ("orientation.setter", "assign", "oriQ",
     (PCall (PName "check_format_input_orientation") [(PName "inp")] [("init_format", PTrue)]));
  ("orientation.setter", "assign", "self._orientation",
     (PCall (PAttr (PName "R") "from_quat") [(PName "oriQ")] []));
  ("orientation.setter", "assign", "self._position",
     (PCall (PName "pad_slice_path") [(PName "oriQ"); (PAttr (PName "self") "_position")] []));
  ("orientation.setter", "for", "child",
     (PCall (PName "getattr") [(PName "self"); (PStr "children"); (PList [])] []));
  ("orientation.setter", "assign", "child.position",
     (PCall (PName "pad_slice_path") [(PAttr (PName "self") "_position"); (PAttr (PName "child") "_position")] []));
  ("orientation.setter", "assign", "old_ori_pad",
     (PCall (PAttr (PName "R") "from_quat") [(PCall (PAttr (PName "np") "squeeze") [(PCall (PName "pad_slice_path") [(PName "oriQ"); (PName "old_oriQ")] [])] [])] []));
  ("orientation.setter", "expr", "",
     (PCall (PAttr (PName "child") "rotate") [(PBin "*" (PAttr (PName "self") "orientation") (PCall (PAttr (PName "old_ori_pad") "inv") [] []))] [("anchor", (PAttr (PName "self") "_position")); ("start", (PInt 0))]));
  ("orientation.setter", "end", "for",
     PNone);
  ("reset_path", "def", "self",
     PNone);
  ("reset_path", "assign", "self.position",
     (PTuple [(PInt 0); (PInt 0); (PInt 0)]));
  ("reset_path", "assign", "self.orientation",
     PNone);
  ("reset_path", "return", "",
     (PName "self"))].

Definition expected_front_ends : list (string * string * list (string * string) * list (string * string)) := [
  ("rotate_from_angax", "from_rotvec", [("", "axis")], [("", "rot"); ("", "anchor"); ("", "start")]);
  ("rotate_from_rotvec", "from_rotvec", [("", "rotvec"); ("degrees", "degrees")], [("", "rot"); ("anchor", "anchor"); ("start", "start")]);
  ("rotate_from_euler", "from_euler", [("", "seq"); ("", "angle"); ("degrees", "degrees")], [("", "rot"); ("anchor", "anchor"); ("start", "start")]);
  ("rotate_from_matrix", "from_matrix", [("", "matrix")], [("", "rot"); ("anchor", "anchor"); ("start", "start")]);
  ("rotate_from_mrp", "from_mrp", [("", "mrp")], [("", "rot"); ("anchor", "anchor"); ("start", "start")]);
  ("rotate_from_quat", "from_quat", [("", "quat")], [("", "rot"); ("anchor", "anchor"); ("start", "start")])].

