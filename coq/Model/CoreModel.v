(* C01 -- per-row scalar models of magpylib's closed-form field cores (definitions only).

   Each definition mirrors the expression tree of the Python function named above it, one
   observer row at a time (the numpy code is vectorised over rows; every row is computed
   independently, masks select rows).  Written over the abstract numeric signature
   [Num] (CoreNum.v).  Deviations from the literal numpy expression, all within a few ulp:
     * [x**3], [x**5]  (np.power)     are modelled as repeated products;
     * [x**(3/2)]      (np.power)     is modelled as [x * sqrt x];
     * [np.linalg.norm(v, axis=1)]    is modelled as [sqrt ((v0*v0 + v1*v1) + v2*v2)];
     * NaN handling (np.isnan masks of the polyline wrapper, nan_to_num) is not modelled.
   mu0 is a parameter of every model (the value is checked by C02). *)
From Coq Require Import ZArith Bool.
From MV Require Import Model.CoreNum.

Section Core.
Variable N : Num.
Notation T := (carrier N).

Declare Scope num_scope.
Delimit Scope num_scope with num.
Local Open Scope num_scope.
Infix "+" := (nadd N) : num_scope.
Infix "-" := (nsub N) : num_scope.
Infix "*" := (nmul N) : num_scope.
Infix "/" := (ndiv N) : num_scope.
Notation "- x" := (nopp N x) : num_scope.
Infix "<?" := (nltb N) : num_scope.
Infix "=?" := (neqb N) : num_scope.

Definition c0 : T := nofZ N 0.
Definition c1 : T := nofZ N 1.
Definition c2 : T := nofZ N 2.
Definition c3 : T := nofZ N 3.
Definition c4 : T := nofZ N 4.
Definition cpi : T := npi N.
Definition e15 : T := c1 / nofZ N 1000000000000000.      (* the literal 1e-15 *)
Definition half : T := c1 / c2.                           (* the literal 0.5 *)

Definition V3 : Type := (T * T * T)%type.
Definition zero3 : V3 := (c0, c0, c0).

Definition sq (x : T) : T := x * x.
Definition pow3 (x : T) : T := x * x * x.
Definition pow5 (x : T) : T := x * x * x * x * x.
Definition pow32 (x : T) : T := x * nsqrt N x.
Definition vsub (a b : V3) : V3 :=
  let '(a0, a1, a2) := a in let '(b0, b1, b2) := b in (a0 - b0, a1 - b1, a2 - b2).
Definition vadd (a b : V3) : V3 :=
  let '(a0, a1, a2) := a in let '(b0, b1, b2) := b in (a0 + b0, a1 + b1, a2 + b2).
Definition vscale (t : T) (a : V3) : V3 := let '(a0, a1, a2) := a in (t * a0, t * a1, t * a2).
Definition vdivs (a : V3) (t : T) : V3 := let '(a0, a1, a2) := a in (a0 / t, a1 / t, a2 / t).
Definition vmuls (a : V3) (t : T) : V3 := let '(a0, a1, a2) := a in (a0 * t, a1 * t, a2 * t).
Definition vdot (a b : V3) : T :=      (* np.sum(a*b, axis=1) *)
  let '(a0, a1, a2) := a in let '(b0, b1, b2) := b in a0 * b0 + a1 * b1 + a2 * b2.
Definition vnorm (a : V3) : T :=       (* numpy.linalg.norm(a, axis=1) *)
  let '(a0, a1, a2) := a in nsqrt N (a0 * a0 + a1 * a1 + a2 * a2).
Definition vcross (a b : V3) : V3 :=   (* np.cross *)
  let '(a0, a1, a2) := a in let '(b0, b1, b2) := b in
  (a1 * b2 - a2 * b1, a2 * b0 - a0 * b2, a0 * b1 - a1 * b0).
Definition veqb (a b : V3) : bool :=
  let '(a0, a1, a2) := a in let '(b0, b1, b2) := b in (a0 =? b0) && (a1 =? b1) && (a2 =? b2).

Inductive field := FB | FH.

(* ------------------------------------------------------------------ field_BH_dipole.py
   dipole_Hfield: H = ((3*sum(m*o)*o.T/r**5 - m.T/r**3).T/4/pi); rows with r == 0 are
   overwritten by m/0.0 followed by nan_to_num (0/0 -> 0, x/0 -> +-inf). *)
Definition dipole_inf (m : T) : T := if m =? c0 then c0 else m / c0.

Definition dipole_H (o m : V3) : V3 :=
  let '(x, y, z) := o in
  let '(mx, my, mz) := m in
  let r := nsqrt N (sq x + sq y + sq z) in
  let md := vdot m o in
  let comp (oi mi : T) := (c3 * md * oi / pow5 r - mi / pow3 r) / c4 / cpi in
  if r =? c0 then (dipole_inf mx, dipole_inf my, dipole_inf mz)
  else (comp x mx, comp y my, comp z mz).

(* BHJM_dipole for field in {B,H} *)
Definition dipole_BH (f : field) (mu0 : T) (o m : V3) : V3 :=
  match f with FH => dipole_H o m | FB => vmuls (dipole_H o m) mu0 end.

(* ------------------------------------------------------------------ field_BH_sphere.py
   BHJM_magnet_sphere for field in {B,H}; out = r > r_sphere *)
Definition sphere_out (o : V3) (d : T) : bool :=
  let '(x, y, z) := o in
  let r := nsqrt N (sq x + sq y + sq z) in
  (nabs N d / c2) <? r.

Definition sphere_BH (f : field) (mu0 : T) (o : V3) (d : T) (P : V3) : V3 :=
  let '(x, y, z) := o in
  let '(px, py, pz) := P in
  let r := nsqrt N (sq x + sq y + sq z) in
  let rs := nabs N d / c2 in
  let out := rs <? r in
  let pd := vdot P o in
  let outc (oi pi_ : T) := (c3 * pd * oi - pi_ * sq r) / pow5 r * pow3 rs / c3 in
  let inc (pi_ : T) := pi_ * (c2 / c3) in
  let b (oi pi_ : T) := if out then outc oi pi_ else inc pi_ in
  match f with
  | FB => (b x px, b y py, b z pz)
  | FH => let h (oi pi_ : T) := (if out then outc oi pi_ else inc pi_ - pi_) / mu0 in
          (h x px, h y py, h z pz)
  end.

(* ------------------------------------------------------------------ field_BH_polyline.py
   current_polyline_Hfield (one segment, one observer) behind the zero-length mask of
   BHJM_current_polyline.  Returns the branch taken as well:
     0 zero-length segment, 1 on-line mask (norm_o4 < 1e-15), 2 foot beyond p1 side with
     |.|>1 (mask2), 3 mask3, 4 mask4 (foot between the end points).
   As of /repo ed8562c the two foot-beyond-an-end cases use the cancellation-free deltaSin_beyond. *)
(* the part of current_polyline_Hfield after `make dimensionless`: qo, q1, q2 are the observer and
   the end points divided by the segment length n12 *)
Definition polyline_norm (qo q1 q2 : V3) (n12 cur : T) : (nat * V3) :=
  let t := vdot (vsub qo q1) (vsub q1 q2) in
  let q4 := vadd q1 (vscale t (vsub q1 q2)) in
  let no4 := vnorm (vsub qo q4) in
  if no4 <? e15 then (1%nat, zero3) else
  let cros := vcross (vsub q2 q1) (vsub qo q4) in
  let nc := vnorm cros in
  let eB := vdivs cros nc in
  let no1 := vnorm (vsub qo q1) in
  let no2 := vnorm (vsub qo q2) in
  let n41 := vnorm (vsub q4 q1) in
  let n42 := vnorm (vsub q4 q2) in
  let s1 := n41 / no1 in
  let s2 := n42 / no2 in
  let m2 := (c1 <? n41) && (n42 <? n41) in
  let m3 := (c1 <? n42) && (n41 <? n42) in
  let br := if m2 then 2%nat else if m3 then 3%nat else 4%nat in
  (* deltaSin_beyond = norm_o4**2 * (norm_41 + norm_42) / (norm_o1 * norm_o2 * (norm_41 * norm_o2 + norm_42 * norm_o1)) *)
  let dSb := sq no4 * (n41 + n42) / (no1 * no2 * (n41 * no2 + n42 * no1)) in
  let dS := if m2 then dSb else if m3 then dSb else nabs N (s1 + s2) in
  let comp (e : T) := dS / no4 * e / n12 * cur / (c4 * cpi) in
  let '(e0, e1, e2) := eB in
  (br, (comp e0, comp e1, comp e2)).

Definition polyline_H_br (o p1 p2 : V3) (cur : T) : (nat * V3) :=
  if veqb p1 p2 then (0%nat, zero3) else
  let n12 := vnorm (vsub p1 p2) in
  polyline_norm (vdivs o n12) (vdivs p1 n12) (vdivs p2 n12) n12 cur.

Definition polyline_H (o p1 p2 : V3) (cur : T) : V3 := snd (polyline_H_br o p1 p2 cur).

Definition polyline_BH (f : field) (mu0 : T) (o p1 p2 : V3) (cur : T) : V3 :=
  match f with FH => polyline_H o p1 p2 cur | FB => vmuls (polyline_H o p1 p2 cur) mu0 end.

(* ------------------------------------------------------------------ field_BH_circle.py
   BHJM_circle: mask logic and the on-axis branch.  The general branch (mask5: Bulirsch cel
   through current_circle_Hfield) is NOT modelled: [CGeneral] only names it.
   On the modelled branches Hr = Hphi = 0, so cyl_field_to_cart gives Hx = Hy = 0. *)
Inductive circle_branch := CZero | COnAxis | CGeneral.

Definition circle_branch_of (o : V3) (d : T) : circle_branch :=
  let '(x, y, z) := o in
  let r := nsqrt N (sq x + sq y) in
  let r0 := nabs N (d / c2) in
  let m1 := r0 =? c0 in
  let m2 := (nabs N (r - r0) <? e15 * r0) && (nabs N z <? e15 * r0) in
  let m3 := r =? c0 in
  if m3 && negb m1 then COnAxis
  else if m1 || m2 || m3 then CZero
  else CGeneral.

Definition circle_axis_Hz (z d cur : T) : T :=
  let r0 := nabs N (d / c2) in
  sq r0 / pow32 (sq z + sq r0) * cur * half.

(* value on the modelled branches; None on the general branch *)
Definition circle_H (o : V3) (d cur : T) : option V3 :=
  let '(x, y, z) := o in
  match circle_branch_of o d with
  | CZero => Some zero3
  | COnAxis => Some (c0, c0, circle_axis_Hz z d cur)
  | CGeneral => None
  end.

Definition circle_BH (f : field) (mu0 : T) (o : V3) (d cur : T) : option V3 :=
  match f, circle_H o d cur with
  | _, None => None
  | FH, Some h => Some h
  | FB, Some h => Some (vmuls h mu0)
  end.

End Core.
