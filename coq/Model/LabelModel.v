(* LabelModel -- executable model of magpylib/_src/utility.py add_iteration_suffix on ASCII strings
   (C18: the automatically iterated label of a copy).  DEFINITIONS ONLY.

       m = re.search(r"\d+$", name)                      <- maximal run of trailing digits
       n = "00"; endstr = None
       midchar = "_" if name[-1:] != "_" else ""
       if m is not None: midchar = ""; n = m.group(); endstr = -len(n)
       name = f"{name[:endstr]}{midchar}{int(n)+1:0{len(n)}}"

   Domain: ASCII strings (Python's \d also matches non-ASCII decimal digits; not modelled). *)
From Coq Require Import List Ascii String Arith PeanoNat Decimal DecimalNat.
Import ListNotations.

Definition chars := list ascii.

Definition is_digit (c : ascii) : bool :=
  let n := nat_of_ascii c in (48 <=? n) && (n <=? 57).

(* on the REVERSED string: the leading run of digits and the rest *)
Fixpoint take_digits (r : chars) : chars * chars :=
  match r with
  | [] => ([], [])
  | c :: t => if is_digit c then let '(d, rest) := take_digits t in (c :: d, rest) else ([], r)
  end.

Definition digit_of (c : ascii) (u : uint) : uint :=
  match nat_of_ascii c - 48 with
  | 0 => D0 u | 1 => D1 u | 2 => D2 u | 3 => D3 u | 4 => D4 u
  | 5 => D5 u | 6 => D6 u | 7 => D7 u | 8 => D8 u | _ => D9 u
  end.

Fixpoint chars_uint (d : chars) : uint :=        (* most significant digit first *)
  match d with [] => Nil | c :: t => digit_of c (chars_uint t) end.

Fixpoint uint_chars (u : uint) : chars :=
  match u with
  | Nil => []
  | D0 t => "0"%char :: uint_chars t | D1 t => "1"%char :: uint_chars t
  | D2 t => "2"%char :: uint_chars t | D3 t => "3"%char :: uint_chars t
  | D4 t => "4"%char :: uint_chars t | D5 t => "5"%char :: uint_chars t
  | D6 t => "6"%char :: uint_chars t | D7 t => "7"%char :: uint_chars t
  | D8 t => "8"%char :: uint_chars t | D9 t => "9"%char :: uint_chars t
  end.

Definition value (d : chars) : nat := Nat.of_uint (chars_uint d).          (* int(n) *)
Definition render (n : nat) : chars := uint_chars (Nat.to_uint n).        (* str(n) *)
Definition pad (w : nat) (d : chars) : chars := repeat "0"%char (w - List.length d) ++ d.   (* :0{w} *)

Definition iter_chars (s : chars) : chars :=
  let r := List.rev s in
  let '(drev, restrev) := take_digits r in
  match drev with
  | [] => s ++ (match r with "_"%char :: _ => [] | _ => ["_"%char] end) ++ ["0"%char; "1"%char]
  | _ => let d := List.rev drev in List.rev restrev ++ pad (List.length d) (render (S (value d)))
  end.

Definition iter_str (s : string) : string := string_of_list_ascii (iter_chars (list_ascii_of_string s)).

(* the number a label ends with (0 when it ends with no digit) *)
Definition num (s : chars) : nat := value (List.rev (fst (take_digits (List.rev s)))).

(* correspondence: pairs (label, what the implementation produced) *)
Fixpoint label_failing (i : nat) (cs : list (string * string)) : list nat :=
  match cs with
  | [] => []
  | (a, b) :: r => if String.eqb (iter_str a) b then label_failing (S i) r
                   else i :: label_failing (S i) r
  end.
