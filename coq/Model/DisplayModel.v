(* C19 -- model of the display pipeline (definitions only).

   traces_utility.get_rot_pos_from_path   -> frame_inds / get_rot_pos_from_path
   traces_utility.place_and_orient_model3d -> place   (per vertex, in a rigid-motion algebra with scaling)
   traces_generic.get_generic_traces3D + get_frames/rescale_traces -> drawn_vertex, object_frames
   traces_generic.make_path               -> path_trace
   utility.style_temp_edit + traces_generic.get_traces_3D -> style_temp_edit, show_loop (try/finally)

   numpy primitives are given list meanings (modelled, not verified): np.arange(n)[::s], np.unique,
   boolean-mask assignment inds[inds >= n] = n-1, fancy indexing a[inds] with negative indices. *)
From Coq Require Import ZArith List Bool.
From MV Require Import Lib.ListZ Lib.Rigid.
Import ListNotations.
Open Scope Z_scope.

(* ------------------------------------------------------------------ frame selection *)
(* style.path.frames / show_path: None | bool | int | iterable of ints *)
Inductive selector := SelNone | SelBool (b : bool) | SelInt (k : Z) | SelList (l : list Z).

Definition ceil_div (a b : Z) : Z := (a + b - 1) / b.

(* np.arange(n)[::step] for step <> 0 *)
Definition arange_step (n step : Z) : list Z :=
  if step >? 0 then tabulate (ceil_div n step) (fun j => j * step)
  else tabulate (ceil_div n (- step)) (fun j => n - 1 + j * step).

(* np.unique: sorted, without duplicates *)
Fixpoint uins (x : Z) (l : list Z) : list Z :=
  match l with
  | [] => [x]
  | y :: r => if x <? y then x :: l else if x =? y then l else y :: uins x r
  end.
Definition np_unique (l : list Z) : list Z := fold_right uins [] l.

(* the if/elif chain that builds `inds` *)
Definition raw_inds (n : Z) (s : selector) : list Z :=
  match s with
  | SelNone => [-1]                       (* show_path None -> True *)
  | SelBool _ => [-1]                     (* is True or is False *)
  | SelInt k => if k =? 0 then [-1]       (* show_path == 0 *)
                else arange_step n (- k)  (* np.arange(path_len)[::-show_path] *)
  | SelList l => l                        (* np.array(show_path) *)
  end.

(* inds[inds >= path_len] = path_len - 1 *)
Definition clamp_top (n : Z) (l : list Z) : list Z :=
  map (fun i => if i >=? n then n - 1 else i) l.

Definition frame_inds (n : Z) (s : selector) : list Z :=
  match np_unique (clamp_top n (raw_inds n s)) with
  | [] => [n - 1]                         (* inds.size == 0 *)
  | u => u
  end.

(* numpy index i into an axis of length n: None = IndexError *)
Definition np_index (n i : Z) : option Z :=
  if (i <? - n) || (i >=? n) then None else Some (if i <? 0 then n + i else i).

Fixpoint all_some {A : Type} (l : list (option A)) : option (list A) :=
  match l with
  | [] => Some []
  | None :: _ => None
  | Some x :: r => match all_some r with Some r' => Some (x :: r') | None => None end
  end.

(* a[inds] *)
Definition np_take {A : Type} (d : A) (a : list A) (inds : list Z) : option (list A) :=
  all_some (map (fun i => option_map (nthZ d a) (np_index (zlen a) i)) inds).

(* effective (non-negative) path indices that are displayed *)
Definition effective_inds (n : Z) (s : selector) : option (list Z) :=
  all_some (map (np_index n) (frame_inds n s)).

(* ------------------------------------------------------------------ placement *)
(* scalars acting on V: scale of a model3d trace, length factor of the axes *)
Class ScaleOps (O : RigidOps) := {
  Sc : Type; sone : Sc; smulS : Sc -> Sc -> Sc; sis_one : Sc -> bool;
  smul : Sc -> V -> V
}.

Class ScaleLaws (O : RigidOps) (SO : ScaleOps O) := {
  smul_one : forall v : V, smul sone v = v;
  smul_mul : forall (a b : Sc) (v : V), smul (smulS a b) v = smul a (smul b v);
  smul_add : forall (a : Sc) (v w : V), smul a (vadd v w) = vadd (smul a v) (smul a w);
  act_smul : forall (g : G) (a : Sc) (v : V), act g (smul a v) = smul a (act g v);
  sis_one_eq : forall a : Sc, sis_one a = true -> a = sone
}.

Section Display.
Context {O : RigidOps} {SO : ScaleOps O}.

Definition pose := (V * G)%type.

Definition get_rot_pos_from_path (path : list pose) (s : selector)
  : option (list G * list V * list Z) :=
  let n := zlen path in
  let inds := frame_inds n s in
  match np_take gone (map snd path) inds, np_take vzero (map fst path) inds with
  | Some rots, Some poss => Some (rots, poss, inds)
  | _, _ => None
  end.

(* place_and_orient_model3d on one vertex.
     if orientation is None and position is None and length_factor == 1:  trace unchanged
     else: vertices = orientation.apply(vertices) (if given)
           new = (vertices * scale + position) * length_factor          *)
Definition place (orientation : option G) (position : option V) (scale lf : Sc) (v : V) : V :=
  match orientation, position, sis_one lf with
  | None, None, true => v
  | _, _, _ =>
      let p := match position with None => vzero | Some p => p end in
      let v1 := match orientation with None => v | Some R => act R v end in
      smul lf (vadd (smul scale v1) p)
  end.

(* one vertex of a generic trace through get_generic_traces3D and get_frames:
     tr1 = place_and_orient_model3d(tr, orientation=orient, position=pos)
     tr.update(place_and_orient_model3d(tr))                              (no-op call)
     rescale_traces: place_and_orient_model3d(tr, length_factor=f)       *)
Definition drawn_vertex (R : G) (p : V) (f : Sc) (v : V) : V :=
  place None None sone f (place None None sone sone (place (Some R) (Some p) sone sone v)).

(* the copies of an object's local model, one per displayed path index *)
Definition object_frames (path : list pose) (s : selector) (f : Sc) (local : list V)
  : option (list (list V)) :=
  match get_rot_pos_from_path path s with
  | None => None
  | Some (rots, poss, _) =>
      Some (map (fun Rp : G * V => map (drawn_vertex (fst Rp) (snd Rp) f) local) (combine rots poss))
  end.

(* make_path: x, y, z = np.array(obj.position).T ; then the same two later calls *)
Definition path_trace (path : list pose) (f : Sc) : list V :=
  map (fun pq : pose => place None None sone f (place None None sone sone (fst pq))) path.

(* get_generic_traces3D: the path trace exists iff np.array(obj.position).ndim > 1, i.e. the path has more than
   one position (obj.position is squeezed) -- style.path.show left at its default True *)
Definition path_trace_shown (path : list pose) (f : Sc) : option (list V) :=
  if 1 <? zlen path then Some (path_trace path f) else None.

(* nested local placements used by the shape functions *)
Definition dipole_vertex (M R : G) (p : V) (f : Sc) (v : V) : V :=        (* make_Dipole: orientation=mag_orient *)
  drawn_vertex R p f (place (Some M) None sone sone v).
Definition pixel_vertex (q : V) (R : G) (p : V) (f : Sc) (v : V) : V :=   (* make_Pixels: position=pixel *)
  drawn_vertex R p f (place None (Some q) sone sone v).
Definition extra_vertex (sc : Sc) (R : G) (p : V) (f : Sc) (v : V) : V := (* process_extra_trace: scale=extr.scale *)
  place None None sone f (place (Some R) (Some p) sc sone v).

End Display.

(* ------------------------------------------------------------------ style_temp_edit / get_traces_3D *)
(* heap: every object has a slot `_style` holding a reference (or None); references point to style
   values.  `fresh` is the next unused reference (copy() allocates). *)
Section Style.
Variable Sty : Type.

Record heap := mkHeap { slot : Z -> option Z; cell : Z -> Sty; fresh : Z }.

Inductive outcome := Returned | Raised.

Definition set_slot (h : heap) (o : Z) (r : option Z) : heap :=
  mkHeap (fun o' => if o' =? o then r else slot h o') (cell h) (fresh h).

(* style_temp.copy(): a new cell with the same content *)
Definition alloc_copy (h : heap) (r : Z) : heap * Z :=
  (mkHeap (slot h) (fun r' => if r' =? fresh h then cell h r else cell h r') (fresh h + 1), fresh h).

(* @contextmanager style_temp_edit(obj, style_temp, copy):
     orig_style = getattr(obj, "_style", None)
     try:
         obj._style = style_temp
         if style_temp and copy: obj._style = style_temp.copy()
         yield                                   <- body, may raise
     finally:
         obj._style = orig_style                                          *)
(* the part before `yield` *)
Definition enter_style (o : Z) (style_temp : option Z) (copy : bool) (h : heap) : heap :=
  let h1 := set_slot h o style_temp in
  match style_temp with
  | Some r => if copy then set_slot (fst (alloc_copy h1 r)) o (Some (snd (alloc_copy h1 r))) else h1
  | None => h1
  end.

Definition style_temp_edit (o : Z) (style_temp : option Z) (copy : bool)
           (body : heap -> heap * outcome) (h : heap) : heap * outcome :=
  let orig := slot h o in
  let h2 := enter_style o style_temp copy h in
  (set_slot (fst (body h2)) o orig, snd (body h2)).

(* get_traces_3D: for obj, params in flat_objs_props.items(): with style_temp_edit(obj, style, copy=True): body
   -- an exception leaves the loop *)
Fixpoint show_loop (jobs : list (Z * option Z * (heap -> heap * outcome))) (h : heap) : heap * outcome :=
  match jobs with
  | [] => (h, Returned)
  | (o, st, body) :: rest =>
      match style_temp_edit o st true body h with
      | (h', Returned) => show_loop rest h'
      | (h', Raised) => (h', Raised)
      end
  end.

(* what the user can observe of an object's style *)
Definition style_of (h : heap) (o : Z) : option Sty := option_map (cell h) (slot h o).

End Style.

(* ------------------------------------------------------------------ declarative meaning of a frame selection
   (style.Path.frames docstring: "integer i: displays the object(s) at every i'th path position;
    array_like of ints: displays object(s) at given path indices"; default: the last position) *)

(* which selectors get_rot_pos_from_path can index with (numpy raises IndexError below -n) *)
Definition admissible (n : Z) (s : selector) : Prop :=
  match s with SelList l => Forall (fun i => - n <= i) l | _ => True end.

(* a given index i denotes: indices beyond the end mean the last one, negative ones count from the end *)
Definition eff_index (n i : Z) : Z := let c := Z.min i (n - 1) in if c <? 0 then n + c else c.

Definition displayed (n : Z) (s : selector) (e : Z) : Prop :=
  match s with
  | SelNone | SelBool _ => e = n - 1
  | SelInt k =>
      if k =? 0 then e = n - 1
      else if k >? 0 then 0 <= e < n /\ (n - 1 - e) mod k = 0     (* every k-th position, counted back from the last *)
      else 0 <= e < n /\ e mod (- k) = 0                          (* every |k|-th position, counted from the first *)
  | SelList [] => e = n - 1
  | SelList l => exists i, In i l /\ e = eff_index n i
  end.
