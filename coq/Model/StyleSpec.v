(* C20 -- the property's clauses as executable checks over the generated schema (definitions only).
   Every check is a boolean function of (style class / object class, leaf, values, notations, sources);
   the theorems of Proofs/StyleProofs.v say that they are true on the WHOLE schema of GenStyle.v. *)
From Coq Require Import ZArith List Bool String Ascii.
From MV Require Import Lib.STree Model.StyleModel Gen.GenStyle Model.StyleExec.
Import ListNotations.
Open Scope string_scope.
Open Scope list_scope.

(* ---------------------------------------------------------------- leaves of a schema *)
Fixpoint sleaves (s : schema) : list (path * vkind * bool) :=       (* path, kind, is-alias *)
  match s with
  | SLeaf k => [([], k, false)]
  | SAlias _ k _ => [([], k, true)]
  | SObj _ _ _ _ props =>
      (fix go (ps : list (string * schema)) : list (path * vkind * bool) :=
         match ps with
         | [] => []
         | (n, sp) :: r => map (fun x => (n :: fst (fst x), snd (fst x), snd x)) (sleaves sp) ++ go r
         end) props
  end.

(* an alias target is relative to the object that owns the alias: prefix it with the owner's path *)
Fixpoint alias_targets_abs (s : schema) : list path :=
  match s with
  | SObj _ _ _ _ props =>
      (fix go (ps : list (string * schema)) : list path :=
         match ps with
         | [] => []
         | (n, sp) :: r =>
             match sp with
             | SAlias tgt _ _ => tgt :: go r
             | _ => map (fun p => n :: p) (alias_targets_abs sp) ++ go r
             end
         end) props
  | _ => []
  end.

Fixpoint path_eqb (a b : path) : bool :=
  match a, b with
  | [], [] => true
  | x :: r1, y :: r2 => String.eqb x y && path_eqb r1 r2
  | _, _ => false
  end.

(* the leaf is written by an alias property somewhere above it *)
Definition shadowed (s : schema) (p : path) : bool := existsb (path_eqb p) (alias_targets_abs s).

(* ---------------------------------------------------------------- sample values per validator kind *)
(* valid values that the setter stores unchanged *)
Definition sample_vals (k : vkind) : list val :=
  match k with
  | KBool | KBoolStrict => [VBool true; VBool false]
  | KNumGe0 => [VInt 2; VFlt 1 2; VInt 0]
  | KNumGt0 | KNumGt0Strict => [VInt 2; VFlt 5 2]
  | KUnit => [VFlt 1 4; VInt 1; VInt 0]
  | KNum => [VInt (-1); VFlt 5 2]
  | KIntGt0 => [VInt 5; VInt 12]
  | KStr => [VStr "abc"; VStr "x y"]
  | KToStr => [VStr "lbl"; VStr "a_b"]
  | KEnum allowed => firstn 3 allowed
  | KColor => [VStr "red"; VStr "blue"; VStr "#ff0000"]
  | KColorSeq => [VTup [VStr "red"; VStr "blue"]; VTup [VStr "#ff0000"]]
  | KFrames => [VInt 5; VTup [VInt 0; VInt 1]]
  | KOutput => [VStr "a.mp4"; VStr "b.gif"]
  | KData | KOpaque => []
  end.

Definition bad_vals (k : vkind) : list val :=
  match k with
  | KBool | KBoolStrict => [VInt 1; VStr "yes"]
  | KNumGe0 => [VInt (-1); VStr "1"]
  | KNumGt0 | KNumGt0Strict => [VInt 0; VStr "x"]
  | KUnit => [VInt 2; VFlt (-1) 2]
  | KNum => [VStr "a"]
  | KIntGt0 => [VInt 0; VFlt 5 2]
  | KStr => [VInt 1; VBool true]
  | KEnum _ => [VStr "nope"; VInt 17]
  | KColor => [VStr "notacolor"; VInt 5]
  | KColorSeq => [VTup [VStr "red"; VStr "notacolor"]; VInt 5]
  | KFrames => [VStr "a"; VFlt 5 2]
  | KOutput => [VStr "c.avi"; VInt 5]
  | KToStr | KData | KOpaque => []
  end.

(* ---------------------------------------------------------------- the three notations *)
Inductive notation :=
| NAttr                   (* x.a.b.c = v *)
| NUnder (depth : nat)    (* x.<first depth segments>.update(rest_joined_by_underscores = v) *)
| NNested (depth : nat).  (* x.<first depth segments>.update({rest0: {rest1: ... v}}) *)

Definition set_leaf (s : schema) (st : tree) (p : path) (v : option val) (n : notation) : tree * option err :=
  match n with
  | NAttr => lift_res st (assign cenv s st p (Leaf v))
  | NUnder d => update_at s st (firstn d p) [(join_with "_" (skipn d p), Leaf v)]
  | NNested d => match skipn d p with
                 | [] => (st, Some EOther)
                 | k :: r => update_at s st (firstn d p) [(k, nest r (Leaf v))]
                 end
  end.

Definition notations (p : path) : list notation :=
  NAttr :: flat_map (fun d => [NUnder d; NNested d]) (seq 0 (List.length p)).

(* coarser list for the (large) defaults tree: update on the root and on the owning object *)
Definition notations_coarse (p : path) : list notation :=
  [NAttr; NUnder 0; NNested 0; NUnder (List.length p - 1); NNested (List.length p - 1)].

Definition fresh_state (s : schema) : tree := match fresh cenv s with inl t => t | inr _ => Leaf None end.

(* getattr along the path: an alias property reads its target *)
Fixpoint sread (s : schema) (st : tree) (p : path) : option tree :=
  match p with
  | [] => Some st
  | k :: r =>
      match s, st with
      | SObj _ _ _ _ props, Node sd =>
          match slookup k props with
          | Some (SAlias tgt _ _) => match r with [] => tget tgt st | _ => None end
          | Some sp => match dget k sd with Some t => sread sp t r | None => None end
          | None => None
          end
      | _, _ => None
      end
  end.

Definition leaf_is (s : schema) (st : tree) (p : path) (v : option val) : bool :=
  match sread s st p with Some (Leaf o) => oval_same o v | _ => false end.

Definition no_err (e : option err) : bool := match e with None => true | Some _ => false end.

(* ---------------------------------------------------------------- last assignment wins + notations equivalent *)
(* give the leaf v1 by notation n1, then v2 by notation n2: the style is exactly the style obtained by
   assigning v2 alone by attribute assignment (so: the leaf reads v2, every other leaf is untouched, and the
   result does not depend on the notations) *)
Definition lw_holds (s : schema) (p : path) (v1 v2 : val) (n1 n2 : notation) : bool :=
  let st0 := fresh_state s in
  let '(st1, e1) := set_leaf s st0 p (Some v1) n1 in
  let '(st2, e2) := set_leaf s st1 p (Some v2) n2 in
  let '(ref, e3) := set_leaf s st0 p (Some v2) NAttr in
  no_err e1 && no_err e2 && no_err e3 && leaf_is s st2 p (Some v2) && tree_same (as_dict s st2) (as_dict s ref).

(* ---------------------------------------------------------------- rejection *)
Definition rejects_value (s : schema) (p : path) (v : val) (n : notation) : bool :=
  negb (no_err (snd (set_leaf s (fresh_state s) p (Some v) n))).

Definition bogus (p : path) : path := removelast p ++ ["bogus"].
Definition rejects_name (s : schema) (p : path) (n : notation) : bool :=
  match snd (set_leaf s (fresh_state s) (bogus p) (Some (VBool true)) n) with Some EName => true | _ => false end.

(* ---------------------------------------------------------------- reset *)
Definition pristine : tree := fst defaults0.

Definition in_literal (p : path) : bool := match tget p DEFAULTS with Some (Leaf _) => true | _ => false end.

(* change one leaf of the settings (any notation), then reset() in the given form: the settings are pristine *)
Definition reset_holds_m (m : rmode) (p : path) (v : val) (n : notation) : bool :=
  let '(st1, e1) := set_leaf defaults_schema pristine p (Some v) n in
  let '(st2, e2) := reset cenv m defaults_schema st1 DEFAULTS in
  no_err e1 && no_err e2 && leaf_is defaults_schema st1 p (Some v) &&
  tree_same (as_dict defaults_schema st2) (as_dict defaults_schema pristine).

Definition reset_holds := reset_holds_m reset_mode.

(* every leaf of the hard-coded DEFAULTS is what the fresh settings hold (colours canonicalised) *)
Definition literal_holds (p : path) (k : vkind) : bool :=
  match tget p DEFAULTS with
  | Some (Leaf o) => match validate cenv k o with
                     | inl o' => leaf_is defaults_schema pristine p o'
                     | inr _ => false
                     end
  | _ => true
  end.

(* ---------------------------------------------------------------- precedence *)
Definition fam_schema (f : string) : option schema := slookup f (sprops dstyle_schema).

Definition has_leaf (s : schema) (p : path) : bool :=
  match sget p s with Some (SLeaf _) | Some (SAlias _ _ _) => true | _ => false end.

(* families of the class whose default style has this leaf, in get_families order *)
Definition leaf_families (cls : string) (p : path) : list string :=
  filter (fun f => match fam_schema f with Some fs => has_leaf fs p | None => false end) (class_families cls).

Definition set_default (d : tree) (f : string) (p : path) (v : option val) : tree :=
  fst (set_leaf defaults_schema d ("display" :: "style" :: f :: p) v NAttr).

Definition first_some (l : list (option val)) : option val :=
  fold_right (fun o acc => match o with Some _ => o | None => acc end) None l.

(* show keyword notation: style_a_b_c=v  or  style={a:{b:{c:v}}} *)
Definition show_kw (p : path) (v : val) (nested : bool) : dict :=
  if nested then [("style", nest p (Leaf (Some v)))]
  else [(String.append "style_" (join_with "_" p), Leaf (Some v))].

(* sources of a leaf value: show keyword, object, the object's own (most specific) family, its more generic
   families, the base defaults *)
Record sources := mkSrc { s_kw : bool; s_obj : bool; s_fam : bool; s_gen : bool; s_base : bool }.

Definition bools : list bool := [true; false].
Definition sources_with (g : bool) : list sources :=
  flat_map (fun a => flat_map (fun b => flat_map (fun c => map (fun d => mkSrc a b c g d) bools) bools) bools) bools.
Definition all_sources : list sources := sources_with false.
Definition gen_sources : list sources := sources_with true.

(* the families of the class that have the leaf, most generic first (GenStyle.family_spec: subclass order,
   NOT the order in which get_families happens to list them) *)
Definition spec_families (cls : string) (p : path) : list string :=
  filter (fun f => match fam_schema f with Some fs => has_leaf fs p | None => false end)
         (match alookup cls family_spec with Some l => l | None => [] end).

(* the leaf of an object of class cls, each source present or absent (absent = None at that level):
   resolved value = first non-None of
   (show keyword, object's own value, default of its own family, default of a more generic family, base default) *)
Definition prec_holds (cls : string) (p : path) (vk vo vf vg vb : val) (src : sources) (nested : bool) (n : notation)
  : bool :=
  let s := class_schema cls in
  let fams := spec_families cls p in
  let own := last fams "" in
  let has_gen := (2 <=? List.length fams)%nat in
  let in_base := match fam_schema "base" with Some bs => has_leaf bs p | None => false end in
  let d1 := fold_left (fun d f => set_default d f p (if String.eqb f own then (if s_fam src then Some vf else None)
                                                     else (if s_gen src then Some vg else None)))
                      fams pristine in
  let d2 := if in_base then set_default d1 "base" p (if s_base src then Some vb else None) else d1 in
  let st0 := fresh_state s in
  let '(st1, e1) := if s_obj src then set_leaf s st0 p (Some vo) n else (st0, None) in
  let kw := if s_kw src then show_kw p vk nested else [] in
  let '(res, e2) := get_style cenv s (class_families cls) dstyle_schema (def_style_state d2) valid_keys st1
                              (show_style_kwargs kw) in
  let expected := first_some [if s_kw src then Some vk else None;
                              if s_obj src then Some vo else None;   (* a new object has no own value *)
                              if s_fam src && negb (String.eqb own "") then Some vf else None;
                              if s_gen src && has_gen then Some vg else None;
                              if s_base src && in_base then Some vb else None] in
  no_err e1 && no_err e2 && leaf_is s res p expected.

(* leaves on which the clause is stated: settable to None (so that a source can be absent), with samples,
   and whose first segment is a style argument of show() *)
Definition prec_leaf (k : vkind) (p : path) : bool :=
  match k with
  | KBoolStrict | KNumGt0Strict | KData | KOpaque => false
  | _ => match p with k0 :: _ => smem k0 valid_keys | [] => false end
  end.

Definition public_classes : list string := map fst ctor_style ++ ["MagpyMarkers"].

(* ---------------------------------------------------------------- constructor forwarding *)
Definition ctor_forwards_style : bool := forallb (fun c => fst (snd c)) ctor_style.

(* ---------------------------------------------------------------- the schema-wide checks (all leaves, all classes) *)
Definition two (k : vkind) : list val := firstn 2 (sample_vals k).

Definition lw_all : bool :=
  forallb (fun cs =>
    forallb (fun l =>
      forallb (fun v1 => forallb (fun v2 => forallb (fun n1 => forallb (fun n2 =>
        lw_holds (snd cs) (fst (fst l)) v1 v2 n1 n2)
        (notations (fst (fst l)))) (notations (fst (fst l)))) (two (snd (fst l)))) (two (snd (fst l))))
      (sleaves (snd cs))) style_classes.

Definition reject_all : bool :=
  forallb (fun cs =>
    forallb (fun l =>
      forallb (fun n =>
        rejects_name (snd cs) (fst (fst l)) n &&
        forallb (fun v => rejects_value (snd cs) (fst (fst l)) v n) (bad_vals (snd (fst l))))
        (notations (fst (fst l))))
      (sleaves (snd cs))) style_classes.

Definition literal_all : bool :=
  forallb (fun l => literal_holds (fst (fst l)) (snd (fst l))) (sleaves defaults_schema).

(* EVERY leaf of the settings schema (in the DEFAULTS literal or not, written by an alias or not) *)
Definition reset_all : bool :=
  forallb (fun l =>
    forallb (fun v => forallb (fun n => reset_holds (fst (fst l)) v n) (notations_coarse (fst (fst l))))
            (two (snd (fst l))))
    (sleaves defaults_schema).

Definition sv (k : vkind) (i : nat) : val := nth (i mod List.length (sample_vals k)) (sample_vals k) (VInt 0).

Definition prec_variants : list (bool * notation) := [(false, NAttr); (true, NUnder 0)].

Definition prec_leaf_holds (cls : string) (l : path * vkind * bool) (src : sources) (nv : bool * notation) : bool :=
  prec_holds cls (fst (fst l)) (sv (snd (fst l)) 0) (sv (snd (fst l)) 1) (sv (snd (fst l)) 2)
             (sv (snd (fst l)) 3) (sv (snd (fst l)) 4) src (fst nv) (snd nv).

(* every public class, every clearable non-alias leaf that show() accepts (alias-written leaves included) and that a
   new object does not already hold (fresh_none; the exceptions are listed in ctor_default_exceptions):
   16 source combinations x 2 notations; where the leaf has a default in two families of the class
   (triangle / triangularmesh next to magnet) also the 16 combinations with the generic family set *)
(* ---------------------------------------------------------------- a new object has no own style values *)
(* constructor defaults of the style classes that are not None: (class, parameter) *)
Fixpoint ctor_defaults (s : schema) : list (string * string) :=
  match s with
  | SObj cn _ _ ct props =>
      map (fun kv => (cn, fst kv)) (filter (fun kv => match snd kv with Some _ => true | None => false end) ct)
      ++ (fix go (ps : list (string * schema)) : list (string * string) :=
            match ps with [] => [] | (_, sp) :: r => ctor_defaults sp ++ go r end) props
  | _ => []
  end.

(* the known exceptions (open finding precedence/ctor-default:Class.prop): these leaves of a NEW object already hold a
   value, so the family / base default never applies to them *)
Definition ctor_default_exceptions : list (string * string) :=
  [("Model3d", "showdefault"); ("Pixel", "size"); ("ArrowSingle", "show")].

Definition pair_mem (x : string * string) (l : list (string * string)) : bool :=
  existsb (fun y => String.eqb (fst x) (fst y) && String.eqb (snd x) (snd y)) l.

Definition ctor_defaults_ok : bool :=
  forallb (fun cs => forallb (fun x => pair_mem x ctor_default_exceptions) (ctor_defaults (snd cs))) style_classes.

(* (class, property) owning the leaf p *)
Definition leaf_owner (s : schema) (p : path) : string * string :=
  match sget (removelast p) s with
  | Some (SObj cn _ _ _ _) => (cn, last p "")
  | _ => ("", "")
  end.

Definition fresh_none (s : schema) (p : path) : bool := leaf_is s (fresh_state s) p None.

(* every leaf of a new style object is None, except the listed constructor defaults and the (empty) model3d data *)
Definition fresh_all : bool :=
  forallb (fun cs =>
    forallb (fun l =>
      fresh_none (snd cs) (fst (fst l)) || pair_mem (leaf_owner (snd cs) (fst (fst l))) ctor_default_exceptions ||
      match snd (fst l) with KData => true | _ => false end)
      (sleaves (snd cs))) style_classes.

Definition prec_all : bool :=
  forallb (fun cls =>
    forallb (fun l =>
      negb (prec_leaf (snd (fst l)) (fst (fst l))) || snd l || negb (fresh_none (class_schema cls) (fst (fst l))) ||
      (forallb (fun src => forallb (prec_leaf_holds cls l src) prec_variants) all_sources &&
       ((List.length (spec_families cls (fst (fst l))) <? 2)%nat ||
        forallb (fun src => prec_leaf_holds cls l src (false, NAttr)) gen_sources)))
      (sleaves (class_schema cls))) public_classes.

Fixpoint all_names (s : schema) : list string :=
  match s with
  | SObj _ _ _ _ props =>
      (fix go (ps : list (string * schema)) : list string :=
         match ps with [] => [] | (n, sp) :: r => n :: all_names sp ++ go r end) props
  | _ => []
  end.

Definition separator_free : bool :=
  forallb (fun cs => forallb (fun n => negb (has_char us n)) (all_names (snd cs)))
          (("defaults", defaults_schema) :: style_classes).

(* position of a leaf in sleaves (used to exhibit witnesses) *)
Fixpoint index_of (p : path) (l : list (path * vkind * bool)) : nat :=
  match l with
  | [] => 0
  | x :: r => if path_eqb p (fst (fst x)) then 0 else S (index_of p r)
  end.
Definition leaf_index (s : schema) (p : path) : nat := index_of p (sleaves s).

(* ---------------------------------------------------------------- records of the variants before the fixes *)
(* the schema as it was before 4641759: every alias property listed by as_dict() *)
Fixpoint unhide (s : schema) : schema :=
  match s with
  | SAlias t k _ => SAlias t k true
  | SObj c a b ct props =>
      SObj c a b ct ((fix go (ps : list (string * schema)) : list (string * schema) :=
                        match ps with [] => [] | (n, sp) :: r => (n, unhide sp) :: go r end) props)
  | SLeaf k => SLeaf k
  end.

(* ---------------------------------------------------------------- who keeps a reference to the caller's dicts *)
(* BaseGeo._process_style_kwargs: the caller's style dict after Class(style=style, style_x=..) *)
Definition ctor_caller_dict_after (copies : bool) (style kwargs : dict) : dict :=
  if copies then style else match kwargs with [] => style | _ => process_style_kwargs style kwargs end.

(* the state of the world after a list of operations *)
Fixpoint run_world (cls : string) (w : world) (ops : list op) : world :=
  match ops with
  | [] => w
  | o :: r => run_world cls (fst (step cls w o)) r
  end.

(* magic_to_dict, first level: the caller's argument after the call.  `owned` = the keys of the result whose
   value IS (same object) the caller's nested dict; the in-place form (`new_kwargs[k0].update(val)`, before
   c3df3ef) writes the underscore keyword into that dict, the fresh form builds a new one *)
Definition sremove (k : string) (l : list string) : list string := filter (fun x => negb (String.eqb x k)) l.

Fixpoint magic_arg_after (fresh : bool) (items : dict) (owned : list string) (arg : dict) : dict :=
  match items with
  | [] => arg
  | (k, v) :: r =>
      match split_on us k with
      | [] => magic_arg_after fresh r owned arg
      | [k0] => magic_arg_after fresh r
                  (match v with Node _ => k0 :: sremove k0 owned | Leaf _ => sremove k0 owned end) arg
      | k0 :: rest =>
          if smem k0 owned then
            if fresh then magic_arg_after fresh r (sremove k0 owned) arg
            else magic_arg_after fresh r owned
                   (match dget k0 arg with
                    | Some (Node d) => dset k0 (Node (dset (join_with "_" rest) v d)) arg
                    | _ => arg
                    end)
          else magic_arg_after fresh r owned arg
      end
  end.

Definition magic_caller_arg_after (fresh : bool) (arg : dict) : dict := magic_arg_after fresh arg [] arg.

(* ---------------------------------------------------------------- two leaves with the same head in ONE call *)
Inductive knot := KUnder | KNested | KMixed.
Definition knots : list knot := [KUnder; KNested; KMixed].

(* the (key, value) under which a leaf is given: a_b_c = v | a = {b: {c: v}} | a_b = {c: v} *)
Definition enc_item (p : path) (v : val) (n : knot) : string * tree :=
  match n with
  | KUnder => (join_with "_" p, Leaf (Some v))
  | KNested => match p with [] => ("", Leaf (Some v)) | k :: r => (k, nest r (Leaf (Some v))) end
  | KMixed => (join_with "_" (firstn 2 p), nest (skipn 2 p) (Leaf (Some v)))
  end.

(* style.update({key1: .., key2: ..}) on the fresh style st0, the two leaves in this order and in EVERY pair of
   notations == the two attribute assignments (whole as_dict equal) *)
Definition one_call_pair (e : env) (s : schema) (st0 : tree) (p1 p2 : path) (v1 v2 : val) : bool :=
  let '(r1, e1) := lift_res st0 (assign e s st0 p1 (Leaf (Some v1))) in
  let '(r2, e2) := lift_res r1 (assign e s r1 p2 (Leaf (Some v2))) in
  let want := as_dict s r2 in
  no_err e1 && no_err e2 &&
  forallb (fun n1 => forallb (fun n2 =>
    let a := enc_item p1 v1 n1 in
    let b := enc_item p2 v2 n2 in
    String.eqb (fst a) (fst b)          (* a python dict cannot hold the same key twice: not a call *)
    || (let '(st, e0) := update e s st0 [a; b] true false in
        no_err e0 && tree_same (as_dict s st) want)) knots) knots.

Definition head_eqb (p q : path) : bool :=
  match p, q with a :: _, b :: _ => String.eqb a b | _, _ => false end.

(* every style class, every ORDERED pair of different (non-alias) leaves with the same first segment,
   every pair of notations *)
Definition one_call_all : bool :=
  forallb (fun cs =>
    let st0 := fresh_state (snd cs) in
    forallb (fun l1 =>
      forallb (fun l2 =>
        snd l1 || snd l2 || negb (head_eqb (fst (fst l1)) (fst (fst l2))) ||
        path_eqb (fst (fst l1)) (fst (fst l2)) ||
        match two (snd (fst l1)), two (snd (fst l2)) with
        | v1 :: _, v2 :: _ => one_call_pair cenv (snd cs) st0 (fst (fst l1)) (fst (fst l2)) v1 v2
        | _, _ => true
        end) (sleaves (snd cs))) (sleaves (snd cs))) style_classes.

(* constructor -> pending style arguments -> first read of .style.  Built with style=<dict> only, the object's
   pending arguments ARE the caller's dict (no copy is taken when there are no style_ keywords); the getter applies a
   copy of them and then either rebinds its attribute to a new empty dict (`rebinds`) or clears the dict in place
   (seeded variant), which empties the dict for the caller and for every other object built from it.
   shared_dict_after_read: the caller's dict after ONE of the objects built from it was read;
   second_object_style: the style a second object built from the same dict gets when it is read afterwards *)
Definition shared_dict_after_read (rebinds : bool) (d : dict) : dict := if rebinds then d else [].

Definition second_object_style (rebinds : bool) (s : schema) (d : dict) : tree * option err :=
  obj_new cenv s (shared_dict_after_read rebinds d) [].
