(* C16 -- running the mesh model on correspondence cases (definitions only). *)
From Coq Require Import NArith ZArith List Bool Arith.
From MV Require Import Model.MeshModel.
Import ListNotations.

Record mcase := mkMC {
  mc_faces : list face;
  mc_open : list edge;                 (* get_open_edges(faces), rows in order *)
  mc_subsets : list (list face);       (* get_disconnected_faces_subsets(faces), in order *)
  mc_oracle : list (face * bool);      (* recorded is_facet_inwards results: seed face (vertex ids) -> answer *)
  mc_calls : list (face * nat);        (* per call, in order: seed face, number of faces the test ran against *)
  mc_mask : list bool;                 (* get_inwards_mask *)
  mc_fixed : list face;                (* fix_trimesh_orientation (TriangularMesh.faces when the class was built) *)
  mc_status_open : bool;               (* TriangularMesh.status_open after check_open *)
  mc_status_disc : bool                (* TriangularMesh.status_disconnected after check_disconnected *)
}.

Definition face_eqb (a b : face) : bool :=
  N.eqb (f0 a) (f0 b) && N.eqb (f1 a) (f1 b) && N.eqb (f2 a) (f2 b).

Fixpoint list_eqb {A} (eqb : A -> A -> bool) (l1 l2 : list A) : bool :=
  match l1, l2 with
  | [], [] => true
  | x :: r1, y :: r2 => eqb x y && list_eqb eqb r1 r2
  | _, _ => false
  end.

(* bit 1: open edges differ, 2: subsets differ, 4: oracle calls differ, 8: mask differs, 16: fixed faces differ,
   32: status_open differs, 64: status_disconnected differs *)
(* the recorded seed test as a function of the seed face (unrecorded faces: false) *)
Fixpoint lookup_face (l : list (face * bool)) (f : face) : bool :=
  match l with
  | [] => false
  | (g, b) :: r => if face_eqb g f then b else lookup_face r f
  end.

Definition call_eqb (a b : face * nat) : bool := face_eqb (fst a) (fst b) && Nat.eqb (snd a) (snd b).

Definition check_mcase (c : mcase) : Z :=
  let fs := mc_faces c in
  let st := pfinal fs (lookup_face (mc_oracle c)) in
  ((if list_eqb edge_eqb (get_open_edges fs) (mc_open c) then 0 else 1)
   + (if list_eqb (list_eqb face_eqb) (get_disconnected_faces_subsets fs) (mc_subsets c) then 0 else 2)
   + (if list_eqb call_eqb (map (fun sn => (nth (fst sn) fs dface, snd sn)) (rev (p_calls st))) (mc_calls c)
     then 0 else 4)
   + (if list_eqb Bool.eqb (p_mask st) (mc_mask c) then 0 else 8)
   + (if list_eqb face_eqb (apply_mask fs (p_mask st)) (mc_fixed c) then 0 else 16)
   + (if Bool.eqb (status_open fs) (mc_status_open c) then 0 else 32)
   + (if Bool.eqb (status_disconnected fs) (mc_status_disc c) then 0 else 64))%Z.

(* failing cases as [index; code; index; code; ...] *)
Fixpoint failing_from (i : Z) (cs : list mcase) : list Z :=
  match cs with
  | [] => []
  | c :: r => let k := check_mcase c in
              if Z.eqb k 0 then failing_from (i + 1) r else i :: k :: failing_from (i + 1) r
  end.
Definition failing (cs : list mcase) : list Z := failing_from 0 cs.
