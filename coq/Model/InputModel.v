(* C17 -- executable model of "assignment of a data attribute": the validator functions are the ones
   TRANSLATED from input_checks.py (Gen/GenShape.v), their per-attribute configuration is the table TRANSLATED
   from the class files (Gen/GenTables.v); hand-written here: how a setter row dispatches to its validator,
   and the DOCUMENTED format of every attribute, transcribed from the class docstrings.  Definitions only. *)
From Coq Require Import ZArith QArith List Bool String.
From MV Require Import Model.InputTypes Gen.GenShape Gen.GenTables.
Import ListNotations.
Open Scope string_scope.
Open Scope Z_scope.

(* ------------------------------------------------------------------ documented formats *)
Inductive docshape :=
| DVec (n : Z)            (* "array_like, shape (n,)" *)
| DVecOrPath (n : Z)      (* "shape (n,) or (m,n)": a path has m >= 1 positions *)
| DMat (r c : Z)          (* "shape (r,c)" *)
| DRows (minrows c : Z)   (* "shape (n,c)" with n >= minrows *)
| DGrid (c : Z).          (* "shape (c,) or (n1,n2,...,c)": up to 18 pixel axes (the library's own cap; the
                             docstring gives no bound, a deeper grid is rejected with the input error) *)

Definition in_doc (d : docshape) (s : shape) : bool :=
  match d, s with
  | DVec n, [a] => a =? n
  | DVecOrPath n, [a] => a =? n
  | DVecOrPath n, [m; a] => (1 <=? m) && (a =? n)
  | DMat r c, [a; b] => (a =? r) && (b =? c)
  | DRows k c, [a; b] => (k <=? a) && (b =? c)
  | DGrid c, _ :: _ => (ndim s <=? 19) && (last s 0 =? c)
  | _, _ => false
  end.

(* value constraints the docstrings / the property text put on the entries *)
Inductive docvalue := AnyValue | AllPositive | CylSegValid | NonCoplanar.   (* NonCoplanar: a tetrahedron has a volume *)

Record doc_row := mkDoc {
  d_class : string; d_attr : string;
  d_shape : docshape;
  d_none : bool;          (* None documented as "not yet set" *)
  d_value : docvalue
}.

(* transcribed from the Parameters sections of the class docstrings (magpylib 5.1.1):
   position "array_like, shape (3,) or (m,3)"; polarization/magnetization "array_like, shape (3,), default=None";
   Cuboid.dimension "shape (3,), default=None ... positive"; Cylinder.dimension (d,h) shape (2,);
   CylinderSegment.dimension "shape (5,) (r1,r2,h,phi1,phi2) r1<r2, phi1<phi2";
   Tetrahedron.vertices "shape (4,3)"; Triangle.vertices "shape (3,3)"; Polyline.vertices "shape (n,3) ... at least
   two vertices"; TriangularMesh.vertices / faces "ndarray, shape (n,3)" (mandatory, at least one row);
   Dipole.moment "shape (3,), default=None"; Sensor.pixel "shape (3,) or (n1,n2,...,3)" / None *)
Definition doc_table : list doc_row := [
  mkDoc "BaseGeo" "position" (DVecOrPath 3) false AnyValue;
  mkDoc "BaseGeo" "position@init" (DVecOrPath 3) false AnyValue;
  mkDoc "BaseMagnet" "magnetization" (DVec 3) true AnyValue;
  mkDoc "BaseMagnet" "polarization" (DVec 3) true AnyValue;
  mkDoc "Sensor" "pixel" (DGrid 3) true AnyValue;
  mkDoc "Cuboid" "dimension" (DVec 3) true AllPositive;
  mkDoc "Cylinder" "dimension" (DVec 2) true AllPositive;
  mkDoc "CylinderSegment" "dimension" (DVec 5) true CylSegValid;
  mkDoc "Tetrahedron" "vertices" (DMat 4 3) true NonCoplanar;
  mkDoc "Triangle" "vertices" (DMat 3 3) true AnyValue;
  mkDoc "Polyline" "vertices" (DRows 2 3) true AnyValue;
  mkDoc "TriangularMesh" "vertices@init" (DRows 1 3) false AnyValue;
  mkDoc "TriangularMesh" "faces@init" (DRows 1 3) false AnyValue;
  mkDoc "Dipole" "moment" (DVec 3) true AnyValue
].

(* documented scalar attributes: "float, default=None"; a diameter is a size, so not negative *)
Record sdoc_row := mkSDoc { sd_class : string; sd_attr : string; sd_none : bool; sd_nonneg : bool }.
Definition sdoc_table : list sdoc_row := [
  mkSDoc "BaseCurrent" "current" true false;
  mkSDoc "Circle" "diameter" true true;
  mkSDoc "Sphere" "diameter" true true
].

(* shapes with an empty leading axis of the rows whose validator has no lower bound on the number of rows
   (position paths, mesh vertices / faces): a gap between the code and the documented format as long as the code has
   no guard for it (the guards are TRANSLATED flags: reshape_rejects_empty, mesh_rejects_empty) *)
Definition gap_row (d : doc_row) : bool :=
  match d_shape d with
  | DVecOrPath _ => negb reshape_rejects_empty
  | DRows k _ => (k =? 1) && negb mesh_rejects_empty
  | _ => false end.
Definition empty_rows (s : shape) : bool := match s with [m; _] => m =? 0 | _ => false end.
(* likewise for values: coplanar tetrahedron vertices as long as the setter has no coplanarity guard *)
Definition value_gap (d : doc_row) (vals : list Q) : bool :=
  match d_value d with NonCoplanar => negb tetra_rejects_coplanar && coplanar4 vals | _ => false end.

(* ------------------------------------------------------------------ lookup *)
Definition row_is (c a : string) (r : setter_row) : bool :=
  String.eqb (s_class r) c && String.eqb (s_attr r) a.
Definition find_setter (c a : string) : option setter_row := find (row_is c a) setters.

(* the shape-level configuration a row hands to check_array_shape *)
Definition row_cfg (r : setter_row) : option vcfg :=
  match s_val r with
  | VVector c => Some c
  | VVertices => Some vertices_cfg
  | VCylSeg => Some cylseg_cfg
  | _ => None
  end.

(* ------------------------------------------------------------------ shape acceptance of one attribute *)
(* the validator's verdict on an array of shape s whose entries pass every value guard:
   check_array_shape with the row's configuration, then the vertex-count guard of VVertices *)
(* the guards against an empty array that sit behind the shape check *)
Definition empty_guard (r : setter_row) (s : shape) : bool :=
  match s_val r with VVector c => v_reshape c && reshape_rejects_empty && (size s =? 0) | _ => false end
  || (String.eqb (s_class r) "TriangularMesh" && mesh_rejects_empty && match s with m :: _ => m =? 0 | [] => false end).

Definition accepts_shape0 (r : setter_row) (s : shape) : res :=
  match s_val r with
  | VVector c => check_array_shape (v_dims c) (v_shape_m1 c) (v_length c) s
  | VVertices =>
      match check_array_shape (v_dims vertices_cfg) (v_shape_m1 vertices_cfg) (v_length vertices_cfg) s with
      | Ok => match check_format_input_vertices (IArray s []) with
              | Stored _ => Ok | Rejected => Bad | Crashed => Crash end
      | x => x end
  | VCylSeg => check_array_shape (v_dims cylseg_cfg) (v_shape_m1 cylseg_cfg) (v_length cylseg_cfg) s
  | _ => Crash
  end.

Definition accepts_shape (r : setter_row) (s : shape) : res :=
  match accepts_shape0 r s with Ok => if empty_guard r s then Bad else Ok | x => x end.

(* ------------------------------------------------------------------ a whole assignment *)
(* what `obj.<attr> = value` does for vector-like attributes: validator, then the rest of the setter body.
   s_post_uses = the body computes with the stored value without an `is not None` guard: on None this is
   arithmetic on None (TypeError). *)
Definition run_validator (v : validator) (inp : vinput) : vout :=
  match v with
  | VVector c => check_format_input_vector c inp
  | VVertices => check_format_input_vertices inp
  | VCylSeg => check_format_input_cylinder_segment inp
  | _ => Crashed
  end.

(* BaseGeo._init_position_orientation: after validation the shorter of the position / orientation paths is
   edge-padded to the other; the orientation path has length >= 1, and np.pad(pos, .., "edge") raises ValueError on
   an empty axis.  (The position SETTER has no such step: pad_slice_path slices the orientation path instead.) *)
Definition init_pad (v : vout) : vout :=
  match v with
  | Stored (Some (m :: _, _)) => if m =? 0 then Crashed else v
  | _ => v
  end.

(* guards on the validated array that are not part of check_format_input_vector:
   - Tetrahedron.vertices: check_format_input_tetrahedron = the vector check (the row's configuration) followed by the
     coplanarity guard (when the translated flag says the setter uses it);
   - TriangularMesh._input_check: empty vertices / faces are rejected after both validators *)
Definition post_guard (r : setter_row) (v : vout) : vout :=
  match v with
  | Stored (Some (s, vals)) =>
      if row_is "Tetrahedron" "vertices" r && tetra_rejects_coplanar && coplanar4 vals then Rejected
      else if String.eqb (s_class r) "TriangularMesh" && mesh_rejects_empty
              && match s with m :: _ => m =? 0 | [] => false end then Rejected
      else v
  | _ => v
  end.

Definition assign_vec (r : setter_row) (inp : vinput) : vout :=
  let v := match run_validator (s_val r) inp with
           | Stored None => if s_post_uses r then Crashed else Stored None
           | x => x
           end in
  post_guard r (if String.eqb (s_attr r) "position@init" then init_pad v else v).

Definition assign_scalar (r : setter_row) (inp : sinput) : sout :=
  match s_val r with
  | VScalar an fneg => check_format_input_scalar an fneg inp
  | _ => SCrashed
  end.

(* `if val not in {"right", "left"}: raise MagpylibBadUserInput`: hashing an unhashable value raises TypeError;
   a tuple/list literal compares with == and never hashes *)
Definition assign_member (r : setter_row) (inp : minput) : res :=
  match s_val r, inp with
  | VMemberSet opts, MStr s => if str_mem s opts then Ok else Bad
  | VMemberSet _, MHashable => Bad
  | VMemberSet _, MUnhashable => Crash
  | VMemberTuple opts, MStr s => if str_mem s opts then Ok else Bad
  | VMemberTuple _, _ => Bad
  | VMemberStr opts, MStr s => if str_mem s opts then Ok else Bad
  | VMemberStr _, _ => Bad          (* the type test comes first: nothing is hashed *)
  | _, _ => Crash
  end.

(* orientation = ... / orientation given to the constructor: check_format_input_orientation(inp, init_format=True) *)
(* in _init_position_orientation the shorter path is edge-padded to the longer one: an orientation path of length 0
   next to the (>= 1) position path makes np.pad(oriQ, .., "edge") raise ValueError; the setter has no such step *)
Definition assign_orient (r : setter_row) (inp : oinput) : oout :=
  match s_val r with
  | VOrientation =>
      match check_format_input_orientation inp with
      | OStored n => if String.eqb (s_attr r) "orientation@init" && (n =? 0) then OCrashed else OStored n
      | x => x end
  | _ => OCrashed end.
(* documented: None, or a scipy Rotation "with length 1 or m": a single rotation or a stack of at least one *)
Definition odoc_accepts (inp : oinput) : bool :=
  match inp with ONotRotation => false | ONone => true | ORot single n => single || (1 <=? n) end.
Definition wf_oinput (inp : oinput) : Prop := match inp with ORot _ n => 0 <= n | _ => True end.

(* field_func = ... on an object of class cls: validate_field_func behind `_editable_field_func` (otherwise the
   setter raises AttributeError: the attribute is not settable on the original magpylib sources) *)
Definition assign_func (cls : string) (r : setter_row) (inp : finput) : res :=
  match s_val r with
  | VFieldFunc => if str_mem cls editable_field_func then validate_field_func inp else Crash
  | _ => Crash end.
(* documented: None, or a callable(field, observers) that returns for B and for H an ndarray of the shape of the
   observers -- probed with shape (2,3) -- (or None for a field it does not provide) *)
Definition fdoc_accepts (inp : finput) : bool :=
  match inp with
  | FNone => true
  | FNotCallable => false
  | FCallable args_ok outs =>
      args_ok && forallb (fun o => match o with FoNone => true | FoArray s => shape_eqb s field_func_probe_shape
                                   | _ => false end) outs
  end.
Definition wf_finput (inp : finput) : Prop :=
  match inp with
  | FCallable _ outs => List.length outs = List.length field_func_fields /\ ~ In FoRaises outs
  | _ => True end.

(* ------------------------------------------------------------------ documented verdicts *)
Definition all_pos (vals : list Q) : bool := forallb (fun x => Qltb (qz 0) x) vals.

(* the property's reading of a valid cylinder segment: sizes not negative (h, r2 positive), inner radius not
   above the outer one, angle range not reversed and not above 360 degrees *)
Definition cylseg_ok (vals : list Q) : bool :=
  match vals with
  | [r1; r2; h; phi1; phi2] =>
      Qleb (qz 0) r1 && Qleb r1 r2 && Qltb (qz 0) r2 && Qltb (qz 0) h && Qleb phi1 phi2 &&
      Qleb (Qminus phi2 phi1) (qz 360)
  | _ => false
  end.

Definition value_ok (v : docvalue) (vals : list Q) : bool :=
  match v with AnyValue => true | AllPositive => all_pos vals | CylSegValid => cylseg_ok vals
  | NonCoplanar => negb (coplanar4 vals) end.

Definition doc_accepts (d : doc_row) (inp : vinput) : bool :=
  match inp with
  | INone => d_none d
  | IArray s vals => in_doc (d_shape d) s && value_ok (d_value d) vals
  | _ => false
  end.

(* documented verdict of a scalar attribute: None if documented, any real number, not negative for sizes;
   complex numbers and non-numbers are malformed *)
Definition sdoc_accepts (d : sdoc_row) (inp : sinput) : bool :=
  match inp with
  | SNone => sd_none d
  | SReal q => negb (sd_nonneg d && Qltb q (qz 0))
  | _ => false
  end.

(* a float array has as many entries as its shape says; extents are not negative *)
Definition wf_vinput (inp : vinput) : Prop :=
  match inp with
  | IArray s vals => Forall (fun n => 0 <= n) s /\ Z.of_nat (List.length vals) = size s
  | _ => True
  end.

Definition find_doc (c a : string) : option doc_row :=
  find (fun d => String.eqb (d_class d) c && String.eqb (d_attr d) a) doc_table.

(* ------------------------------------------------------------------ rank bookkeeping (accepted_then_computable) *)
(* get_src_dict stacks one attribute value per source (np.array([...]) then np.repeat on axis 0): the array a core
   receives has rank(accepted value) + 1.  `_field_func_kwargs_ndim` states the rank the core expects. *)
Definition cfg_rank (c : vcfg) : option Z :=
  match v_dims c with [d] => Some d | _ => None end.

Definition accepted_rank (r : setter_row) : option Z :=
  match s_val r with
  | VVector c => cfg_rank c
  | VVertices => cfg_rank vertices_cfg
  | VCylSeg => cfg_rank cylseg_cfg
  | VScalar _ _ => Some 0
  | _ => None
  end.

(* the class in which attribute a of class c is defined: c itself or the excitation base class *)
Definition owner_candidates (c : string) : list string := [c; "BaseMagnet"; "BaseCurrent"; "Circle"; "Polyline"].
Definition find_setter_inh (c a : string) : option setter_row :=
  match flat_map (fun o => match find_setter o a with Some r => [r] | None => [] end) (owner_candidates c) with
  | r :: _ => Some r | [] => None end.

(* (class, key, table rank, accepted rank) for every key of a registered class that is a settable attribute *)
Definition rank_pairs : list (string * string * Z * Z) :=
  flat_map (fun cr : string * list (string * Z) =>
    let '(c, tab) := cr in
    flat_map (fun kv : string * Z =>
      let '(k, n) := kv in
      match find_setter_inh c k with
      | Some r => match accepted_rank r with Some a => [(c, k, n, a)] | None => [] end
      | None => [] end) tab) registered.

(* ------------------------------------------------------------------ case runner for the correspondence *)
Inductive xcase :=
| XVec (c a : string) (inp : vinput) (expect : vout)
| XSca (c a : string) (inp : sinput) (expect : sout)
| XMem (c a : string) (inp : minput) (expect : res)
| XOri (c a : string) (inp : oinput) (expect : oout)
| XFun (cls c a : string) (inp : finput) (expect : res).

Definition Qeqb_list (a b : list Q) : bool :=
  (Nat.eqb (List.length a) (List.length b)) && forallb (fun p => Qeq_bool (fst p) (snd p)) (combine a b).

Definition vout_eqb (a b : vout) : bool :=
  match a, b with
  | Stored None, Stored None => true
  | Stored (Some (s1, v1)), Stored (Some (s2, v2)) => shape_eqb s1 s2 && Qeqb_list v1 v2
  | Rejected, Rejected => true
  | Crashed, Crashed => true
  | _, _ => false
  end.
Definition sout_eqb (a b : sout) : bool :=
  match a, b with
  | SStored None, SStored None => true
  | SStored (Some x), SStored (Some y) => Qeq_bool x y
  | SRejected, SRejected => true
  | SCrashed, SCrashed => true
  | _, _ => false
  end.

Definition run_case (x : xcase) : bool :=
  match x with
  | XVec c a inp e => match find_setter c a with Some r => vout_eqb (assign_vec r inp) e | None => false end
  | XSca c a inp e => match find_setter c a with Some r => sout_eqb (assign_scalar r inp) e | None => false end
  | XMem c a inp e => match find_setter c a with Some r => res_eqb (assign_member r inp) e | None => false end
  | XOri c a inp e => match find_setter c a with
                      | Some r => match assign_orient r inp, e with
                                  | OStored n, OStored m => n =? m
                                  | ORejected, ORejected | OCrashed, OCrashed => true
                                  | _, _ => false end
                      | None => false end
  | XFun cls c a inp e => match find_setter c a with Some r => res_eqb (assign_func cls r inp) e | None => false end
  end.

Fixpoint failing_from (i : Z) (l : list xcase) : list Z :=
  match l with [] => [] | x :: r => if run_case x then failing_from (i + 1) r else i :: failing_from (i + 1) r end.
Definition failing (l : list xcase) : list Z := failing_from 0 l.

(* documented verdict of a vector case: 1 documented-valid, 0 not, 2 no documentation row *)
Definition doc_verdict (x : xcase) : Z :=
  match x with
  | XVec c a inp _ => match find_doc c a with Some d => if doc_accepts d inp then 1 else 0 | None => 2 end
  | _ => 2
  end.
