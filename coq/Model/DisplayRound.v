(* C19 -- the trigonometric vertex tables of traces_base.py, over the real numbers (definitions only, not
   executable; tied by float comparison with figures and by the AST fingerprints of Gen/GenShapes.v).

   np.linspace(a, b, N)[k]                 = a + k (b - a) / (N - 1)
   np.linspace(a, b, N, endpoint=False)[k] = a + k (b - a) / N                                          *)
From Coq Require Import Reals.
Open Scope R_scope.

Definition linspace (a b : R) (N k : nat) : R := a + INR k * ((b - a) / INR (N - 1)).
Definition linspace_open (a b : R) (N k : nat) : R := a + INR k * ((b - a) / INR N).
Definition deg2rad (x : R) : R := x * (PI / 180).
Definition P3 := (R * R * R)%type.

(* ---- make_CylinderSegment: dimension = (r1, r2, h, phi1, phi2), N = max(5, int(vert |phi1 - phi2| / 360))
     phi = np.linspace(phi1, phi2, N); x = cos(deg2rad(phi)); y = sin(deg2rad(phi))
     c1 = (r1 x, r1 y, +h/2); c2 = (r2 x, r2 y, +h/2); c3 = (r1 x, r1 y, -h/2); c4 = (r2 x, r2 y, -h/2)
     vertices = concatenate([c1, c2, c3, c4]): vertex number b N + k, block b in 0..3, k in 0..N-1 *)
Definition seg_phi (phi1 phi2 : R) (N k : nat) : R := linspace phi1 phi2 N k.
Definition seg_radius (r1 r2 : R) (b : nat) : R := match b with O | 2%nat => r1 | _ => r2 end.
Definition seg_z (h : R) (b : nat) : R := match b with O | 1%nat => h / 2 | _ => - (h / 2) end.
Definition seg_vertex (r1 r2 h phi1 phi2 : R) (N b k : nat) : P3 :=
  (seg_radius r1 r2 b * cos (deg2rad (seg_phi phi1 phi2 N k)),
   seg_radius r1 r2 b * sin (deg2rad (seg_phi phi1 phi2 N k)),
   seg_z h b).

(* ---- make_Prism (Cylinder): t = np.linspace(0, 2 pi, N, endpoint=False)
     c1 = (cos t, sin t, -1) * 0.5 ; c2 = (cos t, sin t, +1) * 0.5 ; c3 = ((0,0,-1), (0,0,1)) * 0.5  [0.5 = 1/2] ; c * (d, d, h) *)
Definition prism_t (N k : nat) : R := linspace_open 0 (2 * PI) N k.
Definition prism_rim (d h : R) (N : nat) (top : bool) (k : nat) : P3 :=
  (cos (prism_t N k) * (1 / 2) * d, sin (prism_t N k) * (1 / 2) * d, (if top then 1 else -1) * (1 / 2) * h).
Definition prism_centre (h : R) (top : bool) : P3 := (0 * (1 / 2) * 0, 0 * (1 / 2) * 0, (if top then 1 else -1) * (1 / 2) * h).

(* ---- make_Ellipsoid (Sphere: dimension = (d, d, d)): phi = linspace(0, 2 pi, N, endpoint=False),
     theta = linspace(-pi/2, pi/2, N); x = cos(theta) sin(phi) a/2; y = cos(theta) cos(phi) b/2; z = sin(theta) c/2;
     the flattened grid is cut to [N-1 : -N+1]: one south pole, the rows 1..N-2, one north pole -- a subset of
     the grid points (i, j) below *)
Definition ell_theta (N i : nat) : R := linspace (- (PI / 2)) (PI / 2) N i.
Definition ell_phi (N j : nat) : R := linspace_open 0 (2 * PI) N j.
Definition ell_vertex (a b c : R) (N i j : nat) : P3 :=
  (cos (ell_theta N i) * sin (ell_phi N j) * a * (1 / 2),
   cos (ell_theta N i) * cos (ell_phi N j) * b * (1 / 2),
   sin (ell_theta N i) * c * (1 / 2)).
