(* C08 -- getBH_level2 (magpylib/_src/fields/field_wrap_BH.py) as a STATE TRANSFORMER over the
   objects' paths, with an explicit failure schedule.  Definitions only.

   The function body is a list of instructions, one per top-level statement of `_getBH_level2`,
   in source order.  That list and the shape of the wrapper `getBH_level2` (try/finally that trims
   every object recorded in `tiled`) are REGENERATED from /repo on every run (Gen/GenL2Flow.v,
   translate/gen_l2flow.py); this file gives each instruction its meaning.

   What is in the state: for every user object its position path, its orientation path and an
   opaque attribute bundle (geometry, excitation, pixel, parent/children, style, field_func ...).
   Only ITile and ITrim (and the wrapper's finally) write the store; every other statement gets the
   store read-only (`exec_ro`), which is the modelling claim tied by the correspondence check.

   Failure schedule:
     s_anon pc          an exception raised just before the statement at position pc
     s_loop pc          a crash inside the tiling / reset loop at pc: after j complete iterations,
                        optionally between `obj._position = ...` and `obj._orientation = ...`
     F key i ginput     behaviour of the field function `key` on the i-th invocation (global
                        invocation counter): value / None / raises / wrong shape
   Failures that follow from the input (no sources, missing dimension or excitation, field_func
   None, incompatible pixel shapes, bad pixel_agg / output) are computed, not scheduled. *)
From Coq Require Import List Arith Bool PeanoNat.
Import ListNotations.

Inductive exn := EBadInput | EMissing | EAttribute | EType | EValue | ECustom | EInjected.

Inductive instr :=
| IDict         (* if isinstance(sources, str): return getBH_dict_level2(...) *)
| IKwargs       (* if kwargs: raise MagpylibBadUserInput *)
| IFormatSrc    (* sources, src_list = format_src_inputs(sources) *)
| ICheckDim     (* check_dimensions(src_list) *)
| ICheckExc     (* check_excitations(src_list) *)
| IWarn         (* in_out / open-mesh warnings *)
| IPixAgg       (* pixel_agg_func = check_format_pixel_agg(pixel_agg) *)
| IObservers    (* sensors, pix_shapes = check_format_input_observers(observers, pixel_agg) *)
| IPure         (* a statement that only computes local values *)
| IPathLens     (* path_lengths = [len(obj._position) for obj in obj_list] (+ the derived reset lists) *)
| IRecord       (* tiled.extend(zip(reset_obj, reset_obj_m0)) *)
| IRecordOrig   (* tiled.extend((obj, obj._position, obj._orientation) for obj in reset_obj) *)
| ITile         (* if max_path_len > 1: for obj, m0 in zip(reset_obj, reset_obj_m0): tile in place *)
| IPoso         (* observer positions from the (tiled) sensor paths *)
| IGroupKeys    (* grouping loop; raises MagpylibMissingInput when a field_func is None *)
| IEval         (* one getBH_level1 call per group *)
| IReduce | IRotate
| IAggregate    (* reshape + pixel_agg_func(B, axis=...) *)
| ITrim         (* for obj, m0 in zip(reset_obj, reset_obj_m0): trim back *)
| ISumup
| IOutput       (* output = check_getBH_output_type(output) *)
| IDataframe    (* if output == "dataframe": ... return df *)
| ISqueeze
| IReturn.      (* return B *)

Inductive wrapper :=
| WPlain         (* the body is the public function (pre-7b53805) *)
| WFinallyTrim   (* tiled = []; try: return body(..., tiled, ...) finally: trim every (obj, m0) in tiled *)
| WFinallyRestore. (* ... finally: put back the saved (obj, position, orientation) of every entry of tiled *)

Inductive srcin := SBare (i : nat) | SColl (kids : list nat) | SBad.
Inductive obsent := OSens (i : nat) | OColl (kids : list nat) | OVec (shape : list nat) | OBadEnt.
Inductive obsin := OBad | OArr (shape : list nat) | OList (l : list obsent).
Inductive sref := RUser (i : nat) | RTemp (shape : list nat).
Inductive pixagg := PNone | PValid | PBadName | PCheckRaises | PAggRaises.

(* a crash inside a loop over a SET of objects (iteration order is arbitrary): the list positions whose
   iteration completed, optionally one position that got its position path assigned but not yet its
   orientation path, and the exception *)
Record loopcrash := mkCrash { lc_done : list nat; lc_half : option nat; lc_exn : exn }.
Record sched := mkSched { s_anon : nat -> option exn; s_loop : nat -> option loopcrash }.

Section Model.
Variables V Q A GV Val : Type.
Variable dV : V.
Variable dQ : Q.
Variable renorm : Q -> Q.              (* what Rotation.from_quat does to a stored quaternion (re-normalisation):
                                          the identity in exact arithmetic, not always in binary64 *)
Variable key_of : A -> option nat.     (* src.field_func identity; None = undefined *)
Variable dim_ok : A -> bool.           (* dimension / diameter / vertices not None *)
Variable exc_ok : A -> bool.           (* polarization / current / moment not None *)
Variable pix_shape : A -> list nat.    (* sensor pixel shape, None and (3,) normalised to [1;3] *)
Variable post : list GV -> Val.        (* everything after the group evaluations, as a function of them *)

Record obj := mkObj { o_pos : list V; o_ori : list Q; o_attr : A }.
Definition store := list obj.

Inductive gres := GOk (v : GV) | GNone | GRaise | GWrong.
Definition ginput := (list (list V * list Q) * list (list V * list Q))%type.  (* group paths, sensor paths *)

Record call := mkCall {
  c_dict : option (option exn);   (* Some r: sources is a str (functional interface) with outcome r *)
  c_kwargs : bool;
  c_sources : list srcin;
  c_observers : obsin;
  c_pixagg : pixagg;
  c_output_ok : bool;
  c_dataframe : bool }.

(* ---- store primitives *)
Fixpoint upd (i : nat) (f : obj -> obj) (st : store) : store :=
  match st, i with
  | [], _ => []
  | o :: r, 0 => f o :: r
  | o :: r, S j => o :: upd j f r
  end.

Definition tile_pos (k : nat) (o : obj) : obj :=
  mkObj (o_pos o ++ repeat (last (o_pos o) dV) k) (o_ori o) (o_attr o).
(* obj._orientation = R.from_quat(np.concatenate((obj._orientation.as_quat(), tile_orient))): EVERY row
   goes through from_quat again *)
Definition tile_ori (k : nat) (o : obj) : obj :=
  mkObj (o_pos o) (map renorm (o_ori o ++ repeat (last (o_ori o) dQ) k)) (o_attr o).
Definition tile_obj (k : nat) (o : obj) : obj := tile_ori k (tile_pos k o).
Definition trim_pos (m0 : nat) (o : obj) : obj := mkObj (firstn m0 (o_pos o)) (o_ori o) (o_attr o).
Definition trim_ori (m0 : nat) (o : obj) : obj := mkObj (o_pos o) (firstn m0 (o_ori o)) (o_attr o).
Definition trim_obj (m0 : nat) (o : obj) : obj := trim_ori m0 (trim_pos m0 o).

(* a loop `for obj, m0 in l: obj._position = ..; obj._orientation = ..` with an optional crash *)
Definition loop_full (f : nat -> obj -> obj) (l : list (nat * nat)) (st : store) : store :=
  fold_left (fun s im => upd (fst im) (f (snd im)) s) l st.
Definition select (ps : list nat) (l : list (nat * nat)) : list (nat * nat) :=
  flat_map (fun j => match nth_error l j with Some x => [x] | None => [] end) ps.
Definition loop_crash (f fhalf : nat -> obj -> obj) (l : list (nat * nat)) (c : loopcrash) (st : store) : store :=
  let st1 := loop_full f (select (lc_done c) l) st in
  match lc_half c with
  | Some j => match nth_error l j with
              | Some im => upd (fst im) (fhalf (snd im)) st1
              | None => st1 end
  | None => st1
  end.

Definition trim_all (l : list (nat * nat)) (st : store) : store := loop_full trim_obj l st.
Definition set_paths (pq : list V * list Q) (o : obj) : obj := mkObj (fst pq) (snd pq) (o_attr o).
Definition restore_all (l : list (nat * (list V * list Q))) (st : store) : store :=
  fold_left (fun s ipq => upd (fst ipq) (set_paths (snd ipq)) s) l st.

(* ---- read-only helpers *)
Definition plen (st : store) (i : nat) : nat :=
  match nth_error st i with Some o => length (o_pos o) | None => 0 end.
Definition olen (st : store) (i : nat) : nat :=
  match nth_error st i with Some o => length (o_ori o) | None => 0 end.
Definition attr_test (st : store) (f : A -> bool) (i : nat) : bool :=
  match nth_error st i with Some o => f (o_attr o) | None => true end.

Definition flat_sources (l : list srcin) : option (list nat) :=
  match l with
  | [] => None
  | _ => fold_right (fun s acc => match acc, s with
                                  | Some r, SBare i => Some (i :: r)
                                  | Some r, SColl (k :: ks) => Some ((k :: ks) ++ r)
                                  | _, _ => None end) (Some []) l
  end.

Definition norm_shape (s : list nat) : list nat := match s with [3] => [1; 3] | _ => s end.

Definition flat_observers (st : store) (o : obsin) : option (list sref) :=
  match o with
  | OBad => None
  | OArr sh => Some [RTemp (norm_shape sh)]
  | OList [] => None
  | OList l => fold_right (fun e acc => match acc, e with
                                        | Some r, OSens i => Some (RUser i :: r)
                                        | Some r, OColl (k :: ks) => Some (map RUser (k :: ks) ++ r)
                                        | Some r, OVec sh => Some (RTemp (norm_shape sh) :: r)
                                        | _, _ => None end) (Some []) l
  end.

Definition sref_shape (st : store) (r : sref) : list nat :=
  match r with
  | RUser i => match nth_error st i with Some o => norm_shape (pix_shape (o_attr o)) | None => [1; 3] end
  | RTemp sh => sh
  end.
Definition all_same (l : list (list nat)) : bool :=
  if list_eq_dec (list_eq_dec Nat.eq_dec) (tl l) (removelast l) then true else false.
Definition npix_of (sh : list nat) : nat := fold_right Nat.mul 1 (removelast sh).

Definition user_sens (l : list sref) : list nat :=
  flat_map (fun r => match r with RUser i => [i] | RTemp _ => [] end) l.
Definition temp_lens (l : list sref) : list nat :=
  flat_map (fun r => match r with RUser _ => [] | RTemp _ => [1] end) l.

(* obj_list = set(src_list + sensors): every object once *)
Definition obj_list (srcs : list nat) (sens : list sref) : list nat :=
  nodup Nat.eq_dec (srcs ++ user_sens sens).
Definition max_len (st : store) (srcs : list nat) (sens : list sref) : nat :=
  fold_right Nat.max 0 (map (plen st) (obj_list srcs sens) ++ temp_lens sens).
Definition reset_list (st : store) (srcs : list nat) (sens : list sref) : list (nat * nat) :=
  let M := max_len st srcs sens in
  flat_map (fun i => if Nat.eqb M (plen st i) then [] else [(i, plen st i)]) (obj_list srcs sens).

(* grouping by field function in order of first appearance *)
Fixpoint group_insert (k i : nat) (gs : list (nat * list nat)) : list (nat * list nat) :=
  match gs with
  | [] => [(k, [i])]
  | (k', mem) :: r => if Nat.eqb k k' then (k', mem ++ [i]) :: r else (k', mem) :: group_insert k i r
  end.
Fixpoint group_keys (st : store) (srcs : list nat) (gs : list (nat * list nat)) : option (list (nat * list nat)) :=
  match srcs with
  | [] => Some gs
  | i :: r => match nth_error st i with
              | Some o => match key_of (o_attr o) with
                          | Some k => group_keys st r (group_insert k i gs)
                          | None => None end
              | None => None end
  end.

Definition paths_of (st : store) (i : nat) : list V * list Q :=
  match nth_error st i with Some o => (o_pos o, o_ori o) | None => ([], []) end.

(* one entry per field-function invocation: function id, number of observer rows it receives
   (len(group) * max_path_len * n_pix), position / orientation path lengths of ALL objects then *)
Record tr_ent := mkTr { t_key : nat; t_rows : nat; t_plens : list nat; t_olens : list nat }.

Record env := mkEnv { e_srcs : list nat; e_sens : list sref; e_groups : list (nat * list nat);
                      e_vals : list GV }.
Definition env0 : env := mkEnv [] [] [] [].

Inductive ro_res :=
| RCont (e : env) (cnt : nat) (tr : list tr_ent)
| RRet (v : option Val) (cnt : nat) (tr : list tr_ent)
| RExc (x : exn) (cnt : nat) (tr : list tr_ent).

Variable F : nat -> nat -> ginput -> gres.

Fixpoint eval_groups (st : store) (M npix : nat) (sens : list sref) (gs : list (nat * list nat))
         (vals : list GV) (cnt : nat) (tr : list tr_ent) : (option exn * list GV * nat * list tr_ent) :=
  match gs with
  | [] => (None, vals, cnt, tr)
  | (k, mem) :: r =>
      let ent := mkTr k (length mem * M * npix) (map (fun o => length (o_pos o)) st)
                      (map (fun o => length (o_ori o)) st) in
      let gi := (map (paths_of st) mem, map (paths_of st) (user_sens sens)) in
      match F k cnt gi with
      | GOk v => eval_groups st M npix sens r (vals ++ [v]) (S cnt) (tr ++ [ent])
      | GNone => (Some EMissing, vals, S cnt, tr ++ [ent])
      | GRaise => (Some ECustom, vals, S cnt, tr ++ [ent])
      | GWrong => (Some EValue, vals, S cnt, tr ++ [ent])
      end
  end.

(* every statement except IPathLens / IRecord / ITile / ITrim: the store is an INPUT only *)
Definition exec_ro (c : call) (i : instr) (st : store) (M : nat) (e : env) (cnt : nat) (tr : list tr_ent)
  : ro_res :=
  match i with
  | IDict => match c_dict c with
             | Some None => RRet None cnt tr
             | Some (Some x) => RExc x cnt tr
             | None => RCont e cnt tr end
  | IKwargs => if c_kwargs c then RExc EBadInput cnt tr else RCont e cnt tr
  | IFormatSrc => match flat_sources (c_sources c) with
                  | Some l => RCont (mkEnv l (e_sens e) (e_groups e) (e_vals e)) cnt tr
                  | None => RExc EBadInput cnt tr end
  | ICheckDim => if forallb (attr_test st dim_ok) (e_srcs e) then RCont e cnt tr else RExc EMissing cnt tr
  | ICheckExc => if forallb (attr_test st exc_ok) (e_srcs e) then RCont e cnt tr else RExc EMissing cnt tr
  | IPixAgg => match c_pixagg c with
               | PBadName => RExc EAttribute cnt tr
               | PCheckRaises => RExc EType cnt tr
               | _ => RCont e cnt tr end
  | IObservers => match flat_observers st (c_observers c) with
                  | None => RExc EBadInput cnt tr
                  | Some l =>
                      match c_observers c, c_pixagg c with
                      | OList _, PNone => if all_same (map (sref_shape st) l)
                                          then RCont (mkEnv (e_srcs e) l (e_groups e) (e_vals e)) cnt tr
                                          else RExc EBadInput cnt tr
                      | _, _ => RCont (mkEnv (e_srcs e) l (e_groups e) (e_vals e)) cnt tr
                      end
                  end
  | IGroupKeys => match group_keys st (e_srcs e) [] with
                  | Some gs => RCont (mkEnv (e_srcs e) (e_sens e) gs (e_vals e)) cnt tr
                  | None => RExc EMissing cnt tr end
  | IEval => let npix := fold_right Nat.add 0 (map (fun r => npix_of (sref_shape st r)) (e_sens e)) in
             match eval_groups st M npix (e_sens e) (e_groups e) [] cnt tr with
             | (None, vals, cnt', tr') => RCont (mkEnv (e_srcs e) (e_sens e) (e_groups e) vals) cnt' tr'
             | (Some x, _, cnt', tr') => RExc x cnt' tr'
             end
  | IAggregate => (* pixel_agg_func(B, axis=<tuple>) when all pixel shapes agree, axis=2 per sensor otherwise:
                     an aggregator such as argmax rejects the tuple only *)
                  match c_pixagg c with
                  | PAggRaises => if all_same (map (sref_shape st) (e_sens e)) then RExc EType cnt tr
                                  else RCont e cnt tr
                  | _ => RCont e cnt tr end
  | IOutput => if c_output_ok c then RCont e cnt tr else RExc EValue cnt tr
  | IDataframe => if c_dataframe c then RRet (Some (post (e_vals e))) cnt tr else RCont e cnt tr
  | IReturn => RRet (Some (post (e_vals e))) cnt tr
  | _ => RCont e cnt tr
  end.

(* ---- the machine *)
Record mstate := mkM { m_store : store; m_tiled : list (nat * nat);
                       m_saved : list (nat * (list V * list Q));
                       m_reset : list (nat * nat);
                       m_M : nat; m_env : env; m_cnt : nat; m_trace : list tr_ent }.

Inductive res := Cont (m : mstate) | Ret (v : option Val) (m : mstate) | Exc (x : exn) (m : mstate).

Definition with_store (m : mstate) (st : store) : mstate :=
  mkM st (m_tiled m) (m_saved m) (m_reset m) (m_M m) (m_env m) (m_cnt m) (m_trace m).

Definition exec (c : call) (sch : sched) (pc : nat) (i : instr) (m : mstate) : res :=
  match s_anon sch pc with
  | Some x => Exc x m
  | None =>
    match i with
    | IPathLens =>
        Cont (mkM (m_store m) (m_tiled m) (m_saved m)
                  (reset_list (m_store m) (e_srcs (m_env m)) (e_sens (m_env m)))
                  (max_len (m_store m) (e_srcs (m_env m)) (e_sens (m_env m)))
                  (m_env m) (m_cnt m) (m_trace m))
    | IRecord =>
        Cont (mkM (m_store m) (m_tiled m ++ m_reset m) (m_saved m) (m_reset m) (m_M m) (m_env m) (m_cnt m)
                  (m_trace m))
    | IRecordOrig =>
        Cont (mkM (m_store m) (m_tiled m)
                  (m_saved m ++ map (fun im => (fst im, paths_of (m_store m) (fst im))) (m_reset m))
                  (m_reset m) (m_M m) (m_env m) (m_cnt m) (m_trace m))
    | ITile =>
        if 1 <? m_M m then
          let f := fun m0 => tile_obj (m_M m - m0) in
          let fh := fun m0 => tile_pos (m_M m - m0) in
          match s_loop sch pc with
          | Some lc => Exc (lc_exn lc) (with_store m (loop_crash f fh (m_reset m) lc (m_store m)))
          | None => Cont (with_store m (loop_full f (m_reset m) (m_store m)))
          end
        else Cont m
    | ITrim =>
        match s_loop sch pc with
        | Some lc => Exc (lc_exn lc) (with_store m (loop_crash trim_obj trim_pos (m_reset m) lc (m_store m)))
        | None => Cont (with_store m (loop_full trim_obj (m_reset m) (m_store m)))
        end
    | _ =>
        match exec_ro c i (m_store m) (m_M m) (m_env m) (m_cnt m) (m_trace m) with
        | RCont e cnt tr => Cont (mkM (m_store m) (m_tiled m) (m_saved m) (m_reset m) (m_M m) e cnt tr)
        | RRet v cnt tr => Ret v (mkM (m_store m) (m_tiled m) (m_saved m) (m_reset m) (m_M m) (m_env m) cnt tr)
        | RExc x cnt tr => Exc x (mkM (m_store m) (m_tiled m) (m_saved m) (m_reset m) (m_M m) (m_env m) cnt tr)
        end
    end
  end.

Fixpoint run_body (c : call) (sch : sched) (pc : nat) (p : list instr) (m : mstate) : res :=
  match p with
  | [] => Ret None m                         (* falling off the end returns None *)
  | i :: r => match exec c sch pc i m with
              | Cont m' => run_body c sch (S pc) r m'
              | x => x end
  end.

Inductive outcome := Returned (v : option Val) | Raised (x : exn).

Record result := mkRes { r_out : outcome; r_store : store; r_cnt : nat; r_trace : list tr_ent }.

Definition finalize (w : wrapper) (m : mstate) : store :=
  match w with
  | WPlain => m_store m
  | WFinallyTrim => trim_all (m_tiled m) (m_store m)
  | WFinallyRestore => restore_all (m_saved m) (m_store m)
  end.

Definition getBH_level2 (w : wrapper) (p : list instr) (c : call) (sch : sched) (cnt : nat) (st : store)
  : result :=
  match run_body c sch 0 p (mkM st [] [] [] 0 env0 cnt []) with
  | Cont m => mkRes (Returned None) (finalize w m) (m_cnt m) (m_trace m)
  | Ret v m => mkRes (Returned v) (finalize w m) (m_cnt m) (m_trace m)
  | Exc x m => mkRes (Raised x) (finalize w m) (m_cnt m) (m_trace m)
  end.

(* static acceptance of a program under a wrapper: path lengths are read while nothing is tiled, every
   tiling loop runs only after its reset list has been recorded in `tiled` in the form the wrapper's
   finally uses (lengths for the trimming finally; the original path objects, taken while nothing is
   tiled, for the restoring finally) *)
Definition is_trim (w : wrapper) : bool := match w with WFinallyTrim => true | _ => false end.
Definition is_restore (w : wrapper) : bool := match w with WFinallyRestore => true | _ => false end.
Fixpoint prog_ok (w : wrapper) (recorded dirty : bool) (p : list instr) : bool :=
  match p with
  | [] => true
  | IPathLens :: r => negb dirty && prog_ok w false dirty r
  | IRecord :: r => prog_ok w (is_trim w) dirty r
  | IRecordOrig :: r => negb dirty && prog_ok w (is_restore w) dirty r
  | ITile :: r => recorded && prog_ok w recorded true r
  | ITrim :: r => prog_ok w recorded true r
  | _ :: r => prog_ok w recorded dirty r
  end.
Definition wrapper_ok (w : wrapper) (p : list instr) : bool := prog_ok w false false p.

Definition wf_obj (o : obj) : Prop := length (o_ori o) = length (o_pos o).
Definition wf_store (st : store) : Prop := Forall wf_obj st.
(* every stored quaternion is a fixed point of the re-normalisation *)
Definition fix_store (st : store) : Prop := Forall (fun o => Forall (fun q => renorm q = q) (o_ori o)) st.

End Model.

(* the statement list of the code before commit 7b53805 (no `tiled`, no wrapper): kept so that the
   finding stays machine-checked *)
Definition prog_prefix : list instr :=
  [IDict; IKwargs; IFormatSrc; ICheckDim; ICheckExc; IWarn; IWarn; IPixAgg; IObservers;
   IPure; IPure; IPure; IPure; IPure; IPure; IPure; IPure; IPure; IPure;
   IPathLens; IPure; IPure; IPure; IPure; ITile; IPoso; IPure; IPure; IPure; IPure; IGroupKeys; IPure; IEval;
   IReduce; IRotate; IAggregate; ITrim; ISumup; IOutput; IDataframe; ISqueeze; IReturn].
