(* C08 -- executable instance of Model/Level2State.v (integer positions, orientation ids) and the
   comparison with what the implementation was observed to do.  Definitions only. *)
From Coq Require Import ZArith List Bool Arith.
From MV Require Import Model.Level2State.
Import ListNotations.

Definition XV := (Z * Z * Z)%type.
Definition XQ := Z.
Record xattr := mkAttr { a_key : option nat; a_dim : bool; a_exc : bool; a_shape : list nat }.
Definition xobj := obj XV XQ xattr.
Definition mkX (p : list XV) (q : list XQ) (a : xattr) : xobj := mkObj XV XQ xattr p q a.

(* behaviour of the field functions by global invocation index *)
Inductive beh := BOk | BNone | BRaise | BWrong.
Definition xF (tab : list beh) (k cnt : nat) (gi : ginput XV XQ) : gres nat :=
  match nth cnt tab BOk with
  | BOk => GOk nat k | BNone => GNone nat | BRaise => GRaise nat | BWrong => GWrong nat end.

(* rn: the re-normalisation of a stored orientation (identity on the exact orientation ids) *)
Definition xrun_r (rn : XQ -> XQ) (w : wrapper) (p : list instr) (c : call) (sch : sched) (tab : list beh)
           (cnt : nat) (st : list xobj) : result XV XQ xattr (list nat) :=
  getBH_level2 XV XQ xattr nat (list nat) (0, 0, 0)%Z 0%Z rn a_key a_dim a_exc a_shape (fun l => l) (xF tab)
               w p c sch cnt st.
Definition xrun := xrun_r (fun q => q).

Definition no_sched : sched := mkSched (fun _ => None) (fun _ => None).
Definition anon_at (pc : nat) : sched :=
  mkSched (fun i => if Nat.eqb i pc then Some EInjected else None) (fun _ => None).
Definition loop_at (pc : nat) (done : list nat) (half : option nat) : sched :=
  mkSched (fun _ => None) (fun i => if Nat.eqb i pc then Some (mkCrash done half EInjected) else None).

Definition exn_code (x : exn) : nat :=
  match x with EBadInput => 1 | EMissing => 2 | EAttribute => 3 | EType => 4 | EValue => 5
             | ECustom => 6 | EInjected => 7 end.
Definition out_code (o : outcome (list nat)) : nat :=
  match o with Returned _ _ => 0 | Raised _ x => exn_code x end.

Fixpoint list_eqb {X Y} (e : X -> Y -> bool) (a : list X) (b : list Y) : bool :=
  match a, b with
  | [], [] => true
  | x :: a', y :: b' => e x y && list_eqb e a' b'
  | _, _ => false
  end.
Definition v_eqb (a b : XV) : bool :=
  match a, b with (x, y, z), (x', y', z') => (x =? x')%Z && (y =? y')%Z && (z =? z')%Z end.

(* what was observed on the implementation for one call *)
Record xobs := mkObs { ob_out : nat;
                       ob_store : list (list XV * list XQ);
                       ob_trace : list (nat * nat * list nat * list nat) }.

Definition store_eqb (st : list xobj) (l : list (list XV * list XQ)) : bool :=
  list_eqb (fun o pq => list_eqb v_eqb (o_pos XV XQ xattr o) (fst pq) &&
                        list_eqb Z.eqb (o_ori XV XQ xattr o) (snd pq)) st l.
Definition trace_eqb (tr : list tr_ent) (l : list (nat * nat * list nat * list nat)) : bool :=
  list_eqb (fun t e => match e with (k, rows, pl, ol) =>
              Nat.eqb (t_key t) k && Nat.eqb (t_rows t) rows &&
              list_eqb Nat.eqb (t_plens t) pl && list_eqb Nat.eqb (t_olens t) ol end) tr l.

Definition check_obs (r : result XV XQ xattr (list nat)) (o : xobs) : bool :=
  Nat.eqb (out_code (r_out XV XQ xattr (list nat) r)) (ob_out o) &&
  store_eqb (r_store XV XQ xattr (list nat) r) (ob_store o) &&
  trace_eqb (r_trace XV XQ xattr (list nat) r) (ob_trace o).

Fixpoint subsets (l : list nat) : list (list nat) :=
  match l with
  | [] => [[]]
  | x :: r => let s := subsets r in s ++ map (cons x) s
  end.

Inductive fault := NoFault | AtPc (pc : nat) | InLoop (pc : nat).

Record xcase := mkCase { x_store : list xobj; x_call : call; x_tab : list beh; x_fault : fault;
                         x_obs : list xobs }.       (* the same call, made length x_obs times in a row *)

Fixpoint run_seq (w : wrapper) (p : list instr) (c : call) (sch : sched) (tab : list beh) (cnt : nat)
         (st : list xobj) (obs : list xobs) : bool :=
  match obs with
  | [] => true
  | o :: r => let res := xrun w p c sch tab cnt st in
              check_obs res o &&
              run_seq w p c sch tab (r_cnt XV XQ xattr (list nat) res) (r_store XV XQ xattr (list nat) res) r
  end.

Definition check_case (w : wrapper) (p : list instr) (x : xcase) : bool :=
  match x_fault x with
  | NoFault => run_seq w p (x_call x) no_sched (x_tab x) 0 (x_store x) (x_obs x)
  | AtPc pc => run_seq w p (x_call x) (anon_at pc) (x_tab x) 0 (x_store x) (x_obs x)
  | InLoop pc => (* the loops run over a set: any subset of the reset list may be done, one entry half done *)
                 let n := Nat.pred (length (x_store x)) in
                 existsb (fun done => existsb (fun half =>
                     run_seq w p (x_call x) (loop_at pc done half) (x_tab x) 0 (x_store x) (x_obs x))
                     (None :: map Some (seq 0 n))) (subsets (seq 0 n))
  end.

Fixpoint failing_from (w : wrapper) (p : list instr) (i : Z) (cs : list xcase) : list Z :=
  match cs with
  | [] => []
  | x :: r => if check_case w p x then failing_from w p (i + 1)%Z r else i :: failing_from w p (i + 1)%Z r
  end.
Definition failing (w : wrapper) (p : list instr) (cs : list xcase) : list Z := failing_from w p 0%Z cs.

(* the model's own prediction, for debugging a mismatch *)
Definition predict (w : wrapper) (p : list instr) (x : xcase) :=
  let r := xrun w p (x_call x) no_sched (x_tab x) 0 (x_store x) in
  (out_code (r_out XV XQ xattr (list nat) r),
   map (fun o => (o_pos XV XQ xattr o, o_ori XV XQ xattr o)) (r_store XV XQ xattr (list nat) r),
   map (fun t => (t_key t, t_rows t, t_plens t, t_olens t)) (r_trace XV XQ xattr (list nat) r)).
