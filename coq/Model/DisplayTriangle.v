(* C19 -- make_Triangle (traces_core.py, as of /repo commit 2fa0af8), modelled exactly on integer facets
   (definitions only).  Drawn coordinates are given times 1000 (= in mm).

     vec = np.cross(vert[1] - vert[0], vert[2] - vert[1])
     if np.all(np.cross(magnetization, vec) == 0):
         vec_len = np.linalg.norm(vec)
         epsilon = 1e-3 * vec / np.sqrt(vec_len) if vec_len > 0 else vec
         vert = np.concatenate([vert - epsilon, vert + epsilon])

   sqrt(|vec|) is irrational for most facets.  The executable model is EXACT on the representable facets:
   those whose |vec|^2 = q^4 for an integer q > 0 dividing every component of vec (then sqrt|vec| = q and
   1000*epsilon = vec / q is integral); on all other facets it answers None.  For every facet the fourth
   power of the offset is rational: (1000 * offset)^4 = |vec|^2 -- `tri_nn` below. *)
From Coq Require Import ZArith List Bool.
From MV Require Import Lib.OctZ Model.DisplayExec.
Import ListNotations.
Open Scope Z_scope.

Definition v3sub (a b : V3) : V3 := v3add a (v3neg b).
Definition v3div (a : V3) (q : Z) : V3 := let '(x, y, z) := a in (x / q, y / q, z / q).
Definition cross3 (a b : V3) : V3 :=
  let '(a0, a1, a2) := a in let '(b0, b1, b2) := b in
  (a1 * b2 - a2 * b1, a2 * b0 - a0 * b2, a0 * b1 - a1 * b0).

Definition tri_vec (v0 v1 v2 : V3) : V3 := cross3 (v3sub v1 v0) (v3sub v2 v1).
Definition tri_thickened (mag v0 v1 v2 : V3) : bool := v3eqb (cross3 mag (tri_vec v0 v1 v2)) (0, 0, 0).

Definition tri_nn (v0 v1 v2 : V3) : Z := dot3 (tri_vec v0 v1 v2) (tri_vec v0 v1 v2).   (* |vec|^2 *)
Definition tri_root (v0 v1 v2 : V3) : Z := Z.sqrt (Z.sqrt (tri_nn v0 v1 v2)).           (* sqrt |vec| *)
Definition tri_repr (v0 v1 v2 : V3) : bool :=
  let q := tri_root v0 v1 v2 in
  (0 <? q) && (q * q * (q * q) =? tri_nn v0 v1 v2)
  && v3eqb (v3smul q (v3div (tri_vec v0 v1 v2) q)) (tri_vec v0 v1 v2).

Definition make_triangle_x1000 (mag v0 v1 v2 : V3) : option (list V3) :=
  let s := v3smul 1000 in
  if tri_thickened mag v0 v1 v2 then
    if tri_repr v0 v1 v2 then
      let e := v3div (tri_vec v0 v1 v2) (tri_root v0 v1 v2) in
      Some [v3sub (s v0) e; v3sub (s v1) e; v3sub (s v2) e; v3add (s v0) e; v3add (s v1) e; v3add (s v2) e]
    else None
  else Some [s v0; s v1; s v2].

(* size of the facet: largest coordinate extent (np.ptp(...).max()) *)
Definition ext3 (a b c : Z) : Z := Z.max a (Z.max b c) - Z.min a (Z.min b c).
Definition tri_size (v0 v1 v2 : V3) : Z :=
  let '(x0, y0, z0) := v0 in let '(x1, y1, z1) := v1 in let '(x2, y2, z2) := v2 in
  Z.max (ext3 x0 x1 x2) (Z.max (ext3 y0 y1 y2) (ext3 z0 z1 z2)).

(* SPECIFICATION: a drawn vertex d (times 1000) is within 4e-3 * size of the facet's plane:
   |n.(d/1000 - v0)| / |n| <= 4e-3 * L   <=>   (n.(d - 1000 v0))^2 <= 16 L^2 (n.n)          *)
Definition near_plane (v0 v1 v2 d : V3) : bool :=
  let n := tri_vec v0 v1 v2 in
  let o := dot3 n (v3sub d (v3smul 1000 v0)) in
  o * o <=? 16 * tri_size v0 v1 v2 * tri_size v0 v1 v2 * dot3 n n.

Definition scale_facet (s : Z) (v : V3) : V3 := v3smul s v.

(* ---- RECORD of the code before 2fa0af8 (epsilon = 1e-3 * vec), kept only to state what was wrong *)
Definition make_triangle_pre_2fa0af8_x1000 (mag v0 v1 v2 : V3) : list V3 :=
  let s := v3smul 1000 in
  if tri_thickened mag v0 v1 v2 then
    let e := tri_vec v0 v1 v2 in
    [v3sub (s v0) e; v3sub (s v1) e; v3sub (s v2) e; v3add (s v0) e; v3add (s v1) e; v3add (s v2) e]
  else [s v0; s v1; s v2].
