(* C15 -- runners of the loop models on primitive binary64 floats (definitions only).
   Used by generated case files (vm_compute) and by the float counterexamples of Proofs/LoopProofs.v.
   Every runner returns (code, values): code = number of loop-body executions, -1 = out of fuel,
   -2 = raised. *)
From Coq Require Import ZArith List Bool.
From Coq Require Import Floats.PrimFloat.
From MV Require Import Model.LoopNum Gen.GenLoop Model.LoopModel.
Import ListNotations.

Definition f_nan : float := PrimFloat.div PrimFloat.zero PrimFloat.zero.

Definition out1 (r : res float) : Z * list float :=
  match r with Done n v => (Z.of_nat n, [v]) | OutOfFuel => ((-1)%Z, []) | Raised => ((-2)%Z, []) end.
Definition outl (r : res (list float)) : Z * list float :=
  match r with Done n v => (Z.of_nat n, v) | OutOfFuel => ((-1)%Z, []) | Raised => ((-2)%Z, []) end.
Definition outp (r : res (list (float * float))) : Z * list float :=
  match r with
  | Done n v => (Z.of_nat n, flat_map (fun ab => [fst ab; snd ab]) v)
  | OutOfFuel => ((-1)%Z, []) | Raised => ((-2)%Z, []) end.

Definition st7 := (float * float * float * float * float * float * float)%type.
Definition in4 := (float * float * float * float)%type.

Definition run_cel_iter0 (fuel : nat) (st : st7) := out1 (cel_iter0 NumF fuel st).
Definition run_cel_iterv (fuel : nat) (rows : list st7) := outl (cel_iterv NumF fuel rows).
Definition run_cel_iter (fuel : nat) (rows : list st7) := outl (cel_iter NumF fuel rows).
Definition run_cel0 (fuel : nat) (a : in4) := let '(kc, p, c, s) := a in out1 (cel0 NumF fuel kc p c s).
Definition run_celv (fuel : nat) (rows : list in4) := outl (celv NumF fuel rows).
Definition run_cel (fuel : nat) (rows : list in4) := outl (cel NumF fuel rows).

(* current_circle_Hfield(r0, r, z, i0) rows -> Hr, Hz per row *)
Definition mk_cir (a : in4) : cir_in NumF :=
  let '(r0, r, z, i0) := a in Build_cir_in NumF r0 r z i0.
Definition run_circle_core (fuel : nat) (rows : list in4) := outp (circle_core NumF fuel (map mk_cir rows)).

(* BHJM_circle rows (r, z, diameter, current): mask ids (1, 2, 3, 5 general, 0 none) and the general rows' field *)
Definition mk_cw (a : in4) : cir_row NumF :=
  let '(r, z, d, i0) := a in Build_cir_row NumF r z d i0.
Definition cir_branch (w : cir_row NumF) : Z :=
  if cir_mask5 NumF w then 5%Z
  else if cir_mask1 NumF w then 1%Z else if cir_mask3 NumF w then 3%Z else 2%Z.
Definition run_circle_masks (rows : list in4) : list Z := map (fun a => cir_branch (mk_cw a)) rows.
Definition run_circle_general (fuel : nat) (rows : list in4) :=
  outp (circle_general NumF fuel (map mk_cw rows)).

(* magnet_cylinder_axial_Bfield(z0, r, z) rows -> Br, Bz per row *)
Definition mk_cyl (a : float * float * float) : cyl_in NumF :=
  let '(z0, r, z) := a in Build_cyl_in NumF z0 r z.
Definition run_cyl_axial (fuel : nat) (rows : list (float * float * float)) :=
  outp (cylinder_axial_core NumF fuel (map mk_cyl rows)).
Definition run_cyl_edge (rows : list (float * float * float)) : list bool :=
  map (fun a => cyl_on_edge NumF (mk_cyl a)) rows.
