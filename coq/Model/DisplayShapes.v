(* C19 -- local shape generators that are exact tables (definitions only).
   The literal tables cub_sx, cub_sy, cub_sz, cub_i, cub_j, cub_k and tetra_triangles are TRANSLATED from
   traces_base.py on every run (Gen/GenShapes.v).

   traces_base.make_Cuboid (used by traces_core.make_Cuboid with dimension=obj.dimension):
        "i": [7, 0, 0, 0, 4, 4, 2, 6, 4, 0, 3, 7], "j": [0, 7, 1, 2, 6, 7, 1, 2, 5, 5, 2, 2],
        "k": [3, 4, 2, 3, 5, 6, 5, 5, 0, 1, 7, 6],
        "x": [-1, -1, 1, 1, -1, -1, 1, 1] * 0.5 * dimension[0],
        "y": [-1, 1, 1, -1, -1, 1, 1, -1] * 0.5 * dimension[1],
        "z": [-1, -1, -1, -1, 1, 1, 1, 1] * 0.5 * dimension[2]
   Coordinates are given DOUBLED (2x = sign * dimension) so that integer dimensions stay integral.

   traces_core.make_Polyline, kind "line":  x, y, z = obj.vertices.T   (the local model IS the vertex list) *)
From Coq Require Import ZArith List Bool.
From MV Require Import Lib.ListZ Lib.Rigid Lib.OctZ Gen.GenShapes Model.DisplayModel Model.DisplayExec Model.DisplayTriangle.
Import ListNotations.
Open Scope Z_scope.

Fixpoint zip3 (a b c : list Z) : list V3 :=
  match a, b, c with
  | x :: a', y :: b', z :: c' => (x, y, z) :: zip3 a' b' c'
  | _, _, _ => []
  end.

Definition cub_signs : list V3 := zip3 cub_sx cub_sy cub_sz.
Definition cuboid_facets : list V3 := zip3 cub_i cub_j cub_k.        (* vertex indices of the 12 triangles *)

Definition scale3 (dim s : V3) : V3 :=
  let '(a, b, c) := dim in let '(sx, sy, sz) := s in (sx * a, sy * b, sz * c).
Definition cuboid_vertices_x2 (dim : V3) : list V3 := map (scale3 dim) cub_signs.

Definition coord (ax : nat) (v : V3) : Z :=
  let '(x, y, z) := v in match ax with O => x | S O => y | _ => z end.
Definition is_sign (s : Z) : bool := (s =? 1) || (s =? -1).
Definition sign_at (i : Z) : V3 := nthZ (0, 0, 0) cub_signs i.

(* the facet f = (i, j, k) lies in the face {coordinate ax = sg * dim/2} *)
Definition facet_in_face (ax : nat) (sg : Z) (f : V3) : bool :=
  let '(i, j, k) := f in
  (coord ax (sign_at i) =? sg) && (coord ax (sign_at j) =? sg) && (coord ax (sign_at k) =? sg).

Definition all_faces : list (nat * Z) := [(0%nat, -1); (0%nat, 1); (1%nat, -1); (1%nat, 1); (2%nat, -1); (2%nat, 1)].

Definition facet_ok (f : V3) : bool :=
  let '(i, j, k) := f in
  (0 <=? i) && (i <? 8) && (0 <=? j) && (j <? 8) && (0 <=? k) && (k <? 8)
  && negb (i =? j) && negb (j =? k) && negb (i =? k)
  && existsb (fun face : nat * Z => facet_in_face (fst face) (snd face) f) all_faces.

(* a face is tiled: exactly two facets lie in it, they share exactly two vertices (a diagonal: the two shared
   corners differ in both in-face coordinates) and together use all four corners of the face *)
Definition mem3 (x : Z) (f : V3) : bool := let '(i, j, k) := f in (x =? i) || (x =? j) || (x =? k).
Definition idx3 (f : V3) : list Z := let '(i, j, k) := f in [i; j; k].
Definition face_tiled (face : nat * Z) : bool :=
  match filter (facet_in_face (fst face) (snd face)) cuboid_facets with
  | [f; g] =>
      let shared := filter (fun x => mem3 x g) (idx3 f) in
      let corners := filter (fun x => (coord (fst face) (sign_at x) =? snd face)) [0; 1; 2; 3; 4; 5; 6; 7] in
      match shared with
      | [p; q] =>
          forallb (fun ax => (Nat.eqb ax (fst face)) || negb (coord ax (sign_at p) =? coord ax (sign_at q)))
                  [0%nat; 1%nat; 2%nat]
          && forallb (fun x => mem3 x f || mem3 x g) corners && (Z.of_nat (length corners) =? 4)
      | _ => false
      end
  | _ => false
  end.

(* ---- Polyline: the line trace is the vertex list; placed by the generic pipeline of DisplayModel *)
Section Polyline.
Context {O : RigidOps} {SO : ScaleOps O}.
Definition polyline_line (vertices : list V) : list V := vertices.
Definition polyline_frames (path : list pose) (s : selector) (f : Sc) (vertices : list V) : option (list (list V)) :=
  object_frames path s f (polyline_line vertices).
End Polyline.

(* ---- make_Tetrahedron:  triangles = [[0,2,1],[0,3,2],[1,3,0],[1,2,3]] ;  points = check_chirality([vertices])[0]
   check_chirality: det(p1-p0, p2-p0, p3-p0) < 0  ->  p2 and p3 are exchanged *)
Definition det3 (a b c : V3) : Z := dot3 a (cross3 b c).
Definition tetra_vertices (p0 p1 p2 p3 : V3) : list V3 :=
  if det3 (v3sub p1 p0) (v3sub p2 p0) (v3sub p3 p0) <? 0 then [p0; p1; p3; p2] else [p0; p1; p2; p3].
Definition tetra_facets : list V3 := tetra_triangles.

Definition tetra_facet_ok (f : V3) : bool :=
  let '(i, j, k) := f in
  (0 <=? i) && (i <? 4) && (0 <=? j) && (j <? 4) && (0 <=? k) && (k <? 4)
  && negb (i =? j) && negb (j =? k) && negb (i =? k).
(* the facet that does not use vertex m *)
Definition omits (m : Z) (f : V3) : bool := let '(i, j, k) := f in negb ((m =? i) || (m =? j) || (m =? k)).
Definition tetra_table_ok : bool :=
  forallb tetra_facet_ok tetra_facets && (Z.of_nat (length tetra_facets) =? 4)
  && forallb (fun m => Z.of_nat (length (filter (omits m) tetra_facets)) =? 1) [0; 1; 2; 3].

(* ---- correspondence cases: show(Cuboid(dimension=dim)), show(Tetrahedron(vertices)) read from the plotly figure *)
Inductive scase :=
| CCuboid (dim : V3) (exp_vertices_x2 : list V3) (exp_facets : list V3)
| CTetra (p0 p1 p2 p3 : V3) (exp_vertices : list V3) (exp_facets : list V3).
Definition check_scase (c : scase) : bool :=
  match c with
  | CCuboid dim ev ef => dlist_eqb v3eqb (cuboid_vertices_x2 dim) ev && dlist_eqb v3eqb cuboid_facets ef
  | CTetra p0 p1 p2 p3 ev ef => dlist_eqb v3eqb (tetra_vertices p0 p1 p2 p3) ev && dlist_eqb v3eqb tetra_facets ef
  end.
Fixpoint sfailing_from (i : Z) (cs : list scase) : list Z :=
  match cs with
  | [] => []
  | c :: r => if check_scase c then sfailing_from (i + 1) r else i :: sfailing_from (i + 1) r
  end.
Definition sfailing (cs : list scase) : list Z := sfailing_from 0 cs.
