(* Executable observation / comparison functions for the forest model (correspondence check)
   and the executable form of the invariant.  Definitions only. *)
From Coq Require Import List Bool Arith PeanoNat.
From MV Require Import Model.ForestModel.
Import ListNotations.

Fixpoint list_eqb {A} (eqb : A -> A -> bool) (l1 l2 : list A) : bool :=
  match l1, l2 with
  | [], [] => true
  | x :: r1, y :: r2 => eqb x y && list_eqb eqb r1 r2
  | _, _ => false
  end.
Definition nl_eqb := list_eqb Nat.eqb.
Definition on_eqb (a b : option nat) : bool :=
  match a, b with None, None => true | Some x, Some y => Nat.eqb x y | _, _ => false end.
Definition outcome_eqb (a b : outcome) : bool :=
  match a, b with Ok, Ok | ErrBad, ErrBad | ErrOther, ErrOther => true | _, _ => false end.

(* everything the public API shows about one object, by creation index *)
Record obs := mkObs {
  o_parent : option nat;
  o_children : list nat; o_sources : list nat; o_sensors : list nat; o_collections : list nat;
  o_children_all : list nat; o_sources_all : list nat; o_sensors_all : list nat;
  o_collections_all : list nat }.

Definition observe (s : state) (i : nat) : obs :=
  let o := get s i in
  mkObs (parent o) (children o) (sources o) (sensors o) (collections o)
        (children_all s i) (sources_all s i) (sensors_all s i) (collections_all s i).

Definition obs_eqb (a b : obs) : bool :=
  on_eqb (o_parent a) (o_parent b) && nl_eqb (o_children a) (o_children b)
  && nl_eqb (o_sources a) (o_sources b) && nl_eqb (o_sensors a) (o_sensors b)
  && nl_eqb (o_collections a) (o_collections b)
  && nl_eqb (o_children_all a) (o_children_all b) && nl_eqb (o_sources_all a) (o_sources_all b)
  && nl_eqb (o_sensors_all a) (o_sensors_all b)
  && nl_eqb (o_collections_all a) (o_collections_all b).

Definition observe_all (s : state) : list obs := map (observe s) (seq 0 (length s)).

(* a history with, after every operation, the outcome and the full observable state that the
   implementation produced *)
Record fcase := mkFCase {
  fc_variant : variant; fc_ops : list op; fc_exp : list (outcome * list obs) }.

(* index of the first operation after which model and implementation differ *)
Fixpoint first_diff (v : variant) (s : state) (i : nat) (h : list op)
         (es : list (outcome * list obs)) : option nat :=
  match h, es with
  | [], [] => None
  | o :: h', (r, e) :: es' =>
    let '(s', r') := step v s o in
    if outcome_eqb r r' && list_eqb obs_eqb (observe_all s') e
    then first_diff v s' (S i) h' es' else Some i
  | _, _ => Some i
  end.

Definition check_fcase (c : fcase) : option nat :=
  first_diff (fc_variant c) [] 0 (fc_ops c) (fc_exp c).

Fixpoint failing_from (i : nat) (cs : list fcase) : list (nat * nat) :=
  match cs with
  | [] => []
  | c :: r => match check_fcase c with
              | None => failing_from (S i) r
              | Some k => (i, k) :: failing_from (S i) r
              end
  end.
Definition failing (cs : list fcase) : list (nat * nat) := failing_from 0 cs.

(* ---------------------------------------------------------------- executable invariant *)
Fixpoint count (x : nat) (l : list nat) : nat :=
  match l with [] => 0 | y :: r => (if Nat.eqb y x then 1 else 0) + count x r end.

Fixpoint nodupb (l : list nat) : bool :=
  match l with [] => true | x :: r => negb (mem x r) && nodupb r end.

(* follow parent pointers; true when a root is reached within the fuel *)
Fixpoint reaches_root (fuel : nat) (s : state) (x : nat) : bool :=
  match parent (get s x) with
  | None => true
  | Some p => match fuel with 0 => false | S f => reaches_root f s p end
  end.

Definition obj_ok (s : state) (i : nat) : bool :=
  let o := get s i in
  (* a parent is a collection of the store and lists the object *)
  (match parent o with
   | None => true
   | Some p => Nat.ltb p (length s) && is_coll s p && mem i (children (get s p))
               && negb (is_junk s i)
   end)
  (* listed children are live, listed once, and point back *)
  && forallb (fun x => Nat.ltb x (length s) && negb (is_junk s x)
                       && on_eqb (parent (get s x)) (Some i)) (children o)
  && nodupb (children o)
  && (is_coll s i || match children o with [] => true | _ => false end)
  (* cached typed lists are the ordered typed filters of children *)
  && nl_eqb (sources o) (filter (is_k KSource s) (children o))
  && nl_eqb (sensors o) (filter (is_k KSensor s) (children o))
  && nl_eqb (collections o) (filter (is_k KColl s) (children o))
  (* no cycle through this object *)
  && reaches_root (length s) s i.

Definition inv_b (s : state) : bool := forallb (obj_ok s) (seq 0 (length s)).
