(* Hand-written model of the COMPOUND behaviour of magpylib objects: what
   BaseTransform.move / BaseTransform._rotate and the BaseGeo position / orientation
   setters and reset_path do to an object that has children (a Collection), and to the
   whole tree below it.  A tree node is an object (two path arrays, PathModel.obj)
   plus the ordered list of its children; a leaf is a node without children
   (`getattr(self, "children", [])`).

   Built on PathModel (apply_move, apply_rotation with its parent_path branch) and, through
   it, on the TRANSLATED Gen.GenPath.path_padding_param / pad_slice_path.
   Definitions only: this file must still run when a proof breaks. *)
From Coq Require Import ZArith List Bool.
From MV Require Import Lib.ListZ Lib.Rigid Gen.GenPath Model.PathModel.
Import ListNotations.
Open Scope Z_scope.

Section CompoundModel.
Context {O : RigidOps}.

Inductive node := Node (o : obj) (ch : list node).

Definition nobj (t : node) : obj := match t with Node o _ => o end.
Definition nch (t : node) : list node := match t with Node _ ch => ch end.

(* numpy elementwise a (+/-) b on two (m,3) arrays *)
Definition zipw {A B C} (f : A -> B -> C) (l1 : list A) (l2 : list B) : list C :=
  map (fun ab => f (fst ab) (snd ab)) (combine l1 l2).

(* BaseTransform.move:
     for child in getattr(self, "children", []): child.move(displacement, start=start)
     apply_move(self, displacement, start=start)                                        *)
Fixpoint move_t (t : node) (d : inp V) (start : option Z) : node :=
  match t with
  | Node o ch =>
      let ch' := map (fun c => move_t c d start) ch in
      Node (apply_move o d start) ch'
  end.

(* BaseTransform._rotate:
     for child in children:
         ppth = self._position if parent_path is None else parent_path
         child._rotate(rotation, anchor=anchor, start=start, parent_path=ppth)
     apply_rotation(self, rotation, anchor=anchor, start=start, parent_path=parent_path)
   (self._position is read BEFORE self is rotated: the children come first)            *)
Fixpoint rotate_t (t : node) (r : inp G) (anchor : option (inp V)) (start : option Z)
    (parent_path : option (list V)) : node :=
  match t with
  | Node o ch =>
      let ppth := match parent_path with None => pos o | Some p => p end in
      let ch' := map (fun c => rotate_t c r anchor start (Some ppth)) ch in
      Node (apply_rotation o r anchor start parent_path) ch'
  end.

(* the child loop of the position setter; `rec` is the setter itself (child.position = ...):
     for child in children:
         old_pos = pad_slice_path(self._position, old_pos)
         child_pos = pad_slice_path(self._position, child._position)
         rel_child_pos = child_pos - old_pos
         child.position = self._position + rel_child_pos                                *)
Definition setpos_children (rec : node -> list V -> node) (newpos : list V)
  : list V -> list node -> list node :=
  fix loop (old_pos : list V) (cs : list node) {struct cs} : list node :=
  match cs with
  | [] => []
  | c :: rest =>
      let old_pos := pad_slice_path vzero newpos old_pos in
      let child_pos := pad_slice_path vzero newpos (pos (nobj c)) in
      let rel_child_pos := zipw vsub child_pos old_pos in
      rec c (zipw vadd newpos rel_child_pos) :: loop old_pos rest
  end.

(* BaseGeo.position setter; ps = the validated input reshaped to (-1, 3) *)
Fixpoint set_position_t (t : node) (ps : list V) : node :=
  match t with
  | Node o ch =>
      let old_pos := pos o in
      let o' := {| pos := ps; ori := pad_slice_path gone ps (ori o) |} in
      Node o' (setpos_children set_position_t ps old_pos ch)
  end.

(* self.orientation: a single Rotation when the path has length 1, else the whole path;
   np.squeeze(...) of the padded old quaternions likewise *)
Definition squeeze_rot (qs : list G) : inp G :=
  if zlen qs =? 1 then Scalar (nthZ gone qs 0) else Vector qs.

(* Rotation * Rotation.inv(): single*single, or elementwise on equal lengths *)
Definition rot_mul_inv (a b : inp G) : inp G :=
  match a, b with
  | Scalar x, Scalar y => Scalar (gmul x (ginv y))
  | Scalar x, Vector ys => Vector (map (fun y => gmul x (ginv y)) ys)
  | Vector xs, Scalar y => Vector (map (fun x => gmul x (ginv y)) xs)
  | Vector xs, Vector ys => Vector (zipw (fun x y => gmul x (ginv y)) xs ys)
  end.

(* BaseGeo.orientation setter; qs = check_format_input_orientation(inp, init_format=True):
     old_oriQ = self._orientation.as_quat(); self._orientation = R.from_quat(oriQ)
     self._position = pad_slice_path(oriQ, self._position)
     for child in children:
         child.position = pad_slice_path(self._position, child._position)
         old_ori_pad = R.from_quat(np.squeeze(pad_slice_path(oriQ, old_oriQ)))
         child.rotate(self.orientation * old_ori_pad.inv(), anchor=self._position, start=0) *)
Definition set_orientation_t (t : node) (qs : list G) : node :=
  match t with
  | Node o ch =>
      let old_ori := ori o in
      let o' := {| pos := pad_slice_path vzero qs (pos o); ori := qs |} in
      let ch' := map (fun c =>
          let c1 := set_position_t c (pad_slice_path vzero (pos o') (pos (nobj c))) in
          let old_ori_pad := squeeze_rot (pad_slice_path gone qs old_ori) in
          rotate_t c1 (rot_mul_inv (squeeze_rot qs) old_ori_pad)
                   (Some (Vector (pos o'))) (Some 0) None) ch in
      Node o' ch'
  end.

(* BaseGeo.reset_path: self.position = (0,0,0); self.orientation = None *)
Definition reset_path_t (t : node) : node :=
  set_orientation_t (set_position_t t [vzero]) [gone].

(* the public operations, applied to one node (self) *)
Definition top_step (t : node) (x : op) : node :=
  match x with
  | Move d st => move_t t d st
  | Rotate r a st => rotate_t t r a st None
  | SetPos p => set_position_t t (as_rows p)
  | SetOri r => set_orientation_t t (match r with None => [gone] | Some r => as_rows r end)
  | Reset => reset_path_t t
  end.

(* ---- addressing a node of the tree: the list of child indices from the root *)
Definition tpath := list nat.

Fixpoint upd_nth {A} (i : nat) (f : A -> A) (l : list A) : list A :=
  match l, i with
  | [], _ => []
  | x :: r, 0%nat => f x :: r
  | x :: r, S i' => x :: upd_nth i' f r
  end.

Fixpoint at_path (f : node -> node) (p : tpath) (t : node) : node :=
  match p with
  | [] => f t
  | i :: p' => match t with Node o ch => Node o (upd_nth i (at_path f p') ch) end
  end.

Fixpoint subtree_at (p : tpath) (t : node) : option node :=
  match p with
  | [] => Some t
  | i :: p' => match nth_error (nch t) i with Some c => subtree_at p' c | None => None end
  end.

(* one user call `node_at(p).<operation>`; the rest of the tree is not touched *)
Definition tree_step (t : node) (px : tpath * op) : node :=
  at_path (fun s => top_step s (snd px)) (fst px) t.

Definition tree_run (t : node) (h : list (tpath * op)) : node := fold_left tree_step h t.

(* ---- vocabulary of the theorems *)

(* pose of d expressed in the frame of c at path index i:
   ( R_c^-1 (p_d - p_c) , R_c^-1 R_d ) *)
Definition rel_pose (c d : obj) (i : Z) : V * G :=
  let qc := ginv (nthZ gone (ori c) i) in
  (act qc (vsub (nthZ vzero (pos d) i) (nthZ vzero (pos c) i)), gmul qc (nthZ gone (ori d) i)).

Fixpoint tree_all (P : obj -> Prop) (t : node) : Prop :=
  match t with
  | Node o ch => P o /\ (fix all (l : list node) : Prop :=
                           match l with [] => True | c :: r => tree_all P c /\ all r end) ch
  end.

Definition wf_tree (t : node) : Prop := tree_all wf t.

Fixpoint is_prefix (p q : tpath) : bool :=
  match p, q with
  | [], _ => true
  | i :: p', j :: q' => Nat.eqb i j && is_prefix p' q'
  | _ :: _, [] => false
  end.

(* what a sensor with pose s reads, at pixel offset x, of a source with pose d whose field in
   its own frame is f (the C03/C04 element formula):
   R_s^-1 R_d f( R_d^-1 (p_s + R_s x - p_d) ) *)
Definition elem_field (f : V -> V) (x : V) (s d : V * G) : V :=
  act (gmul (ginv (snd s)) (snd d))
      (f (act (ginv (snd d)) (vsub (vadd (fst s) (act (snd s) x)) (fst d)))).

Definition pose_at (o : obj) (i : Z) : V * G := (nthZ vzero (pos o) i, nthZ gone (ori o) i).

End CompoundModel.
