(* C13 -- executable instances of Model/ReprModel.v used by the correspondence check (DEFINITIONS ONLY).

   Each checker takes the inputs of one call of the real code together with what the real code returned and
   says whether the model computes the same thing; harness/props/C13.py generates the case lists, runs them with
   vm_compute and reports the indices that fail.
     * seg_case_ok      : BHJM_cylinder_segment_internal with integer-valued STUB cores (the stubs depend on the
                          position inside the batch they are called with, so gather/scatter order is observable);
     * mesh_case_ok     : np.unique(axis=0, return_inverse=True) + reshape of from_mesh / from_triangles and
                          vertices[faces], on integer vertices;
     * tricoll_case_ok  : TriangularMesh.to_TriangleCollection in Z^3 with the signed permutation matrices;
     * run_sphere / run_dipole / run_sphere_moment / run_cyl_JM : the formula models on binary64 (PrimFloat). *)
From Coq Require Import ZArith List Bool Floats.
From MV Require Import Lib.Rigid Lib.OctZ Model.ReprModel.
Import ListNotations.
Local Open Scope Z_scope.

(* ------------------------------------------------------------------ integers as a numeric carrier *)
Definition ZNum : NumOps := {|
  num := Z; nadd := Z.add; nsub := Z.sub; nmul := Z.mul; ndiv := Z.div; nsqrt := Z.sqrt; nabs := Z.abs;
  nofZ := fun z => z; npi := 3;
  nltb := Z.ltb; nleb := Z.leb; neqb := Z.eqb;
  ndiv0 := fun _ => 0
|}.

Definition fcode (f : fieldT) : Z := match f with FB => 1 | FH => 2 | FJ => 3 | FM => 4 end.

Definition zvec : Type := @vec ZNum.
Definition zsrow : Type := @srow ZNum.
Definition zcrow : Type := @crow ZNum.

(* stub for BHJM_cylinder_segment: row k of the batch it is called with *)
Fixpoint stub_seg_from (k : Z) (f : fieldT) (rows : list zsrow) : list zvec :=
  match rows with
  | [] => []
  | ((ox, oy, oz), (px, py, pz), (r1, r2, h, phi1, phi2)) :: t =>
      (1000000 * fcode f + 1000 * k + ox + 2 * oy + 3 * oz,
       7 * px - 5 * py + 3 * pz + 11 * r1 + 13 * r2,
       17 * h + 19 * phi1 - 23 * phi2 + k) :: stub_seg_from (k + 1) f t
  end.
Definition stub_seg := stub_seg_from 0.

(* stub for BHJM_magnet_cylinder *)
Fixpoint stub_cyl_from (k : Z) (f : fieldT) (rows : list zcrow) : list zvec :=
  match rows with
  | [] => []
  | ((ox, oy, oz), (px, py, pz), (d, h)) :: t =>
      (- 2000000 * fcode f + 500 * k + 3 * ox - oy + 2 * oz,
       2 * px + 3 * py - 7 * pz + 29 * d,
       31 * h - 37 * d + 5 * k + px) :: stub_cyl_from (k + 1) f t
  end.
Definition stub_cyl := stub_cyl_from 0.

Definition zvec_eqb (a b : zvec) : bool :=
  let '(a1, a2, a3) := a in let '(b1, b2, b3) := b in (a1 =? b1) && (a2 =? b2) && (a3 =? b3).

Fixpoint list_eqb {A} (e : A -> A -> bool) (l l' : list A) : bool :=
  match l, l' with
  | [], [] => true
  | x :: t, y :: t' => e x y && list_eqb e t t'
  | _, _ => false
  end.

Definition seg_case : Type := (fieldT * list zsrow * list zvec)%type.
Definition seg_case_ok (c : seg_case) : bool :=
  let '(f, rows, expected) := c in
  list_eqb zvec_eqb (@seg_internal ZNum stub_seg stub_cyl f rows) expected.

(* indices of the cases a checker rejects *)
Fixpoint failing_from {A} (ok : A -> bool) (k : Z) (l : list A) : list Z :=
  match l with
  | [] => []
  | c :: t => if ok c then failing_from ok (k + 1) t else k :: failing_from ok (k + 1) t
  end.
Definition failing {A} (ok : A -> bool) (l : list A) : list Z := failing_from ok 0 l.

(* ------------------------------------------------------------------ mesh constructors on integer vertices *)
Definition nat3_eqb (a b : tri3 nat) : bool :=
  let '(a1, a2, a3) := a in let '(b1, b2, b3) := b in Nat.eqb a1 b1 && Nat.eqb a2 b2 && Nat.eqb a3 b3.
Definition ztri_eqb (a b : tri3 z3) : bool :=
  let '(a1, a2, a3) := a in let '(b1, b2, b3) := b in z3_eqb a1 b1 && z3_eqb a2 b2 && z3_eqb a3 b3.

(* (input mesh, vertices returned, faces returned, vertices[faces] returned) *)
Definition mesh_case : Type := (list (tri3 z3) * list z3 * list (tri3 nat) * list (tri3 z3))%type.
Definition mesh_case_ok (c : mesh_case) : bool :=
  let '(mesh, verts, faces, mesh_out) := c in
  list_eqb z3_eqb (mesh_vertices z3_eqb z3_ltb mesh) verts &&
  list_eqb nat3_eqb (mesh_faces z3_eqb z3_ltb mesh) faces &&
  list_eqb ztri_eqb (index_faces (0, 0, 0) verts faces) mesh_out.

(* ------------------------------------------------------------------ to_TriangleCollection in the octahedral instance *)
Definition otri : Type := (tri3 V3 * V3 * oct)%type.                (* vertices, position, orientation of a child *)
Definition otri_eqb (a b : otri) : bool :=
  let '((a1, a2, a3), ap, ao) := a in let '((b1, b2, b3), bp, bo) := b in
  v3eqb a1 b1 && v3eqb a2 b2 && v3eqb a3 b3 && v3eqb ap bp && oct_eqb ao bo.

(* (mesh, position, orientation, collection position, collection orientation, children) *)
Definition tricoll_case : Type := (list (tri3 V3) * V3 * oct * V3 * oct * list otri)%type.
Definition tricoll_case_ok (c : tricoll_case) : bool :=
  let '(mesh, pos, ori, cpos, cori, children) := c in
  let '((mp, mo), tris) := @to_triangle_collection OctOps unit tt mesh pos ori in
  v3eqb mp cpos && oct_eqb mo cori &&
  list_eqb otri_eqb (map (fun t => (t_verts unit t, t_pos unit t, t_ori unit t)) tris) children.

(* ------------------------------------------------------------------ formula models on binary64 *)
Definition fvec : Type := (float * float * float)%type.
Definition fflat (v : fvec) : list float := let '(a, b, c) := v in [a; b; c].

Definition run_sphere (f : fieldT) (mu0 : float) (o : fvec) (d : float) (p : fvec) : list float :=
  fflat (@sphere_row FNum f mu0 o d p).
Definition run_dipole (f : fieldT) (mu0 : float) (o m : fvec) : list float :=
  fflat (@bhjm_dipole FNum f mu0 o m).
(* the Dipole equivalent to the Sphere, evaluated at the same observer *)
Definition run_sphere_as_dipole (f : fieldT) (mu0 : float) (o : fvec) (d : float) (p : fvec) : list float :=
  fflat (@bhjm_dipole FNum f mu0 o (@sphere_moment FNum mu0 d p)).
Definition run_cyl_JM (f : fieldT) (mu0 : float) (o : fvec) (d h : float) (p : fvec) : list float :=
  fflat (@cyl_JM_row FNum mu0 f (o, p, (d, h))).

(* the full-angle shortcut with the J/M branch of BHJM_magnet_cylinder, one row, on binary64 *)
Definition run_full_segment_JM (f : fieldT) (mu0 : float) (o : fvec) (r1 r2 h phi1 phi2 : float) (p : fvec) : list float :=
  fflat (@full_cylinder_spec FNum (@cyl_JM_row FNum mu0) f (o, p, (r1, r2, h, phi1, phi2))).

(* a ring magnet r1 = 0.8205, r2 = 1.222, h = 1.86, axial polarization, observer in the bore one ulp below the
   plane of the bottom face (local coordinates as BHJM_cylinder_segment_internal receives them for
   position (0,0,-0.1635) and observer z = -0.1635 - 0.93) *)
Definition bore_witness : @srow FNum :=
  ((0x1.c5f52a2fdcc89p-3, 0x1.617fa3e939600p-2, (-0x1.dc28f5c28f5c4p-1)), (0, 0, 1),
   (0x1.a4189374bc6a8p-1, 0x1.38d4fdf3b645ap+0, 0x1.dc28f5c28f5c3p+0, 0, 0x1.68p+8))%float.
Definition mu0_f : float := 0x1.515370f8e0229p-20%float.

(* ------------------------------------------------------------------ the prologue of BHJM_cylinder_segment (/repo 526c29b):
   section angles (degrees, here integers) reduced by whole turns into [-360, 360]
     turns = where(phi2 > 360, ceil((phi2-360)/360), where(phi1 < -360, -ceil((-360-phi1)/360), 0)) *)
Definition zceil_div (a b : Z) : Z := - ((- a) / b).
Definition seg_turns (phi1 phi2 : Z) : Z :=
  if 360 <? phi2 then zceil_div (phi2 - 360) 360
  else if phi1 <? -360 then - zceil_div (-360 - phi1) 360
  else 0.
Definition seg_reduce (phi1 phi2 : Z) : Z * Z :=
  let t := seg_turns phi1 phi2 in (phi1 - 360 * t, phi2 - 360 * t).

(* (phi1, phi2, reduced phi1, reduced phi2) as observed on the implementation *)
Definition reduce_case : Type := (Z * Z * Z * Z)%type.
Definition reduce_case_ok (c : reduce_case) : bool :=
  let '(p1, p2, q1, q2) := c in let '(r1, r2) := seg_reduce p1 p2 in (r1 =? q1) && (r2 =? q2).
