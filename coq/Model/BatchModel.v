(* List-level models of the batch-level constructs of the field code (C06): constructs through
   which the result of one row of a vectorised call could depend on the other rows.
   Rows are list elements; a core function applied to a compressed batch is `map g`.
   Definitions only.  Parameters marked (Gen) are translated from /repo by translate/gen_batch.py. *)
From Coq Require Import List Arith Bool ZArith.
From MV Require Import Lib.ListIdx.
Import ListNotations.

(* ------------------------------------------------------------------ masks *)
Section Masked.
Context {A B : Type}.

(* x[mask] *)
Fixpoint compress {X} (mask : list bool) (xs : list X) : list X :=
  match mask, xs with
  | b :: m, x :: r => if b then x :: compress m r else compress m r
  | _, _ => []
  end.

(* out[mask] = vals *)
Fixpoint scatter_mask (mask : list bool) (base vals : list B) : list B :=
  match mask, base with
  | b :: m, y :: r =>
      if b then match vals with
                | v :: vs => v :: scatter_mask m r vs
                | [] => y :: scatter_mask m r []
                end
      else y :: scatter_mask m r vals
  | _, _ => base
  end.

(* if np.any(mask): out[mask] = f(x[mask])          (out pre-filled with `base`) *)
Definition guarded_masked_eval (f : list A -> list B) (mask : list bool) (xs : list A) (base : list B) :=
  if existsb id mask then scatter_mask mask base (f (compress mask xs)) else base.

(* out[mask] = f(x[mask]) without the guard *)
Definition masked_eval (f : list A -> list B) (mask : list bool) (xs : list A) (base : list B) :=
  scatter_mask mask base (f (compress mask xs)).

(* if np.any(mask): x = x[~mask] *)
Definition guarded_compress (mask : list bool) (xs : list A) : list A :=
  if existsb id mask then compress (map negb mask) xs else xs.

(* if np.all(mask0): return out ;  ... ; out[~mask0] = f(x[~mask0]) ; return out *)
Definition all_masked_exit (f : list A -> list B) (mask0 : list bool) (xs : list A) (base : list B) :=
  if forallb id mask0 then base
  else scatter_mask (map negb mask0) base (f (compress (map negb mask0) xs)).

(* the row-wise meaning of a masked evaluation *)
Definition rowwise_masked (g : A -> B) (mask : list bool) (xs : list A) (base : list B) : list B :=
  map (fun t => match t with (b, x, y) => if b : bool then g x else y end)
      (combine (combine mask xs) base).
End Masked.

(* ------------------------------------------------------------------ TriangularMesh grouping loop
   prev_ind = 0
   for new_ind in range(lo, n + hi_off):
       if new_ind == n - last_off or mesh[new_ind] differs from mesh[prev_ind]:
           rows [prev_ind, new_ind) are tested against mesh[prev_ind];  prev_ind = new_ind
   `tm_used` lists, row by row, the mesh against which the row's observers are tested. *)
Section Trimesh.
Context {M : Type}.
Variable meq : M -> M -> bool.      (* shapes equal and np.all(a == b) *)
Variable d : M.

Fixpoint tm_go (ms : list M) (n last_off : nat) (k new prev : nat) (acc : list M) : list M :=
  match k with
  | O => acc
  | S k' =>
      if (new =? n - last_off) || negb (meq (nth new ms d) (nth prev ms d))
      then tm_go ms n last_off k' (S new) new (acc ++ repeat (nth prev ms d) (new - prev))
      else tm_go ms n last_off k' (S new) prev acc
  end.

Definition tm_used (lo hi_off last_off : nat) (ms : list M) : list M :=
  let n := length ms in tm_go ms n last_off (n + hi_off - lo) lo 0 [].

(* rows never closed into a group keep B without the inside contribution: model them as `None` *)
Definition tm_used_opt (lo hi_off last_off : nat) (ms : list M) : list (option M) :=
  let u := tm_used lo hi_off last_off ms in
  map Some u ++ repeat None (length ms - length u).
End Trimesh.

(* ------------------------------------------------------------------ ragged / non-ragged vertex sets
   current_vertices_field and BHJM_magnet_trimesh: every row carries its own list of parts
   (segments / faces); the parts of all rows are concatenated, the observer (and excitation) of a
   row repeated once per part, one flat core call, then per-row sums.
   non-ragged branch: reshape((n0, n1, 3)).sum(axis=1);  ragged branch: np.split at cumsum + sum *)
Section Ragged.
Context {Obs Part Val : Type}.
Variable core : Obs -> Part -> Val.          (* the row-wise core on one (observer, part) pair *)
Variable vsum : list Val -> Val.

Fixpoint repeat_by {X} (ns : list nat) (xs : list X) : list X :=      (* np.repeat(x, ns, axis=0) *)
  match ns, xs with n :: r, x :: s => repeat x n ++ repeat_by r s | _, _ => [] end.

Definition flat_core (obs : list Obs) (parts : list Part) : list Val :=
  map (fun op => core (fst op) (snd op)) (combine obs parts).

Definition rg_nonragged (rows : list (Obs * list Part)) : list Val :=
  let n1 := match rows with [] => 0 | r :: _ => length (snd r) end in
  map vsum (chunks n1 (length rows)
              (flat_core (repeat_each n1 (map fst rows)) (flat_map snd rows))).

Definition rg_ragged (rows : list (Obs * list Part)) : list Val :=
  let nvs := map (fun r => length (snd r)) rows in
  map vsum (split_lens nvs (flat_core (repeat_by nvs (map fst rows)) (flat_map snd rows))).

(* all(v == nvs[0] for v in nvs)   /   mesh.ndim != 1 (tile_group_property made a regular array) *)
Definition all_same_len (rows : list (Obs * list Part)) : bool :=
  match rows with
  | [] => true
  | r :: _ => forallb (fun r' => length (snd r') =? length (snd r)) rows
  end.

Definition rg_field (rows : list (Obs * list Part)) : list Val :=
  if all_same_len rows then rg_nonragged rows else rg_ragged rows.

Definition rg_single (row : Obs * list Part) : Val := vsum (map (core (fst row)) (snd row)).
End Ragged.

(* ------------------------------------------------------------------ iterative elliptic routines
   state S of one row, `conv` the row's own termination test, `step` one AGM step *)
Section Loops.
Context {S : Type}.
Variable conv : S -> bool.
Variable step : S -> S.

(* cel0 / cel_iter0: while not conv: step *)
Fixpoint while_loop (fuel : nat) (s : S) : S :=
  match fuel with O => s | Datatypes.S f => if conv s then s else while_loop f (step s) end.

(* celv: mask = all True; while any(mask): x[mask] = step(x[mask]); mask = not conv *)
Fixpoint masked_loop_from (fuel : nat) (mask : list bool) (ss : list S) : list S :=
  match fuel with
  | O => ss
  | Datatypes.S f =>
      if existsb id mask
      then let ss' := map (fun bs => if fst bs : bool then step (snd bs) else snd bs) (combine mask ss) in
           masked_loop_from f (map (fun s => negb (conv s)) ss') ss'
      else ss
  end.
Definition celv_loop (fuel : nat) (ss : list S) : list S :=
  masked_loop_from fuel (map (fun _ => true) ss) ss.

(* one row of celv: do { step } while not conv *)
Definition do_while (fuel : nat) (s : S) : S :=
  match fuel with O => s | Datatypes.S f => while_loop f (step s) end.

(* cel_iterv: while any(not conv): step on ALL rows *)
Fixpoint unmasked_loop (fuel : nat) (ss : list S) : list S :=
  match fuel with
  | O => ss
  | Datatypes.S f => if forallb conv ss then ss else unmasked_loop f (map step ss)
  end.

(* cel: n < threshold -> scalar routine per row, else the vector routine *)
Definition cel_switch (threshold : nat) (small_returns : bool) (fuel : nat) (ss : list S) : list S :=
  if (length ss <? threshold) && small_returns then map (while_loop fuel) ss else celv_loop fuel ss.

(* cel_iter: n < threshold -> per-row results are computed, and (small_returns = false) discarded *)
Definition cel_iter_switch (threshold : nat) (small_returns : bool) (fuel : nat) (ss : list S) : list S :=
  if (length ss <? threshold) && small_returns then map (while_loop fuel) ss else unmasked_loop fuel ss.

Fixpoint iter (n : nat) (s : S) : S := match n with O => s | Datatypes.S k => iter k (step s) end.
End Loops.

(* ------------------------------------------------------------------ CylinderSegment wrapper
   rows: on-surface flag, inside flag, polarization, and the H computed by the (row-wise) core *)
Section CylSeg.
Context {W : Type}.
Variable wzero : W.
Variable wadd : W -> W -> W.
Variable mul_mu0 div_mu0 : W -> W.

Inductive fld := FB | FH | FJ | FM.
Record csrow := mkCS { not_surf : bool; inside : bool; polv : W; hv : W }.

(* exit_before_X: the all-on-surface exit precedes the X branch; zero_surf_X: the X branch zeroes
   on-surface rows as well as outside rows (both translated, Gen) *)
Definition cylseg (exit_before_J exit_before_M zero_surf_J zero_surf_M : bool) (f : fld)
    (rows : list csrow) : list W :=
  let all_surf := negb (existsb not_surf rows) in
  let zeros := map (fun _ => wzero) rows in
  let jm (zs : bool) (scale : W -> W) :=
    map (fun r => if inside r && (negb zs || not_surf r) then scale (polv r) else scale wzero) rows in
  match f with
  | FJ => if exit_before_J && all_surf then zeros else jm zero_surf_J (fun w => w)
  | FM => if exit_before_M && all_surf then zeros else jm zero_surf_M div_mu0
  | FH => if all_surf then zeros else map (fun r => if not_surf r then hv r else wzero) rows
  | FB => if all_surf then zeros
          else map (fun r => if not_surf r
                             then (if inside r then wadd (mul_mu0 (hv r)) (polv r) else mul_mu0 (hv r))
                             else wzero) rows
  end.
End CylSeg.
