(* C05 -- model of the flattening of the `sources` argument of getBH_level2:
   format_obj_input / filter_objects / format_src_inputs (magpylib/_src/utility.py) on object
   trees (sources, sensors, collections with children in list order), and the resulting call of
   the level-2 data flow.  Definitions only. *)
From Coq Require Import List Arith Bool.
From MV Require Import Lib.Rigid Lib.ListIdx Model.Level2Model.
Import ListNotations.

Section Flat.
Context {O : RigidOps}.
Variable P : Type.
Notation leaf := (@leaf O P).
Notation srcin := (@srcin O P).

(* an object as the user passes it: a source, a sensor or a collection (children in order) *)
Inductive node := NSrc (x : leaf) | NSens (s : sensor) | NColl (cs : list node).

(* what format_obj_input collects before filtering: sources and sensors *)
Inductive item := ISrc (x : leaf) | ISens (s : sensor).

(* filter_objects(obj_list, allow): isinstance(obj, allowed_classes) *)
Definition allowed (a_src a_sens : bool) (i : item) : bool :=
  match i with ISrc _ => a_src | ISens _ => a_sens end.

(* format_obj_input(objects..., allow) with "collections" not in allow (flatten_collection = True):
     for obj in objects:
         if isinstance(obj, (BaseSource, Sensor)): obj_list += [obj]
         else: obj_list += format_obj_input(obj..., allow=allow)       # recursive, filtered again
     obj_list = filter_objects(obj_list, allow)
   fmt_obj is the contribution of ONE obj of the loop *)
Fixpoint fmt_obj (a_src a_sens : bool) (n : node) : list item :=
  match n with
  | NSrc x => [ISrc x]
  | NSens s => [ISens s]
  | NColl cs => filter (allowed a_src a_sens) (flat_map (fmt_obj a_src a_sens) cs)
  end.

Definition format_obj_input (a_src a_sens : bool) (objs : list node) : list item :=
  filter (allowed a_src a_sens) (flat_map (fmt_obj a_src a_sens) objs).

Definition item_sources (l : list item) : list leaf :=
  flat_map (fun i => match i with ISrc x => [x] | ISens _ => [] end) l.

(* format_obj_input(src, allow="sources") for one collection src *)
Definition child_sources (n : node) : list leaf := item_sources (format_obj_input true false [n]).

(* format_src_inputs(sources): None = MagpylibBadUserInput
     for src in sources:
         if isinstance(src, Collection):
             child_sources = format_obj_input(src, allow="sources")
             if not child_sources: raise ...
             src_list += child_sources
         elif isinstance(src, BaseSource): src_list += [src]
         else: raise ...                                            *)
Fixpoint format_src_loop (sources : list node) : option (list leaf) :=
  match sources with
  | [] => Some []
  | NColl cs :: r =>
      match child_sources (NColl cs) with
      | [] => None
      | ch => match format_src_loop r with Some sl => Some (ch ++ sl) | None => None end
      end
  | NSrc x :: r => match format_src_loop r with Some sl => Some (x :: sl) | None => None end
  | NSens _ :: _ => None
  end.

Definition format_src_inputs (sources : list node) : option (list node * list leaf) :=
  match sources with
  | [] => None                                     (* `if not sources: raise` *)
  | _ => match format_src_loop sources with Some sl => Some (sources, sl) | None => None end
  end.

(* how the reduce loop of getBH_level2 sees an entry of `sources`:
   isinstance(src, Collection) and col_len = len(format_obj_input(src, allow="sources")) *)
Definition to_srcin (n : node) : srcin :=
  match n with
  | NSrc x => Bare x
  | NColl cs => Coll (child_sources (NColl cs))
  | NSens s => Coll []                              (* never reached: rejected above *)
  end.

(* the declarative reading: depth-first, left to right, sensors dropped *)
Fixpoint dfs (n : node) : list leaf :=
  match n with
  | NSrc x => [x]
  | NSens _ => []
  | NColl cs => flat_map dfs cs
  end.

Variable F : nat -> P -> V -> V.
Variable g_eqb : G -> G -> bool.
Variable flipx : V -> V.

(* getBH_level2 on object trees; None = the call is rejected by format_src_inputs *)
Definition getBH_nodes (sources : list node) (sens : list sensor) (agg : option (list V -> V))
    (sumup : bool) : option out_t :=
  match format_src_inputs sources with
  | None => None
  | Some (srcs, _) => Some (getBH P F g_eqb flipx (map to_srcin srcs) sens agg sumup)
  end.

End Flat.

Arguments NSrc {O P}.
Arguments NSens {O P}.
Arguments NColl {O P}.
