(* C16 -- fingerprints of the mesh functions of /repo against which Model/MeshModel.v and the C16 search were written
   (pinned by hand after reading the source; regenerate with `python -m translate.gen_mesh`).  DEFINITIONS ONLY. *)
From Coq Require Import List String.
Import ListNotations.
Open Scope string_scope.
Definition pinned_mesh_fingerprints : list (string * string) :=
  [("field_BH_triangularmesh.v_norm2", "f678d9092c0686c6dbe65d4da1f0a587");
  ("field_BH_triangularmesh.v_norm_proj", "f829b69ff081af3359701e996b89e41c");
  ("field_BH_triangularmesh.v_cross", "bf77b496826a679cfe143b4f34c65d5f");
  ("field_BH_triangularmesh.v_dot_cross3d", "4323efc62b938b8fb6871ae5069b74c7");
  ("field_BH_triangularmesh.get_disconnected_faces_subsets", "424876606dd57cad1304fe76227f08ca");
  ("field_BH_triangularmesh.get_open_edges", "015dabda5560d52f7dd89bda77e081c6");
  ("field_BH_triangularmesh.fix_trimesh_orientation", "b458bde84017b6ec45b6b3ead911ea6d");
  ("field_BH_triangularmesh.is_facet_inwards", "5a07b8c4b53060d7dbad1c46c22ade08");
  ("field_BH_triangularmesh.get_inwards_mask", "de4bcc53998afb9ab450ae6c9202c046");
  ("field_BH_triangularmesh.lines_end_in_trimesh", "1049fa3e16bbfc7547a229e661308e55");
  ("field_BH_triangularmesh.segments_intersect_facets", "45e86b86c39ffa17c3e2732ca6e00b03");
  ("field_BH_triangularmesh.get_intersecting_triangles", "f78caa6723b2a109c4deb1df1b6a2adc");
  ("field_BH_triangularmesh.mask_inside_enclosing_box", "f96e8eba6bdc4b629b8d2b4df27deead");
  ("field_BH_triangularmesh.mask_inside_trimesh", "1342b3aaf48b7c3687c4802abcbd30c6");
  ("TriangularMesh.__init__", "edcf5ccad0d6c673ca8f993b2af3f585");
  ("TriangularMesh._validate_mode_arg", "ceb2c3d382fff432d4d3f30a1aa630ce");
  ("TriangularMesh.check_open", "36e7ad67427439e42ee3af476fb1b9d9");
  ("TriangularMesh.check_disconnected", "f6f09ffb3fb441ac96c49f2d4ec7c61b");
  ("TriangularMesh.check_selfintersecting", "0ecc16424f8516b84fbc78a143f30749");
  ("TriangularMesh.reorient_faces", "395c6f255c02fd3bdc57857bb30b7153");
  ("TriangularMesh.get_faces_subsets", "5656b6f20e239eadb6c293527c7b023f");
  ("TriangularMesh.get_open_edges", "7a0a5dffd1c4738edccf819acfc5e6b6");
  ("TriangularMesh.get_selfintersecting_faces", "041a9f0e2330c581159c665c2cae7cbb");
  ("TriangularMesh._input_check", "eeea9185470039eea7ff946ac48fceed");
  ("TriangularMesh.from_ConvexHull", "8c5bca149275e6fec83f29bcf89d655e");
  ("TriangularMesh.from_pyvista", "e3b6ace5d4abbb99b238e1bd2e9cf5d9");
  ("TriangularMesh.from_triangles", "9c42e224335bdc7dbf4724084fb49fd5");
  ("TriangularMesh.from_mesh", "078c093193cc0d8b250137cfe809b2b2");
  ("TriangularMesh.faces:getter", "4bdbd370106af481daf04f7d53f444f0");
  ("TriangularMesh.mesh:getter", "6592b1ac0af4722dfed6fecb3c2ae093");
  ("TriangularMesh.status_open:getter", "c4149a965da860eaa6f67e4c4a3ba3ba");
  ("TriangularMesh.status_disconnected:getter", "97fb0fe5fc3e35975a50b5809d7e5601");
  ("TriangularMesh.status_reoriented:getter", "cae512345279d282247185aa46ee02c4");
  ("TriangularMesh.status_selfintersecting:getter", "d60a3c7c7b7df82f3107c1bc9cdd0c08")].

