(* C11 / C18 -- fingerprints (translate/gen_forest.py) of the implementation methods against which
   ForestModel.v and CopyModel.v were written and checked by hand.  Gen/GenForest.v is regenerated
   from /repo on every run; Props/C11.v states that the two lists are equal.  Update this list ONLY
   after re-reading the changed method and updating the model:
       /venv/bin/python -m translate.gen_forest /repo                                            *)
From Coq Require Import List String.
Import ListNotations.
Open Scope string_scope.

Definition pinned_forest_fingerprints : list (string * string) :=
  [("BaseCollection.__init__", "5b4768609b5d8a1513b89e02de3d9b2b");
  ("BaseCollection.add", "4c4ae6f63278291fa77e34e8456f53c5");
  ("BaseCollection.remove", "2721ba747c33aa3c2d9bef77a044e9b0");
  ("BaseCollection._update_src_and_sens", "c14a557272c6c7c7ba6e9f30956d5ece");
  ("BaseCollection.children:setter", "651a2fde020d0b28acb7de08bc480e2a");
  ("BaseCollection.sources:setter", "82517dfe4af83a97c94a3ff84e309ffb");
  ("BaseCollection.sensors:setter", "1d2f1a41c5a6a19ea353b970c8804c41");
  ("BaseCollection.collections:setter", "ebc8d67977721e4e22a509dc4eb38038");
  ("BaseCollection.children_all:getter", "60b48285b76d955cbbd93ce348f8804e");
  ("BaseCollection.sources_all:getter", "2619f6c78db366935136e2584a72e1ab");
  ("BaseCollection.sensors_all:getter", "c304c43db93a4b50fd91377f2294d74e");
  ("BaseCollection.collections_all:getter", "c1e3bd7d2d8675679b488b589b69edff");
  ("BaseCollection.__iter__", "4b0673013b7afe616c17893a5324c4be");
  ("BaseGeo.parent:setter", "bbab0ff8885899b9a50ba3002344e2a8");
  ("BaseGeo.__add__", "d35c4dad47d2f740077ed454bf00564b");
  ("BaseGeo.copy", "06788cdd63d45977dd936caf1a08dce9");
  ("BaseGeo.style:getter", "9e5f76e6c6c5f3e25d5b88c5bdf0367b");
  ("BaseGeo._process_style_kwargs", "b74e9db76f531fc8f172269d24308fc2");
  ("utility.rec_obj_remover", "86d19be86dcf1a8ea5d8e3d042983519");
  ("utility.format_obj_input", "d3499600a43495e5ba74fd21068795fb");
  ("utility.filter_objects", "1c9a9f3b341b806f6dd0a40940f90134");
  ("utility.add_iteration_suffix", "bc8a21c01477faced4ee69476a306433");
  ("input_checks.check_format_input_obj", "dfbd83cccfb54475aa335a9a0ec17dbd")].

