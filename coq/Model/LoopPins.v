(* C15 -- pinned source fingerprints (definitions only) *)
From Coq Require Import String.

(* special_el3.py (el3, el3_angle, ...: the elliptic integrals of the CylinderSegment core) is NOT modelled; its text is
   pinned: Gen/GenLoop.v carries the sha256 of its ast dump, Proofs/LoopProofs.v proves it equal to this constant, so any
   edit of that file breaks the tie and sends the check into the large search *)
Definition special_el3_expected_fingerprint : string :=
  "a99ef6354373520733d3388f3805cba0cb550c5bb03befc3c12866c8c1e7aa9c"%string.

