(* C05 -- executable comparison used by the correspondence check: object trees (nested collections
   with sensors inside) go through the model of format_src_inputs / format_obj_input and the
   level-2 data flow incl. the literal slice-sum loop; compared with the implementation's output,
   its flattening order (ids of the leaves in src_list) and the col_len of every entry.
   Definitions only. *)
From Coq Require Import ZArith List Bool.
From MV Require Import Lib.ListZ Lib.Rigid Lib.OctZ Lib.ListIdx Model.PathExec Model.Level2Model
  Model.Level2Flat Model.Level2Exec.
Import ListNotations.
Open Scope Z_scope.

Definition xnode := @node OctOps (list Z).

Definition xgetBH_nodes (nodes : list xnode) (sens : list xsens) (a : nat) (sumup : bool) :=
  getBH_nodes (O := OctOps) (list Z) stubF oct_eqb xflip nodes sens (agg_of a) sumup.

(* the id of a leaf is the first element of its tag (the generator makes them unique) *)
Definition leaf_id (x : xleaf) : Z := hd (-1) (l_prop x).

(* f_exp = None: the implementation raised MagpylibBadUserInput;
   f_ids: ids of format_src_inputs(sources)[1] in order; f_lens: len(format_obj_input(src,
   allow="sources")) for every entry that is a collection, 1 for a bare source *)
Record c05case := mkC05 { f_nodes : list xnode; f_sens : list xsens; f_agg : nat; f_sumup : bool;
                          f_exp : option (list (list (list (list V3))));
                          f_ids : list Z; f_lens : list Z }.

Definition entry_len (n : xnode) : Z :=
  match n with
  | NColl cs => Z.of_nat (length (format_obj_input (O := OctOps) (list Z) true false [n]))
  | _ => 1
  end.

Definition check_c05 (c : c05case) : bool :=
  match xgetBH_nodes (f_nodes c) (f_sens c) (f_agg c) (f_sumup c), f_exp c with
  | Some o, Some e =>
      out_eqb o e &&
      match format_src_inputs (O := OctOps) (list Z) (f_nodes c) with
      | Some (_, sl) => list_eqb Z.eqb (map leaf_id sl) (f_ids c)
      | None => false
      end &&
      list_eqb Z.eqb (map entry_len (f_nodes c)) (f_lens c)
  | None, None => true
  | _, _ => false
  end.

Fixpoint failing_c05_from (i : Z) (cs : list c05case) : list Z :=
  match cs with
  | [] => []
  | c :: r => if check_c05 c then failing_c05_from (i + 1) r else i :: failing_c05_from (i + 1) r
  end.
Definition failing_c05 (cs : list c05case) : list Z := failing_c05_from 0 cs.
