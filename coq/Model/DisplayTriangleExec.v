(* C19 -- correspondence cases for the make_Triangle model: the plotly figure of show(Triangle, units_length='mm') *)
From Coq Require Import ZArith List Bool.
From MV Require Import Lib.OctZ Model.DisplayExec Model.DisplayTriangle.
Import ListNotations.
Open Scope Z_scope.

Inductive tcase := CTri (mag v0 v1 v2 : V3) (exp : list V3).

(* every generated case is representable: None counts as a failure *)
Definition check_tcase (c : tcase) : bool :=
  match c with CTri mag v0 v1 v2 exp =>
    match make_triangle_x1000 mag v0 v1 v2 with Some l => dlist_eqb v3eqb l exp | None => false end
  end.

Fixpoint tfailing_from (i : Z) (cs : list tcase) : list Z :=
  match cs with
  | [] => []
  | c :: r => if check_tcase c then tfailing_from (i + 1) r else i :: tfailing_from (i + 1) r
  end.
Definition tfailing (cs : list tcase) : list Z := tfailing_from 0 cs.
