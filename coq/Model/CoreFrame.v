(* C01 -- getBH_level1 (field_wrap_BH.py) on one row, in any rigid-motion algebra (definitions only).

     pos_rel_rot = orientation.apply(observers - position, inverse=True)
     BH = field_func(field=field, observers=pos_rel_rot, **kwargs)
     BH = orientation.apply(BH)

   [F] is the per-row field function in the source's local frame.  Same definition as
   Level2Model.level1 (kept separate so that C01 only depends on Lib/Rigid.v). *)
From MV Require Import Lib.Rigid.

Section Frame.
Context {O : RigidOps}.
Variable F : V -> V.

Definition level1_row (p : V) (r : G) (o : V) : V :=
  act r (F (act (ginv r) (vsub o p))).

(* the global position of the point that has local coordinates [ol] in the frame (p, r) *)
Definition to_global (p : V) (r : G) (ol : V) : V := vadd (act r ol) p.

End Frame.
