(* Executable integer instances of the list-level batch models (Model/BatchModel.v) with the
   loop / switch parameters translated from /repo (Gen/GenBatch.v), and the comparison used by the
   exact correspondence with the real current_vertices_field, BHJM_magnet_trimesh, cel and
   cel_iter run with integer stub cores.  Definitions only. *)
From Coq Require Import ZArith List Bool.
From MV Require Import Lib.ListZ Lib.OctZ Lib.ListIdx Model.PathExec Model.BatchModel Gen.GenBatch.
Import ListNotations.
Open Scope Z_scope.

Definition v3sum (l : list V3) : V3 := fold_left v3add l (0, 0, 0).
Definition csum (v : V3) : Z := let '(x, y, z) := v in x + y + z.

(* ---- current_vertices_field with BHJM_current_polyline := seg_core row by row *)
Definition seg_core (oc : V3 * Z) (se : V3 * V3) : V3 :=
  let '(o, c) := oc in let '(s, e) := se in
  let a := dot3 o (1, 2, 3) * c + 5 * csum s + dot3 e (2, -1, 3) in
  (a, a + dot3 o s, c - dot3 e o).
Definition segs (vs : list V3) : list (V3 * V3) := combine (removelast vs) (tl vs).
Definition cvf_exec (rows : list (V3 * Z * list V3)) : list V3 :=
  rg_field seg_core v3sum (map (fun r => (fst r, segs (snd r))) rows).

(* ---- BHJM_magnet_trimesh with BHJM_triangle := tri_core, mask_inside_trimesh := inside_stub *)
Definition face := (V3 * V3 * V3)%type.
Definition tri_core (op : V3 * V3) (f : face) : V3 :=
  let '(o, p) := op in let '(a, b, c) := f in
  let t := dot3 o a + 2 * dot3 p b + csum c in
  (t, t + dot3 o p, dot3 a c - t).
Definition face_eqb (f g : face) : bool :=
  let '(a, b, c) := f in let '(a', b', c') := g in v3eqb a a' && v3eqb b b' && v3eqb c c'.
Definition mesh_eqb (m n : list face) : bool := list_eqb face_eqb m n.
Definition inside_stub (o : V3) (m : list face) : bool :=
  let x0 := match m with ((x, _, _), _, _) :: _ => x | [] => 0 end in
  Z.even (csum o + x0 + Z.of_nat (length m)).

Definition trow := (V3 * V3 * list face)%type.      (* observer, polarization, mesh *)
Definition trimesh_exec (fld : nat) (rows : list trow) : list V3 :=     (* fld: 0 = B, 1 = J *)
  let base := match fld with
              | O => rg_field tri_core v3sum (map (fun r : trow => (fst r, snd r)) rows)
              | _ => map (fun _ => (0, 0, 0)) rows
              end in
  let used := tm_used_opt mesh_eqb [] trimesh_lo trimesh_hi_off trimesh_last_off (map (fun r : trow => snd r) rows) in
  map (fun t => match t with
                | (b, (o, p, _), Some m) => if inside_stub o m then v3add b p else b
                | (b, _, None) => b
                end) (combine (combine base rows) used).

(* ---- cel / cel_iter dispatch with stub routines: a row is converged from 100 on, a step adds 100 *)
Definition cconv (s : Z) : bool := 100 <=? s.
Definition cstep (s : Z) : Z := s + 100.
Definition cel_exec (ss : list Z) : list Z := cel_switch cconv cstep cel_threshold cel_small_returns 3 ss.
Definition cel_iter_exec (ss : list Z) : list Z :=
  cel_iter_switch cconv cstep cel_iter_threshold cel_iter_small_returns 3 ss.

Inductive bcase :=
  | BCvf (rows : list (V3 * Z * list V3)) (exp : list V3)
  | BTm (fld : nat) (rows : list trow) (exp : list V3)
  | BCel (ss exp : list Z)
  | BCelIter (ss exp : list Z).

Definition check_b (c : bcase) : bool :=
  match c with
  | BCvf rows e => list_eqb v3eqb (cvf_exec rows) e
  | BTm f rows e => list_eqb v3eqb (trimesh_exec f rows) e
  | BCel ss e => list_eqb Z.eqb (cel_exec ss) e
  | BCelIter ss e => list_eqb Z.eqb (cel_iter_exec ss) e
  end.
Fixpoint failing_b_from (i : Z) (cs : list bcase) : list Z :=
  match cs with
  | [] => []
  | c :: r => if check_b c then failing_b_from (i + 1) r else i :: failing_b_from (i + 1) r
  end.
Definition failing_b (cs : list bcase) : list Z := failing_b_from 0 cs.
