(* C07 -- meaning of the translated statements of getBH_dict_level2 (Gen/GenDictArith.v, deep embedding `pyexp` of
   Model/L2Arith.v): evaluators for the integer / boolean / integer-list fragments that occur there, with the program
   variables of one loop iteration as an environment.  Definitions only. *)
From Coq Require Import ZArith List String Bool.
From MV Require Import Model.L2Arith.
Import ListNotations.
Open Scope string_scope.
Open Scope Z_scope.

Record denv := mkDenv {
  e_ndim : Z;          (* val.ndim *)
  e_expected : Z;      (* expected_dim *)
  e_len : Z;           (* len(val) *)
  e_distinct : Z;      (* len(set(vec_lengths.values())) *)
  e_vec_len : Z;       (* vec_len *)
  e_ragged : bool;     (* ragged_seq[key] *)
  e_B_some : bool;     (* B is not None *)
  e_squeeze : bool     (* squeeze *)
}.

Section Eval.
Variable env : denv.

Fixpoint dZ (e : pyexp) : option Z :=
  match e with
  | PInt z => Some z
  | PAttr (PName "val") "ndim" => Some (e_ndim env)
  | PName "expected_dim" => Some (e_expected env)
  | PName "vec_len" => Some (e_vec_len env)
  | PCall (PName "len") [PName "val"] [] => Some (e_len env)
  | PCall (PName "len") [PCall (PName "set") [PCall (PAttr (PName "vec_lengths") "values") [] []] []] [] =>
      Some (e_distinct env)
  | PBin op a b => match dZ a, dZ b with Some x, Some y => zbin op x y | _, _ => None end
  | _ => None
  end.

Fixpoint dB (e : pyexp) : option bool :=
  match e with
  | PSub (PName "ragged_seq") (PName "key") => Some (e_ragged env)
  | PName "squeeze" => Some (e_squeeze env)
  | PCmp "is not" (PName "B") PNone => Some (e_B_some env)
  | PCmp op a b =>
      match dZ a, dZ b with
      | Some x, Some y => if String.eqb op "==" then Some (x =? y)
                          else if String.eqb op "<" then Some (x <? y)
                          else if String.eqb op ">" then Some (y <? x)
                          else None
      | _, _ => None
      end
  | PBin op a b =>
      match dB a, dB b with
      | Some x, Some y => if String.eqb op "and" then Some (x && y)
                          else if String.eqb op "or" then Some (x || y) else None
      | _, _ => None
      end
  | PUn "not" a => match dB a with Some x => Some (negb x) | None => None end
  | _ => None
  end.

(* python list repetition l * k *)
Definition list_rep (l : list Z) (k : Z) : list Z := List.concat (repeat l (Z.to_nat k)).

Fixpoint all_some (l : list (option Z)) : option (list Z) :=
  match l with
  | [] => Some []
  | Some x :: r => match all_some r with Some r' => Some (x :: r') | None => None end
  | None :: _ => None
  end.

(* integer lists: [a, b], l * k ; tuples with starred items are handled one level deep (all that occurs) *)
Definition dL (e : pyexp) : option (list Z) :=
  match e with
  | PList items => all_some (map dZ items)
  | PBin "*" (PList items) k =>
      match all_some (map dZ items), dZ k with Some l, Some n => Some (list_rep l n) | _, _ => None end
  | _ => None
  end.

Fixpoint dTuple (items : list pyexp) : option (list Z) :=
  match items with
  | [] => Some []
  | PStar x :: r => match dL x, dTuple r with Some a, Some b => Some (List.app a b) | _, _ => None end
  | x :: r => match dZ x, dTuple r with Some a, Some b => Some (a :: b) | _, _ => None end
  end.
End Eval.

(* a literal {"k": int, ...} *)
Fixpoint pdict_table (l : list (pyexp * pyexp)) : option (list (string * Z)) :=
  match l with
  | [] => Some []
  | (PStr k, PInt v) :: r => match pdict_table r with Some t => Some ((k, v) :: t) | None => None end
  | _ => None
  end.

(* table.get(key, d) *)
Definition get_default (e : pyexp) : option Z :=
  match e with
  | PCall (PAttr (PName "field_func_kwargs_ndim") "get") [PName "key"; PInt d] [] => Some d
  | _ => None
  end.

(* max(vec_lengths.values(), default=d) *)
Definition max_default (e : pyexp) : option Z :=
  match e with
  | PCall (PName "max") [PCall (PAttr (PName "vec_lengths") "values") [] []] [("default", PInt d)] => Some d
  | _ => None
  end.

(* np.tile(val, reps) *)
Definition tile_reps (e : pyexp) : option (list pyexp) :=
  match e with
  | PCall (PAttr (PName "np") "tile") [PName "val"; PTuple items] [] => Some items
  | _ => None
  end.

Definition F : string := "getBH_dict_level2".
