(* C03 -- executable comparison used by the correspondence check: the model of getBH_level2 on the
   inputs moved BY THE MODEL (Level2Move.v) against the implementation's output on the real objects
   moved through the public API (rotate(g, anchor=0); move(t)), plus the covariance relation
   between the implementation's two outputs.  Definitions only. *)
From Coq Require Import ZArith List Bool.
From MV Require Import Lib.ListZ Lib.Rigid Lib.OctZ Lib.ListIdx Model.PathExec Model.Level2Model
  Model.Level2Move Model.Level2Exec.
Import ListNotations.
Open Scope Z_scope.

(* m_obs = true : the single "sensor" is an array of positions (pose 0 / identity): its points are
   moved, and the output must rotate with g;  false : sensors are moved with the sources and the
   output must not change *)
Record c03case := mkC03 { m_g : oct; m_t : V3; m_srcs : list xsrc; m_sens : list xsens;
                          m_agg : nat; m_sumup : bool; m_obs : bool;
                          m_exp : list (list (list (list V3)));
                          m_exp_moved : list (list (list (list V3))) }.

Definition moved_sens (c : c03case) : list xsens :=
  if m_obs c
  then map (fun s => obs_sensor (O := OctOps) (map (move_pt (O := OctOps) (m_g c) (m_t c)) (s_pix s)) (s_shape s)) (m_sens c)
  else map (move_sensor (O := OctOps) (m_g c) (m_t c)) (m_sens c).

Definition check_c03 (c : c03case) : bool :=
  out_eqb (xgetBH (m_srcs c) (m_sens c) (m_agg c) (m_sumup c)) (m_exp c) &&
  out_eqb (xgetBH (map (move_src (O := OctOps) (list Z) (m_g c) (m_t c)) (m_srcs c)) (moved_sens c)
                  (m_agg c) (m_sumup c)) (m_exp_moved c) &&
  out_eqb (m_exp_moved c) (if m_obs c then out_act (O := OctOps) (m_g c) (m_exp c) else m_exp c).

Fixpoint failing_c03_from (i : Z) (cs : list c03case) : list Z :=
  match cs with
  | [] => []
  | c :: r => if check_c03 c then failing_c03_from (i + 1) r else i :: failing_c03_from (i + 1) r
  end.
Definition failing_c03 (cs : list c03case) : list Z := failing_c03_from 0 cs.
