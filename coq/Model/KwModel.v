(* KwModel -- executable model of BaseGeo._process_style_kwargs (C18: keyword overrides of copy()).
   DEFINITIONS ONLY.

       @staticmethod
       def _process_style_kwargs(style=None, ** kwargs):
           if kwargs:
               style = {} if style is None else style.copy()
               style_kwargs = {}
               for k, v in kwargs.items():
                   if k.startswith("style_"): style_kwargs[k[6:]] = v
                   else: raise TypeError(...)
               style.update( **style_kwargs)
           return style

   Keys (the part after `style_`, magic-underscore notation, not resolved at this stage) are numbers;
   a value is `option nat`: None is Python's None - a value like any other, it must NOT be dropped.
   A dictionary is an association list read by first match. *)
From Coq Require Import List Arith PeanoNat.
Import ListNotations.

Definition pyval := option nat.                 (* None = Python None *)
Definition dict := list (nat * pyval).

Fixpoint lookup (k : nat) (d : dict) : option pyval :=
  match d with
  | [] => None
  | (k', v) :: r => if Nat.eqb k' k then Some v else lookup k r
  end.

Definition dset (d : dict) (k : nat) (v : pyval) : dict :=
  (k, v) :: filter (fun p => negb (Nat.eqb (fst p) k)) d.

Definition dupdate (d : dict) (kv : list (nat * pyval)) : dict :=
  fold_left (fun d p => dset d (fst p) (snd p)) kv d.

Definition process_style_kwargs (style : option dict) (kws : list (nat * pyval)) : option dict :=
  match kws with
  | [] => style
  | _ => Some (dupdate (match style with None => [] | Some d => d end) kws)
  end.

(* the value the caller gave last for key k, if any *)
Fixpoint given (k : nat) (kws : list (nat * pyval)) : option pyval :=
  match kws with
  | [] => None
  | (k', v) :: r => match given k r with
                    | Some w => Some w
                    | None => if Nat.eqb k' k then Some v else None
                    end
  end.

(* correspondence: (style dict or None, keywords, expected lookups of keys 0..K-1) *)
Definition pv_eqb (a b : pyval) : bool :=
  match a, b with None, None => true | Some x, Some y => Nat.eqb x y | _, _ => false end.
Definition opv_eqb (a b : option pyval) : bool :=
  match a, b with None, None => true | Some x, Some y => pv_eqb x y | _, _ => false end.

Definition kw_case_ok (c : option dict * list (nat * pyval) * option (list (option pyval))) : bool :=
  let '(st, kws, exp) := c in
  match process_style_kwargs st kws, exp with
  | None, None => true
  | Some d, Some e =>
    forallb (fun p => opv_eqb (lookup (fst p) d) (snd p)) (combine (seq 0 (length e)) e)
  | _, _ => false
  end.

Fixpoint kw_failing (i : nat) (cs : list (option dict * list (nat * pyval) * option (list (option pyval))))
  : list nat :=
  match cs with
  | [] => []
  | c :: r => if kw_case_ok c then kw_failing (S i) r else i :: kw_failing (S i) r
  end.
