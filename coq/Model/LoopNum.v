(* C15 -- numeric signature of the loop models (definitions only).

   The convergence loops of magpylib/_src/fields/special_cel.py and the cores that feed them are
   written ONCE against this record.  Two instances:
     * [NumR]  : Coq's real numbers  -- the theorems (termination, guards) are about this one;
     * [NumF]  : primitive binary64  -- used to RUN the model under vm_compute (correspondence
                 with the implementation, and the machine-checked float counterexamples).
   A literal of the Python source is carried as [llit m e b x]: the decimal value m * 10^e (what the
   literal means over R) together with the binary64 value b * 2^x that the Python parser produces
   (integers only, so that nothing about floats enters the type of the signature). *)
From Coq Require Import ZArith Reals Bool.
From Coq Require Import Floats.PrimFloat.
From Coq Require Numbers.Cyclic.Int63.Uint63.

Record LNum : Type := mkLNum {
  T : Type;
  ladd : T -> T -> T;
  lsub : T -> T -> T;
  lmul : T -> T -> T;
  ldiv : T -> T -> T;
  lopp : T -> T;
  lsqrt : T -> T;
  labs : T -> T;
  lltb : T -> T -> bool;          (* a < b  *)
  lleb : T -> T -> bool;          (* a <= b *)
  leqb : T -> T -> bool;          (* a == b *)
  lofZ : Z -> T;                  (* integer literal *)
  llit : Z -> Z -> Z -> Z -> T;   (* float literal: decimal m * 10^e; binary64 value b * 2^x *)
  lpi : T                         (* np.pi *)
}.

(* ---------------------------------------------------------------- reals *)
Definition Rltb (a b : R) : bool := if Rlt_dec a b then true else false.
Definition Rleb (a b : R) : bool := if Rle_dec a b then true else false.
Definition Reqb (a b : R) : bool := if Req_EM_T a b then true else false.
Definition Rlit (m e : Z) : R :=
  match e with
  | Z0 => IZR m
  | Zpos p => IZR (m * Z.pow_pos 10 p)
  | Zneg p => IZR m / IZR (Z.pow_pos 10 p)
  end.

Arguments Rlit : simpl never.

Definition NumR : LNum :=
  mkLNum R Rplus Rminus Rmult Rdiv Ropp R_sqrt.sqrt Rabs Rltb Rleb Reqb IZR (fun m e _ _ => Rlit m e) PI.

(* ---------------------------------------------------------------- binary64 *)
Definition f_ofZ (z : Z) : float :=
  match z with
  | Z0 => PrimFloat.zero
  | Zpos _ => PrimFloat.of_uint63 (Uint63.of_Z z)
  | Zneg p => PrimFloat.opp (PrimFloat.of_uint63 (Uint63.of_Z (Zpos p)))
  end.
Definition f_pi : float := 0x1.921fb54442d18p+1%float.

(* b * 2^x, exactly (b < 2^53; repeated exact scaling by 2) *)
Definition f_two : float := 0x1p+1%float.
Definition f_lit (b x : Z) : float :=
  match x with
  | Z0 => f_ofZ b
  | Zpos p => Pos.iter (fun v => PrimFloat.mul v f_two) (f_ofZ b) p
  | Zneg p => Pos.iter (fun v => PrimFloat.div v f_two) (f_ofZ b) p
  end.

Definition NumF : LNum :=
  mkLNum float PrimFloat.add PrimFloat.sub PrimFloat.mul PrimFloat.div PrimFloat.opp
         PrimFloat.sqrt PrimFloat.abs PrimFloat.ltb PrimFloat.leb PrimFloat.eqb
         f_ofZ (fun _ _ b x => f_lit b x) f_pi.

(* result of a fuelled loop: value and number of body executions, or the distinct error values *)
Inductive res (A : Type) : Type :=
  | Done (n : nat) (v : A)
  | OutOfFuel                 (* the loop condition still held when the fuel ran out *)
  | Raised.                   (* the Python code raises (cel0: kc == 0 -> RuntimeError) *)
Arguments Done {A} n v.
Arguments OutOfFuel {A}.
Arguments Raised {A}.

(* `while cond(s): s = step(s)`; fuel = number of body executions allowed *)
Fixpoint while_loop {St : Type} (cond : St -> bool) (step : St -> St) (fuel n : nat) (s : St) : res St :=
  if cond s then
    match fuel with
    | O => OutOfFuel
    | S fuel' => while_loop cond step fuel' (S n) (step s)
    end
  else Done n s.
