(* C14 -- runners for the correspondence check (definitions only): the models of CoreModel.v
   that the C14 theorems speak about, instantiated with primitive binary64 floats (NumF of
   CoreExec.v) and returning a flat list: branch code followed by the three components. *)
From Coq Require Import ZArith List Bool.
From Coq Require Import Floats.PrimFloat.
From MV Require Import Model.CoreNum Model.CoreModel Model.CoreExec Model.LawsModel.
Import ListNotations.

Definition l14_vec (v : float * float * float) : list float := let '(a, b, c) := v in [a; b; c].
Definition l14_code (z : Z) : float := f_ofZ z.

(* BHJM_dipole(field, observers, moment), one row *)
Definition run14_dipole (f : field) (mu0 : float) (o m : float * float * float) : list float :=
  l14_code 0 :: l14_vec (dipole_BH NumF f mu0 o m).

(* BHJM_magnet_sphere(field, observers, diameter, polarization), one row; code 1 = outside *)
Definition run14_sphere (f : field) (mu0 : float) (o : float * float * float) (d : float)
                        (P : float * float * float) : list float :=
  (if sphere_out NumF o d then l14_code 1 else l14_code 0) :: l14_vec (sphere_BH NumF f mu0 o d P).

(* BHJM_circle(field, observers, diameter, current), one row, modelled branches only:
   code 0 = zero branch, 1 = on-axis branch, 2 = general branch (not modelled: NaNs) *)
Definition run14_circle (f : field) (mu0 : float) (o : float * float * float) (d cur : float)
  : list float :=
  match circle_branch_of NumF o d, circle_BH NumF f mu0 o d cur with
  | CZero, Some v => l14_code 0 :: l14_vec v
  | COnAxis, Some v => l14_code 1 :: l14_vec v
  | _, _ => [l14_code 2; f_nan; f_nan; f_nan]
  end.

(* BHJM_current_polyline(field, observers, segment_start, segment_end, current), one row;
   code = branch of polyline_H_br (0 zero length, 1 on the line, 2/3/4 the three sign cases) *)
Definition run14_polyline (f : field) (mu0 : float) (o p1 p2 : float * float * float) (cur : float)
  : list float :=
  l14_code (Z.of_nat (fst (polyline_H_br NumF o p1 p2 cur))) :: l14_vec (polyline_BH NumF f mu0 o p1 p2 cur).

(* current_vertices_field("H", observers, current, vertices), one row: sum over the segments *)
Definition run14_polysum (f : field) (mu0 cur : float) (vs : list (float * float * float))
                         (o : float * float * float) : list float :=
  l14_code (Z.of_nat (length vs)) ::
  l14_vec (match f with FH => poly_sum_gen NumF cur vs o | FB => poly_sumB_gen NumF mu0 cur vs o end).
