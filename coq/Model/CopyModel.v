(* CopyModel -- executable model of BaseGeo.copy (C18): ForestModel extended with a cell heap.
   DEFINITIONS ONLY.

   magpylib/_src/obj_classes/class_BaseGeo.py, BaseGeo.copy / BaseGeo.style (lazy creation):

       parent = self._parent; self._parent = None            (only if a parent exists)
       obj_copy = deepcopy(self)                              <- MODELLED, not verified: a clone of
       self._parent = parent                                     the reachable object graph in which
       if self._style is not None or self._style_kwargs:         every mutable cell is fresh
           label = self.style.label                           <- `.style` CREATES the style of the
           label = Class_01 if None else iterate(label)          ORIGINAL when it was still lazy
           obj_copy.style.label = label                       <- creates the style of the clone
       for k, v in kwargs: style*  -> collected ; else setattr(obj_copy, k, v)
       if style kwargs: obj_copy.style.update(...)

   Every object owns one heap cell per mutable attribute of its __dict__ (ndarray buffers, the
   Rotation, the four child lists of a collection, status data ...; slot order = sorted attribute
   names, `_parent`, `_style`, `_style_kwargs` excluded), one cell for the `_style_kwargs` dict
   and, once the style exists, one cell for the style object graph.  The heap maps a cell to an
   abstract value token.  Fresh cells are allocated at the end of the heap. *)
From Coq Require Import List Bool Arith PeanoNat.
From MV Require Import Model.ForestModel.
Import ListNotations.

Definition label := option (nat * nat).        (* None | (base name, iteration count) ; base 0 = class name *)

Record cobj := mkCobj {
  attrs : list nat;            (* cell of each mutable attribute slot *)
  style_cell : option nat;     (* _style : None while lazily un-initialised *)
  skw_cell : nat;              (* the _style_kwargs dict *)
  skw_pending : bool;          (* bool(_style_kwargs) *)
  lab : label }.               (* what obj.style.label answers *)

Definition dead_cobj := mkCobj [] None 0 false None.

Record cstate := mkCstate {
  fs : state;                  (* the tree (ForestModel) *)
  co : list cobj;              (* same indexing as fs *)
  heap : list nat }.           (* cell -> value token *)

Definition cget (s : cstate) (i : nat) : cobj := nth i (co s) dead_cobj.
Definition hget (s : cstate) (c : nat) : nat := nth c (heap s) 0.

Fixpoint lupd {A} (l : list A) (i : nat) (v : A) : list A :=
  match l, i with
  | [], _ => []
  | _ :: r, 0 => v :: r
  | x :: r, S j => x :: lupd r j v
  end.

(* ---------------------------------------------------------------- creating an object *)
(* nattr mutable attribute slots with the given tokens; style: 0 = lazy and no kwargs,
   1 = lazy with pending kwargs, 2 = initialised *)
Definition new_cobj (h : nat) (nattr : nat) (style_mode : nat) (l : label) : cobj :=
  mkCobj (seq h nattr)
         (if Nat.eqb style_mode 2 then Some (h + nattr + 1) else None)
         (h + nattr)
         (Nat.eqb style_mode 1) l.

Definition cnew (s : cstate) (k : kind) (toks : list nat) (style_mode : nat) (st : nat) (l : label)
  : cstate :=
  let h := length (heap s) in
  mkCstate (fst (step repaired (fs s) (NewObj k)))
           (co s ++ [match k with KJunk => dead_cobj | _ => new_cobj h (length toks) style_mode l end])
           (match k with KJunk => heap s
                       | _ => heap s ++ toks ++ [if Nat.eqb style_mode 1 then st else 0]
                                     ++ (if Nat.eqb style_mode 2 then [st] else []) end).

(* ---------------------------------------------------------------- deepcopy of the subtree *)
(* cells owned by an object, in allocation order *)
Definition cells_of (o : cobj) : list nat :=
  attrs o ++ [skw_cell o] ++ (match style_cell o with Some c => [c] | None => [] end).

(* deepcopy duplicates every reachable mutable cell.  The clone of cell c is cell H + c where H is
   the size of the heap before the copy (the whole heap block is duplicated; duplicates of cells
   that do not belong to the copied subtree are unreachable garbage - the same device as for
   object ids, where the clone of object o is object n + o). *)
Definition clone_cobj (H : nat) (o : cobj) : cobj :=
  mkCobj (shift H (attrs o)) (option_map (Nat.add H) (style_cell o)) (H + skw_cell o)
         (skw_pending o) (lab o).

Definition deepcopy (s : cstate) (x : nat) : cstate :=
  let n := length (fs s) in
  let H := length (heap s) in
  mkCstate (copy_op (fs s) x)
           (co s ++ map (fun o => if in_subtree (fs s) x o then clone_cobj H (cget s o)
                                  else dead_cobj) (seq 0 n))
           (heap s ++ heap s).

(* ---------------------------------------------------------------- obj.style (lazy creation) *)
Definition cupd (s : cstate) (i : nat) (o : cobj) : cstate :=
  mkCstate (fs s) (lupd (co s) i o) (heap s).

(* `if self._style is None: self._style = cls()` ; `if self._style_kwargs: kw = copy;
   self._style_kwargs = {} (a NEW dict); self._style.update(kw)`.  The value shown by the style is
   not changed by this (the pending kwargs stood for it). *)
Definition touch_style (s : cstate) (i : nat) : cstate :=
  let o := cget s i in
  let h := length (heap s) in
  match style_cell o, skw_pending o with
  | Some _, false => s
  | Some c, true =>       (* fresh empty dict; the style object absorbs the kwargs *)
    mkCstate (fs s) (lupd (co s) i (mkCobj (attrs o) (Some c) h false (lab o)))
             (heap s ++ [0])
  | None, false =>        (* fresh default style *)
    mkCstate (fs s) (lupd (co s) i (mkCobj (attrs o) (Some h) (skw_cell o) false (lab o)))
             (heap s ++ [0])
  | None, true =>         (* fresh style with the kwargs applied + fresh empty dict *)
    mkCstate (fs s) (lupd (co s) i (mkCobj (attrs o) (Some h) (S h) false (lab o)))
             (heap s ++ [hget s (skw_cell o); 0])
  end.

Definition set_label (s : cstate) (i : nat) (l : label) : cstate :=
  let o := cget s i in
  cupd s i (mkCobj (attrs o) (style_cell o) (skw_cell o) (skw_pending o) l).

Definition iterate_label (l : label) : label :=
  match l with None => Some (0, 1) | Some (b, n) => Some (b, S n) end.

(* ---------------------------------------------------------------- keyword overrides *)
Inductive kwarg :=
| KwAttr (slot : nat) (tok : nat)        (* setattr(obj_copy, name, value): a NEW buffer *)
| KwStyle (tok : nat)                    (* style_xxx=..: obj_copy.style.update *)
| KwLabel (l : label).                   (* style_label=.. *)

Definition write (s : cstate) (c : nat) (v : nat) : cstate :=
  mkCstate (fs s) (co s) (lupd (heap s) c v).

Definition apply_kw (s : cstate) (y : nat) (k : kwarg) : cstate :=
  match k with
  | KwAttr j v =>
    let o := cget s y in
    let c := length (heap s) in
    mkCstate (fs s)
             (lupd (co s) y (mkCobj (lupd (attrs o) j c) (style_cell o) (skw_cell o)
                                    (skw_pending o) (lab o)))
             (heap s ++ [v])
  | KwStyle v =>
    let s1 := touch_style s y in
    match style_cell (cget s1 y) with Some c => write s1 c v | None => s1 end
  | KwLabel l => set_label (touch_style s y) y l
  end.

(* a setter that rebinds several slots at once (e.g. polarization -> _polarization and
   _magnetization): one KwAttr per slot *)
(* the setattr overrides come first in program order, the style overrides are applied last *)
Definition is_style_kw (k : kwarg) : bool := match k with KwAttr _ _ => false | _ => true end.

(* ---------------------------------------------------------------- BaseGeo.copy *)
Definition copy (s : cstate) (x : nat) (kws : list kwarg) : cstate :=
  let n := length (fs s) in
  let y := n + x in
  let s1 := deepcopy s x in                       (* parent cleared / restored around it *)
  let ox := cget s x in
  let s2 :=
    match style_cell ox, skw_pending ox with
    | None, false => s1
    | _, _ =>
      let s' := touch_style s1 x in               (* self.style.label : may create self._style *)
      let l := iterate_label (lab ox) in
      set_label (touch_style s' y) y l            (* obj_copy.style.label = label *)
    end in
  let s3 := fold_left (fun s k => apply_kw s y k) (filter (fun k => negb (is_style_kw k)) kws) s2 in
  fold_left (fun s k => apply_kw s y k) (filter is_style_kw kws) s3.

(* ---------------------------------------------------------------- observations *)
(* what reading every attribute of object i shows: the value token of each attribute slot, of the
   style (the pending kwargs stand for it while it is lazy), and the label *)
Definition style_view (s : cstate) (i : nat) : nat :=
  let o := cget s i in
  match style_cell o with
  | Some c => hget s c
  | None => if skw_pending o then hget s (skw_cell o) else 0
  end.

Definition view (s : cstate) (i : nat) : list nat * nat * label :=
  (map (hget s) (attrs (cget s i)), style_view s i, lab (cget s i)).

(* every cell an object can reach *)
Definition owned (s : cstate) (i : nat) : list nat := cells_of (cget s i).

(* ---------------------------------------------------------------- scripts (correspondence, search) *)
Inductive cop :=
| CNew (k : kind) (toks : list nat) (style_mode st : nat) (l : label)
| CTree (o : op)                          (* a tree operation that creates no object *)
| CCopy (x : nat) (kws : list kwarg)
| CWrite (i j tok : nat)                  (* in-place write into attribute slot j of object i *)
| CSet (i : nat) (sl : list (nat * nat))  (* setter: slots rebound to NEW buffers *)
| CStyle (i tok : nat)                    (* obj.style.update(..): in place on the style object *)
| CLabel (i : nat) (l : label).

Definition creates (o : op) : bool :=
  match o with NewObj _ | Plus _ _ | Ctor _ _ | Copy _ => true | _ => false end.

Definition cstep (s : cstate) (c : cop) : cstate :=
  match c with
  | CNew k toks m st l => cnew s k toks m st l
  | CTree o => if creates o then s else mkCstate (fst (step repaired (fs s) o)) (co s) (heap s)
  | CCopy x kws => if live (fs s) x then copy s x kws else s
  | CWrite i j tok => match nth_error (attrs (cget s i)) j with
                      | Some c => write s c tok | None => s end
  | CSet i sl => fold_left (fun s p => apply_kw s i (KwAttr (fst p) (snd p))) sl s
  | CStyle i tok => apply_kw s i (KwStyle tok)
  | CLabel i l => apply_kw s i (KwLabel l)
  end.

Definition cinit := mkCstate [] [] [].
Definition crun (s : cstate) (h : list cop) : cstate := fold_left cstep h s.
