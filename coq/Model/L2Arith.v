(* Deep embedding of the Python expressions that make up the data-flow arithmetic of
   getBH_level2 (translated by translate/gen_l2arith.py into Gen/GenL2Arith.v), an evaluator for
   their integer fragment, and the list-level meaning of the numpy index constructs they feed
   (cumsum, slices, split).  Definitions only. *)
From Coq Require Import ZArith List String Bool.
Import ListNotations.
Open Scope string_scope.

Inductive pyexp :=
  | PName (s : string) | PInt (z : Z) | PFloat (repr : string) | PStr (s : string)
  | PNone | PTrue | PFalse | PEllipsis
  | PBin (op : string) (a b : pyexp) | PUn (op : string) (a : pyexp) | PCmp (op : string) (a b : pyexp)
  | PCall (f : pyexp) (args : list pyexp) (kw : list (string * pyexp))
  | PAttr (a : pyexp) (attr : string)
  | PSub (a : pyexp) (idx : pyexp)
  | PSlice (lo hi : option pyexp)
  | PTuple (l : list pyexp) | PList (l : list pyexp) | PDict (l : list (pyexp * pyexp))
  | PStar (a : pyexp)
  | PIfExp (c a b : pyexp)
  | PComp (elt var iter : pyexp) (conds : list pyexp).

Definition entry := (string * string * string * pyexp)%type.    (* function, kind, target, expression *)

(* the n-th entry (0-based) of a function with the given kind and target *)
Fixpoint find_nth (f k t : string) (n : nat) (l : list entry) : option pyexp :=
  match l with
  | [] => None
  | (f', k', t', e) :: r =>
      if (String.eqb f f' && String.eqb k k' && String.eqb t t')%bool
      then match n with O => Some e | S n' => find_nth f k t n' r end
      else find_nth f k t n r
  end.

Definition get (f k t : string) (n : nat) (l : list entry) : pyexp :=
  match find_nth f k t n l with Some e => e | None => PNone end.

(* ---- integer fragment *)
Section Eval.
Variable env : string -> option Z.            (* integer variables, also "B.ndim"-style attributes *)
Variable lenv : string -> option (list Z).    (* integer sequences *)

Definition zbin (op : string) (a b : Z) : option Z :=
  if String.eqb op "+" then Some (a + b)%Z
  else if String.eqb op "-" then Some (a - b)%Z
  else if String.eqb op "*" then Some (a * b)%Z
  else if String.eqb op "//" then Some (a / b)%Z
  else None.

Definition py_index (l : list Z) (i : Z) : option Z :=
  let j := if (i <? 0)%Z then (Z.of_nat (List.length l) + i)%Z else i in
  if (j <? 0)%Z then None else nth_error l (Z.to_nat j).

Fixpoint evalZ (e : pyexp) : option Z :=
  match e with
  | PInt z => Some z
  | PName s => env s
  | PAttr (PName s) a => env (s ++ "." ++ a)
  | PBin op a b =>
      match evalZ a, evalZ b with Some x, Some y => zbin op x y | _, _ => None end
  | PCall (PName "int") [PBin "/" a b] [] =>            (* int(a / b), operands non-negative *)
      match evalZ a, evalZ b with Some x, Some y => Some (x / y)%Z | _, _ => None end
  | PCall (PName "len") [PName s] [] =>
      match lenv s with Some l => Some (Z.of_nat (List.length l)) | None => None end
  | PSub (PName s) i =>
      match lenv s, evalZ i with Some l, Some j => py_index l j | _, _ => None end
  | _ => None
  end.
End Eval.

(* bounds of a[lo:hi] / np.s_[lo:hi] / slice(lo, hi) *)
Definition slice_of (e : pyexp) : option (option pyexp * option pyexp) :=
  match e with
  | PSlice lo hi => Some (lo, hi)
  | PSub (PAttr (PName "np") "s_") (PSlice lo hi) => Some (lo, hi)
  | PCall (PName "slice") [lo; hi] [] => Some (Some lo, Some hi)
  | _ => None
  end.

(* ---- numpy index constructs on lists *)
(* np.cumsum([0] + nums) *)
Fixpoint cumsum_from (a : nat) (nums : list nat) : list nat :=
  a :: match nums with [] => [] | n :: r => cumsum_from (a + n) r end.

(* l[lo:hi] with python's negative indices *)
Definition py_slice {A} (lo hi : Z) (l : list A) : list A :=
  let n := Z.of_nat (List.length l) in
  let norm i := Z.to_nat (Z.max 0 (Z.min n (if (i <? 0)%Z then n + i else i)))%Z in
  firstn (norm hi - norm lo) (skipn (norm lo) l).

(* np.split(l, indices) on axis 0 *)
Fixpoint np_split_from {A} (a : nat) (idx : list nat) (l : list A) : list (list A) :=
  match idx with
  | [] => [l]
  | i :: r => firstn (i - a) l :: np_split_from i r (skipn (i - a) l)
  end.
Definition np_split {A} (idx : list nat) (l : list A) : list (list A) := np_split_from 0 idx l.

(* tuple(range(lo, hi)) as axes of an array of rank nd, normalised to non-negative axis numbers *)
Definition norm_axes (nd lo hi : Z) : list nat :=
  map (fun i => Z.to_nat (if (Z.of_nat i + lo <? 0)%Z then nd + (Z.of_nat i + lo) else Z.of_nat i + lo)%Z)
      (seq 0 (Z.to_nat (hi - lo))).
