(* Executable instance of Level2Model on Z^3 x signed permutations with integer-polynomial
   stub field functions, and the comparison used by the correspondence check. *)
From Coq Require Import ZArith List Bool.
From MV Require Import Lib.ListZ Lib.Rigid Lib.OctZ Lib.ListIdx Model.PathExec Model.Level2Model.
Import ListNotations.
Open Scope Z_scope.

Definition zsum (l : list Z) : Z := fold_left Z.add l 0.

(* the stub of key k: (x + 2 y t + k,  y z + t + n,  z x - 3 k + t x),  t = sum(tag), n = len(tag) *)
Definition stubF (k : nat) (tag : list Z) (v : V3) : V3 :=
  let '(x, y, z) := v in
  let t := zsum tag in let n := Z.of_nat (length tag) in let kz := Z.of_nat k in
  (x + 2 * y * t + kz, y * z + t + n, z * x - 3 * kz + t * x).

Definition xflip (v : V3) : V3 := let '(x, y, z) := v in (- x, y, z).

Definition xleaf := @leaf OctOps (list Z).
Definition xsrc := @srcin OctOps (list Z).
Definition xsens := @sensor OctOps.

Definition vmin (a b : V3) : V3 :=
  let '(a0, a1, a2) := a in let '(b0, b1, b2) := b in (Z.min a0 b0, Z.min a1 b1, Z.min a2 b2).
Definition vmax (a b : V3) : V3 :=
  let '(a0, a1, a2) := a in let '(b0, b1, b2) := b in (Z.max a0 b0, Z.max a1 b1, Z.max a2 b2).
Definition fold1 (f : V3 -> V3 -> V3) (l : list V3) : V3 :=
  match l with [] => (0, 0, 0) | v :: r => fold_left f r v end.

(* pixel_agg: 0 none, 1 sum, 2 min, 3 max *)
Definition agg_of (a : nat) : option (list V3 -> V3) :=
  match a with
  | 1%nat => Some (fold1 v3add) | 2%nat => Some (fold1 vmin) | 3%nat => Some (fold1 vmax)
  | _ => None end.

Definition xgetBH (srcs : list xsrc) (sens : list xsens) (a : nat) (sumup : bool) :=
  getBH (O := OctOps) (list Z) stubF oct_eqb xflip srcs sens (agg_of a) sumup.
Definition xspec (srcs : list xsrc) (sens : list xsens) (a : nat) :=
  spec (O := OctOps) (list Z) stubF xflip srcs sens (agg_of a).

Definition out_eqb (a b : list (list (list (list V3)))) : bool :=
  list_eqb (list_eqb (list_eqb (list_eqb v3eqb))) a b.

Record l2case := mkL2 { q_srcs : list xsrc; q_sens : list xsens; q_agg : nat; q_sumup : bool;
                        q_exp : list (list (list (list V3))) }.

(* model = implementation, and (for sumup = false) declarative spec = implementation *)
Definition check_l2 (c : l2case) : bool :=
  out_eqb (xgetBH (q_srcs c) (q_sens c) (q_agg c) (q_sumup c)) (q_exp c) &&
  (q_sumup c || out_eqb (xspec (q_srcs c) (q_sens c) (q_agg c)) (q_exp c)).

Fixpoint failing_l2_from (i : Z) (cs : list l2case) : list Z :=
  match cs with
  | [] => []
  | c :: r => if check_l2 c then failing_l2_from (i + 1) r else i :: failing_l2_from (i + 1) r
  end.
Definition failing_l2 (cs : list l2case) : list Z := failing_l2_from 0 cs.
