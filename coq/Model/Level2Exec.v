(* Executable instance of Level2Model on Z^3 x signed permutations with integer-polynomial
   stub field functions, and the comparison used by the correspondence check. *)
From Coq Require Import ZArith List Bool.
From MV Require Import Lib.ListZ Lib.Rigid Lib.OctZ Lib.ListIdx Model.PathExec Model.Level2Model.
Import ListNotations.
Open Scope Z_scope.

Definition zsum (l : list Z) : Z := fold_left Z.add l 0.

(* the stub of key k: (x + 2 y t + k,  y z + t + n,  z x - 3 k + t x),  t = sum(tag), n = len(tag) *)
Definition stubF (k : nat) (tag : list Z) (v : V3) : V3 :=
  let '(x, y, z) := v in
  let t := zsum tag in let n := Z.of_nat (length tag) in let kz := Z.of_nat k in
  (x + 2 * y * t + kz, y * z + t + n, z * x - 3 * kz + t * x).

Definition xflip (v : V3) : V3 := let '(x, y, z) := v in (- x, y, z).

Definition xleaf := @leaf OctOps (list Z).
Definition xsrc := @srcin OctOps (list Z).
Definition xsens := @sensor OctOps.

Definition vmin (a b : V3) : V3 :=
  let '(a0, a1, a2) := a in let '(b0, b1, b2) := b in (Z.min a0 b0, Z.min a1 b1, Z.min a2 b2).
Definition vmax (a b : V3) : V3 :=
  let '(a0, a1, a2) := a in let '(b0, b1, b2) := b in (Z.max a0 b0, Z.max a1 b1, Z.max a2 b2).
Definition fold1 (f : V3 -> V3 -> V3) (l : list V3) : V3 :=
  match l with [] => (0, 0, 0) | v :: r => fold_left f r v end.

(* pixel_agg: 0 none, 1 sum, 2 min, 3 max *)
Definition agg_of (a : nat) : option (list V3 -> V3) :=
  match a with
  | 1%nat => Some (fold1 v3add) | 2%nat => Some (fold1 vmin) | 3%nat => Some (fold1 vmax)
  | _ => None end.

Definition xgetBH (srcs : list xsrc) (sens : list xsens) (a : nat) (sumup : bool) :=
  getBH (O := OctOps) (list Z) stubF oct_eqb xflip srcs sens (agg_of a) sumup.
Definition xspec (srcs : list xsrc) (sens : list xsens) (a : nat) :=
  spec (O := OctOps) (list Z) stubF xflip srcs sens (agg_of a).

Definition out_eqb (a b : list (list (list (list V3)))) : bool :=
  list_eqb (list_eqb (list_eqb (list_eqb v3eqb))) a b.

Record l2case := mkL2 { q_srcs : list xsrc; q_sens : list xsens; q_agg : nat; q_sumup : bool;
                        q_exp : list (list (list (list V3))) }.

(* model = implementation, and (for sumup = false) declarative spec = implementation *)
Definition check_l2 (c : l2case) : bool :=
  out_eqb (xgetBH (q_srcs c) (q_sens c) (q_agg c) (q_sumup c)) (q_exp c) &&
  (q_sumup c || out_eqb (xspec (q_srcs c) (q_sens c) (q_agg c)) (q_exp c)).

Fixpoint failing_l2_from (i : Z) (cs : list l2case) : list Z :=
  match cs with
  | [] => []
  | c :: r => if check_l2 c then failing_l2_from (i + 1) r else i :: failing_l2_from (i + 1) r
  end.
Definition failing_l2 (cs : list l2case) : list Z := failing_l2_from 0 cs.

(* ---- shape of the returned ndarray (the last lines of _getBH_level2): B.shape before the final
   step is (L', M, K) ++ pixel shape, where L' = 1 with sumup and the pixel shape is (3,) after
   pixel aggregation; squeeze=True applies np.squeeze, squeeze=False re-inserts the aggregated
   pixel axis (np.expand_dims(B, axis=-2)) *)
Definition pre_shape (L M : nat) (shapes : list (list nat)) (has_agg sumup : bool) : list nat :=
  [if sumup then 1%nat else L; M; length shapes] ++ (if has_agg then [3%nat] else hd [] shapes).
Definition np_squeeze (sh : list nat) : list nat := filter (fun n => negb (Nat.eqb n 1)) sh.
Definition np_expand_m2 (sh : list nat) : list nat :=
  firstn (length sh - 1) sh ++ [1%nat] ++ skipn (length sh - 1) sh.
Definition result_shape (L M : nat) (shapes : list (list nat)) (has_agg sumup squeeze : bool) : list nat :=
  let sh := pre_shape L M shapes has_agg sumup in
  if squeeze then np_squeeze sh else if has_agg then np_expand_m2 sh else sh.

Definition xpath_len (srcs : list xsrc) (sens : list xsens) : nat :=
  max_path_len (O := OctOps) (list Z) (src_list srcs) sens.
Definition xresult_shape (srcs : list xsrc) (sens : list xsens) (a : nat) (sumup squeeze : bool) :=
  result_shape (length srcs) (xpath_len srcs sens) (map (@s_shape OctOps) sens)
               (match agg_of a with None => false | Some _ => true end) sumup squeeze.

Record l2shape := mkL2S { h_srcs : list xsrc; h_sens : list xsens; h_agg : nat; h_sumup : bool;
                          h_shape_nosq : list nat; h_shape_sq : list nat }.
Definition check_l2shape (c : l2shape) : bool :=
  list_eqb Nat.eqb (xresult_shape (h_srcs c) (h_sens c) (h_agg c) (h_sumup c) false) (h_shape_nosq c) &&
  list_eqb Nat.eqb (xresult_shape (h_srcs c) (h_sens c) (h_agg c) (h_sumup c) true) (h_shape_sq c).
Fixpoint failing_l2shape_from (i : Z) (cs : list l2shape) : list Z :=
  match cs with
  | [] => []
  | c :: r => if check_l2shape c then failing_l2shape_from (i + 1) r else i :: failing_l2shape_from (i + 1) r
  end.
Definition failing_l2shape (cs : list l2shape) : list Z := failing_l2shape_from 0 cs.
