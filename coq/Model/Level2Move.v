(* C03 -- a common rigid motion (g, t) of the global frame applied to the inputs of getBH_level2:
   sources (every path entry: position -> g.p + t, orientation -> g*R), sensors (same, pixels are
   sensor-local and stay), position observers (each point -> g.o + t).
   This is what `obj.rotate(g, anchor=0); obj.move(t)` does to an object's path (tied by the
   C03 correspondence, which moves the real objects through that API).  Definitions only. *)
From Coq Require Import List Arith Bool.
From MV Require Import Lib.Rigid Lib.ListIdx Model.Level2Model.
Import ListNotations.

Section Move.
Context {O : RigidOps}.
Variable P : Type.
Notation leaf := (@leaf O P).
Notation srcin := (@srcin O P).

Definition move_pt (g : G) (t : V) (p : V) : V := vadd (act g p) t.

Definition move_leaf (g : G) (t : V) (x : leaf) : leaf :=
  mkLeaf (map (move_pt g t) (l_pos x)) (map (gmul g) (l_ori x)) (l_key x) (l_prop x).

Definition move_src (g : G) (t : V) (s : srcin) : srcin :=
  match s with
  | Bare x => Bare (move_leaf g t x)
  | Coll ls => Coll (map (move_leaf g t) ls)
  end.

Definition move_sensor (g : G) (t : V) (s : sensor) : sensor :=
  mkSens (map (move_pt g t) (s_pos s)) (map (gmul g) (s_ori s)) (s_pix s) (s_shape s) (s_left s).

(* check_format_input_observers: an array of positions becomes Sensor(pixel=array) with the
   default pose (position 0, unit orientation, right-handed) *)
Definition obs_sensor (obs : list V) (shape : list nat) : sensor :=
  mkSens [vzero] [gone] obs shape false.

(* rotate every vector of an output array *)
Definition out_act (g : G) (o : out_t) : out_t := map (map (map (map (act g)))) o.

End Move.
