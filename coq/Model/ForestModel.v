(* ForestModel -- executable model of magpylib's collection tree (C11, C18).

   DEFINITIONS ONLY.  A store of objects indexed by creation index; every operation mirrors
   the ORDER OF EFFECTS AND EXITS of the Python code, so that a raise part-way leaves exactly
   the partial state the code leaves:

     BaseCollection.add / remove / children,sources,sensors,collections setters /
     _update_src_and_sens / __init__        magpylib/_src/obj_classes/class_Collection.py
     BaseGeo.parent setter / __add__ / copy magpylib/_src/obj_classes/class_BaseGeo.py
     check_format_input_obj                 magpylib/_src/input_checks.py
     format_obj_input / filter_objects / rec_obj_remover   magpylib/_src/utility.py

   Three switches select which code is modelled (the harness probes the implementation and
   uses the matching one; theorems are stated for both):
     v_atomic  = false : BaseCollection.add as in magpylib 5.1.1 (parent assigned object by
                         object BEFORE the children list is extended; a rejection at the i-th
                         argument leaves arguments 0..i-1 with a parent that does not list them)
               = true  : repaired add (validate the whole argument list, then mutate)
     v_refresh = false : the four list setters as in 5.1.1 (typed lists not refreshed between
                         detaching the old children and the tail call to add)
               = true  : repaired setters (_update_src_and_sens before the tail call)
     v_fresh   = false : BaseCollection.remove as in 5.1.1 (`self_objects` computed once before
                         the loop: remove(coll, x) with x below coll clears x's parent although
                         coll, now detached, still lists x)
               = true  : repaired remove (membership looked up when the child's turn comes)

   Domain restrictions (stated in C11.meta.json): multi-object arguments are flat lists of
   objects; Junk stands for a non-iterable foreign value (an int); attribute assignment on
   non-collections is not issued by the harness (the model answers ErrOther, state unchanged). *)
From Coq Require Import List Bool Arith PeanoNat.
Import ListNotations.

Inductive kind := KSource | KSensor | KColl | KJunk.

Definition kind_eqb (a b : kind) : bool :=
  match a, b with
  | KSource, KSource | KSensor, KSensor | KColl, KColl | KJunk, KJunk => true
  | _, _ => false
  end.

Record obj := mkObj {
  kind_of : kind;
  parent : option nat;          (* _parent *)
  children : list nat;          (* _children *)
  sources : list nat;           (* _sources      (cached) *)
  sensors : list nat;           (* _sensors      (cached) *)
  collections : list nat }.     (* _collections  (cached) *)

Definition state := list obj.   (* object id = index = creation order *)

Definition junk_obj := mkObj KJunk None [] [] [] [].
Definition new_obj (k : kind) := mkObj k None [] [] [] [].

Definition get (s : state) (i : nat) : obj := nth i s junk_obj.
Definition kd (s : state) (i : nat) : kind := kind_of (get s i).
Definition is_k (k : kind) (s : state) (i : nat) : bool := kind_eqb (kd s i) k.
Definition is_coll := is_k KColl.
Definition is_junk := is_k KJunk.

Fixpoint upd (s : state) (i : nat) (f : obj -> obj) : state :=
  match s, i with
  | [], _ => []
  | o :: r, 0 => f o :: r
  | o :: r, S j => o :: upd r j f
  end.

Definition with_parent (p : option nat) (o : obj) :=
  mkObj (kind_of o) p (children o) (sources o) (sensors o) (collections o).
Definition with_children (l : list nat) (o : obj) :=
  mkObj (kind_of o) (parent o) l (sources o) (sensors o) (collections o).
Definition set_parent (s : state) (x : nat) (p : option nat) := upd s x (with_parent p).
Definition set_children (s : state) (c : nat) (l : list nat) := upd s c (with_children l).

(* _update_src_and_sens *)
Definition refresh (s : state) (c : nat) : state :=
  upd s c (fun o => mkObj (kind_of o) (parent o) (children o)
                      (filter (is_k KSource s) (children o))
                      (filter (is_k KSensor s) (children o))
                      (filter (is_k KColl s) (children o))).

Definition mem (x : nat) (l : list nat) : bool := existsb (Nat.eqb x) l.

Fixpoint remove_first (x : nat) (l : list nat) : list nat :=   (* list.remove *)
  match l with
  | [] => []
  | y :: r => if Nat.eqb y x then r else y :: remove_first x r
  end.

(* check_format_input_obj(inp, allow, recursive=True): pre-order flattening.
   Python's recursion is unbounded; the children graph of every reachable state is acyclic
   (proved: Inv), so fuel = number of objects is never exhausted. *)
Fixpoint flat (fuel : nat) (s : state) (want : nat -> bool) (l : list nat) : list nat :=
  match fuel with
  | 0 => filter want l
  | S f => flat_map (fun o => (if want o then [o] else []) ++
                              (if is_coll s o then flat f s want (children (get s o)) else [])) l
  end.

Definition w_all (s : state) (o : nat) := negb (is_junk s o).
Definition fuel_of (s : state) := length s.
Definition children_all s c := flat (fuel_of s) s (w_all s) (children (get s c)).
Definition sources_all s c := flat (fuel_of s) s (is_k KSource s) (children (get s c)).
Definition sensors_all s c := flat (fuel_of s) s (is_k KSensor s) (children (get s c)).
Definition collections_all s c := flat (fuel_of s) s (is_coll s) (children (get s c)).

Inductive outcome := Ok | ErrBad | ErrOther.     (* MagpylibBadUserInput | any other exception *)
Inductive errmode := ERaise | EIgnore | EBadValue.

Record variant := mkVariant { v_atomic : bool; v_refresh : bool; v_fresh : bool }.

(* ---------------------------------------------------------------- rec_obj_remover
   for obj in parent:
       if obj == child: parent._children.remove(child); parent._update_src_and_sens(); return True
       if isinstance(obj, Collection):
           if rec_obj_remover(obj, child): break
   return None            <- also after the break: a hit two levels down is NOT propagated *)
Definition rm_at (s : state) (p x : nat) : state :=
  refresh (set_children s p (remove_first x (children (get s p)))) p.

(* the loop over the children of p; `rec` is the recursive call *)
Fixpoint rm_scan (rec : state -> nat -> state * bool) (p x : nat) (l : list nat) (s : state)
  {struct l} : state * bool :=
  match l with
  | [] => (s, false)
  | o :: rest =>
    if Nat.eqb o x then (rm_at s p x, true)
    else if is_coll s o then
      let '(s1, r) := rec s o in
      if r then (s1, false) else rm_scan rec p x rest s1
    else rm_scan rec p x rest s
  end.

Fixpoint rec_rm (fuel : nat) (s : state) (p x : nat) {struct fuel} : state * bool :=
  match fuel with
  | 0 => (s, false)
  | S f => rm_scan (fun s o => rec_rm f s o x) p x (children (get s p)) s
  end.

(* ---------------------------------------------------------------- BaseCollection.remove
   5.1.1 computes `self_objects` ONCE before the loop; the repaired variant (v_fresh) looks the
   child up in the tree as it is when its turn comes. *)
Definition self_objs (s : state) (c : nat) (recursive : bool) : list nat :=
  if recursive then children_all s c else filter (w_all s) (children (get s c)).

Fixpoint remove_loop (fresh : bool) (s : state) (c : nat) (recursive : bool)
         (self_objects objs : list nat) (e : errmode) : state * outcome :=
  match objs with
  | [] => (s, Ok)
  | o :: rest =>
    if mem o (if fresh then self_objs s c recursive else self_objects) then
      let s1 := fst (rec_rm (S (fuel_of s)) s c o) in
      remove_loop fresh (set_parent s1 o None) c recursive self_objects rest e
    else match e with
         | ERaise => (s, ErrBad)
         | EIgnore => remove_loop fresh s c recursive self_objects rest e
         | EBadValue => (s, ErrBad)
         end
  end.

Definition remove (v : variant) (s : state) (c : nat) (objs : list nat) (recursive : bool)
           (e : errmode) : state * outcome :=
  if existsb (is_junk s) objs then (s, ErrBad)            (* typechecks=True *)
  else remove_loop (v_fresh v) s c recursive (self_objs s c recursive) objs e.

(* ---------------------------------------------------------------- BaseCollection.add *)
Definition self_ref (s : state) (c o : nat) : bool :=
  is_coll s o && (Nat.eqb o c || mem c (collections_all s o)).

(* magpylib 5.1.1: the loop that assigns parents, with its three exits *)
Fixpoint add_loop (v : variant) (s : state) (c : nat) (ov : bool) (objs : list nat)
  : state * outcome :=
  match objs with
  | [] => (s, Ok)
  | o :: rest =>
    if self_ref s c o then (s, ErrBad)
    else match parent (get s o) with
         | None => add_loop v (set_parent s o (Some c)) c ov rest
         | Some p =>
           if ov then
             let '(s1, r) := remove v s p [o] true ERaise in       (* obj._parent.remove(obj) *)
             match r with
             | Ok => add_loop v (set_parent s1 o (Some c)) c ov rest
             | _ => (s1, r)
             end
           else (s, ErrBad)
         end
  end.

(* repaired add: validation pass over the whole list (no mutation) ... *)
Fixpoint add_valid (s : state) (c : nat) (ov : bool) (seen objs : list nat) : bool :=
  match objs with
  | [] => true
  | o :: rest =>
    negb (self_ref s c o)
    && (match parent (get s o) with None => true | Some _ => ov end)
    && negb (mem o seen)
    && add_valid s c ov (o :: seen) rest
  end.

(* ... then the mutation loop *)
Fixpoint add_mutate (v : variant) (s : state) (c : nat) (objs : list nat) : state * outcome :=
  match objs with
  | [] => (s, Ok)
  | o :: rest =>
    match parent (get s o) with
    | None => add_mutate v (set_parent s o (Some c)) c rest
    | Some p =>
      let '(s1, r) := remove v s p [o] true ERaise in
      match r with
      | Ok => add_mutate v (set_parent s1 o (Some c)) c rest
      | _ => (s1, r)
      end
    end
  end.

Definition add (v : variant) (s : state) (c : nat) (objs : list nat) (ov : bool)
  : state * outcome :=
  if existsb (is_junk s) objs then (s, ErrBad)            (* typechecks=True, before any effect *)
  else
    let '(s1, r) :=
      if v_atomic v then
        if add_valid s c ov [] objs then add_mutate v s c objs else (s, ErrBad)
      else add_loop v s c ov objs in
    match r with
    | Ok => (refresh (set_children s1 c (children (get s1 c) ++ objs)) c, Ok)
    | _ => (s1, r)
    end.

(* ---------------------------------------------------------------- the four list setters *)
Definition detach_all (s : state) (l : list nat) : state :=
  fold_left (fun s ch => set_parent s ch None) l s.

Definition maybe_refresh (v : variant) (s : state) (c : nat) :=
  if v_refresh v then refresh s c else s.

Definition set_children_op (v : variant) (s : state) (c : nat) (objs : list nat) :=
  let s1 := detach_all s (children (get s c)) in
  let s2 := maybe_refresh v (set_children s1 c []) c in
  add v s2 c objs true.

(* for child in self._children: if child in self._<typed>: child._parent = None else keep *)
Definition drop_typed (s : state) (c : nat) (typed : list nat) : state :=
  let ch := children (get s c) in
  let s1 := detach_all s (filter (fun x => mem x typed) ch) in
  set_children s1 c (filter (fun x => negb (mem x typed)) ch).

(* format_obj_input(value, allow="sources" | "sensors") on a flat list: sources and sensors
   are taken as they are, collections are flattened, anything else is not iterable -> BadInput;
   filter_objects keeps the allowed type *)
Definition format_typed (s : state) (k : kind) (objs : list nat) : option (list nat) :=
  if existsb (is_junk s) objs then None
  else Some (flat_map (fun o => if is_coll s o
                                then flat (fuel_of s) s (is_k k s) (children (get s o))
                                else if is_k k s o then [o] else []) objs).

Definition set_typed_op (v : variant) (s : state) (c : nat) (k : kind) (objs : list nat)
  : state * outcome :=
  let typed := match k with KSource => sources (get s c) | KSensor => sensors (get s c)
                          | _ => collections (get s c) end in
  let s1 := maybe_refresh v (drop_typed s c typed) c in
  match k with
  | KColl => (* allow="collections": nothing is flattened, everything else silently filtered *)
    add v s1 c (filter (is_coll s1) objs) true
  | _ => match format_typed s1 k objs with
         | None => (s1, ErrBad)
         | Some l => add v s1 c l true
         end
  end.

(* ---------------------------------------------------------------- BaseGeo.parent setter *)
Definition set_parent_op (v : variant) (s : state) (x : nat) (p : option nat) : state * outcome :=
  match p with
  | Some c => if is_coll s c then add v s c [x] true else (s, ErrBad)
  | None =>
    match parent (get s x) with
    | Some q =>
      let '(s1, r) := remove v s q [x] true ERaise in
      match r with Ok => (set_parent s1 x None, Ok) | _ => (s1, r) end
    | None => (s, Ok)
    end
  end.

(* ---------------------------------------------------------------- the constructor Collection(objs...) and a + b *)
Definition ctor (v : variant) (s : state) (objs : list nat) (ov : bool) : state * outcome :=
  add v (s ++ [new_obj KColl]) (length s) objs ov.

(* ---------------------------------------------------------------- copy (structure only)
   deepcopy with the parent link cleared clones exactly the subtree below x when the state is
   a consistent forest.  The clone of object o gets id  length s + o ; ids of that block that
   do not belong to the subtree are dead placeholders (Junk), so the renaming is a shift. *)
Definition shift (n : nat) (l : list nat) := map (Nat.add n) l.
Definition in_subtree (s : state) (x o : nat) : bool := Nat.eqb o x || mem o (children_all s x).
Definition clone_obj (s : state) (x o : nat) : obj :=
  if in_subtree s x o then
    let n := length s in let ob := get s o in
    mkObj (kind_of ob)
          (if Nat.eqb o x then None else option_map (Nat.add n) (parent ob))
          (shift n (children ob)) (shift n (sources ob)) (shift n (sensors ob))
          (shift n (collections ob))
  else junk_obj.
Definition copy_op (s : state) (x : nat) : state :=
  s ++ map (clone_obj s x) (seq 0 (length s)).

(* ---------------------------------------------------------------- histories *)
Inductive op :=
| NewObj (k : kind)                                     (* a fresh parentless object / foreign value *)
| Add (c : nat) (objs : list nat) (ov : bool)
| Remove (c : nat) (objs : list nat) (recursive : bool) (e : errmode)
| SetParent (x : nat) (p : option nat)
| SetChildren (c : nat) (objs : list nat)
| SetTyped (k : kind) (c : nat) (objs : list nat)       (* k = KSource | KSensor | KColl *)
| Plus (a b : nat)
| Ctor (objs : list nat) (ov : bool)
| Copy (x : nat).

Definition live (s : state) (x : nat) : bool := Nat.ltb x (length s) && negb (is_junk s x).

Definition step (v : variant) (s : state) (o : op) : state * outcome :=
  match o with
  | NewObj KColl => ctor v s [] false
  | NewObj k => (s ++ [new_obj k], Ok)
  | Add c objs ov => if is_coll s c then add v s c objs ov else (s, ErrOther)
  | Remove c objs r e => if is_coll s c then remove v s c objs r e else (s, ErrOther)
  | SetParent x p => if live s x then set_parent_op v s x p else (s, ErrOther)
  | SetChildren c objs => if is_coll s c then set_children_op v s c objs else (s, ErrOther)
  | SetTyped KJunk _ _ => (s, ErrOther)
  | SetTyped k c objs => if is_coll s c then set_typed_op v s c k objs else (s, ErrOther)
  | Plus a b => if live s a then ctor v s [a; b] false else (s, ErrOther)
  | Ctor objs ov => ctor v s objs ov
  | Copy x => if live s x then (copy_op s x, Ok) else (s, ErrOther)
  end.

Definition run (v : variant) (s : state) (h : list op) : state :=
  fold_left (fun s o => fst (step v s o)) h s.

Definition current := mkVariant false false false.     (* magpylib 5.1.1 *)
Definition repaired := mkVariant true true true.
